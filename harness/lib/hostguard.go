package lib

// Defence in depth against a DEFECTIVE server (or a defective harness): the code under test runs with the
// rights of the harness, and a variant of it that resolves a path wrongly — ignores its working directory, acts
// on the parent of the path it was given, lets writes through a ReadOnly gate — can reach the host although
// every request was contained.  HostWatch records, before a check starts, what must not change — the mode,
// owner, inode and modification time of "/", of the temporary directory and of every directory between them,
// of /dev/shm, of the directory the harness was started from, of the home directory and of /root, /verif, /repo
// when they exist; the names in "/"; and a canary directory (<tmp>/vh-canary-<pid>/ with one file) — and Verify
// compares: every difference is returned (main reports it as oracle failure `host/outside-scratch-modified`), and
// what can be put back (mode, owner, times) is put back at once.

import (
	"fmt"
	"os"
	"path/filepath"
	"sort"
	"strings"
	"sync"
	"syscall"
	"time"
)

type hostEnt struct {
	path     string
	mode     os.FileMode
	uid, gid uint32
	ino, dev uint64
	mtime    time.Time
	atime    time.Time
	names    []string // entries (for "/" and the canary directory)
	content  string   // canary file
	volatile bool     // entries come and go legitimately (the temporary directories): mode, owner, inode only
	listed   bool
}

// HostWatch is the recorded state.
type HostWatch struct {
	mu       sync.Mutex
	start    time.Time
	ents     []*hostEnt
	canary   string
	reported map[string]bool
	notes    []string
}

// Notes returns (once) what Verify noted without counting it as a change.
func (w *HostWatch) Notes() []string {
	w.mu.Lock()
	defer w.mu.Unlock()
	n := w.notes
	w.notes = nil
	return n
}

func statEnt(p string) (*hostEnt, error) {
	fi, err := os.Lstat(p)
	if err != nil {
		return nil, err
	}
	e := &hostEnt{path: p, mode: fi.Mode(), mtime: fi.ModTime()}
	if st, ok := fi.Sys().(*syscall.Stat_t); ok {
		e.uid, e.gid, e.ino, e.dev = st.Uid, st.Gid, st.Ino, uint64(st.Dev)
		e.atime = time.Unix(st.Atim.Sec, st.Atim.Nsec)
	}
	return e, nil
}

func listNames(p string) []string {
	des, err := os.ReadDir(p)
	if err != nil {
		return nil
	}
	var out []string
	for _, d := range des {
		out = append(out, d.Name())
	}
	sort.Strings(out)
	return out
}

const canaryText = "vh canary: nothing of a check may touch this file\n"

var canaryTime = time.Unix(1000000000, 0) // 2001-09-09

// NewHostWatch records the state.  startDir is the directory the harness was started from.
func NewHostWatch(startDir string) *HostWatch {
	w := &HostWatch{start: time.Now(), reported: map[string]bool{}}
	seen := map[string]bool{}
	add := func(p string, volatile, listed bool) {
		if p == "" || seen[p] {
			return
		}
		seen[p] = true
		e, err := statEnt(p)
		if err != nil {
			return
		}
		e.volatile, e.listed = volatile, listed
		if listed {
			e.names = listNames(p)
		}
		w.ents = append(w.ents, e)
	}
	chain := func(p string, volatileLeaf bool) {
		p = filepath.Clean(p)
		if !filepath.IsAbs(p) {
			return
		}
		for q := p; ; q = filepath.Dir(q) {
			add(q, volatileLeaf && q == p, q == "/")
			if q == "/" {
				break
			}
		}
	}
	tmp := os.TempDir()
	chain(tmp, true)
	if r, err := filepath.EvalSymlinks(tmp); err == nil && r != tmp {
		chain(r, true)
	}
	chain("/dev/shm", true)
	chain(startDir, false)
	if h, err := os.UserHomeDir(); err == nil {
		chain(h, false)
	}
	for _, p := range []string{"/root", "/verif", "/repo", "/home", "/etc", "/usr", "/var", "/bin", "/lib"} {
		add(p, false, false)
	}
	// the canary
	w.canary = filepath.Join(tmp, fmt.Sprintf("vh-canary-%d", os.Getpid()))
	os.RemoveAll(w.canary)
	if os.Mkdir(w.canary, 0o755) == nil {
		f := filepath.Join(w.canary, "canary")
		os.WriteFile(f, []byte(canaryText), 0o644)
		os.Chtimes(f, canaryTime, canaryTime)
		os.Chtimes(w.canary, canaryTime, canaryTime)
		if e, err := statEnt(f); err == nil {
			e.content = canaryText
			w.ents = append(w.ents, e)
		}
		if e, err := statEnt(w.canary); err == nil {
			e.listed, e.names = true, []string{"canary"}
			w.ents = append(w.ents, e)
		}
	}
	return w
}

// Verify compares the host with the recorded state, puts back what it can and returns what had changed (each
// difference once per watch).  ours are the outer scratch directories (entries of "/" whose names they are
// cannot be — the check is about what is NOT ours).
func (w *HostWatch) Verify() (changes []string) {
	if w == nil {
		return nil
	}
	w.mu.Lock()
	defer w.mu.Unlock()
	say := func(format string, a ...any) {
		s := fmt.Sprintf(format, a...)
		if !w.reported[s] {
			w.reported[s] = true
			changes = append(changes, s)
		}
	}
	for _, e := range w.ents {
		cur, err := statEnt(e.path)
		if err != nil {
			say("%s is gone (%v)", e.path, err)
			w.recreateCanary(e, say)
			continue
		}
		if cur.ino != e.ino || cur.dev != e.dev {
			say("%s is another file now (inode %d:%d, was %d:%d)", e.path, cur.dev, cur.ino, e.dev, e.ino)
			e.ino, e.dev = cur.ino, cur.dev // report once
		}
		if cur.mode != e.mode {
			what := "restored"
			if err := os.Chmod(e.path, chmodBits(e.mode)); err != nil {
				what = "NOT restored: " + err.Error()
			}
			say("mode of %s changed from %v to %v (%s)", e.path, e.mode, cur.mode, what)
		}
		if cur.uid != e.uid || cur.gid != e.gid {
			what := "restored"
			if err := os.Lchown(e.path, int(e.uid), int(e.gid)); err != nil {
				what = "NOT restored: " + err.Error()
			}
			say("owner of %s changed from %d:%d to %d:%d (%s)", e.path, e.uid, e.gid, cur.uid, cur.gid, what)
		}
		if e.content != "" {
			if b, err := os.ReadFile(e.path); err != nil || string(b) != e.content {
				say("content of %s changed (%d bytes, error %v; rewritten)", e.path, len(b), err)
				os.WriteFile(e.path, []byte(e.content), 0o644)
				os.Chtimes(e.path, e.atime, e.mtime)
			}
		}
		namesChanged := false
		if e.listed {
			names := listNames(e.path)
			var added, removed []string
			have := map[string]bool{}
			for _, n := range e.names {
				have[n] = true
			}
			for _, n := range names {
				if !have[n] {
					added = append(added, n)
				}
				delete(have, n)
			}
			for n := range have {
				removed = append(removed, n)
			}
			sort.Strings(removed)
			for _, n := range added {
				namesChanged = true
				say("%s appeared during the run (%s)", filepath.Join(e.path, n), w.removeNew(filepath.Join(e.path, n)))
			}
			for _, n := range removed {
				namesChanged = true
				say("%s disappeared during the run (cannot be restored)", filepath.Join(e.path, n))
			}
			if len(removed) > 0 {
				e.names = names // report once
			}
			if len(added) > 0 { // removing them has touched the directory once more
				if c2, err := statEnt(e.path); err == nil {
					cur = c2
				}
			}
		}
		if e.volatile {
			continue
		}
		if !cur.mtime.Equal(e.mtime) {
			// An entry created and removed again leaves a modification time of the run itself and nothing else;
			// only a time from elsewhere (set explicitly) or a changed entry list is evidence of its own.
			explicit := cur.mtime.Before(w.start.Add(-2*time.Second)) || cur.mtime.After(time.Now().Add(2*time.Second)) // (the clock is read HERE: on a loaded machine seconds can pass inside this function)
			if explicit || namesChanged || e.content != "" || e.path == w.canary {
				what := "restored"
				if err := os.Chtimes(e.path, e.atime, e.mtime); err != nil {
					what = "NOT restored: " + err.Error()
				}
				say("modification time of %s changed from %v to %v (%s)", e.path, e.mtime.UTC().Format(time.RFC3339Nano), cur.mtime.UTC().Format(time.RFC3339Nano), what)
			} else if e.path == "/" {
				// entries of "/" were created and removed again while the check ran — by a server under test
				// that resolves paths wrongly, or by something else on the machine: no evidence of its own, the
				// time is put back and the event noted
				if os.Chtimes(e.path, e.atime, e.mtime) == nil && !w.reported["note:/"] {
					w.reported["note:/"] = true
					w.notes = append(w.notes, fmt.Sprintf("the modification time of / changed during the run (to %s: an entry was created and removed again, by the code under test or by something else on the machine); it was put back", cur.mtime.UTC().Format(time.RFC3339)))
				}
			} else {
				// entries of this directory were created or removed while the check ran, by this run or by
				// something else on the machine: nothing to restore but the time itself
				e.mtime = cur.mtime
			}
		}
	}
	return changes
}

func chmodBits(m os.FileMode) os.FileMode {
	return m & (os.ModePerm | os.ModeSetuid | os.ModeSetgid | os.ModeSticky)
}

// removeNew removes an entry that appeared in a watched directory during the run, when everything in it was
// created after the watch began (it cannot be anything that was there before); it says what it did.
func (w *HostWatch) removeNew(p string) string {
	young := true
	n := 0
	filepath.Walk(p, func(q string, fi os.FileInfo, err error) error {
		n++
		if err != nil || fi == nil || n > 10000 {
			young = false
			return filepath.SkipAll
		}
		if st, ok := fi.Sys().(*syscall.Stat_t); ok {
			if time.Unix(st.Ctim.Sec, st.Ctim.Nsec).Before(w.start.Add(-time.Second)) {
				young = false
				return filepath.SkipAll
			}
		}
		return nil
	})
	if !young {
		return "left in place: not everything in it was created during the run"
	}
	if strings.Count(filepath.Clean(p), "/") < 1 || filepath.Clean(p) == "/" {
		return "left in place"
	}
	if err := os.RemoveAll(p); err != nil {
		return "NOT removed: " + err.Error()
	}
	return "created during the run: removed"
}

func (w *HostWatch) recreateCanary(e *hostEnt, say func(string, ...any)) {
	if w.canary == "" || !strings.HasPrefix(e.path, w.canary) {
		return
	}
	os.Mkdir(w.canary, 0o755)
	f := filepath.Join(w.canary, "canary")
	if _, err := os.Lstat(f); err != nil {
		os.WriteFile(f, []byte(canaryText), 0o644)
	}
	os.Chtimes(f, canaryTime, canaryTime)
	os.Chtimes(w.canary, canaryTime, canaryTime)
	for _, x := range w.ents {
		if strings.HasPrefix(x.path, w.canary) {
			if cur, err := statEnt(x.path); err == nil {
				x.ino, x.dev, x.mode, x.mtime, x.atime = cur.ino, cur.dev, cur.mode, cur.mtime, cur.atime
			}
		}
	}
}

// Close removes the canary.
func (w *HostWatch) Close() {
	if w != nil && w.canary != "" {
		os.RemoveAll(w.canary)
	}
}
