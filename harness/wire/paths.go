package wire

// Which fields of a request frame name files — as far as the frame decodes.  This is what the containment
// guard of the os-backed servers judges (peers.FrameContained): a frame whose length words were changed is
// decoded here, independently of pkg/sftp, before it is sent.  Decoding is by PREFIX: a field that decodes is
// reported even when a later field of the request is short (a correct server refuses the whole request then,
// a defective one may not).

// ReqPath is one path-valued field of a request.
type ReqPath struct {
	Field string // "path", "oldpath", "newpath", "linkpath", "target"
	Path  string
	// Target: the field is the TEXT of a symbolic link to be created at the request's "linkpath" field (it is
	// stored, not resolved, by the request itself).
	Target bool
}

// extended requests with path arguments (number of path strings after the request name)
var extPaths = map[string][]string{
	"statvfs@openssh.com":      {"path"},
	"posix-rename@openssh.com": {"oldpath", "newpath"},
	"hardlink@openssh.com":     {"oldpath", "newpath"},
	"lsetstat@openssh.com":     {"path"},
	"expand-path@openssh.com":  {"path"},
}

// RequestPaths returns the path fields of the request (typ, body).  REALPATH is included (Field "realpath"):
// the os-backed server answers it lexically, callers may let it pass.
func RequestPaths(typ byte, body []byte) []ReqPath {
	d := &D{B: body}
	d.U32() // request id
	if d.Err != nil {
		return nil
	}
	var out []ReqPath
	str := func(field string, target bool) bool {
		s := d.Str()
		if d.Err != nil {
			return false
		}
		out = append(out, ReqPath{Field: field, Path: s, Target: target})
		return true
	}
	switch typ {
	case Open, Lstat, Setstat, Opendir, Remove, Mkdir, Rmdir, Stat, Readlink:
		str("path", false)
	case Realpath:
		str("realpath", false)
	case Rename:
		if str("oldpath", false) {
			str("newpath", false)
		}
	case Symlink:
		// pkg/sftp's server (like OpenSSH's) reads the link's text first and the path of the link second
		if str("target", true) {
			str("linkpath", false)
		}
	case Extended:
		name := d.Str()
		if d.Err != nil {
			return nil
		}
		for _, f := range extPaths[name] {
			if !str(f, false) {
				break
			}
		}
	}
	return out
}

// SplitLikeServer cuts a byte stream into the frames a v3 server with the given frame limit reads from it:
// it stops at the first length word that is zero or exceeds the limit (the server stops there) and at an
// incomplete frame.
func SplitLikeServer(s []byte, limit uint32) []Pkt {
	var out []Pkt
	for len(s) >= 4 {
		n := uint32(s[0])<<24 | uint32(s[1])<<16 | uint32(s[2])<<8 | uint32(s[3])
		if n == 0 || n > limit || uint64(n) > uint64(len(s)-4) {
			break
		}
		out = append(out, Pkt{Typ: s[4], Body: s[5 : 4+n]})
		s = s[4+n:]
	}
	return out
}
