// Package wire is a small, independent SFTP v3 codec written from
// draft-ietf-secsh-filexfer-02 and OpenSSH's PROTOCOL file.  It is used by the
// scripted peers and as a third opinion in the codec differential (C06).
// It shares no code with pkg/sftp.
package wire

import (
	"encoding/binary"
	"errors"
	"io"
)

// Packet types.
const (
	Init          = 1
	Version       = 2
	Open          = 3
	Close         = 4
	Read          = 5
	Write         = 6
	Lstat         = 7
	Fstat         = 8
	Setstat       = 9
	Fsetstat      = 10
	Opendir       = 11
	Readdir       = 12
	Remove        = 13
	Mkdir         = 14
	Rmdir         = 15
	Realpath      = 16
	Stat          = 17
	Rename        = 18
	Readlink      = 19
	Symlink       = 20
	Status        = 101
	Handle        = 102
	Data          = 103
	Name          = 104
	Attrs         = 105
	Extended      = 200
	ExtendedReply = 201
)

// Status codes.
const (
	OK               = 0
	EOF              = 1
	NoSuchFile       = 2
	PermissionDenied = 3
	Failure          = 4
	BadMessage       = 5
	NoConnection     = 6
	ConnectionLost   = 7
	OpUnsupported    = 8
)

// Open flags and attribute flags.
const (
	FRead   = 1
	FWrite  = 2
	FAppend = 4
	FCreat  = 8
	FTrunc  = 16
	FExcl   = 32
	ASize   = 1
	AUIDGID = 2
	APerm   = 4
	ATime   = 8
	AExt    = 0x80000000
)

// B is an append-only encoder.
type B []byte

func (b B) U8(v byte) B      { return append(b, v) }
func (b B) U32(v uint32) B   { return binary.BigEndian.AppendUint32(b, v) }
func (b B) U64(v uint64) B   { return binary.BigEndian.AppendUint64(b, v) }
func (b B) Str(s string) B   { return append(b.U32(uint32(len(s))), s...) }
func (b B) Bytes(s []byte) B { return append(b.U32(uint32(len(s))), s...) }
func (b B) Raw(s []byte) B   { return append(b, s...) }

// Frame prefixes typ+body with the length word.
func Frame(typ byte, body []byte) []byte {
	out := make([]byte, 0, 5+len(body))
	out = binary.BigEndian.AppendUint32(out, uint32(1+len(body)))
	out = append(out, typ)
	return append(out, body...)
}

// Req builds a request frame: typ, id, then body.
func Req(typ byte, id uint32, body []byte) []byte {
	return Frame(typ, append(B{}.U32(id), body...))
}

// St is a v3 attribute block.
type St struct {
	Flags          uint32
	Size           uint64
	UID, GID, Perm uint32
	Atime, Mtime   uint32
	Ext            [][2]string
}

// AttrBytes encodes the by-flag fields (without the flags word).
func (a St) AttrBytes() []byte {
	var b B
	if a.Flags&ASize != 0 {
		b = b.U64(a.Size)
	}
	if a.Flags&AUIDGID != 0 {
		b = b.U32(a.UID).U32(a.GID)
	}
	if a.Flags&APerm != 0 {
		b = b.U32(a.Perm)
	}
	if a.Flags&ATime != 0 {
		b = b.U32(a.Atime).U32(a.Mtime)
	}
	if a.Flags&AExt != 0 {
		b = b.U32(uint32(len(a.Ext)))
		for _, e := range a.Ext {
			b = b.Str(e[0]).Str(e[1])
		}
	}
	return b
}

// Block encodes flags word + fields.
func (a St) Block() []byte { return append(B{}.U32(a.Flags), a.AttrBytes()...) }

var ErrShort = errors.New("wire: short")

// D is a decoder with a sticky error.
type D struct {
	B   []byte
	Err error
}

func (d *D) need(n int) bool {
	if d.Err != nil {
		return false
	}
	if len(d.B) < n {
		d.Err = ErrShort
		return false
	}
	return true
}
func (d *D) U8() byte {
	if !d.need(1) {
		return 0
	}
	v := d.B[0]
	d.B = d.B[1:]
	return v
}
func (d *D) U32() uint32 {
	if !d.need(4) {
		return 0
	}
	v := binary.BigEndian.Uint32(d.B)
	d.B = d.B[4:]
	return v
}
func (d *D) U64() uint64 {
	if !d.need(8) {
		return 0
	}
	v := binary.BigEndian.Uint64(d.B)
	d.B = d.B[8:]
	return v
}
func (d *D) Bytes() []byte {
	n := d.U32()
	if d.Err != nil {
		return nil
	}
	if uint64(n) > uint64(len(d.B)) {
		d.Err = ErrShort
		return nil
	}
	v := d.B[:n]
	d.B = d.B[n:]
	return v
}
func (d *D) Str() string { return string(d.Bytes()) }

// St decodes an attribute block (flags word first).
func (d *D) St() St {
	var a St
	a.Flags = d.U32()
	d.StBy(&a)
	return a
}

// StBy decodes the by-flag fields for a.Flags.
func (d *D) StBy(a *St) {
	if a.Flags&ASize != 0 {
		a.Size = d.U64()
	}
	if a.Flags&AUIDGID != 0 {
		a.UID = d.U32()
		a.GID = d.U32()
	}
	if a.Flags&APerm != 0 {
		a.Perm = d.U32()
	}
	if a.Flags&ATime != 0 {
		a.Atime = d.U32()
		a.Mtime = d.U32()
	}
	if a.Flags&AExt != 0 {
		n := d.U32()
		for i := uint32(0); i < n && d.Err == nil; i++ {
			t := d.Str()
			v := d.Str()
			if d.Err == nil {
				a.Ext = append(a.Ext, [2]string{t, v})
			}
		}
	}
}

// Pkt is a raw frame split into type and body.
type Pkt struct {
	Typ  byte
	Body []byte
}

// ID returns the request id (first four body bytes), 0 if short.
func (p Pkt) ID() uint32 {
	if len(p.Body) < 4 {
		return 0
	}
	return binary.BigEndian.Uint32(p.Body)
}

// ReadFrame reads one frame from r.
func ReadFrame(r io.Reader) (Pkt, error) {
	var h [4]byte
	if _, err := io.ReadFull(r, h[:]); err != nil {
		return Pkt{}, err
	}
	n := binary.BigEndian.Uint32(h[:])
	if n == 0 || n > 1<<24 {
		return Pkt{}, errors.New("wire: bad frame length")
	}
	b := make([]byte, n)
	if _, err := io.ReadFull(r, b); err != nil {
		return Pkt{}, err
	}
	return Pkt{Typ: b[0], Body: b[1:]}, nil
}

// Split cuts a byte stream into frames; the second result is the unparsed tail.
func Split(s []byte) ([]Pkt, []byte) {
	var out []Pkt
	for len(s) >= 4 {
		n := binary.BigEndian.Uint32(s)
		if n == 0 || uint64(n) > uint64(len(s)-4) {
			break
		}
		out = append(out, Pkt{Typ: s[4], Body: s[5 : 4+n]})
		s = s[4+n:]
	}
	return out, s
}

// StatusBody / helpers for scripted servers.
func StatusFrame(id, code uint32, msg string) []byte {
	return Frame(Status, B{}.U32(id).U32(code).Str(msg).Str(""))
}
func HandleFrame(id uint32, h string) []byte { return Frame(Handle, B{}.U32(id).Str(h)) }
func DataFrame(id uint32, d []byte) []byte   { return Frame(Data, B{}.U32(id).Bytes(d)) }
func AttrsFrame(id uint32, a St) []byte      { return Frame(Attrs, append(B{}.U32(id), a.Block()...)) }

type NameEnt struct {
	Name, Long string
	A          St
}

func NameFrame(id uint32, ents []NameEnt) []byte {
	b := B{}.U32(id).U32(uint32(len(ents)))
	for _, e := range ents {
		b = b.Str(e.Name).Str(e.Long).Raw(e.A.Block())
	}
	return Frame(Name, b)
}
func VersionFrame(v uint32, ext [][2]string) []byte {
	b := B{}.U32(v)
	for _, e := range ext {
		b = b.Str(e[0]).Str(e[1])
	}
	return Frame(Version, b)
}
