package peers

// The containment guard of os-backed servers.
//
// An os-backed Server acts on the host's file system with the rights of the harness.  Checks send it generated,
// mutated and cut frames; whatever path such a frame carries is looked at HERE, on the transport, with the
// independent codec (wire.RequestPaths) and lib.Contained, before the server can read the frame:
//
//   - FrameContained / StreamContained are what a check calls BEFORE it sends (it then does not run the case
//     against an os-backed server and counts it in lib.NotRunBucket);
//   - NewOSServer is the only way the harness creates an os-backed server: the server reads its requests
//     through a guard that delivers whole frames only after the same judgement.  A frame that fails it is NOT
//     delivered — the server sees its input end — and the event is reported through lib.ReportEscape, which main
//     turns into a failure of the run (Kind "tie", key `harness/uncontained-request-stopped-at-transport`): it
//     means a check's own filter has a hole.
//
// The judgement: every path field must be contained in the registered scratch roots, resolved against the
// server's working directory (read from the server value itself; the process directory without one, which
// main has moved into the scratch area); the text of a symbolic link to be created must lead into the roots
// from where the link will be.  REALPATH is answered lexically by the server and passes.

import (
	"fmt"
	"io"
	"reflect"
	"sync"

	"github.com/pkg/sftp"

	"verifharness/lib"
	"verifharness/wire"
)

// MaxServerFrame is the frame limit of pkg/sftp's servers.
const MaxServerFrame = 256 * 1024

// FrameContained judges one request frame (typ, body) for a server with working directory workDir ("" = none).
func FrameContained(workDir string, typ byte, body []byte) (ok bool, why string) {
	return frameContained(workDir, typ, body)
}

func frameContained(workDir string, typ byte, body []byte) (bool, string) {
	ps := wire.RequestPaths(typ, body)
	link := ""
	for _, p := range ps {
		if p.Field == "linkpath" {
			link = p.Path
		}
	}
	for _, p := range ps {
		switch {
		case p.Field == "realpath":
			continue
		case p.Target:
			// judged from where the link will be; a frame cut before the link's path is refused by the server
			lp := link
			if lp == "" {
				lp = "."
			}
			if ok, why := lib.LinkTargetInScratch(workDir, lp, p.Path); !ok {
				return false, fmt.Sprintf("type %d link text %q: %s", typ, clip(p.Path), why)
			}
		default:
			if ok, why := lib.InScratch(workDir, p.Path); !ok {
				return false, fmt.Sprintf("type %d %s %q: %s", typ, p.Field, clip(p.Path), why)
			}
		}
	}
	return true, ""
}

func clip(s string) string {
	if len(s) > 200 {
		return s[:200] + "…"
	}
	return s
}

// StreamContained judges every frame an os-backed server would read from the byte stream (whole frames up to
// the first unframeable length word; the bytes of an incomplete last frame are never dispatched).
func StreamContained(workDir string, stream []byte) (ok bool, why string) {
	for _, p := range wire.SplitLikeServer(stream, MaxServerFrame) {
		if ok, why := frameContained(workDir, p.Typ, p.Body); !ok {
			return false, why
		}
	}
	return true, ""
}

// WorkDirOf reads the working directory an os-backed server was configured with.
func WorkDirOf(srv *sftp.Server) string {
	defer func() { recover() }()
	f := reflect.ValueOf(srv).Elem().FieldByName("workDir")
	if f.IsValid() && f.Kind() == reflect.String {
		return f.String()
	}
	return ""
}

// NewOSServer is sftp.NewServer behind the containment guard.
func NewOSServer(rwc io.ReadWriteCloser, opts ...sftp.ServerOption) (*sftp.Server, error) {
	g := &guard{ReadWriteCloser: rwc}
	srv, err := sftp.NewServer(g, opts...)
	if err != nil {
		return nil, err
	}
	g.mu.Lock()
	g.workDir = WorkDirOf(srv)
	g.mu.Unlock()
	return srv, nil
}

type guard struct {
	io.ReadWriteCloser
	mu      sync.Mutex
	workDir string
	out     []byte // judged bytes not yet read by the server
	err     error  // what the source returned last (delivered after out)
	stopped bool
}

// Read hands the server whole judged frames (and, at the end of the source, the bytes of an incomplete one —
// a server never dispatches those).
func (g *guard) Read(p []byte) (int, error) {
	if len(p) == 0 {
		return 0, nil
	}
	g.mu.Lock()
	defer g.mu.Unlock()
	for len(g.out) == 0 {
		if g.err != nil {
			return 0, g.err
		}
		g.fill()
	}
	n := copy(p, g.out)
	g.out = g.out[n:]
	return n, nil
}

// fill reads one frame from the source into out, or sets err.
func (g *guard) fill() {
	if g.stopped {
		g.err = io.EOF
		return
	}
	var h [4]byte
	n, err := io.ReadFull(g.ReadWriteCloser, h[:])
	if err != nil {
		g.out = append(g.out, h[:n]...)
		if err == io.ErrUnexpectedEOF {
			err = io.EOF
		}
		g.err = err
		return
	}
	length := uint32(h[0])<<24 | uint32(h[1])<<16 | uint32(h[2])<<8 | uint32(h[3])
	if length == 0 || length > MaxServerFrame {
		// the server stops reading here; one that does not gets nothing more
		g.out = append(g.out, h[:]...)
		g.stopped = true
		return
	}
	b := make([]byte, length)
	n, err = io.ReadFull(g.ReadWriteCloser, b)
	if err != nil {
		g.out = append(append(g.out, h[:]...), b[:n]...)
		if err == io.ErrUnexpectedEOF {
			err = io.EOF
		}
		g.err = err
		return
	}
	if ok, why := FrameContained(g.workDir, b[0], b[1:]); !ok {
		lib.ReportEscape("os-backed server (working directory %q): %s", g.workDir, why)
		g.stopped = true
		g.err = io.EOF
		return
	}
	g.out = append(append(g.out, h[:]...), b...)
}

// Contained judges the request bytes about to be sent to this server (whole frames; for a request server —
// its handlers work on a tree in memory — everything is contained).
func (s *Srv) Contained(stream []byte) (ok bool, why string) {
	if s == nil || s.Kind != "os" || s.OS == nil {
		return true, ""
	}
	return StreamContained(WorkDirOf(s.OS), stream)
}
