package peers

import (
	"os"
	"path/filepath"
	"testing"
	"time"

	"github.com/pkg/sftp"

	"verifharness/lib"
	"verifharness/wire"
)

func TestGuard(t *testing.T) {
	outer := t.TempDir()
	root := filepath.Join(outer, "root")
	os.Mkdir(root, 0o755)
	os.WriteFile(filepath.Join(root, "f"), []byte("x"), 0o644)
	victim := filepath.Join(outer, "victim")
	os.WriteFile(victim, []byte("x"), 0o644)
	lib.AddScratch(root)
	defer lib.DropScratch(root)

	attrs := wire.St{Flags: wire.APerm, Perm: 0o600}
	ok := func(workDir string, frame []byte, want bool) {
		t.Helper()
		if got, why := StreamContained(workDir, frame); got != want {
			t.Errorf("StreamContained(%q, %x) = %v (%s), want %v", workDir, frame, got, why, want)
		}
	}
	ok("", wire.Req(wire.Setstat, 1, wire.B{}.Str(root+"/f").Raw(attrs.Block())), true)
	ok("", wire.Req(wire.Setstat, 1, wire.B{}.Str(victim).Raw(attrs.Block())), false)
	ok("", wire.Req(wire.Setstat, 1, wire.B{}.Str("/").Raw(attrs.Block())), false)
	ok(root, wire.Req(wire.Setstat, 1, wire.B{}.Str("f").Raw(attrs.Block())), true)
	ok(root, wire.Req(wire.Setstat, 1, wire.B{}.Str("../victim").Raw(attrs.Block())), false)
	ok("", wire.Req(wire.Setstat, 1, wire.B{}.Str(victim)), false)                      // attribute block missing: the path decodes
	ok("", wire.Req(wire.Rename, 1, wire.B{}.Str("/").U32(99).Raw([]byte("x"))), false) // second path short
	ok("", wire.Req(wire.Rename, 1, wire.B{}.Str(root+"/f").Str(victim)), false)
	ok("", wire.Req(wire.Symlink, 1, wire.B{}.Str("/etc").Str(root+"/l")), false)
	ok("", wire.Req(wire.Symlink, 1, wire.B{}.Str("f").Str(root+"/l")), true)
	ok("", wire.Req(wire.Symlink, 1, wire.B{}.Str("../victim").Str(root+"/l")), false)
	ok("", wire.Req(wire.Realpath, 1, wire.B{}.Str("/")), true)
	ok("", wire.Req(wire.Extended, 1, wire.B{}.Str("posix-rename@openssh.com").Str(root+"/f").Str(victim)), false)
	ok("", wire.Req(wire.Extended, 1, wire.B{}.Str("hardlink@openssh.com").Str(victim)), false)
	ok("", wire.Req(wire.Extended, 1, wire.B{}.Str("unknown@example.com").Str(victim)), true)
	ok("", wire.Req(wire.Write, 1, wire.B{}.Str("1").U64(0).Str("/etc/passwd")), true) // a handle request: no path

	// through a real server: the uncontained request is not delivered, the contained one is served
	for _, wd := range []string{"", root} {
		var opts []sftp.ServerOption
		if wd != "" {
			opts = append(opts, sftp.WithServerWorkingDirectory(wd))
		}
		srv, err := StartOS(opts...)
		if err != nil {
			t.Fatal(err)
		}
		if got := WorkDirOf(srv.OS); got != wd {
			t.Errorf("WorkDirOf = %q, want %q", got, wd)
		}
		srv.Handshake()
		p, err := srv.Call(wire.Req(wire.Setstat, 7, wire.B{}.Str(root+"/f").Raw(attrs.Block())))
		if err != nil || p.Typ != wire.Status {
			t.Fatalf("contained SETSTAT: %v %v", p.Typ, err)
		}
		if fi, _ := os.Stat(root + "/f"); fi.Mode().Perm() != 0o600 {
			t.Errorf("contained SETSTAT not applied")
		}
		os.Chmod(root+"/f", 0o644)
		n := len(lib.Escapes())
		srv.Send(wire.Req(wire.Setstat, 8, wire.B{}.Str(victim).Raw(attrs.Block())))
		if _, ok := srv.Wait(5 * time.Second); !ok {
			t.Errorf("server still running after a stopped request")
		}
		if fi, _ := os.Stat(victim); fi.Mode().Perm() != 0o644 {
			t.Errorf("the uncontained SETSTAT reached the file system")
		}
		if len(lib.Escapes()) != n+1 {
			t.Errorf("escape not reported")
		}
	}
}
