// Package peers provides in-memory transports and scripted peers: a raw client
// peer that talks to a real server (os-backed Server or RequestServer), and a
// scripted server peer that a real Client talks to.
package peers

import (
	"errors"
	"io"
	"sync"
	"time"
	"verifharness/lib"

	"github.com/pkg/sftp"

	"verifharness/wire"
)

type rwc struct {
	io.Reader
	io.WriteCloser
	closeRead func()
}

func (r rwc) Close() error {
	if r.closeRead != nil {
		r.closeRead()
	}
	return r.WriteCloser.Close()
}

// ---------- a real server driven by a raw client peer ----------

// Srv is a running server reached through pipes.
type Srv struct {
	Kind     string // "os" or "rs"
	OS       *sftp.Server
	RS       *sftp.RequestServer
	toSrv    *io.PipeWriter // we write requests here
	fromSrv  *io.PipeReader
	frames   chan wire.Pkt
	readErr  error
	done     chan struct{}
	serveErr error
	mu       sync.Mutex
	Raw      []byte // every byte the server wrote
}

var ErrTimeout = errors.New("peers: timeout")

// StartOS starts an os-backed server.
func StartOS(opts ...sftp.ServerOption) (*Srv, error) {
	c2s_r, c2s_w := io.Pipe()
	s2c_r, s2c_w := io.Pipe()
	srv, err := NewOSServer(rwc{Reader: c2s_r, WriteCloser: s2c_w, closeRead: func() { c2s_r.Close() }}, opts...)
	if err != nil {
		return nil, err
	}
	s := &Srv{Kind: "os", OS: srv, toSrv: c2s_w, fromSrv: s2c_r}
	s.start(func() error { return srv.Serve() }, s2c_w)
	return s, nil
}

// StartRS starts a request server with the given handlers.
func StartRS(h sftp.Handlers, opts ...sftp.RequestServerOption) *Srv {
	c2s_r, c2s_w := io.Pipe()
	s2c_r, s2c_w := io.Pipe()
	rs := sftp.NewRequestServer(rwc{Reader: c2s_r, WriteCloser: s2c_w, closeRead: func() { c2s_r.Close() }}, h, opts...)
	s := &Srv{Kind: "rs", RS: rs, toSrv: c2s_w, fromSrv: s2c_r}
	s.start(func() error { return rs.Serve() }, s2c_w)
	return s
}

func (s *Srv) start(serve func() error, srvOut *io.PipeWriter) {
	s.frames = make(chan wire.Pkt, 4096)
	s.done = make(chan struct{})
	go func() {
		defer close(s.frames)
		tee := &teeReader{r: s.fromSrv, s: s}
		for {
			p, err := wire.ReadFrame(tee)
			if err != nil {
				s.readErr = err
				// keep draining so that the server never blocks on a write
				io.Copy(io.Discard, tee)
				return
			}
			s.frames <- p
		}
	}()
	go func() {
		s.serveErr = serve()
		srvOut.Close() // server side is finished: unblock our reader
		close(s.done)
	}()
}

type teeReader struct {
	r io.Reader
	s *Srv
}

func (t *teeReader) Read(p []byte) (int, error) {
	n, err := t.r.Read(p)
	if n > 0 {
		t.s.mu.Lock()
		t.s.Raw = append(t.s.Raw, p[:n]...)
		t.s.mu.Unlock()
	}
	return n, err
}

// Send writes raw bytes to the server (whole frames or garbage). Returns an error if the server stopped reading.
func (s *Srv) Send(b []byte) error {
	errc := make(chan error, 1)
	go func() { _, err := s.toSrv.Write(b); errc <- err }()
	select {
	case err := <-errc:
		return err
	case <-time.After(lib.HangWait(20 * time.Second)):
		return ErrTimeout
	}
}

// Recv returns the next response frame.
func (s *Srv) Recv(timeout time.Duration) (wire.Pkt, error) {
	select {
	case p, ok := <-s.frames:
		if !ok {
			return wire.Pkt{}, io.EOF
		}
		return p, nil
	case <-time.After(timeout):
		return wire.Pkt{}, ErrTimeout
	}
}

// CloseInput ends the client->server stream (EOF).
func (s *Srv) CloseInput() { s.toSrv.Close() }

// Wait waits for Serve to return.
func (s *Srv) Wait(timeout time.Duration) (error, bool) {
	select {
	case <-s.done:
		return s.serveErr, true
	case <-time.After(timeout):
		return nil, false
	}
}

// Drain returns all frames received until the server's output ends (call after Wait).
func (s *Srv) Drain(timeout time.Duration) []wire.Pkt {
	var out []wire.Pkt
	for {
		p, err := s.Recv(timeout)
		if err != nil {
			return out
		}
		out = append(out, p)
	}
}

// RawOut returns a copy of every byte the server has written so far.
func (s *Srv) RawOut() []byte {
	s.mu.Lock()
	defer s.mu.Unlock()
	return append([]byte(nil), s.Raw...)
}

// Handshake sends INIT v3 and reads VERSION.
func (s *Srv) Handshake() (wire.Pkt, error) {
	if err := s.Send(wire.Frame(wire.Init, wire.B{}.U32(3))); err != nil {
		return wire.Pkt{}, err
	}
	return s.Recv(10 * time.Second)
}

// Call sends one request frame and waits for its response.
func (s *Srv) Call(frame []byte) (wire.Pkt, error) {
	if err := s.Send(frame); err != nil {
		return wire.Pkt{}, err
	}
	return s.Recv(20 * time.Second)
}

// ---------- a real client talking to a scripted server peer ----------

// ScriptedServer is the server end of a client's transport.
type ScriptedServer struct {
	fromCli *io.PipeReader
	toCli   *io.PipeWriter
	Reqs    chan wire.Pkt // requests as they arrive (after the handshake)
	mu      sync.Mutex
	Raw     []byte // every byte the client wrote
	wmu     sync.Mutex
}

// NewClient creates a Client connected to a scripted server. The peer answers INIT with `version`
// (a complete frame) and then delivers every request on Reqs.
func NewClient(versionFrame []byte, opts ...sftp.ClientOption) (*sftp.Client, *ScriptedServer, error) {
	c2s_r, c2s_w := io.Pipe()
	s2c_r, s2c_w := io.Pipe()
	ss := &ScriptedServer{fromCli: c2s_r, toCli: s2c_w, Reqs: make(chan wire.Pkt, 65536)}
	go func() {
		tee := &cliTee{r: c2s_r, s: ss}
		first := true
		for {
			p, err := wire.ReadFrame(tee)
			if err != nil {
				close(ss.Reqs)
				io.Copy(io.Discard, tee)
				return
			}
			if first && p.Typ == wire.Init {
				first = false
				if versionFrame != nil {
					ss.Reply(versionFrame)
				}
				continue
			}
			first = false
			ss.Reqs <- p
		}
	}()
	type res struct {
		c   *sftp.Client
		err error
	}
	ch := make(chan res, 1)
	go func() {
		c, err := sftp.NewClientPipe(s2c_r, c2s_w, opts...)
		ch <- res{c, err}
	}()
	select {
	case r := <-ch:
		if r.err != nil {
			ss.Shutdown()
		}
		return r.c, ss, r.err
	case <-time.After(lib.HangWait(20 * time.Second)):
		ss.Shutdown()
		return nil, ss, ErrTimeout
	}
}

type cliTee struct {
	r io.Reader
	s *ScriptedServer
}

func (t *cliTee) Read(p []byte) (int, error) {
	n, err := t.r.Read(p)
	if n > 0 {
		t.s.mu.Lock()
		t.s.Raw = append(t.s.Raw, p[:n]...)
		t.s.mu.Unlock()
	}
	return n, err
}

// Reply writes raw bytes to the client.
func (s *ScriptedServer) Reply(b []byte) error {
	s.wmu.Lock()
	defer s.wmu.Unlock()
	errc := make(chan error, 1)
	go func() { _, err := s.toCli.Write(b); errc <- err }()
	select {
	case err := <-errc:
		return err
	case <-time.After(lib.HangWait(20 * time.Second)):
		return ErrTimeout
	}
}

// Next returns the next request.
func (s *ScriptedServer) Next(timeout time.Duration) (wire.Pkt, error) {
	select {
	case p, ok := <-s.Reqs:
		if !ok {
			return wire.Pkt{}, io.EOF
		}
		return p, nil
	case <-time.After(timeout):
		return wire.Pkt{}, ErrTimeout
	}
}

// CutOutput ends the server->client stream (EOF for the client's receiver).
func (s *ScriptedServer) CutOutput() { s.toCli.Close() }

// FailOutput ends the server->client stream with an error.
func (s *ScriptedServer) FailOutput(err error) { s.toCli.CloseWithError(err) }

// FailInput makes the client's next write fail.
func (s *ScriptedServer) FailInput(err error) { s.fromCli.CloseWithError(err) }

// Shutdown closes both directions.
func (s *ScriptedServer) Shutdown() {
	s.toCli.Close()
	s.fromCli.Close()
}

// RawIn returns a copy of every byte the client has written so far.
func (s *ScriptedServer) RawIn() []byte {
	s.mu.Lock()
	defer s.mu.Unlock()
	return append([]byte(nil), s.Raw...)
}

// Serve answers every request with f until the request stream ends; f may return nil (no reply).
func (s *ScriptedServer) Serve(f func(p wire.Pkt) []byte) {
	go func() {
		for p := range s.Reqs {
			if r := f(p); r != nil {
				if s.Reply(r) != nil {
					return
				}
			}
		}
	}()
}
