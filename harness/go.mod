module verifharness

go 1.25.0

require (
	github.com/pkg/sftp v0.0.0
	golang.org/x/crypto v0.54.0
)

require github.com/kr/fs v0.1.0 // indirect

replace github.com/pkg/sftp => /repo
