package main

// C18: the server-side page allocator is invisible — same request stream, same schedule,
// byte-identical replies with and without it; no page lent twice or reused before its reply
// was written; nothing marked in use once all replies are out.

import (
	"bytes"
	"encoding/json"
	"fmt"
	"math/rand"
	"os"
	"os/exec"
	"path/filepath"
	"strings"
	"time"

	"verifharness/lib"
	"verifharness/wire"
)

func init() {
	register("c18", checkC18)
	children["c18-f10"] = c18F10Child
}

type c18Stream struct {
	Case gCase  `json:"case"`
	Fam  string `json:"family"`
	// Scn, when not nil: the case is a scenario of sessions (c18_sess.go) instead of a program for gExec.
	Scn *c18Scn `json:"scenario,omitempty"`
}

// MarshalJSON leaves the (empty) program out of a scenario case, so that its replay input is the scenario alone.
func (s c18Stream) MarshalJSON() ([]byte, error) {
	if s.Scn != nil {
		return json.Marshal(struct {
			Fam string  `json:"family"`
			Scn *c18Scn `json:"scenario"`
		}{s.Fam, s.Scn})
	}
	type plain c18Stream
	return json.Marshal(plain(s))
}

const c18PageSize = 262144

var c18Lens = []uint32{0, 1, 2, 32767, 32768, 32769, 65535, 65536, 65537, 100000, 262130, 262131, 262132, 262143, 262144, 300000}

func c18ReadProgram(rng *rand.Rand, server string, maxTx uint32, n int) gProg {
	p := gProg{Server: server, MaxTx: maxTx, Handles: []gHandle{{Name: "r0", Kind: "get", Path: "f0"}}}
	for i := 0; i < n; i++ {
		o := gOp{K: "read", H: "r0", Off: int64(i) * 1009, Len: c18Lens[rng.Intn(len(c18Lens))], ID: uint32(1 + i)}
		switch rng.Intn(8) {
		case 0:
			o.Off = 600000 - 5 - int64(i) // crosses the end of the file
		case 1:
			o.Off = 600000 + int64(i) // at or past the end
		}
		p.Ops = append(p.Ops, o)
	}
	return p
}

// c18LenSweep reads every length of c18Lens once, under the given max-tx-packet.
func c18LenSweep(server string, maxTx uint32) gProg {
	p := gProg{Server: server, MaxTx: maxTx, Handles: []gHandle{{Name: "r0", Kind: "get", Path: "f0"}}}
	for i, l := range c18Lens {
		p.Ops = append(p.Ops, gOp{K: "read", H: "r0", Off: int64(i) * 4001, Len: l, ID: uint32(1 + i)})
	}
	return p
}

// c18WriteProgram: on a read-only server the handle the WRITEs name is one opened for reading (a handle for writing
// cannot be had there); every one of them is refused before the handle is looked at, with its frame — up to a whole
// page — lent for the time until the refusal has been sent.
func c18WriteProgram(rng *rand.Rand, server string, n int, readOnly bool) gProg {
	p := gProg{Server: server, Handles: []gHandle{{Name: "w0", Kind: "put", Path: "g0"}, {Name: "r0", Kind: "get", Path: "f0"}}}
	if readOnly {
		p.Handles[0] = gHandle{Name: "w0", Kind: "get", Path: "f1"}
	}
	lens := []uint32{0, 1, 32768, 100000, 262122} // 262122: the largest WRITE a frame of maxMsgLength can carry with a 1-character handle
	for i := 0; i < n; i++ {
		if rng.Intn(3) == 0 {
			p.Ops = append(p.Ops, gOp{K: "read", H: "r0", Off: int64(i) * 777, Len: 32768, ID: uint32(1 + i)})
			continue
		}
		p.Ops = append(p.Ops, gOp{K: "write", H: "w0", Off: int64(i) * 262144, Len: lens[rng.Intn(len(lens))], ID: uint32(1 + i)})
	}
	return p
}

// c18Opts: the option combinations every family of streams is run under (besides allocator off / on, which is the
// pair of runs compared, and max-tx-packet, which the read-lengths family varies).
func c18Opts(server string) []c02Opt {
	if server == "os" {
		return []c02Opt{{}, {ReadOnly: true}, {WorkDir: true}, {ReadOnly: true, WorkDir: true}}
	}
	return []c02Opt{{}, {WorkDir: true}}
}

// c18PathProgram: path requests only (served without any handle), in the relative and the absolute form, with
// READs between them: on a server with a working / start directory every one of them goes through the path
// resolution, on a read-only server the modifying ones are refused.
func c18PathProgram(rng *rand.Rand, server string, n int) gProg {
	p := gProg{Server: server, Handles: []gHandle{{Name: "r0", Kind: "get", Path: "f0"}}}
	for i := 0; i < n; i++ {
		var o gOp
		switch rng.Intn(12) {
		case 0:
			o = gOp{K: "stat", P: []string{"s0", "sd", "lnk", fmt.Sprintf("missing%d", i)}[rng.Intn(4)]}
		case 1:
			o = gOp{K: "lstat", P: []string{"s0", "sd", fmt.Sprintf("missing%d", i)}[rng.Intn(3)]}
		case 2:
			o = gOp{K: "realpath", P: []string{"s0", "sd/../s1", "missing/x", "."}[rng.Intn(4)]}
		case 3:
			o = gOp{K: "readlink", P: []string{"lnk", fmt.Sprintf("missing%d", i)}[rng.Intn(2)]}
		case 4:
			o = gOp{K: "mkdir", P: fmt.Sprintf("mk%d", i)}
		case 5:
			o = gOp{K: "remove", P: fmt.Sprintf("rm%d", i)}
		case 6:
			o = gOp{K: "rename", P: fmt.Sprintf("rn%d", i), P2: fmt.Sprintf("rn%d.to", i)}
		case 7:
			o = gOp{K: "symlink", P: "s0", P2: fmt.Sprintf("sl%d", i)}
		case 8:
			o = gOp{K: "opendir", P: []string{"sd", "s0", fmt.Sprintf("missing%d", i)}[rng.Intn(3)]}
		case 9:
			o = gOp{K: []string{"open", "openrw", "openw"}[rng.Intn(3)], P: "s1"}
			if o.K == "openw" {
				o.P = fmt.Sprintf("ow%d", i)
			}
		case 10:
			o = gOp{K: "setstat", P: fmt.Sprintf("ss%d", i), AF: wire.APerm}
		default:
			o = gOp{K: "read", H: "r0", Off: int64(i) * 1009, Len: []uint32{1, 1000, 32768}[rng.Intn(3)]}
		}
		o.Abs = o.P != "" && rng.Intn(4) == 0
		o.ID = uint32(1 + i)
		p.Ops = append(p.Ops, o)
	}
	return p
}

// c18RandAttr draws an attribute block: flags out of size / owner / permissions / times / extended pairs (only
// those in allowed; at most one of size, owner, permissions when one is set) with values that no other request of the
// program carries.
func c18RandAttr(rng *rand.Rand, allowed uint32, one bool) (uint32, *gAttr) {
	at := &gAttr{
		Size:  []uint64{0, 7, 50, 1000, 70000, 200000}[rng.Intn(6)] + uint64(rng.Intn(5)),
		UID:   uint32(1000 + rng.Intn(5000)),
		GID:   uint32(1000 + rng.Intn(5000)),
		Perm:  []uint32{0o600, 0o640, 0o644, 0o664, 0o755, 0o700, 0o444, 0o711}[rng.Intn(8)],
		Atime: uint32(1_000_000_000 + rng.Intn(600_000_000)),
		Mtime: uint32(1_000_000_000 + rng.Intn(600_000_000)),
	}
	for k := rng.Intn(3); k > 0; k-- {
		at.Ext = append(at.Ext, [2]string{fmt.Sprintf("ext%d@example.com", rng.Intn(100)), strings.Repeat("v", rng.Intn(40))})
	}
	var af uint32
	for af == 0 {
		af = 0
		for _, f := range []uint32{wire.ASize, wire.AUIDGID, wire.APerm, wire.ATime, wire.AExt} {
			if allowed&f != 0 && rng.Intn(2) == 0 {
				af |= f
			}
		}
		if one { // keep the first of size / permissions / owner only
			switch {
			case af&wire.ASize != 0:
				af &^= wire.APerm | wire.AUIDGID
			case af&wire.APerm != 0:
				af &^= wire.AUIDGID
			}
		}
	}
	return af, at
}

const c18AllAttrs = wire.ASize | wire.AUIDGID | wire.APerm | wire.ATime | wire.AExt

// c18AttrProgram: requests that carry an attribute block — SETSTAT and FSETSTAT with size / owner / permissions /
// times / extended pairs, OPEN and MKDIR with attributes — standing in line behind a command request whose call the
// harness can hold, followed by one to three more requests of different frame lengths (shorter and longer than the
// waiting request, so that a frame received into the same memory would cover its attribute block partly or wholly),
// then the requests that show what was done: LSTAT of every path, FSTAT of the handle. The handle the FSETSTATs name
// takes no WRITE, so that the outcome does not depend on the schedule. Returns the program and the number of the
// request to keep back.
func c18AttrProgram(rng *rand.Rand, server string, readOnly bool) (gProg, int) {
	p := gProg{Server: server, Handles: []gHandle{{Name: "r0", Kind: "get", Path: "f0"}, {Name: "d0", Kind: "dir", Path: "d0"}}}
	wr, vic := "r0", "r0" // a read-only server has no handles for writing: the requests are refused all the same, and their frames received
	if !readOnly {
		p.Handles = append(p.Handles, gHandle{Name: "w0", Kind: "put", Path: "g0"}, gHandle{Name: "v0", Kind: "put", Path: "g1"})
		wr, vic = "w0", "v0"
	}
	n := 0
	add := func(o gOp) {
		n++
		o.ID = uint32(n)
		p.Ops = append(p.Ops, o)
	}
	for k := rng.Intn(3); k > 0; k-- {
		add(gOp{K: "read", H: "r0", Off: int64(n) * 1009, Len: []uint32{1, 100, 4096}[rng.Intn(3)]})
	}
	// the command the others wait behind
	block := len(p.Ops)
	if server == "rs" {
		add([]gOp{{K: "stat", P: "s0"}, {K: "lstat", P: "s0"}, {K: "mkdir", P: "mkb"}, {K: "readlink", P: "lnk"}, {K: "fstat", H: "r0"}, {K: "readdir", H: "d0"}, {K: "remove", P: "rmb"}}[rng.Intn(7)])
	} else {
		add([]gOp{{K: "fstat", H: "r0"}, {K: "readdir", H: "d0"}}[rng.Intn(2)])
	}
	// the requests with attributes
	var watch []gOp
	for k := 1 + rng.Intn(2); k > 0; k-- {
		i := len(p.Ops)
		switch rng.Intn(6) {
		case 0, 1:
			af, at := c18RandAttr(rng, c18AllAttrs, false)
			o := gOp{K: "setstat", P: fmt.Sprintf("ss%d", i), AF: af, At: at}
			if rng.Intn(4) == 0 {
				o.P = fmt.Sprintf("ss%d-%s", i, strings.Repeat("n", 20+rng.Intn(150)))
			}
			add(o)
			watch = append(watch, gOp{K: "lstat", P: o.P})
		case 2, 3:
			af, at := c18RandAttr(rng, c18AllAttrs, server == "os")
			add(gOp{K: "fsetstat", H: vic, AF: af, At: at})
			watch = append(watch, gOp{K: "fstat", H: vic})
		case 4:
			af, at := c18RandAttr(rng, c18AllAttrs, false)
			o := gOp{K: "openw", P: fmt.Sprintf("ow%d", i), AF: af | wire.APerm, At: at}
			if rng.Intn(3) == 0 {
				o = gOp{K: []string{"open", "openrw"}[rng.Intn(2)], P: "s1", AF: af, At: at}
			}
			add(o)
			watch = append(watch, gOp{K: "lstat", P: o.P})
		default:
			af, at := c18RandAttr(rng, c18AllAttrs, false)
			o := gOp{K: "mkdir", P: fmt.Sprintf("mk%d", i), AF: af, At: at}
			add(o)
			watch = append(watch, gOp{K: "lstat", P: o.P})
		}
	}
	// what is received while they wait: frames of different lengths
	for k := 1 + rng.Intn(3); k > 0; k-- {
		i := len(p.Ops)
		switch rng.Intn(6) {
		case 0:
			add(gOp{K: "read", H: "r0", Off: int64(i) * 1009, Len: 100})
		case 1:
			add(gOp{K: "write", H: wr, Off: int64(i) * 8192, Len: []uint32{1, 64, 300, 5000}[rng.Intn(4)]})
		case 2:
			add(gOp{K: "realpath", P: "s0", Pad: []uint32{30, 120, 600, 3000}[rng.Intn(4)]})
		case 3:
			af, at := c18RandAttr(rng, c18AllAttrs, false)
			add(gOp{K: "setstat", P: fmt.Sprintf("ss%d", i), AF: af, At: at})
			watch = append(watch, gOp{K: "lstat", P: fmt.Sprintf("ss%d", i)})
		case 4:
			add(gOp{K: "lstat", P: []string{"s0", "sd", fmt.Sprintf("missing%d", i)}[rng.Intn(3)]})
		default:
			add(gOp{K: "rename", P: fmt.Sprintf("rn%d", i), P2: fmt.Sprintf("rn%d-%s", i, strings.Repeat("t", rng.Intn(200)))})
		}
	}
	for _, o := range watch {
		add(o)
	}
	return p, block
}

func c18ManyReads(rng *rand.Rand, server string, n int) gProg {
	p := gProg{Server: server, Handles: []gHandle{{Name: "r0", Kind: "get", Path: "f0"}, {Name: "r1", Kind: "get", Path: "f1"}}}
	lens := []uint32{1, 64, 1000, 4096, 32768}
	for i := 0; i < n; i++ {
		h := []string{"r0", "r1"}[rng.Intn(2)]
		p.Ops = append(p.Ops, gOp{K: "read", H: h, Off: int64(i) * 911, Len: lens[rng.Intn(len(lens))], ID: uint32(1 + i)})
	}
	return p
}

// c18HoldOrder keeps request k back for as long as any other call can return: its successors' replies pile up in
// the controller while later requests keep taking (and, for k > 0, re-using) pages.
func c18HoldOrder(p gProg, k int, rng *rand.Rand) []int {
	s := newSim(gSimReqs(p))
	var out []int
	for {
		st := s.started()
		if len(st) == 0 {
			return out
		}
		var cand []int
		for _, i := range st {
			if i != k {
				cand = append(cand, i)
			}
		}
		i := k
		if len(cand) > 0 {
			i = cand[0]
			if rng.Intn(3) == 0 {
				i = cand[rng.Intn(len(cand))]
			}
		}
		out = append(out, i)
		s.finish(i)
	}
}

type c18Result struct {
	st       c18Stream
	off, on  *gRun
	attempts int
	diff     string // "" = byte-identical
}

func c18FirstDiff(a, b []byte) (string, bool) {
	if bytes.Equal(a, b) {
		return "", false
	}
	fa, ta := wire.Split(a)
	fb, tb := wire.Split(b)
	for i := 0; i < len(fa) || i < len(fb); i++ {
		switch {
		case i >= len(fa):
			return fmt.Sprintf("frame %d only with allocator: %s", i, gFrameText(fb[i])), false
		case i >= len(fb):
			return fmt.Sprintf("frame %d only without allocator: %s", i, gFrameText(fa[i])), false
		case fa[i].Typ != fb[i].Typ || !bytes.Equal(fa[i].Body, fb[i].Body):
			timeLike := fa[i].Typ == fb[i].Typ && (fa[i].Typ == wire.Attrs || fa[i].Typ == wire.Name) && len(fa[i].Body) == len(fb[i].Body)
			pos := 0
			for pos < len(fa[i].Body) && pos < len(fb[i].Body) && fa[i].Body[pos] == fb[i].Body[pos] {
				pos++
			}
			return fmt.Sprintf("frame %d (counting from the VERSION reply) differs from body byte %d on: without allocator %s %s / with allocator %s %s", i, pos,
				gFrameText(fa[i]), gDigest(fa[i].Body[pos:]), gFrameText(fb[i]), gDigest(fb[i].Body[pos:])), timeLike
		}
	}
	return fmt.Sprintf("trailing bytes differ: %d vs %d", len(ta), len(tb)), false
}

func c18RunPair(st c18Stream, root string) c18Result {
	res := c18Result{st: st}
	for res.attempts = 1; ; res.attempts++ {
		a, b := st.Case, st.Case
		a.Prog.Alloc, b.Prog.Alloc = false, true
		a.Root, b.Root = root, root
		res.off = gExec(&a)
		res.on = gExec(&b)
		if res.off.Fault != nil || res.on.Fault != nil {
			return res
		}
		d, timeLike := c18FirstDiff(res.off.Raw, res.on.Raw)
		res.diff = d
		if d == "" || !timeLike || res.attempts == 3 {
			return res
		}
	}
}

func c18ModelBytes(f wire.Pkt) string {
	if f.Typ == wire.Data && len(f.Body) >= 8 {
		return lib.Hex(f.Body[8:])
	}
	return lib.Hex(append([]byte{f.Typ}, f.Body...))
}

// c18Trace writes the run down in the actions of the Lean allocator model. A READ that reaches getDataSlice takes
// its data page when its handler starts (T), stores the file data when ReadAt returns (W) and answers with a DATA
// packet referring to the page (D), or with an error that owns its bytes (O). Serial run: one request at a time.
// Pipelined run with every call held (at most 8 requests): every frame has arrived and every READ has taken its page
// before the first handler returns; handlers return in the order of run.Handled; a reply is sent and its pages
// released as soon as it is at the head of the line.
func c18Trace(run *gRun, frames [][]byte, maxTx uint32) []string {
	n := len(frames)
	var t []string
	takes := func(i int) bool {
		return run.Case.Prog.Ops[i].K == "read" && strings.HasPrefix(run.Routes[i].Sim.Gate, "rw:") && !run.Routes[i].Mismatch
	}
	start := func(i int) []string {
		if !takes(i) {
			return nil
		}
		return []string{fmt.Sprintf("T:%d:%d", i, min(run.Case.Prog.Ops[i].Len, maxTx))}
	}
	finish := func(i int) []string {
		f := run.Frames[i]
		if takes(i) && f.Typ == wire.Data && len(f.Body) >= 8 {
			return []string{fmt.Sprintf("W:%d:%s", i, lib.Hex(f.Body[8:])), fmt.Sprintf("D:%d:%d", i, len(f.Body)-8)}
		}
		return []string{fmt.Sprintf("O:%d:%s", i, c18ModelBytes(f))}
	}
	if run.Case.Mode == "serial" {
		for i := 0; i < n; i++ {
			t = append(t, "L", "A:"+lib.Hex(frames[i][4:]))
			t = append(t, start(i)...)
			t = append(t, finish(i)...)
			t = append(t, fmt.Sprintf("S:%d", i), fmt.Sprintf("X:%d", i))
		}
		return append(t, "L")
	}
	for i := 0; i < n; i++ {
		t = append(t, "L", "A:"+lib.Hex(frames[i][4:]))
	}
	t = append(t, "L")
	for i := 0; i < n; i++ {
		t = append(t, start(i)...)
	}
	done := make([]bool, n)
	next := 0
	for _, i := range run.Handled {
		t = append(t, finish(i)...)
		done[i] = true
		for next < n && done[next] {
			t = append(t, fmt.Sprintf("S:%d", next), fmt.Sprintf("X:%d", next))
			next++
		}
	}
	return t
}

type c18Want struct {
	Wire string `json:"wire"`
	Used int    `json:"used"`
	End  bool   `json:"end"`
	On   bool   `json:"on"`
}

func init() {
	gSummarisers["c18"] = func(raw json.RawMessage, modelOK bool, scratch string) gSummary {
		var st c18Stream
		if err := json.Unmarshal(raw, &st); err != nil {
			return gSummary{Text: string(raw), Fails: []lib.Failure{{Kind: "tie", Key: "harness/job", What: err.Error()}}}
		}
		if st.Scn != nil {
			return c18ScnSummarise(st, scratch)
		}
		return c18Summarise(c18RunPair(st, filepath.Join(scratch, "t")), modelOK)
	}
}

func c18Summarise(res c18Result, modelOK bool) gSummary {
	var s gSummary
	st := res.st
	p := st.Case.Prog
	srv := p.Server
	mode := st.Case.Mode
	hist := func(k string) { s.Hist = append(s.Hist, k) }
	fail := func(f lib.Failure) { s.Fails = append(s.Fails, f) }
	dataReplies := 0
	if res.on != nil && res.on.Fault == nil {
		for _, f := range res.on.Frames {
			if f.Typ == wire.Data {
				dataReplies++
			}
		}
	}
	s.Text = p.text() + fmt.Sprint(mode, st.Case.Order, st.Case.Seed)
	s.Nontrivial = dataReplies > 0 || len(p.Ops) >= 2
	hist("server=" + srv)
	hist("family=" + st.Fam)
	hist("mode=" + mode)
	hist(fmt.Sprintf("depth=%02d", len(p.Ops)))
	hist(fmt.Sprintf("max-tx=%d", p.MaxTx))
	opt := c02OptOf(p)
	hist("options=" + srv + "/" + opt.text())
	for _, t := range opt.tokens() {
		hist("option=" + srv + "/" + t + "/family=" + st.Fam)
	}
	if rts := gRoutes(p, st.Case.abs("/R")); len(rts) == len(p.Ops) {
		for i, rt := range rts {
			switch {
			case rt.Denied:
				hist("request-refused-by-read-only-server=" + p.Ops[i].K)
				if p.Ops[i].K == "write" {
					hist(fmt.Sprintf("refused-write-len=%06d", p.Ops[i].Len))
				}
			case rt.NoCall != "":
				hist("request-answered-without-handler=" + p.Ops[i].K + "/no-" + rt.NoCall)
			case rt.Fallback != "":
				hist("request-served-by-fallback=" + p.Ops[i].K + "/" + rt.Fallback)
			}
			if p.WorkDir && p.Ops[i].P != "" {
				hist("path-form=" + map[bool]string{false: "relative", true: "absolute"}[p.Ops[i].Abs])
			}
		}
	}
	for _, o := range p.Ops {
		hist("request=" + o.K)
		if o.K == "read" && st.Fam == "read-lengths" {
			hist(fmt.Sprintf("read-len=%06d", o.Len))
		}
	}
	if res.attempts > 1 {
		hist(fmt.Sprintf("pairs-repeated-because-of-time-fields=%d", res.attempts-1))
	}
	// the shared oracles, on both runs; what only the allocator run shows is the allocator's doing
	offKeys := map[string]bool{}
	for _, f := range gCheckCommon(res.off) {
		offKeys[f.Key] = true
		f.Input = st
		fail(f)
	}
	for _, f := range gCheckCommon(res.on) {
		if offKeys[f.Key] {
			continue
		}
		if !strings.HasPrefix(f.Key, "alloc/") {
			f.Key = "alloc/" + f.Key
		}
		f.What = "only with the allocator: " + f.What
		f.Input = st
		fail(f)
	}
	if res.off.Fault != nil || res.on.Fault != nil {
		return s
	}
	if res.diff != "" {
		fail(lib.Failure{Kind: "oracle", Key: "alloc/response-bytes-differ/" + srv, What: "the reply stream with the allocator is not byte-identical to the one without",
			Input: st, Expected: "identical streams", Actual: res.diff})
	}
	on, off := res.on, res.off
	if e0, e1 := gEffects(off), gEffects(on); strings.Join(e0, "\n") != strings.Join(e1, "\n") {
		var d0, d1 []string
		for i := 0; i < len(e0) || i < len(e1); i++ {
			a, b := "", ""
			if i < len(e0) {
				a = e0[i]
			}
			if i < len(e1) {
				b = e1[i]
			}
			if a != b && len(d0) < 6 {
				d0, d1 = append(d0, a), append(d1, b)
			}
		}
		what := "the requests did not do the same with the allocator as without: the objects they name differ after Serve has returned (kind and permissions, size, owner, modification time)"
		if srv == "rs" {
			what = "the requests did not do the same with the allocator as without: a command or open handler was shown different flags / attributes (Request.Flags, AttrFlags(), Attributes(), Attrs)"
		}
		fail(lib.Failure{Kind: "oracle", Key: "alloc/effects-differ/" + srv, What: what, Input: st, Expected: map[string]any{"without_allocator": d0}, Actual: map[string]any{"with_allocator": d1}})
	}
	for _, o := range p.Ops {
		if o.At != nil {
			hist(fmt.Sprintf("request-with-attributes=%s/flags=%s", o.K, c18FlagNames(o.AF)))
		}
	}
	hist(fmt.Sprintf("pages-used-at-quiescence=%d", on.UsedQ))
	if !on.AllocOn || off.AllocOn {
		fail(lib.Failure{Kind: "tie", Key: "harness/allocator-option", What: "allocator option not reflected by the server", Input: st})
	}
	if on.UsedQ > 1 {
		fail(lib.Failure{Kind: "oracle", Key: "alloc/pages-in-use-at-quiescence/" + srv, What: "pages still marked in use 2 s after the last reply was read (input open, nothing in flight)",
			Input: st, Expected: "at most 1 (the receive page lent for the next frame)", Actual: on.UsedQ})
	}
	if on.UsedEnd != 0 || on.AvailEnd != 0 {
		fail(lib.Failure{Kind: "oracle", Key: "alloc/not-freed-after-serve/" + srv, What: "allocator tables not empty after Serve returned",
			Input: st, Expected: "used=0 avail=0", Actual: fmt.Sprintf("used=%d avail=%d", on.UsedEnd, on.AvailEnd)})
	}
	if st.Fam != "mixed" && len(p.Ops) <= 8 && mode == "gated" {
		s.Sample = map[string]any{"program": p.text(), "mode": mode, "order": st.Case.Order, "replies": c02Replies(on),
			"pages_used_at_quiescence": on.UsedQ, "pages_available_at_quiescence": on.AvailQ, "after_serve": fmt.Sprintf("used=%d avail=%d", on.UsedEnd, on.AvailEnd)}
	}
	// model comparison for runs whose schedule is known completely and whose payloads are small
	if modelOK && (mode == "serial" || mode == "gated") {
		total := 0
		for _, f := range on.Frames {
			total += len(f.Body)
		}
		allHeld := true
		for _, rt := range on.Routes {
			if rt.Sim.Gate == "" && mode == "gated" {
				allHeld = false
			}
		}
		mt := p.MaxTx
		if mt == 0 {
			mt = 32768
		}
		fitsPage := true // the allocator model covers READs whose DATA packet fits a page; longer ones get a plain buffer
		for _, o := range p.Ops {
			if o.K == "read" && min(o.Len, mt)+13 > c18PageSize {
				fitsPage = false
			}
		}
		if !(total <= 40000 && allHeld && fitsPage && len(p.Ops) <= 8) {
			why := "replies-over-40000-bytes-or-more-than-8-requests"
			switch {
			case !fitsPage:
				why = "read-longer-than-a-page"
			case !allHeld && total <= 40000 && len(p.Ops) <= 8:
				why = "a-request-is-answered-without-a-held-call"
			}
			hist("model-comparison=skipped/" + why)
		} else {
			hist("model-comparison=done")
			var frames [][]byte
			for _, o := range p.Ops {
				frames = append(frames, o.frame(st.Case.sent("/R", o), "1"))
			}
			var ws []string
			for _, f := range on.Frames {
				ws = append(ws, c18ModelBytes(f))
			}
			for _, run := range []*gRun{off, on} {
				cfg := fmt.Sprintf("%s%d:%d:%d", c18Bits, map[bool]int{false: 0, true: 1}[run.Case.Prog.Alloc], c18PageSize, mt)
				tr := c18Trace(run, frames, mt)
				s.Lines = append(s.Lines, "c18.run "+cfg+" "+strings.Join(tr, " "))
				s.Wants = append(s.Wants, c18Want{Wire: strings.Join(ws, ","), Used: 1, On: run.Case.Prog.Alloc})
				s.Lines = append(s.Lines, "c18.run "+cfg+" "+strings.Join(tr, " ")+" F")
				s.Wants = append(s.Wants, c18Want{Wire: strings.Join(ws, ","), Used: 0, End: true, On: run.Case.Prog.Alloc})
			}
		}
	}
	return s
}

func c18FlagNames(af uint32) string {
	var t []string
	for _, x := range []struct {
		f uint32
		s string
	}{{wire.ASize, "size"}, {wire.AUIDGID, "owner"}, {wire.APerm, "perm"}, {wire.ATime, "times"}, {wire.AExt, "extended"}} {
		if af&x.f != 0 {
			t = append(t, x.s)
		}
	}
	if len(t) == 0 {
		return "none"
	}
	return strings.Join(t, "+")
}

// c18Bits: the four allocator facts of the c18.run cfg token, replaced in checkC18 by the regenerated ones (gCurCfg).
var c18Bits = "1111"

func checkC18(c *lib.Ctx) {
	r := c.R
	r.Rule = "request streams: (mixed) PRNG pipelines of depth 1…30 over all request kinds incl. failing ones; (read-lengths) READs of length 0, 1, 2, 32767…32769, 65535…65537, 100000, 262130…262132 (= page − 13 ± 1), 262143, 262144 and 300000 under max-tx-packet 32768 (default), 65536, 262131 and 262144, some crossing or past end of file; (writes) WRITEs up to the largest frame (262122 bytes); (held) 24…64 READs with one request held back while all others complete; (paths) path requests of every kind in relative and absolute form between READs. (attrs) requests that carry an attribute block — SETSTAT / FSETSTAT with PRNG subsets of size, owner, permissions, times and extended pairs and PRNG values, OPEN and MKDIR with attributes, names of 4…170 bytes — standing in line behind a command request whose call is held (request server: STAT, LSTAT, MKDIR, READLINK, REMOVE, FSTAT, READDIR; os-backed: FSTAT, READDIR), followed by 1…3 more requests of different frame lengths (READ, WRITE of 1…5000 bytes, REALPATH of 30…3000 bytes, SETSTAT, LSTAT, RENAME) and by the LSTATs / FSTATs that show the outcome; gated with the command kept back as long as anything else can return, and once more serial / un-gated / with PRNG handler durations / gated fifo or uniform. Server options: every stream is run on servers started with ReadOnly() x WithServerWorkingDirectory (os-backed; a read-only server refuses every modifying request — WRITEs of 0 … 262122 bytes among them — with PERMISSION_DENIED before any handler runs, the page of the request frame must come back all the same) resp. WithStartDirectory (request server), paths then sent relative (one in four absolute); the mixed family on the request server also with handler sets lacking optional interfaces; quick: the combinations rotate over the streams of a family and the length sweep runs under every one, thorough: every stream of the read-lengths, writes, held and paths families under every combination. Each stream is run serially (request after reply), pipelined un-gated, pipelined with PRNG handler durations, and pipelined with every instrumented call held and released in a chosen order (fifo, lifo, uniform, earliest-held-longest, hold-request-k) — each time against the server WITHOUT and WITH the allocator, same scratch tree and same forced order. Besides the reply bytes the EFFECTS of the two runs are compared: on the request server what every command and open handler was shown (Request.Method, paths, Flags, AttrFlags(), Attributes(), raw Attrs; read after the call was let go), on the os-backed server kind / permissions / size / owner / modification time of every object the requests name once Serve has returned. Page discipline while requests wait: in every gated run, whenever the pipeline has taken in the whole stream, pages in use >= unanswered requests + 1 must hold (each unanswered request owns the page of its frame, the receive loop one more). A case = (server, stream, mode, order) = one pair of runs; non-trivial = at least one DATA reply or at least two requests in flight; distinct by (server, options, program, mode, order). " +
		"SESSIONS (scenarios of steps over one to three sessions, executed by one goroutine; each run without and with the allocator; compared: the complete reply stream of every session, who ended it and what Serve returned, the effects — request server: every handler call with its data, os-backed: kind, permissions, size and content digest of every object named — and the allocator tables after Serve): " +
		"(malformed-frames) a session opens five handles, sends 1…3 bursts of 1…6 well-formed WRITEs of 2000…32768 PRNG-like bytes and READs (every reply awaited: the pages now hold recognisable bytes), then ONE CHANGED FRAME, alone, whose outer length is right and whose inside is not: for each of 26 request shapes (WRITE with 0 / 8 / 1000 data bytes, READ, FSTAT, READDIR, CLOSE, FSETSTAT and SETSTAT with extended pairs, fsync, STAT, LSTAT, OPENDIR, OPEN, OPEN with attributes, MKDIR with attributes, REMOVE, RMDIR, REALPATH, READLINK, RENAME, SYMLINK, statvfs, posix-rename, hardlink, unknown extension) every word that says how much follows — string / data lengths, attribute flags, extended count — set to v+1, v+7, v+1492, v+100000, (bytes present)+1, 2v+1, v-1, 0, 262144, 2^31-1, 2^32-1, v|0x8000000f; the last 1…13 bytes cut off; only the first 0…12 bytes kept; 1…100000 trailing bytes; 15 frames that are no request (empty frame, length word above the maximum, unknown and reply types, INIT again); the change is answered or the server ends the session; where it goes on, READs of the region a WRITE was aimed at and of known content follow; then the handles are closed and the input ends (some sessions: inside a frame). quick: every change of the three WRITE shapes, a PRNG sample of 110 of the others per server (os-backed: 25 more on a read-only server), sessions with 2…3 changed frames, under rotating ReadOnly / working directory options; thorough: every change under every option combination. " +
		"(reused-option-values) the option list — WithAllocator / WithRSAllocator (the pair compared), WithMaxTxPacket, ReadOnly, working / start directory — is built ONCE and two or three servers are started from it (one run in six: values of their own, as a control); session 0 pipelines 3…10 READs of distinct contents with one of the first three calls held, so that the replies behind it wait in the server; a neighbour session on another server then answers at least as many requests (same order ids) and takes in a burst of 8…16 READs / WRITEs of up to 32768 bytes with the first 1…6 calls held (as many pages in use at once), variants: who is let go first, more traffic afterwards, the neighbour ending (Serve frees its allocator) while session 0 waits and a third server starting after that, two waiting sessions; besides the off/on comparison every session is run once more ALONE on a server of freshly built option values (allocator off) and must be answered the same (servers built from one option value share no state). " +
		"(stored-data) what is written EARLY is read back LATE, on the request server over the package's own InMemHandler (which keeps what it is given to write) and on the os-backed server: a session makes 1…3 files (OPEN with creation, for writing or reading and writing, emptied or not) and writes them in one of seven shapes — one chunk at offset 0 of the empty file, 2…5 chunks in turn or pipelined, a longer chunk over a shorter one, a hole first and then a chunk at 0, truncation (FSETSTAT / SETSTAT size) and a new chunk at 0; chunk lengths 1…1500 bytes with the 20…28 bytes around the header of a WRITE, some of 4…8 KiB, few of 20000…65536 — leaves them open or closes them, then sends 0…40 requests of 18 kinds and frame lengths of 13 bytes … 30 KiB (WRITEs to another file, READs, STAT / LSTAT of short and of 200-byte names, REALPATH of 30…20000 bytes, READLINK, MKDIR with attributes, RENAME, REMOVE, SETSTAT with extended pairs, SYMLINK, OPEN / CLOSE of other files, FSTAT, OPENDIR + READDIR + CLOSE, unknown extension), one after the other or in bursts of 2…6 whose requests touch different objects, and only then reads every file back — through the handle it was written through or a newly opened one, whole, in pieces, beginning and end, with FSTAT and STAT / LSTAT of its size; one session in three appends to the files, sends more traffic and reads back again; start / working directory on every second session, max-tx-packet 65536 on one in four; quick 170 + 110 sessions, thorough 15 times as many. Times in ATTRS / NAME replies (the objects are made by the session) are not compared. " +
		"(frame-limits) WELL-FORMED requests whose frame is exactly N bytes long, N at and around the limit of the receive path (262144 = the longest frame a server takes = the size of an allocator page): limit + d for d in −32768, −4096, −1000, −283…−277, −257…−255, −26…−21, −14…−12, −9, −8, −5…0, 1…5, 8, 9, 12…14, 17, 21…27, 30, 64, 100, 128, 255…257, 276…283, 300, 512, 1000, 1024, 4095…4097, 32768, 65536, 262143…262145, 786432 (the sizes of the header fields of a request, of the bytes in front of the data of a WRITE with handles of 1 … 256 bytes, whole pages) and a PRNG sample (thorough: all for the WRITE into a file, every third for the other requests) of d = −40 … 320; as a WRITE whose data fills the frame — into the middle of a file, as the single first chunk of an empty file, on a read-only server (refused) —, as REALPATH / READLINK whose path fills it, and as READ / FSTAT / unknown extension followed by trailing bytes; after PRNG primers (WRITEs and READs that leave recognisable bytes in the pages), every second session with a frame of a length the servers take first; where the server goes on, READs of both ends of the written region, FSTAT and a READ of known content follow; on the request server (instrumented handlers and InMemHandler) and the os-backed server (ReadOnly x working directory). Such a frame is written while the reply or the end of the server's output is awaited (a server that refuses a frame stops reading inside it). These sessions run in a process of their own; where that process dies, the scenario is run once more without the allocator, and the death is reported as the allocator's doing (alloc/server-dies/…) if it then runs through"
	thorough := c.Tier == "thorough"
	if t := gCurCfg(c, "c18", "11111:262144:32768"); len(t) >= 4 {
		c18Bits = t[:4]
	}
	modelOK := gProbeModel(c, "c18.run 11111 L A:01 T:0:1 W:0:aa D:0:1 S:0 X:0")
	if !modelOK {
		r.Skip("model comparison skipped: driver op `c18.run <cfg> <action>*` with the actions L A T W D O S X F (lean/Sftp/Driver/C18.lean) is not served by the driver binary given with --model")
	}
	describe := func(raw json.RawMessage) (string, any) {
		var st c18Stream
		json.Unmarshal(raw, &st)
		if st.Scn != nil {
			return st.Scn.Server, st
		}
		return st.Case.Prog.Server, st
	}

	var jobs, limitJobs []json.RawMessage
	if c.Replay != "" {
		var st struct {
			c18Stream
			MaxTx int `json:"max_tx_packet"`
		}
		if err := lib.ReadReplay(c.Replay, &st); err != nil {
			r.Fail(lib.Failure{Kind: "tie", Key: "replay", What: err.Error()})
			return
		}
		if st.MaxTx != 0 { // the read-longer-than-a-page observation (F10)
			top, err := lib.MkScratch("vh-c18-")
			if err == nil {
				defer os.RemoveAll(top)
				c18F10(c, top)
			}
			return
		}
		jobs = append(jobs, gJSON(st.c18Stream))
	} else {
		styles := []string{"uniform", "fifo", "lifo", "first-last"}
		add := func(fam string, p gProg, modes ...string) {
			for _, m := range modes {
				cs := gCase{Prog: p, Mode: m, Tag: fam}
				switch {
				case m == "sleep":
					cs.Seed = c.Rand.Int63()
				case strings.HasPrefix(m, "gated"):
					cs.Mode = "gated"
					cs.Order = c02RandomOrder(p, c.Rand, strings.TrimPrefix(m, "gated/"))
				}
				jobs = append(jobs, gJSON(c18Stream{Case: cs, Fam: fam}))
			}
		}
		// Sessions first (c18_sess.go): servers started from ONE list of option values with overlapping sessions, and
		// sessions with malformed / inconsistent frames; their failures are decided by the harness alone.
		for _, server := range []string{"rs", "os"} {
			for _, st := range c18ReuseJobs(c.Rand, server, thorough) {
				jobs = append(jobs, gJSON(st))
			}
		}
		for _, server := range []string{"rs", "os"} {
			for _, st := range c18MalformedJobs(c.Rand, server, thorough) {
				jobs = append(jobs, gJSON(st))
			}
		}
		// What is written early is read back late (c18_store.go): the request server over the package's InMemHandler,
		// which stores what it is given, and the os-backed server.
		for _, server := range []string{"mem", "os"} {
			for _, st := range c18StoreJobs(c.Rand, server, thorough) {
				jobs = append(jobs, gJSON(st))
			}
		}
		// Frames of every length around the limit of the receive path (c18_store.go); run in a process of their own: a
		// server that dies on such a frame takes its process with it, and the batch is then run again case by case.
		for _, st := range c18LimitJobs(c.Rand, thorough) {
			limitJobs = append(limitJobs, gJSON(st))
		}
		for _, server := range []string{"rs", "os"} {
			nMixed, nReads, nWrites, nHeld, nPaths := 150, 12, 12, 30, 16
			if thorough {
				nMixed, nReads, nWrites, nHeld, nPaths = 5000, 150, 300, 500, 200 // the last four times the 4 (os-backed) / 2 (request server) option combinations
			}
			// Options. Every stream below is run (allocator off, then on) on a server started with an option
			// combination: os-backed ReadOnly x working directory, request server start directory (c18Opts) and, for
			// the mixed family on the request server, a handler set lacking optional interfaces (dealt from the deck
			// of C02). quick: the combinations rotate over the streams of a family; thorough: every stream of the
			// read-lengths, writes, held and paths families under every combination.
			opts := c18Opts(server)
			turn := 0
			under := func(f func(o c02Opt)) {
				turn++
				for j, o := range opts {
					if thorough || j == turn%len(opts) {
						f(o)
					}
				}
			}
			// The attrs family goes first: its gated cases are decided by the harness alone (the command is held, the whole
			// stream is taken in before a gate is opened), so the failures that are written out for replay are of that kind.
			nAttrs := 36
			if thorough {
				nAttrs = 600
			}
			var attrProgs []gProg
			for k := 0; k < nAttrs; k++ {
				seed := c.Rand.Int63()
				under(func(o c02Opt) {
					p, block := c18AttrProgram(rand.New(rand.NewSource(seed)), server, o.ReadOnly)
					o.apply(&p)
					if o.WorkDir {
						for i := range p.Ops {
							p.Ops[i].Abs = p.Ops[i].P != "" && (i+k)%4 == 0
						}
					}
					attrProgs = append(attrProgs, p)
					jobs = append(jobs, gJSON(c18Stream{Case: gCase{Prog: p, Mode: "gated", Order: c18HoldOrder(p, block, c.Rand), Tag: "attrs/behind-held-command"}, Fam: "attrs"}))
				})
			}
			for k, p := range attrProgs {
				add("attrs", p, []string{"gated/fifo", "sleep", "free", "serial", "gated/uniform", "sleep"}[k%6])
			}
			deck := newC02Deck(c.Rand, server, thorough, nil)
			for k := 0; k < nMixed; k++ {
				g := newC02OptGen(c.Rand, server, deck.next().Opt)
				g.noMis, g.noTime = true, server == "os"
				p := g.program(1+c.Rand.Intn(30), []string{"seq", "rand", "same"}[c.Rand.Intn(3)])
				add("mixed", p, []string{"serial", "free", "sleep"}[k%3], "gated/"+styles[c.Rand.Intn(4)])
			}
			for _, mt := range []uint32{0, 65536, c18PageSize - 13, c18PageSize} {
				for _, o := range opts { // the sweep over every length: under every combination in both tiers
					p := c18LenSweep(server, mt)
					o.apply(&p)
					if o.zero() || thorough {
						add("read-lengths", p, "serial", "free", "gated/fifo", "gated/lifo", "gated/uniform")
					} else {
						add("read-lengths", p, "serial", "gated/uniform")
					}
				}
				for k := 0; k < nReads; k++ {
					p := c18ReadProgram(c.Rand, server, mt, 2+c.Rand.Intn(14))
					under(func(o c02Opt) {
						o.apply(&p)
						add("read-lengths", p, []string{"serial", "free", "sleep"}[k%3], "gated/"+styles[c.Rand.Intn(4)])
					})
				}
			}
			for k := 0; k < nWrites; k++ {
				n, seed := 2+c.Rand.Intn(10), c.Rand.Int63()
				under(func(o c02Opt) {
					p := c18WriteProgram(rand.New(rand.NewSource(seed)), server, n, o.ReadOnly)
					o.apply(&p)
					add("writes", p, []string{"serial", "free"}[k%2], "gated/"+styles[c.Rand.Intn(4)])
				})
			}
			if server == "os" && !thorough { // the refusal of WRITEs of every size by a read-only server: more of them than the rotation leaves
				for k := 0; k < 8; k++ {
					p := c18WriteProgram(c.Rand, server, 2+c.Rand.Intn(10), true)
					c02Opt{ReadOnly: true, WorkDir: k%2 == 1}.apply(&p)
					add("writes", p, []string{"serial", "free", "sleep"}[k%3], "gated/"+styles[c.Rand.Intn(4)])
				}
			}
			for k := 0; k < nPaths; k++ {
				p := c18PathProgram(c.Rand, server, 2+c.Rand.Intn(14))
				under(func(o c02Opt) {
					o.apply(&p)
					add("paths", p, []string{"serial", "free", "sleep"}[k%3], "gated/"+styles[c.Rand.Intn(4)])
				})
			}
			for k := 0; k < nHeld; k++ {
				p := c18ManyReads(c.Rand, server, 24+c.Rand.Intn(41))
				hold := c.Rand.Intn(8)
				if k%3 == 0 {
					hold = 0
				}
				under(func(o c02Opt) {
					o.apply(&p)
					jobs = append(jobs, gJSON(c18Stream{Case: gCase{Prog: p, Mode: "gated", Order: c18HoldOrder(p, hold, c.Rand), Tag: fmt.Sprintf("held/request-%d-last", hold)}, Fam: "held"}))
				})
			}
		}
	}

	sums := gRunBatches(c, "c18", jobs, 1200, modelOK, describe)
	if len(limitJobs) > 0 {
		sums = append(sums, gRunBatches(c, "c18", limitJobs, map[bool]int{false: 1000, true: 400}[thorough], modelOK, describe)...)
		jobs = append(jobs, limitJobs...)
	}
	c18AttributeDeaths(c, jobs, sums, describe)
	gMerge(r, sums, 4)
	if modelOK {
		done, skipped := 0, 0
		for _, s := range sums {
			for _, h := range s.Hist {
				switch {
				case h == "model-comparison=done":
					done++
				case strings.HasPrefix(h, "model-comparison=skipped/"):
					skipped++
				}
			}
		}
		r.Note("allocator model: %d pairs of runs replayed, %d serial/gated pairs not replayed (reasons in the histogram under model-comparison=skipped/…: the model takes schedules in which every request makes a held call, replies of at most 40000 bytes in all, at most 8 requests; a pipelined stream with a request that a read-only server refuses or that is answered without a handler has no such schedule); the options ReadOnly and working / start directory do not appear in the model's configuration, its actions are the same with and without them", done, skipped)
	}
	if modelOK {
		var lines []string
		var wants []c18Want
		var owner []int
		for i, s := range sums {
			for k := range s.Wants {
				lines = append(lines, s.Lines[k])
				wants = append(wants, s.Wants[k])
				owner = append(owner, i)
			}
		}
		if len(lines) > 0 {
			out, err := c.Model(lines)
			if err != nil {
				r.Fail(lib.Failure{Kind: "tie", Key: "c18/model-driver", What: err.Error()})
			} else {
				for i, o := range out {
					w := wants[i]
					var wireS string
					var used, avail, pan int
					if _, err := fmt.Sscanf(o, "wire=%s used=%d avail=%d panic=%d", &wireS, &used, &avail, &pan); err != nil {
						r.Fail(lib.Failure{Kind: "correspondence", Key: "c18/c18.run", What: "the model does not accept the schedule the implementation ran", Input: lines[i][:min(len(lines[i]), 2000)], Actual: o})
						continue
					}
					// without the allocator the implementation has no tables: only the bytes are compared
					okUsed := !w.On || used == w.Used
					okEnd := !w.End || !w.On || avail == 0
					if wireS != w.Wire || pan != 0 || !okUsed || !okEnd {
						r.Fail(lib.Failure{Kind: "correspondence", Key: "c18/c18.run", What: "model and implementation differ (reply bytes, pages in use, or panic)", Input: sums[owner[i]].Text,
							Expected: o[:min(len(o), 600)], Actual: fmt.Sprintf("wire=%s used=%d", w.Wire[:min(len(w.Wire), 400)], w.Used)})
					}
				}
			}
		}
	}
	if c.Replay != "" {
		return
	}
	top, err := lib.MkScratch("vh-c18-")
	if err != nil {
		r.Fail(lib.Failure{Kind: "tie", Key: "harness/tmpdir", What: err.Error()})
		return
	}
	defer os.RemoveAll(top)
	c18F10(c, top)
}

// c18AttributeDeaths: the process running a scenario (both runs of it) died. The scenario is run once more without
// the allocator only; if it runs through, the death is the allocator's doing and the failure says so.
func c18AttributeDeaths(c *lib.Ctx, jobs []json.RawMessage, sums []gSummary, describe func(json.RawMessage) (string, any)) {
	var idx []int
	var again []json.RawMessage
	for i := range sums {
		if i >= len(jobs) || len(sums[i].Hist) != 1 || sums[i].Hist[0] != "child-died" || len(sums[i].Fails) != 1 {
			continue
		}
		var st c18Stream
		if json.Unmarshal(jobs[i], &st) != nil || st.Scn == nil {
			continue
		}
		scn := *st.Scn
		scn.Only = "off"
		st.Scn = &scn
		idx, again = append(idx, i), append(again, gJSON(st))
	}
	if len(again) == 0 {
		return
	}
	res := gRunBatches(c, "c18", again, 1000, false, describe)
	for k, i := range idx {
		if k >= len(res) || res[k].NotRun || len(res[k].Fails) != 0 {
			continue
		}
		server, _ := describe(jobs[i])
		f := &sums[i].Fails[0]
		f.Key = "alloc/server-dies/" + server
		f.What = "only with the allocator (the same scenario runs through on servers without it): " + f.What
		sums[i].Hist = append(sums[i].Hist, "child-died/only-with-allocator")
	}
}

// ---- F10: READ longer than a page with max-tx-packet above the page size (run in a child: the worker panics) ----

func c18F10Child(args []string) {
	if len(args) != 3 {
		os.Exit(2)
	}
	cs := gCase{Mode: "free", Root: args[2], Prog: gProg{Server: args[0], Alloc: args[1] == "on", MaxTx: 300000,
		Handles: []gHandle{{Name: "r0", Kind: "get", Path: "f0"}},
		Ops:     []gOp{{K: "read", H: "r0", Off: 0, Len: 300000, ID: 9}}}}
	run := gExec(&cs)
	out := map[string]any{}
	if run.Fault != nil {
		out["fault"] = run.Fault.Key + ": " + run.Fault.What
	} else {
		out["reply"] = gFrameText(run.Frames[0])
		out["oracle_failures"] = len(gCheckCommon(run))
	}
	b, _ := json.Marshal(out)
	fmt.Println(string(b))
}

func c18F10(c *lib.Ctx, top string) {
	r := c.R
	type obs struct {
		Server, Allocator string
		Exit              string
		Stdout            string
		Stderr            string
	}
	for _, server := range []string{"os", "rs"} {
		if c.StopN("c18/"+server, 2) {
			continue
		}
		var seen []obs
		for _, al := range []string{"off", "on"} {
			root := filepath.Join(top, "f10-"+server+"-"+al)
			cmd := exec.Command(os.Args[0], "child", "c18-f10", server, al, root)
			cmd.Env = append(os.Environ(), "GOMEMLIMIT=1GiB", "GOTRACEBACK=single")
			var so, se bytes.Buffer
			cmd.Stdout, cmd.Stderr = &so, &se
			done := make(chan error, 1)
			if err := cmd.Start(); err != nil {
				r.Fail(lib.Failure{Kind: "tie", Key: "harness/child", What: err.Error()})
				return
			}
			go func() { done <- cmd.Wait() }()
			exit := "0"
			select {
			case err := <-done:
				if err != nil {
					exit = err.Error()
				}
			case <-time.After(60 * time.Second):
				cmd.Process.Kill()
				lib.SpendHang("c18/"+server, 60*time.Second)
				exit = "killed after 60 s"
			}
			lines := strings.Split(se.String(), "\n")
			if len(lines) > 12 {
				lines = lines[:12]
			}
			seen = append(seen, obs{server, al, exit, strings.TrimSpace(so.String()), strings.Join(lines, "\n")})
			r.Case("f10 "+server+" "+al, true)
			r.Hist("family=read-over-page(child)")
		}
		offOK := seen[0].Exit == "0" && strings.Contains(seen[0].Stdout, "DATA id=9 len=300000")
		onOK := seen[1].Exit == "0" && strings.Contains(seen[1].Stdout, "DATA id=9 len=300000")
		switch {
		case offOK && onOK:
		case offOK && !onOK:
			r.Fail(lib.Failure{Kind: "oracle", Key: "alloc/read-len-over-page",
				What:     "with the allocator on and max-tx-packet above the page size (262144), a READ longer than a page does not get the reply it gets without the allocator (former defect F10: the worker sliced a 262144-byte page to the requested length and panicked)",
				Input:    map[string]any{"server": server, "max_tx_packet": 300000, "request": "READ len=300000 off=0 on a 600000-byte file", "how": "vh child c18-f10 " + server + " on <scratch>"},
				Expected: seen[0], Actual: seen[1]})
		default:
			r.Fail(lib.Failure{Kind: "oracle", Key: "alloc/read-over-page-baseline/" + server, What: "READ of 300000 bytes with max-tx-packet 300000 failed even without the allocator",
				Input: map[string]any{"server": server}, Actual: seen})
		}
	}
}
