package main

// C06, third part: the filexfer Buffer's own API as a state machine.
//
// Every encoder and decoder of the filexfer codec is written against sshfx.Buffer (Append*/Consume*,
// StartPacket/PutLength/Packet, Bytes/Len/Cap, Reset, MarshalBinary/UnmarshalBinary, the sticky Err), and the
// Buffer is exported API meant to be REUSED ("Reset … retains the underlying storage for use by future
// Appends"). "Decoding the encoding yields the packet, the encodings are the draft's bytes" therefore has to
// hold for a Buffer in ANY state its API can bring it into, not only for the fresh Buffers the packets'
// MarshalPacket / UnmarshalBinary conveniences create.
//
// A case is a sequence of operations on ONE Buffer (mode "fx-buffer", c06ReuseIn.Ops). The reference is a
// model written here: a byte slice, a read offset and a sticky error flag; Reset and StartPacket clear all
// three. After EVERY operation the results of the operation and Len(), Err, Bytes(), Cap() of the Buffer
// must agree with the model. The codec's own entry points that take a *Buffer are operations too:
//   m-attrs m-name m-pair m-xattr m-ext : MarshalInto of Attributes, NameEntry, ExtensionPair,
//         ExtendedAttribute and the OpenSSH extension data types; the model appends the value's encoding
//         by the independent harness codec (the op carries it, the value is parsed from it)
//   u-attrs u-name u-pair u-xattr u-ext u-body u-req u-raw : UnmarshalFrom / UnmarshalPacketBody /
//         RequestPacket.UnmarshalFrom / RawPacket.UnmarshalFrom; the reference is the same call on a FRESH
//         Buffer holding exactly the model's unconsumed bytes (values, error, bytes consumed)
// Generators: PRNG sequences of 1..30 operations (appends of boundary values, consumes that match what was
// appended and consumes that do not, short consumes, Reset/StartPacket/PutLength/Packet/UnmarshalBinary in
// between), every sequence up to a small length over a small alphabet, hand-written sequences, and for
// EVERY packet kind: encode A field by field, read it back, Reset, encode B => the bytes are the frame of B
// by the independent codec; decode a cut body (short), Reset, load and decode a complete body => success,
// equal to the decode from a fresh Buffer. A failing sequence is minimised (operations removed while the
// same oracle still fails) before it is reported.

import (
	"bytes"
	"encoding/binary"
	"encoding/hex"
	"fmt"
	"strconv"

	"github.com/pkg/sftp"

	"verifharness/lib"
	"verifharness/wire"
)

// c06BufOp is one operation on the Buffer.
type c06BufOp struct {
	Op   string `json:"op"`
	N    uint64 `json:"n,omitempty"`    // numeric argument (value, size, request id, extra capacity)
	T    uint8  `json:"t,omitempty"`    // packet type of "start"
	B    string `json:"b,omitempty"`    // bytes argument (hex): contents, payload, string, the independent encoding of a value
	L    int    `json:"l,omitempty"`    // hint of "cbsc": make([]byte, l, c); c < 0: nil
	C    int    `json:"c,omitempty"`    //
	Kind string `json:"kind,omitempty"` // packet kind of u-body / m-ext / u-ext
	Want string `json:"want,omitempty"` // "ok" | "short": outcome of a decode where the generator knows it
	X    string `json:"x,omitempty"`    // expected Packet() header‖payload resp. Bytes() (hex) where known from the independent codec
}

func c06hx(b []byte) string { return hex.EncodeToString(b) }
func c06unhx(s string) ([]byte, error) {
	if s == "-" {
		return nil, nil
	}
	return hex.DecodeString(s)
}

// ---- the reference model ----

type c06BufModel struct {
	b   []byte
	off int
	err bool
}

func (m *c06BufModel) rest() []byte { return m.b[m.off:] }
func (m *c06BufModel) fail()        { m.off, m.err = len(m.b), true }
func (m *c06BufModel) take(n int) ([]byte, bool) {
	if m.err {
		return nil, false
	}
	if n < 0 || len(m.b)-m.off < n {
		m.fail()
		return nil, false
	}
	v := m.b[m.off : m.off+n]
	m.off += n
	return v, true
}
func (m *c06BufModel) u(n int) uint64 {
	v, ok := m.take(n)
	if !ok {
		return 0
	}
	var x uint64
	for _, c := range v {
		x = x<<8 | uint64(c)
	}
	return x
}
func (m *c06BufModel) slice() []byte {
	n := m.u(4)
	if m.err {
		return nil
	}
	if uint64(len(m.rest())) < n {
		m.fail()
		return nil
	}
	v, _ := m.take(int(n))
	return v
}
func (m *c06BufModel) put(v ...byte) { m.b = append(m.b[:len(m.b):len(m.b)], v...) }
func (m *c06BufModel) putU(x uint64, n int) {
	for i := n - 1; i >= 0; i-- {
		m.put(byte(x >> (8 * uint(i))))
	}
}
func (m *c06BufModel) putLen(size int) {
	for len(m.b) < 4 {
		m.put(0)
	}
	m.b = append([]byte{}, m.b...)
	binary.BigEndian.PutUint32(m.b, uint32(size))
}

var c06BufConsumeWidth = map[string]int{"cu8": 1, "cbool": 1, "cu16": 2, "cu32": 4, "ccount": 4, "cu64": 8, "ci64": 8}
var c06BufAppendWidth = map[string]int{"au8": 1, "abool": 1, "au16": 2, "au32": 4, "acount": 4, "au64": 8, "ai64": 8}

func c06BufIsCtor(op string) bool { return op == "zero" || op == "new" || op == "marshal" }
func c06BufIsCompoundConsume(op string) bool {
	switch op {
	case "u-attrs", "u-name", "u-pair", "u-xattr", "u-ext", "u-body", "u-req", "u-raw":
		return true
	}
	return false
}

// apply runs a constructor, a primitive or a MarshalInto operation on the model and renders its result.
func (m *c06BufModel) apply(op c06BufOp, data []byte) (res string) {
	if w, ok := c06BufConsumeWidth[op.Op]; ok {
		x := m.u(w)
		switch op.Op {
		case "cbool":
			return strconv.FormatBool(x != 0)
		case "ccount":
			return strconv.Itoa(int(uint32(x)))
		case "ci64":
			return strconv.FormatInt(int64(x), 10)
		}
		return strconv.FormatUint(x, 10)
	}
	if w, ok := c06BufAppendWidth[op.Op]; ok {
		x := op.N
		if op.Op == "abool" && x != 0 {
			x = 1
		}
		m.putU(x, w)
		return ""
	}
	switch op.Op {
	case "zero", "reset":
		*m = c06BufModel{}
	case "new":
		*m = c06BufModel{b: append([]byte{}, data...)}
	case "marshal":
		*m = c06BufModel{b: make([]byte, 9+int(op.N))}
	case "start":
		*m = c06BufModel{}
		m.put(0, 0, 0, 0, op.T)
		m.putU(op.N&0xffffffff, 4)
	case "putlen":
		m.putLen(int(op.N))
	case "packet":
		m.putLen(len(m.b) - 4 + len(data))
		return c06hx(m.b) + "|" + c06hx(data)
	case "marshalbin":
		return c06hx(m.b)
	case "unmarshalbin": // "sets the internal buffer of b to be a clone of data, and zeros the internal offset"
		m.b, m.off = append([]byte{}, data...), 0
	case "obs":
	case "cbs", "cbsc", "cstr":
		return c06hx(m.slice())
	case "abs", "astr":
		m.putU(uint64(len(data)), 4)
		m.put(data...)
	case "araw", "m-attrs", "m-name", "m-pair", "m-xattr", "m-ext":
		m.put(data...)
	}
	return ""
}

// ---- the implementation side ----

func c06BufParseSt(d *wire.D) (uint32, sftp.FileStat) {
	w := d.St()
	st := sftp.FileStat{Size: w.Size, UID: w.UID, GID: w.GID, Mode: w.Perm, Atime: w.Atime, Mtime: w.Mtime}
	for _, e := range w.Ext {
		st.Extended = append(st.Extended, sftp.StatExtended{ExtType: e[0], ExtData: e[1]})
	}
	return w.Flags, st
}

// c06BufExtFields: the extension-specific data of the OpenSSH kinds, in the draft's order.
var c06BufExtFields = map[string][]string{"ExtStatVFS": {"Path"}, "ExtPosixRename": {"Path", "Path2"}, "ExtHardlink": {"Path", "Path2"}, "ExtFsync": {"Handle"}}

// c06BufImpl runs a primitive or MarshalInto operation on the Buffer and renders its result like the model does.
func c06BufImpl(h *sftp.VerifFxBuf, op c06BufOp, data []byte) (res string, err error) {
	switch op.Op {
	case "cu8":
		return strconv.FormatUint(uint64(h.ConsumeUint8()), 10), nil
	case "cbool":
		return strconv.FormatBool(h.ConsumeBool()), nil
	case "cu16":
		return strconv.FormatUint(uint64(h.ConsumeUint16()), 10), nil
	case "cu32":
		return strconv.FormatUint(uint64(h.ConsumeUint32()), 10), nil
	case "ccount":
		return strconv.Itoa(h.ConsumeCount()), nil
	case "cu64":
		return strconv.FormatUint(h.ConsumeUint64(), 10), nil
	case "ci64":
		return strconv.FormatInt(h.ConsumeInt64(), 10), nil
	case "cbs":
		v, _ := h.ConsumeByteSlice()
		return c06hx(v), nil
	case "cbsc":
		return c06hx(h.ConsumeByteSliceCopy(op.L, op.C, c06Fill)), nil
	case "cstr":
		return c06hx([]byte(h.ConsumeString())), nil
	case "au8":
		h.AppendUint8(uint8(op.N))
	case "abool":
		h.AppendBool(op.N != 0)
	case "au16":
		h.AppendUint16(uint16(op.N))
	case "au32":
		h.AppendUint32(uint32(op.N))
	case "acount":
		h.AppendCount(int(uint32(op.N)))
	case "au64":
		h.AppendUint64(op.N)
	case "ai64":
		h.AppendInt64(int64(op.N))
	case "abs":
		h.AppendByteSlice(data)
	case "astr":
		h.AppendString(string(data))
	case "araw":
		h.AppendRaw(data)
	case "reset":
		h.Reset()
	case "start":
		h.StartPacket(op.T, uint32(op.N))
	case "putlen":
		h.PutLength(int(op.N))
	case "packet":
		hd, pl, err := h.Packet(data)
		if err != nil {
			return "", nil
		}
		return c06hx(hd) + "|" + c06hx(pl), nil
	case "marshalbin":
		b, err := h.MarshalBinary()
		if err != nil {
			return "error " + err.Error(), nil
		}
		return c06hx(b), nil
	case "unmarshalbin":
		if err := h.UnmarshalBinary(data); err != nil {
			return "error " + err.Error(), nil
		}
	case "obs":
	case "m-attrs":
		d := wire.D{B: data}
		f, st := c06BufParseSt(&d)
		if d.Err != nil || len(d.B) != 0 {
			return "", fmt.Errorf("m-attrs: b is not one attribute block")
		}
		h.MarshalAttrsInto(f, st)
	case "m-name":
		d := wire.D{B: data}
		n := sftp.VerifName{Name: d.Str(), LongName: d.Str()}
		n.Flags, n.Stat = c06BufParseSt(&d)
		if d.Err != nil || len(d.B) != 0 {
			return "", fmt.Errorf("m-name: b is not one name entry")
		}
		h.MarshalNameInto(n)
	case "m-pair", "m-xattr":
		d := wire.D{B: data}
		a, b := d.Str(), d.Str()
		if d.Err != nil || len(d.B) != 0 {
			return "", fmt.Errorf("%s: b is not two strings", op.Op)
		}
		h.MarshalPairInto(op.Op == "m-xattr", a, b)
	case "m-ext":
		v := sftp.VerifPkt{Kind: op.Kind}
		d := wire.D{B: data}
		if op.Kind == "VFS" {
			for i := range v.VFS {
				v.VFS[i] = d.U64()
			}
		} else {
			fs, ok := c06BufExtFields[op.Kind]
			if !ok {
				return "", fmt.Errorf("m-ext: unknown kind %q", op.Kind)
			}
			for _, f := range fs {
				s := d.Str()
				switch f {
				case "Path":
					v.Path = s
				case "Path2":
					v.Path2 = s
				case "Handle":
					v.Handle = s
				}
			}
		}
		if d.Err != nil || len(d.B) != 0 {
			return "", fmt.Errorf("m-ext: b is not the data of %s", op.Kind)
		}
		if err := h.MarshalExtDataInto(v); err != nil {
			return "", err
		}
	default:
		return "", fmt.Errorf("unknown operation %q", op.Op)
	}
	return "", nil
}

// c06BufDecode runs a compound decode operation on a Buffer and renders values and error.
func c06BufDecode(h *sftp.VerifFxBuf, op c06BufOp) (val string, err error, bad error) {
	switch op.Op {
	case "u-attrs":
		f, st, e := h.UnmarshalAttrsFrom()
		return fmt.Sprintf("%#x %+v", f, c06MaskStat(f, st)), e, nil
	case "u-name":
		n, e := h.UnmarshalNameFrom()
		n.Stat = c06MaskStat(n.Flags, n.Stat)
		return fmt.Sprintf("%+v", n), e, nil
	case "u-pair", "u-xattr":
		a, b, e := h.UnmarshalPairFrom(op.Op == "u-xattr")
		return c06hx([]byte(a)) + "=" + c06hx([]byte(b)), e, nil
	case "u-ext":
		if _, ok := c06BufExtFields[op.Kind]; !ok && op.Kind != "VFS" {
			return "", nil, fmt.Errorf("u-ext: unknown kind %q", op.Kind)
		}
		v, e := h.UnmarshalExtDataFrom(op.Kind)
		return fmt.Sprintf("%+v", v), e, nil
	case "u-body":
		if k, ok := c06KindByName(op.Kind); !ok || k.Name == "Init" || k.Name == "Version" {
			return "", nil, fmt.Errorf("u-body: kind %q has no UnmarshalPacketBody", op.Kind)
		}
		v, e := h.UnmarshalPacketBody(op.Kind)
		return fmt.Sprintf("%+v", c06Mask(v)), e, nil
	case "u-req", "u-raw":
		v, e := h.UnmarshalFrameFrom(op.Op == "u-raw")
		return fmt.Sprintf("%+v", c06Mask(v)), e, nil
	}
	return "", nil, fmt.Errorf("unknown operation %q", op.Op)
}

// c06BufDiv is the first disagreement between the Buffer and the reference in a sequence.
type c06BufDiv struct {
	At       int
	Key      string
	What     string
	Exp, Act any
	Tie      bool // the input is malformed (replay files only)
}

const c06ShortText = "packet too short"

// c06BufRun runs the operations on one Buffer and on the model; it returns the first disagreement.
func c06BufRun(ops []c06BufOp) (div *c06BufDiv) {
	var h *sftp.VerifFxBuf
	var m c06BufModel
	i, cur := 0, ""
	defer func() {
		if p := recover(); p != nil {
			div = &c06BufDiv{At: i, Key: "buffer/" + cur + "/panic", What: fmt.Sprintf("operation %d (%s) or the reading of the Buffer's state after it panicked", i, cur),
				Exp: fmt.Sprintf("model: %d unconsumed bytes %s, error %v", len(m.rest()), c06hx(m.rest()), m.err), Act: fmt.Sprint(p)}
		}
	}()
	for i = 0; i < len(ops); i++ {
		op := ops[i]
		cur = op.Op
		bad := func(obs, what string, exp, act any) *c06BufDiv {
			return &c06BufDiv{At: i, Key: "buffer/" + op.Op + "/" + obs, What: fmt.Sprintf("after operation %d (%s): %s", i, op.Op, what), Exp: exp, Act: act}
		}
		tie := func(err error) *c06BufDiv {
			return &c06BufDiv{At: i, Key: "c06/replay-input", What: fmt.Sprintf("operation %d: %v", i, err), Tie: true}
		}
		data, err := c06unhx(op.B)
		if err != nil {
			return tie(err)
		}
		if h == nil && !c06BufIsCtor(op.Op) {
			return tie(fmt.Errorf("the first operation must create the Buffer (zero, new, marshal)"))
		}
		capBefore := -1
		switch {
		case op.Op == "zero":
			h = sftp.VerifFxBufZero()
			m.apply(op, data)
		case op.Op == "new":
			h = sftp.VerifFxBufNew(data, int(op.N))
			m.apply(op, data)
		case op.Op == "marshal":
			if op.N > 1<<20 {
				return tie(fmt.Errorf("marshal size too large"))
			}
			h = sftp.VerifFxBufMarshal(int(op.N))
			m.apply(op, data)
		case c06BufIsCompoundConsume(op.Op):
			if m.err {
				// every Consume of a Buffer whose Err is set returns the zero value and leaves the Buffer as it is
				_, e, badIn := c06BufDecode(h, op)
				if badIn != nil {
					return tie(badIn)
				}
				k, _ := c06KindByName(op.Kind)
				if e == nil && !(op.Op == "u-body" && k.Typ == 201) { // the extended reply hands Bytes() on without a Consume
					return bad("result", "a decoder reading from a Buffer whose Err is set reports success", c06ShortText, "nil error")
				}
				break
			}
			rest := append([]byte{}, m.rest()...)
			twin := sftp.VerifFxBufNew(rest, 0)
			tv, te, badIn := c06BufDecode(twin, op)
			if badIn != nil {
				return tie(badIn)
			}
			v, e, _ := c06BufDecode(h, op)
			if fmt.Sprint(e) != fmt.Sprint(te) || (e == nil && v != tv) {
				return bad("result", "the decoder gives another result from this Buffer than from a fresh Buffer holding the same unconsumed bytes "+c06hx(rest),
					fmt.Sprintf("%s err=%v", tv, te), fmt.Sprintf("%s err=%v", v, e))
			}
			if op.Want == "ok" && e != nil || op.Want == "short" && (e == nil || e.Error() != c06ShortText) {
				return bad("outcome", "decoding these bytes must give: "+op.Want, op.Want, fmt.Sprintf("%s err=%v", v, e))
			}
			if twin.Len() > len(rest) {
				return bad("result", "a fresh Buffer has more unconsumed bytes after a decode than before", len(rest), twin.Len())
			}
			m.off += len(rest) - twin.Len()
			m.err = twin.Err() != nil
		default:
			capBefore = h.Cap()
			exp := m.apply(op, data)
			got, err := c06BufImpl(h, op, data)
			if err != nil {
				return tie(err)
			}
			if got != exp {
				return bad("result", "the operation's result differs from the reference", exp, got)
			}
			if op.Op == "packet" && op.X != "" {
				if fr := got[:len(got)-len(c06hx(data))-1] + c06hx(data); fr != op.X {
					return bad("frame", "header‖payload of Packet() is not the frame of the packet by the independent codec", op.X, fr)
				}
			}
		}
		// the Buffer's state
		if l := h.Len(); l != len(m.rest()) {
			return bad("len", "Len() differs from the reference's number of unconsumed bytes", len(m.rest()), l)
		}
		if e := h.Err(); (e != nil) != m.err || (e != nil && !h.ErrIsShort()) {
			exp := "nil"
			if m.err {
				exp = c06ShortText
			}
			return bad("err", "Err differs from the reference's sticky error", exp, fmt.Sprint(e))
		}
		if b := h.Bytes(); !bytes.Equal(b, m.rest()) {
			return bad("bytes", "Bytes() differs from the reference's unconsumed bytes", c06hx(m.rest()), c06hx(b))
		}
		if op.Op == "obs" && op.X != "" && c06hx(m.rest()) != op.X {
			return bad("frame", "Bytes() is not the frame of the packet by the independent codec", op.X, c06hx(m.rest()))
		}
		if cp := h.Cap(); cp < len(m.b) {
			return bad("cap", "Cap() is smaller than the number of bytes the Buffer holds", fmt.Sprint(">= ", len(m.b)), cp)
		} else if op.Op == "reset" && cp != capBefore {
			return bad("cap", "Reset does not retain the underlying storage (Cap() changed)", capBefore, cp)
		}
	}
	return nil
}

// c06BufMinimise removes operations while the same oracle keeps failing.
func c06BufMinimise(ops []c06BufOp, d *c06BufDiv) ([]c06BufOp, *c06BufDiv) {
	ops = append([]c06BufOp{}, ops[:d.At+1]...)
	try := func(cand []c06BufOp) bool {
		if nd := c06BufRun(cand); nd != nil && nd.Key == d.Key {
			ops, d = append([]c06BufOp{}, cand[:nd.At+1]...), nd
			return true
		}
		return false
	}
	for changed := true; changed; {
		changed = false
		for j := len(ops) - 2; j >= 1 && j < len(ops); j-- {
			if try(append(append([]c06BufOp{}, ops[:j]...), ops[j+1:]...)) {
				changed = true
			}
		}
		if ops[0].Op != "zero" && try(append([]c06BufOp{{Op: "zero"}}, ops[1:]...)) {
			changed = true
		}
	}
	// plain arguments where they do not matter
	for j := 1; j < len(ops); j++ {
		if _, ok := c06BufAppendWidth[ops[j].Op]; ok && ops[j].N != 1 {
			cand := append([]c06BufOp{}, ops...)
			cand[j].N = 1
			try(cand)
		}
	}
	return ops, d
}

// c06RunBuffer evaluates one fx-buffer case (called from c06RunReuse).
func c06RunBuffer(c *lib.Ctx, in c06ReuseIn) bool {
	d := c06BufRun(in.Ops)
	if d == nil {
		return true
	}
	if d.Tie {
		c.R.Fail(lib.Failure{Kind: "tie", Key: d.Key, What: d.What, Input: in})
		return false
	}
	in.Ops, d = c06BufMinimise(in.Ops, d)
	c.R.Fail(lib.Failure{Kind: "oracle", Key: d.Key, What: "one filexfer Buffer driven through this sequence of its own operations (minimised): " + d.What, Input: in, Expected: d.Exp, Actual: d.Act})
	return false
}

// ---- generators ----

// c06BufItem is one thing appended to the Buffer that a consume can match.
type c06BufItem struct {
	consume []string // operations that consume exactly this item
	kind    string
	n       int
}

func (g c06Gen) bufBytes() []byte {
	n := []int{0, 1, 3, 4, 12, 255, 1000}[g.c.Rand.Intn(7)]
	if g.c.Rand.Intn(3) > 0 {
		n = g.c.Rand.Intn(10)
	}
	b := make([]byte, n)
	g.c.Rand.Read(b)
	return b
}

func (g c06Gen) bufStBlock() []byte {
	f := g.flags(g.c.Rand.Intn(32))
	return c06WireSt(f, g.stat(f)).Block()
}

// bufAppend: one random append operation and the item it leaves in the Buffer.
func (g c06Gen) bufAppend() (c06BufOp, c06BufItem) {
	switch g.c.Rand.Intn(16) {
	case 0:
		return c06BufOp{Op: "au8", N: uint64(g.u32() & 0xff)}, c06BufItem{consume: []string{"cu8", "cbool"}, n: 1}
	case 1:
		return c06BufOp{Op: "abool", N: uint64(g.c.Rand.Intn(2))}, c06BufItem{consume: []string{"cbool", "cu8"}, n: 1}
	case 2:
		return c06BufOp{Op: "au16", N: uint64(g.u32() & 0xffff)}, c06BufItem{consume: []string{"cu16"}, n: 2}
	case 3, 4:
		return c06BufOp{Op: "au32", N: uint64(g.u32())}, c06BufItem{consume: []string{"cu32", "ccount"}, n: 4}
	case 5:
		return c06BufOp{Op: "acount", N: uint64(g.u32())}, c06BufItem{consume: []string{"ccount", "cu32"}, n: 4}
	case 6:
		return c06BufOp{Op: "au64", N: g.u64()}, c06BufItem{consume: []string{"cu64", "ci64"}, n: 8}
	case 7:
		return c06BufOp{Op: "ai64", N: g.u64()}, c06BufItem{consume: []string{"ci64", "cu64"}, n: 8}
	case 8, 9:
		b := g.bufBytes()
		return c06BufOp{Op: "abs", B: c06hx(b)}, c06BufItem{consume: []string{"cbs", "cbsc", "cstr"}, n: 4 + len(b)}
	case 10, 11:
		s := g.str()
		return c06BufOp{Op: "astr", B: c06hx([]byte(s))}, c06BufItem{consume: []string{"cstr", "cbs", "cbsc"}, n: 4 + len(s)}
	case 12:
		b := g.bufStBlock()
		return c06BufOp{Op: "m-attrs", B: c06hx(b)}, c06BufItem{consume: []string{"u-attrs"}, n: len(b)}
	case 13:
		b := wire.B{}.Str(g.str()).Str(g.str()).Raw(g.bufStBlock())
		return c06BufOp{Op: "m-name", B: c06hx(b)}, c06BufItem{consume: []string{"u-name"}, n: len(b)}
	case 14:
		b := wire.B{}.Str(g.str()).Str(g.str())
		if g.c.Rand.Intn(2) == 0 {
			return c06BufOp{Op: "m-pair", B: c06hx(b)}, c06BufItem{consume: []string{"u-pair", "u-xattr"}, n: len(b)}
		}
		return c06BufOp{Op: "m-xattr", B: c06hx(b)}, c06BufItem{consume: []string{"u-xattr", "u-pair"}, n: len(b)}
	}
	kind := []string{"ExtStatVFS", "ExtPosixRename", "ExtHardlink", "ExtFsync", "VFS"}[g.c.Rand.Intn(5)]
	var b wire.B
	if kind == "VFS" {
		for i := 0; i < 11; i++ {
			b = b.U64(g.u64())
		}
	} else {
		for range c06BufExtFields[kind] {
			b = b.Str(g.str())
		}
	}
	return c06BufOp{Op: "m-ext", Kind: kind, B: c06hx(b)}, c06BufItem{consume: []string{"u-ext"}, kind: kind, n: len(b)}
}

var c06BufPrimConsumes = []string{"cu8", "cbool", "cu16", "cu32", "ccount", "cu64", "ci64", "cbs", "cbsc", "cstr"}

// bufSeq: a PRNG sequence of n operations after the constructor. The model is run alongside, so that the generator knows
// the state (error set, what the next unconsumed item is) and can choose both fitting and unfitting operations.
func (g c06Gen) bufSeq(n int) []c06BufOp {
	rnd := g.c.Rand
	var m c06BufModel
	var ops []c06BufOp
	var items []c06BufItem
	pos, sync := 0, true
	emit := func(op c06BufOp) {
		d, _ := c06unhx(op.B)
		m.apply(op, d)
		ops = append(ops, op)
	}
	structured := func(k int) ([]byte, []c06BufItem) {
		var sm c06BufModel
		var its []c06BufItem
		for j := 0; j < k; j++ {
			op, it := g.bufAppend()
			d, _ := c06unhx(op.B)
			sm.apply(op, d)
			its = append(its, it)
		}
		return sm.b, its
	}
	junk := func() []byte {
		b := make([]byte, rnd.Intn(24))
		rnd.Read(b)
		if rnd.Intn(2) == 0 { // small numbers, so that length prefixes are sometimes satisfiable
			for j := range b {
				b[j] &= 3
			}
		}
		return b
	}
	switch rnd.Intn(10) {
	case 0, 1, 2:
		emit(c06BufOp{Op: "zero"})
	case 3, 4:
		emit(c06BufOp{Op: "new", B: c06hx(junk()), N: uint64(rnd.Intn(3) * rnd.Intn(40))})
		sync = false
	case 5, 6, 7:
		b, its := structured(1 + rnd.Intn(5))
		emit(c06BufOp{Op: "new", B: c06hx(b), N: uint64(rnd.Intn(3) * rnd.Intn(40))})
		items = its
	default:
		emit(c06BufOp{Op: "marshal", N: uint64(rnd.Intn(3) * rnd.Intn(40))})
		sync = false
	}
	// PutLength overwrites the first four bytes: the items keep their boundaries only if those bytes are consumed already
	// or belong to a fixed-width number
	keepsItems := func() bool {
		if len(m.b) < 4 {
			return false
		}
		if m.off >= 4 {
			return true
		}
		return len(items) > 0 && len(items[0].consume) > 0 && c06BufConsumeWidth[items[0].consume[0]] >= 4
	}
	hint := func(op *c06BufOp, n int) {
		if op.Op == "cbsc" {
			lc := c06LC(n)[rnd.Intn(len(c06LC(n)))]
			op.L, op.C = lc[0], lc[1]
		}
	}
	for len(ops) < n+1 {
		x := rnd.Intn(100)
		if m.err && x < 45 {
			x = 80 + rnd.Intn(12) // leave the error state: reset / start
		}
		switch {
		case x < 34: // append
			op, it := g.bufAppend()
			emit(op)
			items = append(items, it)
		case x < 60: // the consume that fits the next item
			if !sync || pos >= len(items) || m.err {
				op := c06BufOp{Op: c06BufPrimConsumes[rnd.Intn(len(c06BufPrimConsumes))]}
				hint(&op, rnd.Intn(8))
				emit(op)
				sync = false
				break
			}
			it := items[pos]
			pos++
			op := c06BufOp{Op: it.consume[0], Kind: it.kind}
			if rnd.Intn(3) == 0 {
				op.Op = it.consume[rnd.Intn(len(it.consume))]
			}
			hint(&op, it.n-4)
			if c06BufIsCompoundConsume(op.Op) {
				op.Want = "ok"
				m.take(it.n)
				ops = append(ops, op)
			} else {
				emit(op)
			}
		case x < 72: // any primitive consume (reads other things than were appended; runs short)
			op := c06BufOp{Op: c06BufPrimConsumes[rnd.Intn(len(c06BufPrimConsumes))]}
			hint(&op, rnd.Intn(8))
			emit(op)
			sync = false
		case x < 86:
			emit(c06BufOp{Op: "reset"})
			items, pos, sync = nil, 0, true
		case x < 91:
			emit(c06BufOp{Op: "start", T: uint8(g.u32()), N: uint64(g.u32())})
			items, pos, sync = []c06BufItem{{consume: []string{"cu32", "ccount"}, n: 4}, {consume: []string{"cu8"}, n: 1}, {consume: []string{"cu32"}, n: 4}}, 0, true
		case x < 93:
			sync = sync && keepsItems()
			emit(c06BufOp{Op: "putlen", N: uint64(g.u32())})
		case x < 95:
			sync = sync && keepsItems()
			emit(c06BufOp{Op: "packet", B: c06hx(g.bufBytes())})
		case x < 97:
			emit(c06BufOp{Op: "marshalbin"})
		case x < 99:
			if m.err { // UnmarshalBinary is documented to zero the offset only; what it does to Err is left open
				continue
			}
			if rnd.Intn(2) == 0 {
				emit(c06BufOp{Op: "unmarshalbin", B: c06hx(junk())})
				sync = false
			} else {
				b, its := structured(1 + rnd.Intn(4))
				emit(c06BufOp{Op: "unmarshalbin", B: c06hx(b)})
				items, pos, sync = its, 0, true
			}
		default:
			emit(c06BufOp{Op: "obs"})
		}
	}
	return ops
}

// c06BufEncOps: the operations that encode v field by field into the Buffer the way the codec's own MarshalPacket /
// MarshalBinary do (start = true: StartPacket … Packet(payload); false: PutLength(0), type byte, fields, PutLength / Packet),
// ending in an operation that carries the frame of the independent codec. The Buffer must be empty before (start = false).
func c06BufEncOps(k c06Kind, v sftp.VerifPkt, start bool) (ops []c06BufOp, frame []byte) {
	frame, _, _ = c06Build(k, v)
	fields := k.Fields
	noID := k.Name == "Init" || k.Name == "Version"
	if start && !noID {
		ops = append(ops, c06BufOp{Op: "start", T: k.Typ, N: uint64(v.ID)})
		fields = fields[1:]
	} else {
		ops = append(ops, c06BufOp{Op: "putlen"}, c06BufOp{Op: "au8", N: uint64(k.Typ)})
	}
	var payload []byte
	str := func(s string) c06BufOp { return c06BufOp{Op: "astr", B: c06hx([]byte(s))} }
	for fi := 0; fi < len(fields); fi++ {
		f := fields[fi]
		switch f.kind {
		case "u32":
			ops = append(ops, c06BufOp{Op: "au32", N: uint64(c06FieldU(v, f.name))})
		case "u64":
			ops = append(ops, c06BufOp{Op: "au64", N: c06FieldU(v, f.name)})
		case "str":
			ops = append(ops, str(c06FieldS(v, f.name)))
		case "cstr":
			ops = append(ops, str(f.name))
			var b wire.B
			for _, r := range fields[fi+1:] {
				b = b.Str(c06FieldS(v, r.name))
			}
			ops = append(ops, c06BufOp{Op: "m-ext", Kind: k.Name, B: c06hx(b)})
			fi = len(fields)
		case "data":
			ops = append(ops, c06BufOp{Op: "au32", N: uint64(len(v.Data))})
			payload = v.Data
		case "attrs":
			ops = append(ops, c06BufOp{Op: "m-attrs", B: c06hx(c06WireSt(v.Flags, v.Stat).Block())})
		case "names":
			ops = append(ops, c06BufOp{Op: "acount", N: uint64(len(v.Names))})
			for _, n := range v.Names {
				ops = append(ops, c06BufOp{Op: "m-name", B: c06hx(wire.B{}.Str(n.Name).Str(n.LongName).Raw(c06WireSt(n.Flags, n.Stat).Block()))})
			}
		case "pairs":
			for _, e := range v.Ext {
				ops = append(ops, c06BufOp{Op: "m-pair", B: c06hx(wire.B{}.Str(e[0]).Str(e[1]))})
			}
		case "vfs":
			var b wire.B
			for _, x := range v.VFS {
				b = b.U64(x)
			}
			ops = append(ops, c06BufOp{Op: "m-ext", Kind: "VFS", B: c06hx(b)})
		}
	}
	if noID {
		ops = append(ops, c06BufOp{Op: "putlen", N: uint64(len(frame) - 4)}, c06BufOp{Op: "obs", X: c06hx(frame)})
	} else {
		ops = append(ops, c06BufOp{Op: "packet", B: c06hx(payload), X: c06hx(frame)})
	}
	return ops, frame
}

func c06FieldU(v sftp.VerifPkt, name string) uint64 {
	switch name {
	case "ID":
		return uint64(v.ID)
	case "Version":
		return uint64(v.Version)
	case "Pflags":
		return uint64(v.Pflags)
	case "Offset":
		return v.Offset
	case "Len":
		return uint64(v.Len)
	case "Code":
		return uint64(v.Code)
	}
	panic("c06: no numeric field " + name)
}

func c06FieldS(v sftp.VerifPkt, name string) string {
	switch name {
	case "Path":
		return v.Path
	case "Path2":
		return v.Path2
	case "Handle":
		return v.Handle
	case "Msg":
		return v.Msg
	case "Lang":
		return v.Lang
	}
	panic("c06: no string field " + name)
}

// c06BufDecOps: the operations that decode a body (what follows the type byte) of kind k from the Buffer.
func c06BufDecOps(k c06Kind, v sftp.VerifPkt, want string) []c06BufOp {
	if k.Name == "Init" || k.Name == "Version" {
		ops := []c06BufOp{{Op: "cu32"}}
		for range v.Ext {
			ops = append(ops, c06BufOp{Op: "u-pair", Want: want})
		}
		return ops
	}
	return []c06BufOp{{Op: "cu32"}, {Op: "u-body", Kind: k.Name, Want: want}}
}

// c06BufHand: hand-written sequences.
func c06BufHand() [][]c06BufOp {
	o := func(op string) c06BufOp { return c06BufOp{Op: op} }
	n := func(op string, v uint64) c06BufOp { return c06BufOp{Op: op, N: v} }
	b := func(op, hx string) c06BufOp { return c06BufOp{Op: op, B: hx} }
	hello := "0000000568656c6c6f"
	return [][]c06BufOp{
		{o("zero"), o("reset"), o("obs")},
		{o("zero"), o("cu8"), o("reset"), n("au8", 7), o("cu8")},
		{o("zero"), o("cu8"), o("cu32"), o("cstr"), n("au8", 7), o("cu8"), o("reset"), o("cu8")},
		{o("zero"), n("au32", 5), o("cu32"), o("reset"), n("au8", 1), o("obs"), o("cu8")},
		{b("new", "01020304"), o("cu16"), o("reset"), b("astr", "616263"), o("cstr")},
		{b("new", "0102030405"), o("cu64"), o("reset"), o("reset"), n("au64", 1<<63), o("cu64"), o("cu8")},
		{n("marshal", 0), o("obs"), o("reset"), n("au8", 255), o("cu8")},
		{n("marshal", 4), o("cu32"), o("cu32"), o("cu8"), o("cu32"), o("cu8"), {Op: "start", T: 101, N: 9}, b("packet", "")},
		{n("marshal", 16), {Op: "start", T: 5, N: 1}, b("astr", "68"), n("au64", 1<<32), n("au32", 7), b("packet", ""), o("cu32"), o("cu8"), o("cu32"), o("cstr"), o("cu64"), o("cu32"), o("cu8")},
		{o("zero"), n("putlen", 7), o("cu32"), n("putlen", 9), o("marshalbin"), o("cu8")},
		{b("new", "0102"), n("putlen", 1<<32-1), o("cu16"), o("cu16"), o("cu8")},
		{b("new", hello), o("cbs"), n("au8", 9), o("cu8"), o("reset"), b("abs", "0102"), {Op: "cbsc", L: 1, C: 9}},
		{b("new", hello), o("cstr"), o("cstr"), o("reset"), b("astr", ""), o("cstr"), o("cstr")},
		{b("new", "000000ff0102"), o("cbs"), o("obs"), o("reset"), b("abs", "0102"), o("cbs")},
		{b("new", "ffffffff"), {Op: "cbsc", L: 3, C: 3}, o("reset"), n("au32", 0), {Op: "cbsc", L: 3, C: 3}},
		{o("zero"), n("au8", 1), o("cu8"), n("au8", 2), o("cu8"), n("au16", 3), o("obs"), o("cu16"), o("cu8")},
		{b("new", "0a0b0c"), o("cu8"), b("unmarshalbin", "0d0e"), o("cu8"), o("marshalbin"), o("cu8"), o("cu8")},
		{b("new", "0a0b0c"), o("cu8"), b("unmarshalbin", ""), o("cu8"), o("reset"), n("au8", 1), o("cbool")},
		{o("zero"), {Op: "start", T: 3, N: 1<<32 - 1}, b("astr", "2f"), b("packet", ""), o("reset"), {Op: "start", T: 4, N: 0}, b("packet", "aa")},
		{o("zero"), {Op: "start", T: 103, N: 7}, n("au32", 3), b("packet", "010203"), o("cu32"), o("cu8"), o("cu32"), o("cbs"), o("reset"), n("au32", 0), o("cbs")},
		{b("new", "00000001"), o("u-attrs"), o("reset"), b("m-attrs", "00000000"), o("u-attrs"), o("obs")},
		{b("new", "0000000100"), {Op: "u-body", Kind: "Name", Want: "short"}, o("reset"), b("araw", "00000000"), {Op: "u-body", Kind: "Name", Want: "ok"}},
		{b("new", "05"), o("u-req"), o("reset"), b("araw", "040000000100000000"), {Op: "u-req", Want: "ok"}},
		{b("new", "6500000001"), o("u-raw"), o("reset"), b("araw", "66000000020000000168"), {Op: "u-raw", Want: "ok"}},
	}
}

// c06BufferAll generates the fx-buffer cases.
func c06BufferAll(c *lib.Ctx) {
	r := c.R
	g := c06Gen{c}
	thorough := c.Tier == "thorough"
	sampled := 0
	do := func(family string, ops []c06BufOp) {
		in := c06ReuseIn{Mode: "fx-buffer", Ops: ops, C: -1}
		nontrivial := false
		for _, op := range ops[1:] {
			if op.Op == "reset" || op.Op == "start" || op.Op == "unmarshalbin" || op.Op[0] == 'c' || op.Op[0] == 'u' {
				nontrivial = true
			}
		}
		r.Case(fmt.Sprintf("%+v", in), nontrivial)
		r.Hist("reuse-fx-buffer")
		r.Hist("buffer-" + family)
		for _, op := range ops {
			r.Hist("bufop-" + op.Op)
		}
		if nontrivial && sampled < 2 && family != "enum" && len(ops) <= 12 {
			sampled++
			r.Sample(in)
		}
		c06RunReuse(c, in)
	}
	r.Note("fx-buffer: UnmarshalBinary on a Buffer whose Err is set is not generated: its documentation promises a clone of data and a zero offset only, and the implementation keeps Err (every later Consume keeps failing); the model follows the documentation when a replay file asks for it")

	for _, ops := range c06BufHand() {
		do("hand", ops)
	}

	// every sequence of up to depth operations over a small alphabet, after three constructors
	alpha := []c06BufOp{{Op: "au8", N: 1}, {Op: "au32", N: 2}, {Op: "astr", B: "61"}, {Op: "cu8"}, {Op: "cu32"}, {Op: "cstr"}, {Op: "reset"},
		{Op: "start", T: 9, N: 3}, {Op: "putlen", N: 5}, {Op: "packet", B: "ee"}, {Op: "unmarshalbin", B: "0000000162"}}
	depth := 4
	if thorough {
		depth = 5
	}
	ctors := []c06BufOp{{Op: "zero"}, {Op: "new", B: "0000000161ff", N: 2}, {Op: "marshal", N: 1}}
	var enum func(prefix []c06BufOp)
	enum = func(prefix []c06BufOp) {
		if len(prefix) > 1 {
			do("enum", append([]c06BufOp{}, prefix...))
		}
		if len(prefix) > depth {
			return
		}
		for _, a := range alpha {
			enum(append(prefix, a))
		}
	}
	for _, ct := range ctors {
		if c.Stop("c06-buffer") {
			return
		}
		enum([]c06BufOp{ct})
	}

	// PRNG sequences
	nSeq := 20000
	if thorough {
		nSeq = 300000
	}
	for s := 0; s < nSeq; s++ {
		if s%512 == 0 && c.Stop("c06-buffer") {
			return
		}
		do("prng", g.bufSeq(1+g.c.Rand.Intn(30)))
	}

	// every packet kind: encode, read back, Reset, encode another; decode a cut body, Reset, decode a complete one
	reps := 12
	if thorough {
		reps = 200
	}
	for ki, k := range c06Kinds {
		for rp := 0; rp < reps; rp++ {
			if c.Stop("c06-buffer") {
				return
			}
			k2 := c06Kinds[(ki+1+rp*7)%len(c06Kinds)]
			a, b2 := g.pkt(k, g.c.Rand.Intn(32)), g.pkt(k2, g.c.Rand.Intn(32))
			if rp%3 == 0 { // small payloads are carried inside the header Buffer by some callers; both shapes occur
				a.Data, b2.Data = a.Data[:c06min(len(a.Data), 3)], b2.Data[:c06min(len(b2.Data), 1)]
				a.Len, b2.Len = uint32(len(a.Data)), uint32(len(b2.Data))
			}
			ctor := []c06BufOp{{Op: "zero"}, {Op: "marshal", N: uint64(rp)}, {Op: "new", B: "a7a7a7a7a7a7a7", N: 64}}[rp%3]
			// encode A, read it back from the same Buffer, Reset, encode B
			encA, frameA := c06BufEncOps(k, a, rp%2 == 0)
			ops := []c06BufOp{ctor, {Op: "reset"}}
			ops = append(ops, encA...)
			wantA := "ok"
			if (k.Name == "Write" || k.Name == "Data") && len(a.Data) > 0 {
				wantA = "short" // the payload travels outside the header Buffer
			}
			ops = append(ops, c06BufOp{Op: "cu32"}, c06BufOp{Op: "cu8"})
			ops = append(ops, c06BufDecOps(k, a, wantA)...)
			ops = append(ops, c06BufOp{Op: "reset"})
			encB, frameB := c06BufEncOps(k2, b2, rp%4 < 2)
			ops = append(ops, encB...)
			do("kinds-encode", ops)

			// decode a cut body of A (short packet), Reset, load the complete body of B, decode
			bodyA, bodyB := frameA[5:], frameB[5:]
			cuts := []int{0, 1, 3, 4, 5, len(bodyA) / 2, len(bodyA) - 1}
			if thorough && rp%8 == 0 {
				cuts = cuts[:0]
				for x := 0; x < len(bodyA); x++ {
					cuts = append(cuts, x)
				}
			}
			cut := cuts[rp%len(cuts)]
			if cut >= len(bodyA) {
				cut = len(bodyA) - 1
			}
			for _, cu := range func() []int {
				if thorough && rp%8 == 0 {
					return cuts
				}
				return []int{cut}
			}() {
				ops = []c06BufOp{{Op: "new", B: c06hx(bodyA[:cu]), N: uint64(rp % 5 * 16)}}
				ops = append(ops, c06BufDecOps(k, a, "")...)
				ops = append(ops, c06BufOp{Op: "reset"}, c06BufOp{Op: "araw", B: c06hx(bodyB)})
				ops = append(ops, c06BufDecOps(k2, b2, "ok")...)
				ops = append(ops, c06BufOp{Op: "obs"})
				do("kinds-decode", ops)
			}
			// decode A completely, UnmarshalBinary(B), decode
			ops = []c06BufOp{{Op: "new", B: c06hx(bodyA)}}
			ops = append(ops, c06BufDecOps(k, a, "ok")...)
			ops = append(ops, c06BufOp{Op: "unmarshalbin", B: c06hx(bodyB)})
			ops = append(ops, c06BufDecOps(k2, b2, "ok")...)
			do("kinds-decode", ops)
			// the frame readers' UnmarshalFrom (type byte first) on a reused Buffer
			if k.Request && k.Name != "Init" && k2.Name != "Init" && k2.Name != "Version" {
				fa, _, _ := c06Build(k, a)
				fb, _, _ := c06Build(k2, b2)
				ops = []c06BufOp{{Op: "new", B: c06hx(fa[4 : 4+(len(fa)-4)*(rp%3)/2])}, {Op: "u-req"}, {Op: "reset"}, {Op: "araw", B: c06hx(fb[4:])}}
				if k2.Request {
					ops = append(ops, c06BufOp{Op: "u-req", Want: "ok"})
				} else {
					ops = append(ops, c06BufOp{Op: "u-raw", Want: "ok"})
				}
				do("kinds-frame", ops)
			}
		}
	}
}
