package main

// The mount-namespace sandbox: containment that also holds for a DEFECTIVE server.
//
// Requests are contained before they are sent (peers/guard.go), but the code under test runs with the rights of
// the harness, and a variant of it that resolves a contained path wrongly (ignores its working directory, acts on
// the parent of the path) still reaches the host; lib.HostWatch only notices and repairs afterwards.  Where the
// kernel allows it, a check therefore runs in a mount namespace of its own in which every file system is mounted
// READ-ONLY except
//
//	the scratch area of the run (<tmp>/vh-scratch-…, which also becomes TMPDIR),
//	the directory of the result file (--out),
//	/dev/shm (scratch directories of checks that need a tmpfs; watched by lib.HostWatch).
//
// chmod / chown / utimes / mkdir / unlink / rename outside these fail with EROFS, whoever asks.
//
// How: `vh cNN …` (stage 0, the wrapper) creates the scratch area and starts itself again with CLONE_NEWNS
// (Go makes the new namespace's mounts private); that process (stage 1) bind-mounts the writable directories on
// themselves, remounts "/" (and /dev) read-only, and runs the check; its children inherit the namespace.  The
// wrapper passes signals on, waits, removes the scratch area and exits with the check's status.  VH_SANDBOX=0
// turns the sandbox off; when the namespace cannot be set up (no CAP_SYS_ADMIN, not Linux) the check runs without
// it and says so in its notes.

import (
	"fmt"
	"os"
	"os/exec"
	"os/signal"
	"path/filepath"
	"strings"
	"syscall"
	"time"

	"verifharness/lib"
)

const (
	envSandbox   = "VH_SANDBOX"       // "0": off
	envSandboxed = "VH_SANDBOX_STAGE" // "1": set up the mounts; "2": running inside
	envSandboxRW = "VH_SANDBOX_RW"    // writable directories, separated by ':'
	envSandboxNo = "VH_SANDBOX_NOTE"  // why there is no sandbox
)

// vhSandboxNote is what the run says about its sandbox (a note of the result).
var vhSandboxNote string

// vhOutArg finds the value of --out among the arguments.
func vhOutArg(args []string) string {
	for i, a := range args {
		a = strings.TrimLeft(a, "-")
		if a == "out" && i+1 < len(args) {
			return args[i+1]
		}
		if strings.HasPrefix(a, "out=") {
			return a[len("out="):]
		}
	}
	return ""
}

// vhSandbox is called first thing by main for a check (not for `vh child`).  In the wrapper it does not return.
func vhSandbox() {
	switch os.Getenv(envSandboxed) {
	case "2": // a check started by a check (the transfer checks run themselves in a child): already inside
		vhSandboxNote = "inside the sandbox of the parent run"
		return
	case "1":
		vhSandboxStage1()
		return
	}
	if os.Getenv(envSandbox) == "0" {
		vhSandboxNote = "mount-namespace sandbox switched off (VH_SANDBOX=0)"
		return
	}
	outer, err := lib.ScratchOuter()
	if err != nil {
		vhSandboxNote = "no mount-namespace sandbox: " + err.Error()
		return
	}
	rw := []string{outer}
	if out := vhOutArg(os.Args[2:]); out != "" && out != "-" {
		if a, err := filepath.Abs(out); err == nil {
			rw = append(rw, filepath.Dir(a))
		}
	}
	exe, err := os.Executable()
	if err != nil {
		exe = os.Args[0]
	}
	cmd := exec.Command(exe, os.Args[1:]...)
	cmd.Stdin, cmd.Stdout, cmd.Stderr = os.Stdin, os.Stdout, os.Stderr
	cmd.Env = append(os.Environ(), envSandboxed+"=1", envSandboxRW+"="+strings.Join(rw, ":"), "VH_SCRATCH_OUTER="+outer)
	cmd.SysProcAttr = &syscall.SysProcAttr{Unshareflags: syscall.CLONE_NEWNS}
	if err := cmd.Start(); err != nil {
		// the kernel does not let us: run here, unsandboxed
		vhSandboxNote = "no mount-namespace sandbox (" + err.Error() + "): a defective server can reach the host; lib.HostWatch reports and repairs what it sees"
		return
	}
	sigs := make(chan os.Signal, 4)
	signal.Notify(sigs, syscall.SIGTERM, syscall.SIGINT, syscall.SIGHUP)
	go func() {
		for s := range sigs {
			cmd.Process.Signal(s)
		}
	}()
	err = cmd.Wait()
	lib.CleanupScratch()
	code := 0
	if err != nil {
		code = 2
		if ee, ok := err.(*exec.ExitError); ok {
			code = ee.ExitCode()
			if code < 0 { // killed by a signal
				code = 128
				if ws, ok := ee.Sys().(syscall.WaitStatus); ok && ws.Signaled() {
					code = 128 + int(ws.Signal())
				}
			}
		}
	}
	os.Exit(code)
}

// vhSandboxStage1 runs in the new namespace before anything else: writable directories are bind-mounted on
// themselves, then "/" and /dev become read-only.
func vhSandboxStage1() {
	os.Setenv(envSandboxed, "2")
	// die with the wrapper (it may be killed outright while we wait on a hang deadline)
	if ppid := os.Getppid(); ppid > 1 {
		go func() {
			for {
				time.Sleep(500 * time.Millisecond)
				if os.Getppid() != ppid {
					os.Exit(5)
				}
			}
		}()
	}
	fail := func(what string, err error) {
		vhSandboxNote = fmt.Sprintf("mount-namespace sandbox incomplete (%s: %v): a defective server can reach the host; lib.HostWatch reports and repairs what it sees", what, err)
	}
	for _, d := range strings.Split(os.Getenv(envSandboxRW), ":") {
		if d == "" || d == "/" {
			continue
		}
		if err := syscall.Mount(d, d, "", syscall.MS_BIND, ""); err != nil {
			fail("bind "+d, err)
			return
		}
	}
	for _, d := range []string{"/", "/dev"} {
		// (a bind remount changes the flags of this mount point alone: what is mounted below it — the writable
		// directories, /dev/shm, /proc — keeps its own)
		if err := syscall.Mount("", d, "", syscall.MS_REMOUNT|syscall.MS_BIND|syscall.MS_RDONLY, ""); err != nil {
			if d == "/" {
				fail("read-only remount of /", err)
				return
			}
		}
	}
	// every temporary file of the harness lives in the scratch area from now on
	if outer := os.Getenv("VH_SCRATCH_OUTER"); outer != "" {
		tmp := filepath.Join(outer, "tmp")
		if os.MkdirAll(tmp, 0o755) == nil {
			os.Setenv("TMPDIR", tmp)
		}
	}
	vhSandboxNote = "mount-namespace sandbox: every file system is read-only for this run except its scratch area, the directory of the result file and /dev/shm"
}
