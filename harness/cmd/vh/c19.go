package main

import (
	"fmt"
	"io"
	"os"
	"path/filepath"
	"sort"
	"strings"
	"time"

	"github.com/pkg/sftp"

	"verifharness/lib"
	"verifharness/peers"
	"verifharness/wire"
)

func init() { register("c19", checkC19) }

type c19Case struct {
	Kind string `json:"kind"`
	Hex  string `json:"reply_hex,omitempty"`
	Exts string `json:"exts,omitempty"`
	Name string `json:"name,omitempty"`
}

// c19TryClient runs NewClientPipe against a peer that answers INIT with raw reply bytes (then EOF when cut is set).
func c19TryClient(reply []byte, eofAfter bool) (ok bool, exts map[string]string, errText string, hung bool) {
	c2sR, c2sW := io.Pipe()
	s2cR, s2cW := io.Pipe()
	go func() {
		// read the INIT frame, then answer
		if _, err := wire.ReadFrame(c2sR); err != nil {
			return
		}
		s2cW.Write(reply)
		if eofAfter {
			s2cW.Close()
		}
		io.Copy(io.Discard, c2sR)
	}()
	type res struct {
		c   *sftp.Client
		err error
	}
	ch := make(chan res, 1)
	go func() { c, err := sftp.NewClientPipe(s2cR, c2sW); ch <- res{c, err} }()
	select {
	case r := <-ch:
		if r.err != nil {
			s2cW.Close()
			c2sR.Close()
			return false, nil, r.err.Error(), false
		}
		exts = map[string]string{}
		for _, n := range []string{"hardlink@openssh.com", "posix-rename@openssh.com", "statvfs@openssh.com", "fsync@openssh.com", "a@b", "x", ""} {
			if d, ok := r.c.HasExtension(n); ok {
				exts[n] = d
			}
		}
		s2cW.Close()
		r.c.Close()
		c2sR.Close()
		return true, exts, "", false
	case <-time.After(20 * time.Second):
		s2cW.Close()
		c2sR.Close()
		return false, nil, "", true
	}
}

func checkC19(c *lib.Ctx) {
	r := c.R
	r.Rule = "client: handshake replies with versions {0..5, 2^31, 2^32-1} x extension lists, every truncation of a valid VERSION reply, every other type byte, PRNG bodies: construction succeeds iff type=2, version=3 and the extension list parses, and reports exactly the advertised extensions; server: every ordered subset of the supported extensions (and invalid names) through SetSFTPExtensions, the VERSION reply of both servers; extended requests with every advertised name, unknown, empty and long names: advertised ones are served, others answered OP_UNSUPPORTED and the session continues; non-trivial = malformed/unsupported case"
	// ---- client side ----
	var lines, impl []string
	versions := []uint32{0, 1, 2, 3, 4, 5, 1 << 31, 0xffffffff}
	extLists := [][][2]string{nil, {{"statvfs@openssh.com", "2"}}, {{"a@b", "1"}, {"x", ""}, {"a@b", "9"}}, {{"", ""}}, {{"fsync@openssh.com", "1"}, {"hardlink@openssh.com", "1"}}}
	try := func(desc string, frame []byte, nontriv bool) {
		ok, exts, et, hung := c19TryClient(frame, true)
		// expectation computed independently with the wire codec
		want := false
		wantExts := map[string]string{}
		pk, tail := wire.Split(frame)
		if len(pk) >= 1 && pk[0].Typ == wire.Version {
			d := wire.D{B: pk[0].Body}
			v := d.U32()
			if d.Err == nil && v == 3 {
				want = true
				for len(d.B) > 0 {
					n := d.Str()
					dt := d.Str()
					if d.Err != nil {
						want = false
						break
					}
					wantExts[n] = dt
				}
			}
		}
		_ = tail
		r.Case(desc+" "+lib.Hex(frame), nontriv)
		r.Hist("client-" + strings.SplitN(desc, "/", 2)[0])
		if hung {
			r.Fail(lib.Failure{Kind: "oracle", Key: "client/hang", What: "NewClientPipe did not return within 20 s", Input: c19Case{Kind: desc, Hex: lib.Hex(frame)}})
			return
		}
		if ok != want {
			r.Fail(lib.Failure{Kind: "oracle", Key: "client/accepts-iff-v3", What: "client session established iff the peer answers with a well-formed version-3 VERSION packet", Input: c19Case{Kind: desc, Hex: lib.Hex(frame)}, Expected: want, Actual: fmt.Sprint(ok, " ", et)})
			return
		}
		if ok {
			for k, v := range wantExts {
				switch k {
				case "hardlink@openssh.com", "posix-rename@openssh.com", "statvfs@openssh.com", "fsync@openssh.com", "a@b", "x", "":
					if exts[k] != v {
						r.Fail(lib.Failure{Kind: "oracle", Key: "client/extensions-reported", What: "client reports extensions different from those advertised", Input: c19Case{Kind: desc, Hex: lib.Hex(frame)}, Expected: wantExts, Actual: exts})
					}
				}
			}
			for k := range exts {
				if _, ok := wantExts[k]; !ok {
					r.Fail(lib.Failure{Kind: "oracle", Key: "client/extensions-reported", What: "client reports an extension that was not advertised", Input: c19Case{Kind: desc, Hex: lib.Hex(frame)}, Expected: wantExts, Actual: exts})
				}
			}
		}
		if len(frame) >= 5 {
			// model: c19.recv <typ> <hex body>  (only for single complete frames)
			if len(pk) == 1 && len(tail) == 0 {
				lines = append(lines, fmt.Sprintf("c19.recv %d %s", pk[0].Typ, lib.Hex(pk[0].Body)))
				if ok {
					var names []string
					for k, v := range wantExts {
						names = append(names, lib.Hex([]byte(k))+"="+lib.Hex([]byte(v)))
					}
					sort.Strings(names)
					impl = append(impl, "ok "+strings.Join(names, ","))
				} else {
					impl = append(impl, "err")
				}
			}
		}
	}
	for _, v := range versions {
		for _, el := range extLists {
			try("version-x-exts", wire.VersionFrame(v, el), v != 3)
		}
	}
	valid := wire.VersionFrame(3, [][2]string{{"statvfs@openssh.com", "2"}, {"a@b", "1"}})
	for cut := 0; cut < len(valid); cut++ {
		// stream ends inside the frame
		try("cut-stream", valid[:cut], true)
	}
	for cut := 0; cut < len(valid)-5; cut++ {
		// well-framed but truncated body
		body := valid[5 : 5+cut]
		try("cut-body", wire.Frame(wire.Version, body), true)
	}
	for t := 0; t < 256; t++ {
		if c.Tier != "thorough" && t > 8 && t%17 != 0 && (t < 100 || t > 106) {
			continue
		}
		try("type-byte", wire.Frame(byte(t), valid[5:]), t != wire.Version)
	}
	nrand := 200
	if c.Tier == "thorough" {
		nrand = 5000
	}
	for i := 0; i < nrand; i++ {
		b := make([]byte, c.Rand.Intn(40))
		c.Rand.Read(b)
		if c.Rand.Intn(2) == 0 && len(b) >= 4 {
			copy(b, []byte{0, 0, 0, 3})
		}
		try("random-body", wire.Frame(wire.Version, b), true)
	}
	// length prefix inflated / zero / huge
	for _, n := range []uint32{0, 1, uint32(len(valid)), 0x7fffffff, 0xffffffff, 262144 + 1} {
		f := append([]byte(nil), valid...)
		f[0], f[1], f[2], f[3] = byte(n>>24), byte(n>>16), byte(n>>8), byte(n)
		try("length-field", f, true)
	}
	if _, err := os.Stat(filepath.Join(os.Getenv("VERIF_DIR"), "lean/Sftp/Driver/C19.lean")); err == nil && c.ModelPath != "" {
		if out, err := c.Model([]string{"c19.recv 2 00000003"}); err == nil && out[0] != "bad-op" {
			// canonicalise the model's extension list (sorted) before comparing
			mout, err := c.Model(lines)
			if err != nil {
				r.Fail(lib.Failure{Kind: "tie", Key: "c19/model-driver", What: err.Error()})
			} else {
				for i := range lines {
					m := mout[i]
					if strings.HasPrefix(m, "err") {
						m = "err"
					} else if strings.HasPrefix(m, "ok") {
						parts := strings.Fields(m)
						l := []string{}
						if len(parts) > 1 && parts[1] != "-" {
							seen := map[string]string{}
							for _, kv := range strings.Split(parts[1], ",") {
								if i := strings.IndexByte(kv, '='); i >= 0 {
									seen[kv[:i]] = kv[i+1:]
								}
							}
							for k, v := range seen {
								l = append(l, k+"="+v)
							}
							sort.Strings(l)
						}
						m = "ok " + strings.Join(l, ",")
					}
					if m != impl[i] {
						r.Fail(lib.Failure{Kind: "correspondence", Key: "c19/c19.recv", What: "model and implementation differ", Input: lines[i], Expected: mout[i], Actual: impl[i]})
					}
				}
			}
		} else {
			r.Note("model op c19.recv not available; client handshake compared with the independent wire codec only")
		}
	}

	// ---- server side ----
	supported := sftp.VerifSupportedExtensions()
	var names []string
	for _, e := range supported {
		names = append(names, e[0])
	}
	defer sftp.SetSFTPExtensions(names...)
	// all ordered subsets of the supported names (3 names: 16 sequences) + invalid requests
	var configs [][]string
	var perm func(cur []string, rest []string)
	perm = func(cur []string, rest []string) {
		configs = append(configs, append([]string(nil), cur...))
		for i := range rest {
			nr := append(append([]string(nil), rest[:i]...), rest[i+1:]...)
			perm(append(cur, rest[i]), nr)
		}
	}
	perm(nil, names)
	invalid := [][]string{{"nope@example.com"}, {names[0], "nope@example.com"}, {"nope@example.com", names[0]}, {""}, {names[0], names[0], "x"}}
	root, err := os.MkdirTemp("", "vh-c19-")
	if err != nil {
		r.Fail(lib.Failure{Kind: "tie", Key: "tmpdir", What: err.Error()})
		return
	}
	defer os.RemoveAll(root)
	os.WriteFile(filepath.Join(root, "f"), []byte("x"), 0o600)
	advertised := func(kind string) ([][2]string, *peers.Srv, error) {
		var s *peers.Srv
		var err error
		if kind == "os" {
			s, err = peers.StartOS()
			if err != nil {
				return nil, nil, err
			}
		} else {
			s = peers.StartRS(sftp.InMemHandler())
		}
		p, err := s.Handshake()
		if err != nil {
			return nil, s, err
		}
		d := wire.D{B: p.Body}
		v := d.U32()
		var got [][2]string
		for len(d.B) > 0 && d.Err == nil {
			n := d.Str()
			dt := d.Str()
			got = append(got, [2]string{n, dt})
		}
		if p.Typ != wire.Version || v != 3 || d.Err != nil {
			return got, s, fmt.Errorf("bad VERSION reply: type %d version %d err %v", p.Typ, v, d.Err)
		}
		return got, s, nil
	}
	data := map[string]string{}
	for _, e := range supported {
		data[e[0]] = e[1]
	}
	for _, cfg := range configs {
		if err := sftp.SetSFTPExtensions(cfg...); err != nil {
			r.Fail(lib.Failure{Kind: "oracle", Key: "server/setextensions-valid-refused", What: "SetSFTPExtensions refused a list of supported names", Input: c19Case{Kind: "config", Exts: strings.Join(cfg, ",")}, Actual: err.Error()})
			continue
		}
		var want [][2]string
		for _, n := range cfg {
			want = append(want, [2]string{n, data[n]})
		}
		for _, kind := range []string{"os", "rs"} {
			got, s, err := advertised(kind)
			r.Case(fmt.Sprintf("config %s %v", kind, cfg), len(cfg) != len(names))
			r.Hist("server-config-" + kind)
			if err != nil || fmt.Sprint(got) != fmt.Sprint(want) {
				r.Fail(lib.Failure{Kind: "oracle", Key: "server/advertised-eq-configured", What: "extensions advertised in VERSION differ from those configured", Input: c19Case{Kind: kind, Exts: strings.Join(cfg, ",")}, Expected: want, Actual: fmt.Sprint(got, err)})
			}
			if s != nil {
				// every advertised extension is served (os-backed server); other names are OP_UNSUPPORTED and the session continues
				id := uint32(10)
				reqNames := append([]string{}, names...)
				reqNames = append(reqNames, "fsync@openssh.com", "unknown@example.com", "", strings.Repeat("n", 300))
				for _, n := range reqNames {
					id++
					var body wire.B
					switch n {
					case "statvfs@openssh.com":
						body = wire.B{}.Str(n).Str(root)
					default:
						body = wire.B{}.Str(n).Str(filepath.Join(root, "f")).Str(filepath.Join(root, fmt.Sprintf("g%d", id)))
					}
					p, err := s.Call(wire.Req(wire.Extended, id, body))
					code := uint32(0xffffffff)
					if err == nil && p.Typ == wire.Status {
						d := wire.D{B: p.Body[4:]}
						code = d.U32()
					}
					isAdv := false
					for _, a := range cfg {
						if a == n {
							isAdv = true
						}
					}
					served := false
					for _, a := range names {
						if a == n {
							served = true
						}
					}
					r.Case(fmt.Sprintf("ext %s %v %q", kind, cfg, n), !served)
					r.Hist("server-extended-" + kind)
					if err != nil || p.ID() != id {
						r.Fail(lib.Failure{Kind: "oracle", Key: "server/extended-no-reply", What: "no (or misnumbered) reply to an extended request", Input: c19Case{Kind: kind, Exts: strings.Join(cfg, ","), Name: n}, Actual: fmt.Sprint(err)})
						break
					}
					if isAdv && kind == "os" && code == wire.OpUnsupported {
						r.Fail(lib.Failure{Kind: "oracle", Key: "server/advertised-not-served", What: "an advertised extension is answered OP_UNSUPPORTED by the os-backed server", Input: c19Case{Kind: kind, Exts: strings.Join(cfg, ","), Name: n}})
					}
					if !served && code != wire.OpUnsupported {
						r.Fail(lib.Failure{Kind: "oracle", Key: "server/unknown-ext-not-unsupported", What: "an extended request with an unserved name is not answered OP_UNSUPPORTED", Input: c19Case{Kind: kind, Exts: strings.Join(cfg, ","), Name: n}, Expected: 8, Actual: fmt.Sprintf("type %d code %d", p.Typ, code)})
					}
				}
				// session continues
				id++
				if p, err := s.Call(wire.Req(wire.Stat, id, wire.B{}.Str("/"))); err != nil || p.ID() != id || (p.Typ != wire.Attrs && p.Typ != wire.Status) {
					r.Fail(lib.Failure{Kind: "oracle", Key: "server/session-ended-after-extended", What: "the session does not continue after extended requests", Input: c19Case{Kind: kind, Exts: strings.Join(cfg, ",")}, Actual: fmt.Sprint(p.Typ, err)})
				}
				s.CloseInput()
				s.Wait(5 * time.Second)
			}
		}
	}
	// invalid configuration requests change nothing
	sftp.SetSFTPExtensions(names[0])
	before := fmt.Sprint(sftp.VerifSftpExtensions())
	for _, cfg := range invalid {
		err := sftp.SetSFTPExtensions(cfg...)
		after := fmt.Sprint(sftp.VerifSftpExtensions())
		r.Case(fmt.Sprintf("invalid-config %v", cfg), true)
		r.Hist("server-invalid-config")
		if err == nil || after != before {
			r.Fail(lib.Failure{Kind: "oracle", Key: "server/invalid-config-not-atomic", What: "an invalid SetSFTPExtensions request must fail and change nothing", Input: c19Case{Kind: "invalid-config", Exts: strings.Join(cfg, ",")}, Expected: before, Actual: fmt.Sprint(after, " err=", err)})
		}
	}
	r.Sample(map[string]any{"handshake_reply": lib.Hex(valid), "accepted": true})
	r.Sample(map[string]any{"config": names[:1], "advertised": before})
}
