package main

import (
	"fmt"
	"io"
	"os"
	"sort"
	"strings"
	"time"

	"github.com/pkg/sftp"

	"verifharness/lib"
	"verifharness/wire"
)

// The check runs in a child process (xfInChild): the server sections start real servers inside the process, and a fatal
// error or a panic in a goroutine of the package must be an observation, not the end of the harness.
func init() {
	register("c19", func(c *lib.Ctx) { xfInChild(c, "c19", checkC19) })
}

type c19Case struct {
	Kind string `json:"kind"`
	Hex  string `json:"reply_hex,omitempty"`
	Exts string `json:"exts,omitempty"`
	Name string `json:"name,omitempty"`
}

// c19TryClient runs NewClientPipe against a peer that answers INIT with raw reply bytes (then EOF when cut is set).
// exts holds HasExtension's answer for every probed name it reports as present.
func c19TryClient(reply []byte, eofAfter bool, probes []string) (ok bool, exts map[string]string, errText string, hung bool) {
	c2sR, c2sW := io.Pipe()
	s2cR, s2cW := io.Pipe()
	go func() {
		// read the INIT frame, then answer
		if _, err := wire.ReadFrame(c2sR); err != nil {
			return
		}
		s2cW.Write(reply)
		if eofAfter {
			s2cW.Close()
		}
		io.Copy(io.Discard, c2sR)
	}()
	type res struct {
		c    *sftp.Client
		err  error
		exts map[string]string
	}
	ch := make(chan res, 1)
	go func() {
		// construction AND the HasExtension questions run under the hang deadline
		c, err := sftp.NewClientPipe(s2cR, c2sW)
		var exts map[string]string
		if err == nil {
			exts = map[string]string{}
			for _, n := range probes {
				d, ok := c.HasExtension(n)
				if ok {
					exts[n] = d
				} else if d != "" {
					exts[n] = "absent but with data: " + d
				}
			}
		}
		ch <- res{c, err, exts}
	}()
	w := lib.HangWait(hangDeadline)
	select {
	case r := <-ch:
		if r.err != nil {
			s2cW.Close()
			c2sR.Close()
			return false, nil, r.err.Error(), false
		}
		s2cW.Close()
		done := make(chan struct{})
		go func() { r.c.Close(); close(done) }()
		lib.WaitCleanup("c19/client-handshake", 5*time.Second, done)
		c2sR.Close()
		return true, r.exts, "", false
	case <-time.After(w):
		lib.SpendHang("c19/client-handshake", w)
		s2cW.Close()
		c2sR.Close()
		return false, nil, "", true
	}
}

func checkC19(c *lib.Ctx) {
	r := c.R
	r.Rule = "client: handshake replies with versions {0..5, 2^31, 2^32-1} x extension lists, every truncation of a valid VERSION reply, every other type byte, PRNG bodies: construction succeeds iff type=2, version=3 and the extension list parses, and HasExtension answers (data of the last pair of that name, true) resp. (\"\", false) for every probed name (every advertised name, each with one byte flipped at the first/middle/last position, every prefix and suffix, one byte more, doubled, other case, the empty string, every pair's data, the well-known names), the client's answers (not the harness codec's) being compared with the map of driver op c19.recv; client report (c19_report.go): well-formed version-3 VERSION replies whose pairs range over 0 / 1 pair (31 names: empty, realistic, NUL, blank, '=', ',', non-UTF-8, 255..65536 bytes x 16 data: empty, digits, blank, NUL, non-UTF-8, a name, 300 and 70000 bytes, the name itself), 2 pairs (same name twice with data over {empty,1,2}^2; two names in both orders with an empty datum on either side; data naming the other pair / no pair), 3 pairs with a name twice or thrice in every position x {empty,1,2}^3, every order of a 4-list (5 thorough) with an empty datum, a repeated name and a datum naming a pair, 2..1000 pairs with the empty datum first / middle / last / everywhere / nowhere and with repeated names, the largest packet the client takes (256 KiB, long name / long data), 26 fsync@openssh.com lists and 400 (20000 thorough) PRNG lists over a small name pool (repeats) and random bytes; every list is given to a REAL client (peers.NewClient), every probe asked twice (answers must not change), File.Sync on the fsync lists and an eighth of the PRNG lists must put exactly one fsync@openssh.com request on the wire iff the last advertised fsync@openssh.com pair has data \"1\" and otherwise fail with OP_UNSUPPORTED sending nothing; failing lists are shrunk pair by pair; non-trivial = at least one pair; server: every ordered subset of the supported extensions (plus lists with repetitions; invalid names from four prior lists) through SetSFTPExtensions x BOTH servers under EVERY subset of their options (os: ReadOnly, WithAllocator, WithServerWorkingDirectory, WithMaxTxPacket, WithDebug = 32 variants; request server: WithRSAllocator, WithStartDirectory, WithRSMaxTxPacket = 8 option sets x 4 FileCmd handlers implementing a subset of {PosixRenameFileCmder, StatVFSFileCmder} and recording the method reached (quick: one handler per option set, rotating with the configuration)) x INIT variants (versions, client extension pairs): VERSION carries exactly the configured list; per session extended requests with every supported name (configured or not; absolute and relative paths; results checked on the tree; on a read-only server the mutating ones must be PERMISSION_DENIED and change nothing), ~110 unserved names (empty, other OpenSSH names, supported names in other case / without or with another domain / with NUL, blank, newline, one byte more or less, non-UTF-8, 255..65536 bytes (200000 thorough)) and PRNG names (random bytes, one-byte mutations of supported names) with rotating argument shapes (none, path, two paths, handle, random bytes, cut string): each must be answered STATUS OP_UNSUPPORTED with the request id, create nothing, and a following STAT must be answered; a pipelined batch per session (replies in order); requests that do not decode (id/name/argument cut or over-long, one session each) must end the session or be refused, never served; EVERY extended request sent (serial, pipelined, malformed body) is also mapped to the outcome classes of the Lean model M-ExtDispatch (served:<operation reached> | unsupported | denied | bad | ends) and compared with driver op c19.ext <os|rs+ifaces> <readOnly> <name> <bodyOk>, identical questions asked once; non-trivial = everything but a supported name with valid arguments; quick rotates a third of the fixed unserved names and a quarter of the malformed requests per (configuration, variant) except every fourth configuration; sessions (c19_sess.go): plans of 2..8 servers of both kinds (random option subsets, handlers, INIT variants, a random ordered subset of the supported extensions configured) served by ONE child process with GOMAXPROCS >= 4 — concurrently (quick: 6 plans of 2, 3, 4, 6, 8 and 2..8 sessions, ~600 requests per session; thorough: 63 plans, three times the names), the handshakes and the steps of the sessions released together, every session sending a shuffled schedule of steps: names new to the process (own tag per session; one step with the SAME new names in all sessions), each third step sent twice, names of 255..65536 bytes, PRNG names (random bytes, supported names with a byte flipped / dropped / inserted / swapped), the fixed unserved names, supported names with valid arguments, requests that do not decode (the session is opened again beside the others), serially or pipelined in batches of 16 / 64, the last session of a plan being a copy of the first — and sequentially (quick 2, thorough 8 plans: an os and a request-server script served three times each by sessions opened one after the other); every request is judged as in the server section, sessions with the same script must get the same answers, and the process must survive (a death is reported with the first lines the runtime printed); failing plans are shrunk by re-running (sessions, kinds of steps, counts); non-trivial = all"
	// ---- client side ----
	var lines, impl []string
	versions := []uint32{0, 1, 2, 3, 4, 5, 1 << 31, 0xffffffff}
	extLists := [][][2]string{nil, {{"statvfs@openssh.com", "2"}}, {{"a@b", "1"}, {"x", ""}, {"a@b", "9"}}, {{"", ""}}, {{"fsync@openssh.com", "1"}, {"hardlink@openssh.com", "1"}}}
	try := func(desc string, frame []byte, nontriv bool) {
		if c.Replay == "" && c.Stop("c19/client-handshake") {
			return
		}
		// expectation computed independently with the wire codec
		want := false
		wantExts := map[string]string{}
		var wantPairs []c19Pair
		pk, tail := wire.Split(frame)
		if len(pk) >= 1 && pk[0].Typ == wire.Version {
			d := wire.D{B: pk[0].Body}
			v := d.U32()
			if d.Err == nil && v == 3 {
				want = true
				for len(d.B) > 0 {
					n := d.Str()
					dt := d.Str()
					if d.Err != nil {
						want = false
						break
					}
					wantExts[n] = dt
					wantPairs = append(wantPairs, c19Pair{n, dt})
				}
			}
		}
		// names asked through HasExtension: every advertised one, their neighbours, the well-known ones
		probes := c19RepProbes(wantPairs)
		ok, exts, et, hung := c19TryClient(frame, true, probes)
		_ = tail
		r.Case(desc+" "+lib.Hex(frame), nontriv)
		r.Hist("client-" + strings.SplitN(desc, "/", 2)[0])
		if hung {
			r.Fail(lib.Failure{Kind: "oracle", Key: "client/hang", What: "NewClientPipe (or HasExtension after it) did not return within the hang deadline", Input: c19Case{Kind: desc, Hex: lib.Hex(frame)}})
			return
		}
		if ok != want {
			r.Fail(lib.Failure{Kind: "oracle", Key: "client/accepts-iff-v3", What: "client session established iff the peer answers with a well-formed version-3 VERSION packet", Input: c19Case{Kind: desc, Hex: lib.Hex(frame)}, Expected: want, Actual: fmt.Sprint(ok, " ", et)})
			return
		}
		if ok {
			for _, k := range probes {
				v, adv := wantExts[k]
				g, rep := exts[k]
				if adv != rep || g != v {
					key := "client/extensions-reported"
					what := "client reports extensions different from those advertised"
					if !adv {
						what = "client reports an extension that was not advertised"
					}
					r.Fail(lib.Failure{Kind: "oracle", Key: key, What: fmt.Sprintf("%s (HasExtension(%q))", what, k), Input: c19Case{Kind: desc, Hex: lib.Hex(frame)}, Expected: wantExts, Actual: exts})
					break
				}
			}
		}
		if len(frame) >= 5 {
			// model: c19.recv <typ> <hex body>  (only for single complete frames)
			if len(pk) == 1 && len(tail) == 0 {
				lines = append(lines, fmt.Sprintf("c19.recv %d %s", pk[0].Typ, lib.Hex(pk[0].Body)))
				if ok {
					var names []string
					for k, v := range exts { // what the CLIENT reports (every advertised name is among the probes)
						names = append(names, lib.Hex([]byte(k))+"="+lib.Hex([]byte(v)))
					}
					sort.Strings(names)
					impl = append(impl, "ok "+strings.Join(names, ","))
				} else {
					impl = append(impl, "err")
				}
			}
		}
	}
	if c.Replay != "" {
		// one recorded case: a server-side case (sect "ext") or a handshake reply given to the client
		var ext c19ExtCase
		var one c19Case
		var sc c19SessCase
		if err := lib.ReadReplay(c.Replay, &sc); err == nil && sc.Sect == "sessions" {
			c19Sessions(c, &sc)
			return
		}
		if err := lib.ReadReplay(c.Replay, &ext); err == nil && ext.Sect == "ext" {
			root, err := lib.MkScratch("vh-c19-")
			if err != nil {
				r.Fail(lib.Failure{Kind: "tie", Key: "tmpdir", What: err.Error()})
				return
			}
			defer os.RemoveAll(root)
			c19ReplayExt(c, ext, root)
			return
		}
		var rep c19RepCase
		if err := lib.ReadReplay(c.Replay, &rep); err == nil && rep.Sect == "report" {
			c19ClientReport(c, &rep)
			return
		}
		if err := lib.ReadReplay(c.Replay, &one); err != nil {
			r.Fail(lib.Failure{Kind: "tie", Key: "replay", What: err.Error()})
			return
		}
		switch {
		case one.Kind == "invalid-config" || one.Kind == "config":
			prior := []string{}
			if one.Name != "" {
				prior = strings.Split(one.Name, ",")
			}
			cfg := []string{}
			if one.Exts != "" || one.Kind == "invalid-config" {
				cfg = strings.Split(one.Exts, ",")
			}
			c19ReplayConfig(c, one.Kind, prior, cfg)
		default:
			try(one.Kind, lib.UnHex(one.Hex), true)
		}
		return
	}
	for _, v := range versions {
		for _, el := range extLists {
			try("version-x-exts", wire.VersionFrame(v, el), v != 3)
		}
	}
	valid := wire.VersionFrame(3, [][2]string{{"statvfs@openssh.com", "2"}, {"a@b", "1"}})
	for cut := 0; cut < len(valid); cut++ {
		// stream ends inside the frame
		try("cut-stream", valid[:cut], true)
	}
	for cut := 0; cut < len(valid)-5; cut++ {
		// well-framed but truncated body
		body := valid[5 : 5+cut]
		try("cut-body", wire.Frame(wire.Version, body), true)
	}
	for t := 0; t < 256; t++ {
		if c.Tier != "thorough" && t > 8 && t%17 != 0 && (t < 100 || t > 106) {
			continue
		}
		try("type-byte", wire.Frame(byte(t), valid[5:]), t != wire.Version)
	}
	nrand := 200
	if c.Tier == "thorough" {
		nrand = 5000
	}
	for i := 0; i < nrand; i++ {
		b := make([]byte, c.Rand.Intn(40))
		c.Rand.Read(b)
		if c.Rand.Intn(2) == 0 && len(b) >= 4 {
			copy(b, []byte{0, 0, 0, 3})
		}
		try("random-body", wire.Frame(wire.Version, b), true)
	}
	// length prefix inflated / zero / huge
	for _, n := range []uint32{0, 1, uint32(len(valid)), 0x7fffffff, 0xffffffff, 262144 + 1} {
		f := append([]byte(nil), valid...)
		f[0], f[1], f[2], f[3] = byte(n>>24), byte(n>>16), byte(n>>8), byte(n)
		try("length-field", f, true)
	}
	if c.ModelPath != "" {
		if out, err := c.Model([]string{"c19.recv 2 00000003"}); err == nil && out[0] != "bad-op" {
			// canonicalise the model's extension list (sorted) before comparing
			mout, err := c.Model(lines)
			if err != nil {
				r.Fail(lib.Failure{Kind: "tie", Key: "c19/model-driver", What: err.Error()})
			} else {
				for i := range lines {
					m := mout[i]
					if strings.HasPrefix(m, "err") {
						m = "err"
					} else if strings.HasPrefix(m, "ok") {
						parts := strings.Fields(m)
						l := []string{}
						if len(parts) > 1 && parts[1] != "-" {
							seen := map[string]string{}
							for _, kv := range strings.Split(parts[1], ",") {
								if i := strings.IndexByte(kv, '='); i >= 0 {
									seen[kv[:i]] = kv[i+1:]
								}
							}
							for k, v := range seen {
								l = append(l, k+"="+v)
							}
							sort.Strings(l)
						}
						m = "ok " + strings.Join(l, ",")
					}
					if m != impl[i] {
						r.Fail(lib.Failure{Kind: "correspondence", Key: "c19/c19.recv", What: "model and implementation differ", Input: lines[i], Expected: mout[i], Actual: impl[i]})
					}
				}
			}
		} else {
			r.Note("model op c19.recv not available; client handshake compared with the independent wire codec only")
		}
	}

	// ---- client side: what HasExtension reports (c19_report.go) ----
	c19ClientReport(c, nil)

	// ---- several sessions served by one process, in child processes (c19_sess.go) ----
	procDied := c19Sessions(c, nil)

	// ---- server side (c19_srv.go) ----
	root, err := lib.MkScratch("vh-c19-")
	if err != nil {
		r.Fail(lib.Failure{Kind: "tie", Key: "tmpdir", What: err.Error()})
		return
	}
	defer os.RemoveAll(root)
	c19Server(c, root, !procDied)
	r.Sample(map[string]any{"handshake_reply": lib.Hex(valid), "accepted": true})
	r.Sample(map[string]any{"sect": "report", "pairs": [][2]string{{"copy-file", ""}, {"a@b", "1"}, {"a@b", ""}}, "HasExtension": map[string]string{"copy-file": `("", true)`, "a@b": `("", true)`, "a@c": `("", false)`, "": `("", false)`}})
}
