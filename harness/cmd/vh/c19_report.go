package main

// C19, client side, "the extensions a client reports are exactly those the server advertised":
// a REAL *sftp.Client is handed a well-formed version-3 VERSION reply whose extension pairs range over the whole
// class (0/1/many pairs, empty data, empty name, data equal to another pair's name, duplicate names in every
// order, long / binary / non-UTF-8 names and data, every order of a list) and is then asked through
// HasExtension(name) about every advertised name AND about names near them (one byte changed, prefixes, one byte
// more, other case, the empty string, every pair's data, well-known names).  Oracle (independent of the package
// and of the model): HasExtension(name) = (data of the LAST pair called name, true), or ("", false) when no pair
// has that name.  The same questions are asked of the Lean model's recorded map (driver op c19.recv).
// A dependent use is exercised too: File.Sync sends its request iff the reported fsync@openssh.com data is "1".

import (
	"bytes"
	"encoding/hex"
	"errors"
	"fmt"
	"sort"
	"strings"
	"time"

	"github.com/pkg/sftp"

	"verifharness/lib"
	"verifharness/peers"
	"verifharness/wire"
)

const c19RepClass = "c19/client-report"

// c19RepCase is one replayable case of this section.
type c19RepCase struct {
	Sect   string      `json:"sect"`                 // "report"
	Gen    string      `json:"gen"`                  // generator that produced it
	Pairs  [][2]string `json:"pairs_hex"`            // advertised (name, data) pairs in wire order, lowercase hex
	Probes []string    `json:"probes_hex,omitempty"` // names asked through HasExtension (absent: derived from the pairs)
	Sync   bool        `json:"sync,omitempty"`       // also open a file and call File.Sync
}

type c19Pair = [2]string

func c19RepHexPairs(ps []c19Pair) [][2]string {
	out := make([][2]string, len(ps))
	for i, p := range ps {
		out[i] = [2]string{hex.EncodeToString([]byte(p[0])), hex.EncodeToString([]byte(p[1]))}
	}
	return out
}

func c19RepUnhexPairs(hp [][2]string) ([]c19Pair, error) {
	out := make([]c19Pair, len(hp))
	for i, p := range hp {
		n, e1 := hex.DecodeString(p[0])
		d, e2 := hex.DecodeString(p[1])
		if e1 != nil || e2 != nil {
			return nil, fmt.Errorf("pair %d is not hex", i)
		}
		out[i] = c19Pair{string(n), string(d)}
	}
	return out, nil
}

// c19RepSpec is the property's own statement: the data of the last pair with that name.
func c19RepSpec(ps []c19Pair, name string) (string, bool) {
	for i := len(ps) - 1; i >= 0; i-- {
		if ps[i][0] == name {
			return ps[i][1], true
		}
	}
	return "", false
}

// c19RepProbes derives the names to ask about from a pair list (deterministic, duplicates removed, order kept).
func c19RepProbes(ps []c19Pair) []string {
	var out []string
	seen := map[string]bool{}
	add := func(s string) {
		if !seen[s] {
			seen[s] = true
			out = append(out, s)
		}
	}
	for _, p := range ps {
		add(p[0])
	}
	add("")
	for _, p := range ps {
		add(p[1]) // a pair's data is not a name (unless another pair says so)
	}
	budget := 48 // neighbours per list of many pairs stay bounded
	for i, p := range ps {
		n := p[0]
		if i >= 12 && i < len(ps)-2 {
			continue
		}
		if len(n) > 0 {
			b := []byte(n)
			for _, pos := range []int{0, len(b) / 2, len(b) - 1} {
				for _, x := range []byte{0x01, 0x20, 0x80} {
					m := append([]byte(nil), b...)
					m[pos] ^= x
					add(string(m))
				}
			}
			if len(n) <= 24 {
				for l := 1; l < len(n); l++ {
					add(n[:l])
					add(n[l:])
				}
			} else {
				add(n[:1])
				add(n[:len(n)/2])
				add(n[:len(n)-1])
				add(n[1:])
			}
			add(strings.ToUpper(n))
			add(strings.ToLower(n))
		}
		add(n + "\x00")
		add(n + " ")
		add(" " + n)
		add(n + n)
		add(n + "=" + p[1])
		if budget--; budget < 0 {
			break
		}
	}
	for _, n := range []string{"fsync@openssh.com", "statvfs@openssh.com", "hardlink@openssh.com", "posix-rename@openssh.com", "a@b", "x", "1"} {
		add(n)
	}
	return out
}

type c19RepAns struct {
	Data string
	OK   bool
}

type c19RepV struct {
	Key, What        string
	Probe            string // the name asked (meaningful when HasProbe)
	HasProbe         bool
	Expected, Actual any
}

func c19RepShow(d string, ok bool) string {
	if len(d) > 48 {
		return fmt.Sprintf("(%q… [%d bytes], %v)", d[:48], len(d), ok)
	}
	return fmt.Sprintf("(%q, %v)", d, ok)
}

// c19RepRun gives one pair list to a real client and asks it about every probe, twice (the second pass in reverse
// order: asking must not change the answers).  answers[i] belongs to probes[i] (first pass).
func c19RepRun(ps []c19Pair, probes []string, withSync bool) (answers []c19RepAns, vs []c19RepV, syncSent *bool) {
	k := lib.NewCase(c19RepClass)
	frame := wire.VersionFrame(3, ps)
	w := lib.HangWait(hangDeadline)
	cl, ss, err := peers.NewClient(frame)
	if err == peers.ErrTimeout {
		k.Spend(w)
		return nil, []c19RepV{{Key: "client/hang", What: "NewClientPipe did not return after a well-formed version-3 VERSION reply"}}, nil
	}
	if err != nil {
		return nil, []c19RepV{{Key: "client/accepts-iff-v3", What: "a well-formed version-3 VERSION reply was refused", Expected: "session established", Actual: err.Error()}}, nil
	}
	defer func() {
		ss.Shutdown()
		done := make(chan struct{})
		go func() { cl.Close(); close(done) }()
		lib.WaitCleanup(c19RepClass, 5*time.Second, done)
	}()
	answers = make([]c19RepAns, len(probes))
	second := make([]c19RepAns, len(probes))
	if !k.Within(hangDeadline, func() {
		for i, p := range probes {
			d, ok := cl.HasExtension(p)
			answers[i] = c19RepAns{d, ok}
		}
		for i := len(probes) - 1; i >= 0; i-- {
			d, ok := cl.HasExtension(probes[i])
			second[i] = c19RepAns{d, ok}
		}
	}) {
		return nil, []c19RepV{{Key: "client/has-extension/hang", What: "HasExtension did not return"}}, nil
	}
	once := map[string]bool{}
	bad := func(v c19RepV) {
		if !once[v.Key] {
			once[v.Key] = true
			vs = append(vs, v)
		}
	}
	for i, p := range probes {
		wd, wok := c19RepSpec(ps, p)
		g := answers[i]
		switch {
		case wok && !g.OK:
			bad(c19RepV{Key: "client/has-extension/denies-advertised", Probe: p, HasProbe: true,
				What:     fmt.Sprintf("the server advertised extension %q but HasExtension reports it as absent", p),
				Expected: c19RepShow(wd, true), Actual: c19RepShow(g.Data, g.OK)})
		case wok && g.Data != wd:
			bad(c19RepV{Key: "client/has-extension/wrong-data", Probe: p, HasProbe: true,
				What:     fmt.Sprintf("HasExtension(%q) reports other data than the (last) advertised pair of that name", p),
				Expected: c19RepShow(wd, true), Actual: c19RepShow(g.Data, g.OK)})
		case !wok && (g.OK || g.Data != ""):
			bad(c19RepV{Key: "client/has-extension/reports-unadvertised", Probe: p, HasProbe: true,
				What:     fmt.Sprintf("no advertised pair is called %q but HasExtension does not answer (\"\", false)", p),
				Expected: c19RepShow("", false), Actual: c19RepShow(g.Data, g.OK)})
		}
		if second[i] != g {
			bad(c19RepV{Key: "client/has-extension/unstable", Probe: p, HasProbe: true,
				What:     fmt.Sprintf("HasExtension(%q) gave two different answers in one session", p),
				Expected: c19RepShow(g.Data, g.OK), Actual: c19RepShow(second[i].Data, second[i].OK)})
		}
	}
	if withSync {
		sent, v := c19RepSync(k, cl, ss, ps)
		if v != nil {
			bad(*v)
		}
		syncSent = sent
	}
	return answers, vs, syncSent
}

const c19FsyncName = "fsync@openssh.com"

// c19RepSync: File.Sync puts an fsync@openssh.com request on the wire iff the advertised (last) fsync@openssh.com
// pair has data "1"; otherwise it fails with SSH_FX_OP_UNSUPPORTED without sending anything.
func c19RepSync(k *lib.Case, cl *sftp.Client, ss *peers.ScriptedServer, ps []c19Pair) (*bool, *c19RepV) {
	sc := make(chan string, 64)
	ss.Serve(func(p wire.Pkt) []byte {
		switch p.Typ {
		case wire.Open:
			return wire.HandleFrame(p.ID(), "h")
		case wire.Extended:
			d := wire.D{B: p.Body}
			d.U32()
			sc <- "ext:" + d.Str()
			return wire.StatusFrame(p.ID(), wire.OK, "")
		default:
			sc <- fmt.Sprintf("typ:%d", p.Typ)
			return wire.StatusFrame(p.ID(), wire.OK, "")
		}
	})
	var f *sftp.File
	var oerr, serr error
	if !k.Within(hangDeadline, func() { f, oerr = cl.Open("/f") }) {
		return nil, &c19RepV{Key: "client/sync-guard/hang", What: "Open did not return"}
	}
	if oerr != nil {
		return nil, &c19RepV{Key: "client/sync-guard/open", What: "Open against the scripted peer failed", Actual: oerr.Error()}
	}
	if !k.Within(hangDeadline, func() { serr = f.Sync() }) {
		return nil, &c19RepV{Key: "client/sync-guard/hang", What: "File.Sync did not return"}
	}
	var got []string
drain:
	for {
		select {
		case s := <-sc:
			got = append(got, s)
		default:
			break drain
		}
	}
	d, ok := c19RepSpec(ps, c19FsyncName)
	want := ok && d == "1"
	sent := len(got) > 0
	exp := fmt.Sprintf("advertised %s = %s: ", c19FsyncName, c19RepShow(d, ok))
	if want {
		exp += "one fsync@openssh.com request, nil"
	} else {
		exp += "no request, SSH_FX_OP_UNSUPPORTED"
	}
	act := fmt.Sprintf("requests %v, error %v", got, serr)
	fail := func(what string) *c19RepV {
		return &c19RepV{Key: "client/sync-guard", Probe: c19FsyncName, HasProbe: true, What: what, Expected: exp, Actual: act}
	}
	switch {
	case want && (len(got) != 1 || got[0] != "ext:"+c19FsyncName):
		return &sent, fail("the server advertised fsync@openssh.com with data \"1\" but File.Sync did not send exactly one fsync request")
	case want && serr != nil:
		return &sent, fail("File.Sync failed although the peer answered its fsync request with SSH_FX_OK")
	case !want && sent:
		return &sent, fail("File.Sync sent a request although the server did not advertise fsync@openssh.com with data \"1\"")
	case !want:
		var se *sftp.StatusError
		if !errors.As(serr, &se) || se.Code != wire.OpUnsupported {
			return &sent, fail("File.Sync without an advertised fsync@openssh.com \"1\" must fail with SSH_FX_OP_UNSUPPORTED")
		}
	}
	return &sent, nil
}

// ---- generators ----

type c19RepGen struct {
	gen   string
	pairs []c19Pair
	sync  bool
}

func c19RepLong(n int, seed byte) string {
	b := make([]byte, n)
	for i := range b {
		b[i] = 'a' + byte((i+int(seed))%23)
	}
	return string(b)
}

func c19RepCases(c *lib.Ctx) []c19RepGen {
	thorough := c.Tier == "thorough"
	var out []c19RepGen
	add := func(gen string, ps ...c19Pair) { out = append(out, c19RepGen{gen: gen, pairs: ps}) }
	names := []string{"", "a", "a@b", "x", "copy-file", "space-available", "check-file", "vendor-id", "newline@vandyke.com",
		"fsync@openssh.com", "statvfs@openssh.com", "hardlink@openssh.com", "posix-rename@openssh.com", "limits@openssh.com",
		"a\x00b", "\x00", " ", "a b", "a=b", "a,b", "\xff\xfe\xfd", "caf\xc3\xa9@x", "\xc3", "A@B", "1", "-",
		c19RepLong(255, 0), c19RepLong(256, 1), c19RepLong(4096, 2), c19RepLong(65535, 3), c19RepLong(65536, 4)}
	datas := []string{"", "1", "2", "0", " ", "\x00", "\x00\x00", "true", "\xff", "\xe2\x82", "a@b", "1\n", "01", "1 ",
		c19RepLong(300, 5), c19RepLong(70000, 6)}
	// 0 pairs; 1 pair: every name x every data (and data = the name itself)
	add("none")
	for _, n := range names {
		for _, d := range datas {
			add("one", c19Pair{n, d})
		}
		add("one", c19Pair{n, n})
	}
	// 2 pairs: same name (first/last wins), different names, data naming the other pair; both orders
	short := []string{"", "a@b", "x", "fsync@openssh.com", "\xff\xfe\xfd", c19RepLong(300, 7)}
	dsh := []string{"", "1", "2"}
	for _, n := range short {
		for _, d1 := range dsh {
			for _, d2 := range dsh {
				add("dup2", c19Pair{n, d1}, c19Pair{n, d2})
			}
		}
	}
	for i, n1 := range short {
		for j, n2 := range short {
			if i == j {
				continue
			}
			for _, d := range dsh {
				add("two", c19Pair{n1, d}, c19Pair{n2, ""})
				add("two", c19Pair{n1, ""}, c19Pair{n2, d})
			}
			// the data of one pair is the name of the other (and of no pair)
			add("data-is-name", c19Pair{n1, n2}, c19Pair{n2, n1})
			add("data-is-name", c19Pair{n1, n2}, c19Pair{n2, ""})
			add("data-is-name", c19Pair{n1, n2})
			add("data-is-name", c19Pair{n1, ""}, c19Pair{"y", n1})
		}
	}
	// 3 pairs with one name twice, in the three positions, data over {"", "1", "2"}^3
	for _, pos := range [][3]string{{"a@b", "x", "a@b"}, {"a@b", "a@b", "x"}, {"x", "a@b", "a@b"}, {"", "x", ""}, {"a@b", "a@b", "a@b"}} {
		for _, d1 := range dsh {
			for _, d2 := range dsh {
				for _, d3 := range dsh {
					add("dup3", c19Pair{pos[0], d1}, c19Pair{pos[1], d2}, c19Pair{pos[2], d3})
				}
			}
		}
	}
	// every order of a list with an empty datum, a duplicate name and a datum naming a pair
	base := []c19Pair{{"copy-file", ""}, {"a@b", "1"}, {"a@b", ""}, {"x", "copy-file"}}
	if thorough {
		base = append(base, c19Pair{"", "x"})
	}
	c19Permute(base, func(p []c19Pair) { add("orders", append([]c19Pair(nil), p...)...) })
	// many pairs: distinct names, the empty data at the first / middle / last / every / no position; then with repeats
	for _, n := range []int{2, 3, 8, 64, 1000} {
		for _, where := range []string{"none", "first", "mid", "last", "all"} {
			ps := make([]c19Pair, n)
			for i := range ps {
				d := fmt.Sprint(i%3 + 1)
				if where == "all" || (where == "first" && i == 0) || (where == "mid" && i == n/2) || (where == "last" && i == n-1) {
					d = ""
				}
				ps[i] = c19Pair{fmt.Sprintf("e%d@v", i), d}
			}
			add("many", ps...)
		}
		ps := make([]c19Pair, n)
		for i := range ps {
			ps[i] = c19Pair{fmt.Sprintf("e%d@v", i%((n+2)/3)), []string{"", "1", "2", ""}[i%4]}
		}
		add("many-dup", ps...)
	}
	// the largest VERSION packet the client takes (length field = 256 KiB): one long name / one long datum
	const maxLen = 256 * 1024
	fill := func(ps []c19Pair, i, j int) []c19Pair {
		ps[i][j] = ""
		ps[i][j] = c19RepLong(maxLen-(len(wire.VersionFrame(3, ps))-4), 8)
		return ps
	}
	add("max-packet", fill([]c19Pair{{"", "1"}, {"z", ""}}, 0, 0)...)
	add("max-packet", fill([]c19Pair{{"z", ""}, {"y", ""}}, 0, 1)...)
	add("max-packet", fill([]c19Pair{{"z", ""}, {"", ""}}, 1, 0)...)
	// fsync@openssh.com (the one extension the client itself depends on: File.Sync)
	fs := c19FsyncName
	for _, l := range [][]c19Pair{
		nil, {{fs, "1"}}, {{fs, ""}}, {{fs, "2"}}, {{fs, "01"}}, {{fs, "1 "}}, {{fs, "11"}}, {{fs, "\x001"}}, {{fs, "true"}},
		{{fs, "1"}, {fs, "2"}}, {{fs, "2"}, {fs, "1"}}, {{fs, "1"}, {fs, ""}}, {{fs, ""}, {fs, "1"}}, {{fs, "1"}, {fs, "1"}},
		{{"x", fs}}, {{"x", fs}, {"1", "1"}}, {{"fsync@openssh.co", "1"}}, {{"fsync@openssh.com\x00", "1"}}, {{"FSYNC@openssh.com", "1"}},
		{{"fsync", "1"}}, {{"", "1"}}, {{"a@b", "1"}, {fs, "1"}, {"x", ""}}, {{fs, "1"}, {"a@b", ""}}, {{"a@b", ""}, {fs, "1"}},
		{{"hardlink@openssh.com", "1"}, {"posix-rename@openssh.com", "1"}, {"statvfs@openssh.com", "2"}},
		{{"hardlink@openssh.com", "1"}, {"posix-rename@openssh.com", "1"}, {"statvfs@openssh.com", "2"}, {fs, "1"}},
	} {
		out = append(out, c19RepGen{gen: "sync", pairs: l, sync: true})
	}
	// PRNG lists: names from a small pool (so that names repeat) or random bytes, data empty / small / a name / random
	nrand := 400
	if thorough {
		nrand = 20000
	}
	pool := []string{"", "a@b", "x", "copy-file", fs, "a@c", "b@a", "\xff"}
	rb := func(max int) string {
		b := make([]byte, c.Rand.Intn(max+1))
		c.Rand.Read(b)
		return string(b)
	}
	for i := 0; i < nrand; i++ {
		n := c.Rand.Intn(7)
		if c.Rand.Intn(10) == 0 {
			n = 7 + c.Rand.Intn(40)
		}
		ps := make([]c19Pair, n)
		for j := range ps {
			var nm, d string
			switch c.Rand.Intn(4) {
			case 0:
				nm = rb(12)
			case 1:
				if j > 0 {
					nm = ps[c.Rand.Intn(j)][0]
					break
				}
				fallthrough
			default:
				nm = pool[c.Rand.Intn(len(pool))]
			}
			switch c.Rand.Intn(6) {
			case 0, 1:
				d = ""
			case 2:
				d = fmt.Sprint(c.Rand.Intn(3))
			case 3:
				d = pool[c.Rand.Intn(len(pool))]
			case 4:
				if j > 0 {
					d = ps[c.Rand.Intn(j)][0]
				}
			default:
				d = rb(9)
			}
			ps[j] = c19Pair{nm, d}
		}
		out = append(out, c19RepGen{gen: "random", pairs: ps, sync: c.Rand.Intn(8) == 0})
	}
	// each list once
	seen := map[string]bool{}
	uniq := out[:0]
	for _, g := range out {
		k := fmt.Sprintf("%v %q", g.sync, g.pairs)
		if !seen[k] {
			seen[k] = true
			uniq = append(uniq, g)
		}
	}
	return uniq
}

func c19Permute(a []c19Pair, f func([]c19Pair)) {
	var rec func(int)
	rec = func(i int) {
		if i == len(a) {
			f(a)
			return
		}
		for j := i; j < len(a); j++ {
			a[i], a[j] = a[j], a[i]
			rec(i + 1)
			a[i], a[j] = a[j], a[i]
		}
	}
	rec(0)
}

// c19RepShrink makes a failing case smaller while the same violation (same key, same probe) persists: pairs are
// dropped one at a time.  It only runs on failing cases.
func c19RepShrink(ps []c19Pair, v c19RepV, withSync bool) []c19Pair {
	still := func(q []c19Pair) bool {
		_, vs, _ := c19RepRun(q, []string{v.Probe}, withSync && strings.HasPrefix(v.Key, "client/sync-guard"))
		for _, x := range vs {
			if x.Key == v.Key {
				return true
			}
		}
		return false
	}
	if len(ps) > 64 || !still(ps) {
		return ps
	}
	cur := append([]c19Pair(nil), ps...)
	for i := 0; i < len(cur); {
		q := append(append([]c19Pair(nil), cur[:i]...), cur[i+1:]...)
		if still(q) {
			cur = q
		} else {
			i++
		}
	}
	return cur
}

func c19RepDataClass(ps []c19Pair) []string {
	var cl []string
	has := map[string]bool{}
	names := map[string]int{}
	for _, p := range ps {
		names[p[0]]++
	}
	for _, p := range ps {
		if p[1] == "" {
			has["empty-data"] = true
		}
		if p[0] == "" {
			has["empty-name"] = true
		}
		if names[p[0]] > 1 {
			has["dup-name"] = true
		}
		if _, ok := names[p[1]]; ok && p[1] != p[0] {
			has["data-is-a-name"] = true
		}
		if len(p[0]) > 255 || len(p[1]) > 255 {
			has["long"] = true
		}
		if !c19ValidUTF8(p[0]) || !c19ValidUTF8(p[1]) {
			has["non-utf8"] = true
		}
	}
	for k := range has {
		cl = append(cl, k)
	}
	sort.Strings(cl)
	return cl
}

func c19ValidUTF8(s string) bool {
	for _, r := range s {
		if r == 0xFFFD {
			return false
		}
	}
	return true
}

// c19ClientReport runs the section (or one replayed case).
func c19ClientReport(c *lib.Ctx, replay *c19RepCase) {
	r := c.R
	type asked struct {
		line   string
		in     c19RepCase
		probes []string
		ans    []c19RepAns
	}
	var ask []asked
	one := func(g c19RepGen, probes []string, shrink bool) {
		if probes == nil {
			probes = c19RepProbes(g.pairs)
		}
		in := c19RepCase{Sect: "report", Gen: g.gen, Pairs: c19RepHexPairs(g.pairs), Sync: g.sync}
		canon := fmt.Sprint("report ", in.Pairs, g.sync)
		r.Case(canon, len(g.pairs) > 0)
		r.Hist("client-report-" + g.gen)
		switch n := len(g.pairs); {
		case n <= 3:
			r.Hist(fmt.Sprintf("client-report-pairs-%d", n))
		case n <= 8:
			r.Hist("client-report-pairs-4..8")
		default:
			r.Hist("client-report-pairs-9+")
		}
		for _, cl := range c19RepDataClass(g.pairs) {
			r.Hist("client-report-has-" + cl)
		}
		ans, vs, sent := c19RepRun(g.pairs, probes, g.sync)
		r.HistAdd("client-report-probes", len(probes))
		for i := range ans {
			if ans[i].OK {
				r.Hist("client-report-answer-present")
				if ans[i].Data == "" {
					r.Hist("client-report-answer-present-empty-data")
				}
			} else {
				r.Hist("client-report-answer-absent")
			}
		}
		if sent != nil {
			r.Hist(fmt.Sprintf("client-report-sync-sent-%v", *sent))
		}
		for _, v := range vs {
			fin := in
			if v.HasProbe {
				fin.Probes = []string{hex.EncodeToString([]byte(v.Probe))}
			}
			if shrink && v.HasProbe {
				fin.Pairs = c19RepHexPairs(c19RepShrink(g.pairs, v, g.sync))
			}
			fin.Sync = g.sync && strings.HasPrefix(v.Key, "client/sync-guard")
			r.Fail(lib.Failure{Kind: "oracle", Key: v.Key, What: v.What, Input: fin, Expected: v.Expected, Actual: v.Actual})
		}
		if ans != nil {
			body := wire.VersionFrame(3, g.pairs)[5:]
			if len(body) <= 70000 { // the line protocol carries hex; the two 256 KiB packets are left to the direct oracle
				ask = append(ask, asked{line: "c19.recv 2 " + lib.Hex(body), in: in, probes: probes, ans: ans})
			}
		}
	}
	if replay != nil {
		ps, err := c19RepUnhexPairs(replay.Pairs)
		if err != nil {
			r.Fail(lib.Failure{Kind: "tie", Key: "replay", What: err.Error()})
			return
		}
		var probes []string
		for _, p := range replay.Probes {
			b, err := hex.DecodeString(p)
			if err != nil {
				r.Fail(lib.Failure{Kind: "tie", Key: "replay", What: "probe is not hex"})
				return
			}
			probes = append(probes, string(b))
		}
		one(c19RepGen{gen: replay.Gen, pairs: ps, sync: replay.Sync}, probes, false)
	} else {
		for _, g := range c19RepCases(c) {
			if c.Stop(c19RepClass) {
				continue
			}
			one(g, nil, true)
		}
	}
	// ---- the same questions to the Lean model's recorded map ----
	if c.ModelPath == "" || len(ask) == 0 {
		return
	}
	if out, err := c.Model([]string{"c19.recv 2 00000003"}); err != nil || len(out) != 1 || !strings.HasPrefix(out[0], "ok") {
		r.Note("model op c19.recv not available; HasExtension compared with the direct oracle only")
		return
	}
	lines := make([]string, len(ask))
	for i := range ask {
		lines[i] = ask[i].line
	}
	mout, err := c.Model(lines)
	if err != nil {
		r.Fail(lib.Failure{Kind: "tie", Key: "c19/model-driver", What: err.Error()})
		return
	}
	nq := 0
	for i, a := range ask {
		m, ok := c19ParseModelMap(mout[i])
		if !ok {
			r.Fail(lib.Failure{Kind: "correspondence", Key: "c19/c19.recv/report", What: "the model does not accept a VERSION body the client accepted", Input: a.in, Expected: mout[i], Actual: "accepted"})
			continue
		}
		for j, p := range a.probes {
			nq++
			md, mok := m[p]
			if mok != a.ans[j].OK || md != a.ans[j].Data {
				fin := a.in
				fin.Probes = []string{hex.EncodeToString([]byte(p))}
				r.Fail(lib.Failure{Kind: "correspondence", Key: "c19/c19.recv/report", What: fmt.Sprintf("HasExtension(%q) differs from the lookup in the map the model's recvVersion records", p), Input: fin, Expected: c19RepShow(md, mok), Actual: c19RepShow(a.ans[j].Data, a.ans[j].OK)})
				break
			}
		}
	}
	r.AddModelCases(len(ask))
	r.Note("client report: %d HasExtension answers of %d sessions compared with the map recorded by the model (c19.recv)", nq, len(ask))
}

// c19ParseModelMap parses `ok -` / `ok <hex|->=<hex|->,…` of driver op c19.recv.
func c19ParseModelMap(s string) (map[string]string, bool) {
	f := strings.Fields(s)
	if len(f) != 2 || f[0] != "ok" {
		return nil, false
	}
	m := map[string]string{}
	if f[1] == "-" {
		return m, true
	}
	unhex := func(h string) (string, bool) {
		if h == "-" {
			return "", true
		}
		b, err := hex.DecodeString(h)
		return string(b), err == nil
	}
	for _, kv := range bytes.Split([]byte(f[1]), []byte(",")) {
		i := bytes.IndexByte(kv, '=')
		if i < 0 {
			return nil, false
		}
		k, ok1 := unhex(string(kv[:i]))
		v, ok2 := unhex(string(kv[i+1:]))
		if !ok1 || !ok2 {
			return nil, false
		}
		if _, dup := m[k]; dup {
			return nil, false // a map has one entry per name
		}
		m[k] = v
	}
	return m, true
}
