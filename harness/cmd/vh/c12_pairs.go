package main

// C12 — two calls on ONE File at the same moment.
//
// "After Close every method returns os.ErrClosed, exactly one close request has been sent, and no request carrying the
// closed handle is written to the wire afterwards, even when Close races with other methods." The hammer race of
// xfRunRace keeps the File's lock busy with readers, behind which the two Close calls queue up one after the other; a
// Close that looks at the handle and invalidates it in two separate steps shows only when both calls pass the first
// step together. Here exactly two calls leave a spin barrier at the same moment, on a fresh File, hundreds of times:
//
//	Close || Close, Close || {Read, Write, Seek(start), Seek(end), Stat, ReadAt, WriteAt, Truncate, WriteTo, ReadFrom},
//	and the pairs of offset-moving calls Seek || Read, Seek || Write, Seek || Seek, Read || Read, Write || Write, Read || Write.
//
// Oracles: exactly one CLOSE request for the handle reached the peer and none of any type carried it afterwards; of two
// Close calls one returns nil and the other os.ErrClosed; a call racing with Close returns os.ErrClosed or exactly what
// it returns on an open File; two offset-moving calls give the results, the final offset and the final content of one
// of their two orders (they hold the File exclusively); afterwards every method answers os.ErrClosed.

import (
	"bytes"
	"errors"
	"fmt"
	"io"
	"os"
	"runtime"
	"sync"
	"sync/atomic"
	"time"

	"github.com/pkg/sftp"

	"verifharness/lib"
	"verifharness/wire"
)

type xfPairRace struct {
	A        string `json:"a"`
	B        string `json:"b"`
	Attempts int    `json:"attempts"`
	N        int    `json:"n"`   // bytes a Read/Write/ReadAt/WriteAt/ReadFrom of the pair moves
	Off      int64  `json:"off"` // target of Seek(off, io.SeekStart), offset of ReadAt/WriteAt
}

var xfPairList = [][2]string{{"Close", "Close"}, {"Close", "Read"}, {"Close", "Write"}, {"Close", "Seek"}, {"Close", "SeekEnd"}, {"Close", "Stat"},
	{"Close", "ReadAt"}, {"Close", "WriteAt"}, {"Close", "Truncate"}, {"Close", "WriteTo"}, {"Close", "ReadFrom"},
	{"Seek", "Read"}, {"Seek", "Write"}, {"Seek", "Seek2"}, {"Read", "Read"}, {"Write", "Write"}, {"Read", "Write"}}

type xfPairRes struct {
	n    int64
	err  error
	data []byte
}

func (r xfPairRes) String() string {
	if r.data != nil {
		return fmt.Sprintf("(%d, %v, %s)", r.n, r.err, xfShort(r.data))
	}
	return fmt.Sprintf("(%d, %v)", r.n, r.err)
}

func (r xfPairRes) same(o xfPairRes) bool {
	return r.n == o.n && r.err == o.err && bytes.Equal(r.data, o.data)
}

// xfPairSim is the File as the property describes it: one call on (offset, content).
type xfPairSim struct {
	off  int64
	file []byte
}

func (s *xfPairSim) do(name string, p *xfPairRace, side int) xfPairRes {
	seed := 11 + 100*side
	switch name {
	case "Read":
		d := xfSlice(s.file, s.off, p.N)
		r := xfPairRes{n: int64(len(d)), data: append([]byte{}, d...)}
		if len(d) < p.N {
			r.err = io.EOF
		}
		s.off += int64(len(d))
		return r
	case "Write", "ReadFrom":
		s.file = xfOverwrite(s.file, s.off, xfPat(seed, p.N))
		s.off += int64(p.N)
		return xfPairRes{n: int64(p.N)}
	case "Seek":
		s.off = p.Off
		return xfPairRes{n: p.Off}
	case "Seek2":
		s.off = p.Off + 3
		return xfPairRes{n: p.Off + 3}
	case "SeekEnd":
		s.off = int64(len(s.file)) - 1
		return xfPairRes{n: s.off}
	case "Stat":
		return xfPairRes{n: int64(len(s.file))}
	case "ReadAt":
		d := xfSlice(s.file, p.Off, p.N)
		r := xfPairRes{n: int64(len(d)), data: append([]byte{}, d...)}
		if len(d) < p.N {
			r.err = io.EOF
		}
		return r
	case "WriteAt":
		s.file = xfOverwrite(s.file, p.Off, xfPat(seed, p.N))
		return xfPairRes{n: int64(p.N)}
	case "Truncate":
		return xfPairRes{}
	case "WriteTo":
		d := xfSlice(s.file, s.off, len(s.file))
		s.off += int64(len(d))
		return xfPairRes{n: int64(len(d)), data: append([]byte{}, d...)}
	}
	return xfPairRes{err: errors.New("unknown call " + name)}
}

// xfPairCall is the same call on the real File.
func xfPairCall(f *sftp.File, name string, p *xfPairRace, side, size int) xfPairRes {
	seed := 11 + 100*side
	switch name {
	case "Close":
		return xfPairRes{err: f.Close()}
	case "Read":
		b := make([]byte, p.N)
		n, err := f.Read(b)
		return xfPairRes{n: int64(n), err: err, data: b[:max(n, 0)]}
	case "Write":
		n, err := f.Write(xfPat(seed, p.N))
		return xfPairRes{n: int64(n), err: err}
	case "ReadFrom":
		n, err := f.ReadFrom(bytes.NewReader(xfPat(seed, p.N)))
		return xfPairRes{n: n, err: err}
	case "Seek":
		n, err := f.Seek(p.Off, io.SeekStart)
		return xfPairRes{n: n, err: err}
	case "Seek2":
		n, err := f.Seek(p.Off+3, io.SeekStart)
		return xfPairRes{n: n, err: err}
	case "SeekEnd":
		n, err := f.Seek(-1, io.SeekEnd)
		return xfPairRes{n: n, err: err}
	case "Stat":
		fi, err := f.Stat()
		if err != nil {
			return xfPairRes{err: err}
		}
		return xfPairRes{n: fi.Size()}
	case "ReadAt":
		b := make([]byte, p.N)
		n, err := f.ReadAt(b, p.Off)
		return xfPairRes{n: int64(n), err: err, data: b[:max(n, 0)]}
	case "WriteAt":
		n, err := f.WriteAt(xfPat(seed, p.N), p.Off)
		return xfPairRes{n: int64(n), err: err}
	case "Truncate":
		return xfPairRes{err: f.Truncate(int64(size))}
	case "WriteTo":
		var sink bytes.Buffer
		n, err := f.WriteTo(&sink)
		return xfPairRes{n: n, err: err, data: append([]byte{}, sink.Bytes()...)}
	}
	return xfPairRes{err: errors.New("unknown call " + name)}
}

// xfRunPairs runs the attempts of one pair race on a held scripted peer.
func xfRunPairs(sc xfSeqCase, hold *xfPeerHold) (fails []xfSeqFailure, stats map[string]int) {
	stats = map[string]int{}
	p := sc.Pair
	pair := p.A + "||" + p.B
	fail := func(at int, site, what string, exp, act any) {
		fails = append(fails, xfSeqFailure{Key: "pair/" + pair + "/" + site, What: what, At: at, Expected: exp, Actual: act})
	}
	kase := lib.NewCase(xfProp + "/pair-race")
	file := xfFilePat(sc.FileLen)
	po := xfPeerOpts{File: file, Exists: true, Window: 1}
	peer := hold.get(sc.Cfg, po, p.Attempts*(2*p.N+sc.FileLen+200))
	if peer == nil {
		var err error
		if peer, err = xfNewPeer(sc.Cfg, po); err != nil {
			fail(-1, "setup", err.Error(), nil, nil)
			return
		}
		if hold != nil {
			hold.put(sc.Cfg, peer)
		} else {
			defer peer.Shutdown()
		}
	}
	abandon := func() {
		if hold != nil {
			hold.p = nil
		}
		go peer.Shutdown()
	}
	hasClose := p.A == "Close" || p.B == "Close"
	for at := 0; at < p.Attempts; at++ {
		if len(fails) > 0 || (at%32 == 0 && lib.Stopped(kase.Class())) {
			break
		}
		peer.Put(file)
		peer.ResetLog()
		var f *sftp.File
		var openErr error
		var ra, rb xfPairRes
		var offAfter int64
		var offErr, closeErr error
		var after map[string]error
		done := make(chan struct{})
		go func() {
			defer close(done)
			if f, openErr = peer.Cli.OpenFile("/f", os.O_RDWR); openErr != nil {
				return
			}
			// the barrier: both callers spin on `start`, which this goroutine sets once both are spinning - they see it change
			// at the same moment
			var ready, start int32
			var wg sync.WaitGroup
			wg.Add(2)
			leave := func(delay int) {
				atomic.AddInt32(&ready, 1)
				for n := 0; atomic.LoadInt32(&start) == 0; n++ {
					if n&16383 == 16383 {
						runtime.Gosched()
					}
				}
				var x int64
				for i := 0; i < delay; i++ {
					atomic.AddInt64(&x, 1)
				}
			}
			// most attempts are tight; in the others one side starts 40 … 5000 atomic increments late (either side), so
			// that both orders are seen
			da, db := 0, 0
			lag := []int{0, 40, 40, 200, 200, 1000, 5000, 0}[at%8]
			if p.B == "Close" && at%8 > 2 {
				lag = 0 // Close || Close: the window is a few instructions wide
			}
			if at%2 == 0 {
				da = lag
			} else {
				db = lag
			}
			go func() { defer wg.Done(); leave(da); ra = xfPairCall(f, p.A, p, 0, sc.FileLen) }()
			go func() { defer wg.Done(); leave(db); rb = xfPairCall(f, p.B, p, 1, sc.FileLen) }()
			for n := 0; atomic.LoadInt32(&ready) != 2; n++ {
				if n&16383 == 16383 {
					runtime.Gosched()
				}
			}
			atomic.StoreInt32(&start, 1)
			wg.Wait()
			// what is asked of the File afterwards (inside the same guarded goroutine: every wait on the File has a deadline)
			if !hasClose {
				offAfter, offErr = f.Seek(0, io.SeekCurrent)
				closeErr = f.Close()
			}
			after = map[string]error{"Read": xfErr2(f.Read(make([]byte, 1))), "Seek": xfErr2(f.Seek(0, io.SeekCurrent)), "Close": f.Close(), "Stat": xfErr2(f.Stat())}
		}()
		if _, ok := lib.WaitCase(kase, 20*time.Second, done); !ok {
			fail(at, "hang", "the two concurrent calls did not both return within 20 s", "return", "hang")
			abandon()
			return
		}
		if openErr != nil {
			fail(at, "setup", "open: "+openErr.Error(), nil, nil)
			abandon()
			return
		}
		got := fmt.Sprintf("%s = %s, %s = %s", p.A, ra, p.B, rb)
		closed := func(r xfPairRes) bool { return errors.Is(r.err, os.ErrClosed) }
		if hasClose {
			if p.B == "Close" {
				// Close || Close
				switch {
				case ra.err == nil && closed(rb), closed(ra) && rb.err == nil:
					stats["pair="+pair+"|one nil, one os.ErrClosed"]++
				default:
					fail(at, "close-results", "of two concurrent Close calls on one File exactly one must return nil and the other os.ErrClosed", "{<nil>, os.ErrClosed}", got)
				}
			} else {
				if ra.err != nil {
					fail(at, "close-results", "the only Close call on the File did not return nil", "<nil>", got)
				}
				sim := &xfPairSim{file: append([]byte{}, file...)}
				want := sim.do(p.B, p, 1)
				switch {
				case closed(rb):
					stats["pair="+pair+"|"+p.B+" after the Close: os.ErrClosed"]++
				case rb.same(want):
					stats["pair="+pair+"|"+p.B+" before the Close: its own result"]++
				default:
					fail(at, "result", p.B+" racing with Close must return os.ErrClosed or what it returns on the open File", "os.ErrClosed or "+want.String(), got)
				}
			}
		} else {
			// two calls that hold the File exclusively: one of the two orders
			okOrder := ""
			content := peer.Get()
			for _, order := range []string{"AB", "BA"} {
				sim := &xfPairSim{file: append([]byte{}, file...)}
				var wa, wb xfPairRes
				if order == "AB" {
					wa = sim.do(p.A, p, 0)
					wb = sim.do(p.B, p, 1)
				} else {
					wb = sim.do(p.B, p, 1)
					wa = sim.do(p.A, p, 0)
				}
				if offErr == nil && ra.same(wa) && rb.same(wb) && offAfter == sim.off && bytes.Equal(content, sim.file) {
					okOrder = order
					break
				}
			}
			if okOrder == "" {
				fail(at, "not-one-of-the-two-orders", "two offset-moving calls on one File must give the results, the final offset and the content of one of their two orders",
					"the outcome of "+p.A+";"+p.B+" or of "+p.B+";"+p.A, fmt.Sprintf("%s, offset %d (%v), file %s", got, offAfter, offErr, xfShort(content)))
			} else {
				stats["pair="+pair+"|order="+okOrder]++
			}
			if closeErr != nil {
				fail(at, "close-results", "Close after the two calls failed", "<nil>", closeErr.Error())
			}
		}
		// afterwards everything answers os.ErrClosed, and the wire saw one CLOSE and nothing with the handle after it
		name := []string{"Read", "Seek", "Close", "Stat"}[at%4]
		if e := after[name]; !errors.Is(e, os.ErrClosed) {
			fail(at, "after-close/"+name, name+" after the File was closed did not return os.ErrClosed", "os.ErrClosed", fmt.Sprint(e))
		}
		ncl, stale := 0, ""
		for _, q := range peer.Log() {
			if q.Typ == wire.Close {
				ncl++
			}
			if q.Stale && stale == "" {
				stale = fmt.Sprintf("request #%d of type %d", q.Seq, q.Typ)
			}
		}
		if ncl != 1 {
			fail(at, "close-count", "not exactly one CLOSE request was sent for the File", 1, fmt.Sprintf("%d CLOSE requests (%s)", ncl, got))
		}
		if stale != "" {
			fail(at, "use-after-close", "a request carrying the closed handle reached the peer after the CLOSE", "none", stale+" ("+got+")")
		}
	}
	return
}
