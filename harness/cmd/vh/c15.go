package main

import (
	"encoding/hex"
	"fmt"
	"io"
	"io/fs"
	"os"
	"path/filepath"
	"sort"
	"strings"
	"sync"
	"sync/atomic"
	"time"

	"github.com/pkg/sftp"

	"verifharness/lib"
)

func init() { register("c15", checkC15) }

// one global logical clock for call, stamp and return instants
type c15Clock struct{ n int64 }

func (c *c15Clock) tick() int64 { return atomic.AddInt64(&c.n, 1) }

type c15StoreEv struct {
	kind  byte // r w s
	stamp int64
	off   int64
	data  []byte // written data / bytes returned
	size  int64
}

// c15Store is an atomic in-memory file that stamps every operation inside its critical section.
type c15Store struct {
	mu  sync.Mutex
	b   []byte
	clk *c15Clock
	log []c15StoreEv
}

func (s *c15Store) ReadAt(p []byte, off int64) (int, error) {
	s.mu.Lock()
	defer s.mu.Unlock()
	st := s.clk.tick()
	if off >= int64(len(s.b)) {
		s.log = append(s.log, c15StoreEv{kind: 'r', stamp: st, off: off})
		return 0, io.EOF
	}
	n := copy(p, s.b[off:])
	s.log = append(s.log, c15StoreEv{kind: 'r', stamp: st, off: off, data: append([]byte(nil), p[:n]...)})
	if n < len(p) {
		return n, io.EOF
	}
	return n, nil
}

func (s *c15Store) WriteAt(p []byte, off int64) (int, error) {
	s.mu.Lock()
	defer s.mu.Unlock()
	st := s.clk.tick()
	if need := int(off) + len(p); need > len(s.b) {
		s.b = append(s.b, make([]byte, need-len(s.b))...)
	}
	copy(s.b[off:], p)
	s.log = append(s.log, c15StoreEv{kind: 'w', stamp: st, off: off, data: append([]byte(nil), p...)})
	return len(p), nil
}

func (s *c15Store) statSize() int64 {
	s.mu.Lock()
	defer s.mu.Unlock()
	st := s.clk.tick()
	s.log = append(s.log, c15StoreEv{kind: 's', stamp: st, size: int64(len(s.b))})
	return int64(len(s.b))
}

// request-server handlers over the store
type c15H struct{ s *c15Store }

func (h c15H) Fileread(*sftp.Request) (io.ReaderAt, error)  { return h.s, nil }
func (h c15H) Filewrite(*sftp.Request) (io.WriterAt, error) { return h.s, nil }
func (h c15H) OpenFile(*sftp.Request) (sftp.WriterAtReaderAt, error) {
	return h.s, nil
}
func (h c15H) Filecmd(*sftp.Request) error { return nil }
func (h c15H) Filelist(r *sftp.Request) (sftp.ListerAt, error) {
	return c15One{c16Info{name: "f", idx: int(h.s.statSize())}}, nil
}

type c15One struct{ fi os.FileInfo }

func (o c15One) ListAt(ls []os.FileInfo, off int64) (int, error) {
	if off > 0 {
		return 0, io.EOF
	}
	ls[0] = o.fi
	return 1, io.EOF
}

// c15File wraps the os-backed server's open file: the real pread/pwrite inside a stamped critical section.
type c15File struct {
	sftp.VerifFile
	s *c15Store
}

func (f c15File) ReadAt(b []byte, off int64) (int, error) {
	f.s.mu.Lock()
	defer f.s.mu.Unlock()
	st := f.s.clk.tick()
	n, err := f.VerifFile.ReadAt(b, off)
	f.s.log = append(f.s.log, c15StoreEv{kind: 'r', stamp: st, off: off, data: append([]byte(nil), b[:n]...)})
	return n, err
}
func (f c15File) WriteAt(b []byte, off int64) (int, error) {
	f.s.mu.Lock()
	defer f.s.mu.Unlock()
	st := f.s.clk.tick()
	n, err := f.VerifFile.WriteAt(b, off)
	f.s.log = append(f.s.log, c15StoreEv{kind: 'w', stamp: st, off: off, data: append([]byte(nil), b[:n]...)})
	return n, err
}
func (f c15File) Stat() (fs.FileInfo, error) {
	f.s.mu.Lock()
	defer f.s.mu.Unlock()
	st := f.s.clk.tick()
	fi, err := f.VerifFile.Stat()
	if err == nil {
		f.s.log = append(f.s.log, c15StoreEv{kind: 's', stamp: st, size: fi.Size()})
	}
	return fi, err
}

type c15Op struct {
	Kind      byte   `json:"-"`
	K         string `json:"kind"`
	Call, Ret int64
	Off       int64
	Len       int
	Data      []byte `json:"-"`
	DataHex   string `json:"data"`
	Size      int64
	Stamp     int64
	Err       string
}

// Big: operations up to the largest single-packet size (32768 bytes) on a file of several packets, so that a
// server that answers a maximal READ short (the client then completes it with a second request) is observed.
type c15Cfg struct {
	Big        bool   `json:"big,omitempty"`
	Server     string `json:"server"` // rs | os
	Alloc      bool   `json:"allocator"`
	Goroutines int    `json:"goroutines"`
	OpsEach    int    `json:"ops_each"`
	Handles    int    `json:"handles"`
	FileSize   int    `json:"file_size"`
	Seed       int64  `json:"seed"`
}

// c15Run executes one concurrent history and returns the client-side ops with their matched stamps.
func c15Run(cfg c15Cfg) (init []byte, ops []c15Op, problem string) {
	rnd := newRand(cfg.Seed)
	clk := &c15Clock{}
	init = make([]byte, cfg.FileSize)
	for i := range init {
		init[i] = byte(0xA0 + i%16)
	}
	store := &c15Store{b: append([]byte(nil), init...), clk: clk}
	var pair *vhPair
	var err error
	path := "/f"
	var cleanup func()
	if cfg.Server == "rs" {
		var so []sftp.RequestServerOption
		if cfg.Alloc {
			so = append(so, sftp.WithRSAllocator())
		}
		pair, err = vhStartRS(sftp.Handlers{FileGet: c15H{store}, FilePut: c15H{store}, FileCmd: c15H{store}, FileList: c15H{store}}, nil, so...)
	} else {
		dir, e := os.MkdirTemp("", "vh-c15-")
		if e != nil {
			return nil, nil, e.Error()
		}
		cleanup = func() { os.RemoveAll(dir) }
		path = filepath.Join(dir, "f")
		os.WriteFile(path, init, 0o600)
		var so []sftp.ServerOption
		if cfg.Alloc {
			so = append(so, sftp.WithAllocator())
		}
		pair, err = vhStartOS(nil, so...)
	}
	if err != nil {
		return nil, nil, err.Error()
	}
	defer func() {
		pair.Close()
		if cleanup != nil {
			cleanup()
		}
	}()
	var files []*sftp.File
	for i := 0; i < cfg.Handles; i++ {
		f, err := pair.Client.OpenFile(path, os.O_RDWR)
		if err != nil {
			return nil, nil, "open: " + err.Error()
		}
		files = append(files, f)
	}
	if cfg.Server == "os" {
		// the server issues handles "1","2",…: wrap each open file
		for i := 1; i <= cfg.Handles; i++ {
			sftp.VerifSwapFile(pair.OS, fmt.Sprint(i), func(f sftp.VerifFile) sftp.VerifFile { return c15File{f, store} })
		}
	}
	// plan: unique (off,len) per read, unique data per write
	type plan struct {
		kind byte
		off  int64
		n    int
		data []byte
		h    int
	}
	usedRead := map[[2]int]bool{}
	plans := make([][]plan, cfg.Goroutines)
	opid := 0
	for g := range plans {
		for k := 0; k < cfg.OpsEach; k++ {
			opid++
			p := plan{h: rnd.Intn(cfg.Handles)}
			switch x := rnd.Intn(10); {
			case x < 4:
				p.kind = 'w'
				p.n = 2 + rnd.Intn(10)
				if cfg.Big {
					p.n = []int{32768, 32767, 20000, 32768 - 13, 4096}[rnd.Intn(5)]
				}
				p.off = int64(rnd.Intn(cfg.FileSize - p.n + 1))
				p.data = make([]byte, p.n)
				p.data[0], p.data[1] = byte(opid>>8), byte(opid) // unique
				for i := 2; i < p.n; i++ {
					p.data[i] = byte(rnd.Intn(256))
				}
			case x < 9:
				p.kind = 'r'
				for tries := 0; ; tries++ {
					p.n = 1 + rnd.Intn(16)
					if cfg.Big {
						p.n = 32768 - rnd.Intn(16)
					}
					p.off = int64(rnd.Intn(cfg.FileSize - p.n + 1))
					if !usedRead[[2]int{int(p.off), p.n}] || tries > 50 {
						break
					}
				}
				if usedRead[[2]int{int(p.off), p.n}] {
					p.kind = 's'
				}
				usedRead[[2]int{int(p.off), p.n}] = true
			default:
				p.kind = 's'
			}
			plans[g] = append(plans[g], p)
		}
	}
	var mu sync.Mutex
	var wg sync.WaitGroup
	for g := range plans {
		wg.Add(1)
		go func(g int) {
			defer wg.Done()
			for _, p := range plans[g] {
				op := c15Op{Kind: p.kind, K: string(p.kind), Off: p.off, Len: p.n}
				f := files[p.h]
				op.Call = clk.tick()
				switch p.kind {
				case 'w':
					_, err := f.WriteAt(p.data, p.off)
					op.Ret = clk.tick()
					op.Data = p.data
					if err != nil {
						op.Err = err.Error()
					}
				case 'r':
					b := make([]byte, p.n)
					n, err := f.ReadAt(b, p.off)
					op.Ret = clk.tick()
					op.Data = b[:n]
					if err != nil {
						op.Err = err.Error()
					}
				case 's':
					fi, err := f.Stat()
					op.Ret = clk.tick()
					if err != nil {
						op.Err = err.Error()
					} else {
						op.Size = fi.Size()
					}
				}
				mu.Lock()
				ops = append(ops, op)
				mu.Unlock()
			}
		}(g)
	}
	done := make(chan struct{})
	go func() { wg.Wait(); close(done) }()
	select {
	case <-done:
	case <-time.After(30 * time.Second):
		return init, nil, "hang: concurrent operations did not finish within 30 s"
	}
	// match store events to client ops
	store.mu.Lock()
	log := append([]c15StoreEv(nil), store.log...)
	store.mu.Unlock()
	sort.Slice(ops, func(i, j int) bool { return ops[i].Ret < ops[j].Ret })
	used := make([]bool, len(log))
	for i := range ops {
		op := &ops[i]
		op.DataHex = hex.EncodeToString(op.Data)
		if op.Err != "" {
			return init, ops, fmt.Sprintf("operation failed: %c off=%d len=%d: %s", op.Kind, op.Off, op.Len, op.Err)
		}
		found := -1
		for j, ev := range log {
			if used[j] || ev.kind != op.Kind {
				continue
			}
			switch op.Kind {
			case 'w':
				if ev.off == op.Off && string(ev.data) == string(op.Data) {
					found = j
				}
			case 'r':
				if ev.off == op.Off && len(ev.data) == op.Len {
					found = j
				}
			case 's':
				// earliest-deadline-first matching of stat stamps to stat intervals
				if ev.stamp > op.Call && ev.stamp < op.Ret && (found < 0 || ev.stamp < log[found].stamp) {
					found = j
				}
			}
			if found >= 0 && op.Kind != 's' {
				break
			}
		}
		if found < 0 {
			return init, ops, fmt.Sprintf("no store step found for operation %c off=%d len=%d (call %d, ret %d)", op.Kind, op.Off, op.Len, op.Call, op.Ret)
		}
		used[found] = true
		op.Stamp = log[found].stamp
	}
	return init, ops, ""
}

func c15Line(init []byte, ops []c15Op) string {
	var parts []string
	for _, op := range ops {
		switch op.Kind {
		case 'r':
			parts = append(parts, fmt.Sprintf("r,%d,%d,%d,%d,%s,%d", op.Call, op.Stamp, op.Ret, op.Off, lib.Hex(op.Data), op.Len))
		case 'w':
			parts = append(parts, fmt.Sprintf("w,%d,%d,%d,%d,%s", op.Call, op.Stamp, op.Ret, op.Off, lib.Hex(op.Data)))
		case 's':
			parts = append(parts, fmt.Sprintf("s,%d,%d,%d,%d", op.Call, op.Stamp, op.Ret, op.Size))
		}
	}
	if len(parts) == 0 {
		return "c15.check " + lib.Hex(init) + " -"
	}
	return "c15.check " + lib.Hex(init) + " " + strings.Join(parts, ";")
}

func checkC15(c *lib.Ctx) {
	r := c.R
	r.Rule = "concurrent histories of single-packet ReadAt/WriteAt within the extent and Stat (size) by 2..8 goroutines over one Client on 1..3 handles of one fixed-size file; both servers, allocator on/off; every read has a unique (offset,length), every write unique data, so each client operation is matched to the store step that served it; the stamped history is decided by the PROVED checker checkStamped (Lean, C15.checker_sound) — exact trace validation, no search; non-trivial = history with at least two overlapping operations one of which is a write"
	var cfgs []c15Cfg
	if c.Replay != "" {
		var one c15Cfg
		if err := lib.ReadReplay(c.Replay, &one); err != nil {
			r.Fail(lib.Failure{Kind: "tie", Key: "replay", What: err.Error()})
			return
		}
		cfgs = []c15Cfg{one}
	} else {
		n := 300
		if c.Tier == "thorough" {
			n = 6000
		}
		for i := 0; i < n; i++ {
			cfgs = append(cfgs, c15Cfg{
				Server: []string{"rs", "os"}[i%2], Alloc: (i/2)%2 == 1,
				Goroutines: 2 + c.Rand.Intn(7), OpsEach: 4 + c.Rand.Intn(20), Handles: 1 + c.Rand.Intn(3),
				FileSize: 48 + c.Rand.Intn(64), Seed: c.Rand.Int63(),
			})
			if i%5 == 4 {
				k := &cfgs[len(cfgs)-1]
				k.Big, k.FileSize, k.OpsEach = true, 3*32768+c.Rand.Intn(100), 3+c.Rand.Intn(6)
			}
		}
	}
	var lines []string
	var keep []c15Cfg
	for _, cfg := range cfgs {
		init, ops, problem := c15Run(cfg)
		overlap := false
		for i := range ops {
			for j := range ops {
				if i != j && ops[i].Kind == 'w' && ops[i].Call < ops[j].Ret && ops[j].Call < ops[i].Ret {
					overlap = true
				}
			}
		}
		line := c15Line(init, ops)
		r.Case(line, overlap)
		r.Hist(fmt.Sprintf("%s-alloc=%v", cfg.Server, cfg.Alloc))
		r.Hist(fmt.Sprintf("goroutines-%d", cfg.Goroutines))
		if cfg.Big {
			r.Hist("max-packet-sized-operations")
		}
		if overlap {
			r.Hist("has-overlapping-write")
		}
		if problem != "" {
			key := "history/" + strings.SplitN(problem, ":", 2)[0]
			if strings.HasPrefix(problem, "no store step") {
				key = "history/unmatched-operation"
			}
			r.Fail(lib.Failure{Kind: "oracle", Key: key, What: problem, Input: cfg})
			continue
		}
		if len(r.Samples) < 2 {
			short := ops
			if len(short) > 6 {
				short = short[:6]
			}
			r.Sample(map[string]any{"cfg": cfg, "first_ops": short})
		}
		lines = append(lines, line)
		keep = append(keep, cfg)
	}
	out, err := c.Model(lines)
	if err != nil {
		r.Fail(lib.Failure{Kind: "tie", Key: "c15/model-driver", What: err.Error()})
		return
	}
	for i, o := range out {
		if o != "ok" {
			r.Fail(lib.Failure{Kind: "oracle", Key: "history/not-linearizable", What: "stamped history rejected by the proved checker: " + o, Input: keep[i], Actual: lines[i]})
		}
	}
}
