package main

import (
	"encoding/hex"
	"fmt"
	"io"
	"io/fs"
	"os"
	"path/filepath"
	"sort"
	"strings"
	"sync"
	"sync/atomic"
	"time"

	"github.com/pkg/sftp"

	"verifharness/lib"
)

// The check runs in a child process (xfInChild): the alias family serves the package's own InMemHandler inside the process, and a
// panic in one of the server's goroutines (seeded defects C15_c, C15_g made FSETSTAT reach the handler with a garbled size) would
// otherwise take the findings of the other families with it.
func init() { register("c15", func(c *lib.Ctx) { xfInChild(c, "c15", checkC15) }) }

// one global logical clock for call, stamp and return instants
type c15Clock struct{ n int64 }

func (c *c15Clock) tick() int64 { return atomic.AddInt64(&c.n, 1) }

type c15StoreEv struct {
	kind  byte // r w s
	stamp int64
	off   int64
	data  []byte // written data / bytes returned
	size  int64
}

// c15Store is an atomic in-memory file that stamps every operation inside its critical section.
type c15Store struct {
	mu  sync.Mutex
	b   []byte
	clk *c15Clock
	log []c15StoreEv
}

func (s *c15Store) ReadAt(p []byte, off int64) (int, error) {
	s.mu.Lock()
	defer s.mu.Unlock()
	st := s.clk.tick()
	if off >= int64(len(s.b)) {
		s.log = append(s.log, c15StoreEv{kind: 'r', stamp: st, off: off})
		return 0, io.EOF
	}
	n := copy(p, s.b[off:])
	s.log = append(s.log, c15StoreEv{kind: 'r', stamp: st, off: off, data: append([]byte(nil), p[:n]...)})
	if n < len(p) {
		return n, io.EOF
	}
	return n, nil
}

func (s *c15Store) WriteAt(p []byte, off int64) (int, error) {
	s.mu.Lock()
	defer s.mu.Unlock()
	st := s.clk.tick()
	if need := int(off) + len(p); need > len(s.b) {
		s.b = append(s.b, make([]byte, need-len(s.b))...)
	}
	copy(s.b[off:], p)
	s.log = append(s.log, c15StoreEv{kind: 'w', stamp: st, off: off, data: append([]byte(nil), p...)})
	return len(p), nil
}

func (s *c15Store) statSize() int64 {
	s.mu.Lock()
	defer s.mu.Unlock()
	st := s.clk.tick()
	s.log = append(s.log, c15StoreEv{kind: 's', stamp: st, size: int64(len(s.b))})
	return int64(len(s.b))
}

// request-server handlers over the store
type c15H struct{ s *c15Store }

func (h c15H) Fileread(*sftp.Request) (io.ReaderAt, error)  { return h.s, nil }
func (h c15H) Filewrite(*sftp.Request) (io.WriterAt, error) { return h.s, nil }
func (h c15H) OpenFile(*sftp.Request) (sftp.WriterAtReaderAt, error) {
	return h.s, nil
}
func (h c15H) Filecmd(*sftp.Request) error { return nil }
func (h c15H) Filelist(r *sftp.Request) (sftp.ListerAt, error) {
	return c15One{c16Info{name: "f", idx: int(h.s.statSize())}}, nil
}

// c15HPut is a FilePut handler WITHOUT OpenFileWriter: the request server then serves an O_RDWR open as a write handle.
type c15HPut struct{ s *c15Store }

func (h c15HPut) Filewrite(*sftp.Request) (io.WriterAt, error) { return h.s, nil }

type c15One struct{ fi os.FileInfo }

func (o c15One) ListAt(ls []os.FileInfo, off int64) (int, error) {
	if off > 0 {
		return 0, io.EOF
	}
	ls[0] = o.fi
	return 1, io.EOF
}

// c15File wraps the os-backed server's open file: the real pread/pwrite inside a stamped critical section.
type c15File struct {
	sftp.VerifFile
	s *c15Store
}

func (f c15File) ReadAt(b []byte, off int64) (int, error) {
	f.s.mu.Lock()
	defer f.s.mu.Unlock()
	st := f.s.clk.tick()
	n, err := f.VerifFile.ReadAt(b, off)
	f.s.log = append(f.s.log, c15StoreEv{kind: 'r', stamp: st, off: off, data: append([]byte(nil), b[:n]...)})
	return n, err
}
func (f c15File) WriteAt(b []byte, off int64) (int, error) {
	f.s.mu.Lock()
	defer f.s.mu.Unlock()
	st := f.s.clk.tick()
	n, err := f.VerifFile.WriteAt(b, off)
	f.s.log = append(f.s.log, c15StoreEv{kind: 'w', stamp: st, off: off, data: append([]byte(nil), b[:n]...)})
	return n, err
}
func (f c15File) Stat() (fs.FileInfo, error) {
	f.s.mu.Lock()
	defer f.s.mu.Unlock()
	st := f.s.clk.tick()
	fi, err := f.VerifFile.Stat()
	if err == nil {
		f.s.log = append(f.s.log, c15StoreEv{kind: 's', stamp: st, size: fi.Size()})
	}
	return fi, err
}

type c15Op struct {
	Kind      byte   `json:"-"`
	K         string `json:"kind"`
	Call, Ret int64
	Off       int64
	Len       int
	Data      []byte `json:"-"`
	DataHex   string `json:"data"`
	Size      int64
	Stamp     int64
	Err       string
}

// Big: operations up to the largest single-packet size on a file of several packets, so that a server that answers
// a maximal READ short (the client then completes it with a second request) is observed.  The single-packet size is
// what the two sides are configured with: a WriteAt is one WRITE packet up to the client's max packet, a ReadAt is
// one READ answered by one DATA up to min(client max packet, server max-tx-packet).
type c15Cfg struct {
	Big    bool   `json:"big,omitempty"`
	Server string `json:"server"` // rs | os
	Alloc  bool   `json:"allocator"`
	// request server only: FilePut handler without OpenFileWriter (an O_RDWR handle is then a write handle)
	NoOpenFileWriter bool `json:"no_open_file_writer,omitempty"`
	// WithRSMaxTxPacket / WithMaxTxPacket (0 = option not given) and MaxPacketUnchecked (0 = option not given)
	SrvMaxTx int `json:"server_max_tx_packet,omitempty"`
	CliMax   int `json:"client_max_packet,omitempty"`
	// open mode of each handle: r (O_RDONLY) | w (O_WRONLY) | rw (O_RDWR); missing = rw
	Kinds      []string `json:"handle_kinds,omitempty"`
	Goroutines int      `json:"goroutines"`
	OpsEach    int      `json:"ops_each"`
	Handles    int      `json:"handles"`
	FileSize   int      `json:"file_size"`
	Seed       int64    `json:"seed"`
}

// c15Run executes one concurrent history and returns the client-side ops with their matched stamps.
func c15Run(cfg c15Cfg) (init []byte, ops []c15Op, problem string) {
	rnd := newRand(cfg.Seed)
	clk := &c15Clock{}
	init = make([]byte, cfg.FileSize)
	for i := range init {
		init[i] = byte(0xA0 + i%16)
	}
	store := &c15Store{b: append([]byte(nil), init...), clk: clk}
	var pair *vhPair
	var err error
	path := "/f"
	var cleanup func()
	var copts []sftp.ClientOption
	if cfg.CliMax > 0 {
		copts = append(copts, sftp.MaxPacketUnchecked(cfg.CliMax))
	}
	if cfg.Server == "rs" {
		var so []sftp.RequestServerOption
		if cfg.Alloc {
			so = append(so, sftp.WithRSAllocator())
		}
		if cfg.SrvMaxTx > 0 {
			so = append(so, sftp.WithRSMaxTxPacket(uint32(cfg.SrvMaxTx)))
		}
		hs := sftp.Handlers{FileGet: c15H{store}, FilePut: c15H{store}, FileCmd: c15H{store}, FileList: c15H{store}}
		if cfg.NoOpenFileWriter {
			hs.FilePut = c15HPut{store}
		}
		pair, err = vhStartRS(hs, copts, so...)
	} else {
		dir, e := lib.MkScratch("vh-c15-")
		if e != nil {
			return nil, nil, e.Error()
		}
		cleanup = func() { os.RemoveAll(dir) }
		path = filepath.Join(dir, "f")
		os.WriteFile(path, init, 0o600)
		var so []sftp.ServerOption
		if cfg.Alloc {
			so = append(so, sftp.WithAllocator())
		}
		if cfg.SrvMaxTx > 0 {
			so = append(so, sftp.WithMaxTxPacket(uint32(cfg.SrvMaxTx)))
		}
		pair, err = vhStartOS(copts, so...)
	}
	if err != nil {
		return nil, nil, err.Error()
	}
	defer func() {
		pair.Close()
		if cleanup != nil {
			cleanup()
		}
	}()
	// handles of every kind; canRead/canWrite: what the server serves through the handle
	var files []*sftp.File
	var canRead, canWrite []int
	for i := 0; i < cfg.Handles; i++ {
		kind := "rw"
		if i < len(cfg.Kinds) {
			kind = cfg.Kinds[i]
		}
		flag := map[string]int{"r": os.O_RDONLY, "w": os.O_WRONLY, "rw": os.O_RDWR}[kind]
		var f *sftp.File
		var err error
		if !lib.Within("c15/"+cfg.Server, 20*time.Second, func() { f, err = pair.Client.OpenFile(path, flag) }) {
			return nil, nil, "hang: OpenFile did not return within 20 s"
		}
		if err != nil {
			return nil, nil, "open: " + err.Error()
		}
		files = append(files, f)
		if kind == "r" || (kind == "rw" && !(cfg.Server == "rs" && cfg.NoOpenFileWriter)) {
			canRead = append(canRead, i)
		}
		if kind != "r" {
			canWrite = append(canWrite, i)
		}
	}
	if cfg.Server == "os" {
		// the server issues handles "1","2",…: wrap each open file
		for i := 1; i <= cfg.Handles; i++ {
			sftp.VerifSwapFile(pair.OS, fmt.Sprint(i), func(f sftp.VerifFile) sftp.VerifFile { return c15File{f, store} })
		}
	}
	store.mu.Lock()
	store.log = nil // steps caused by opening (none expected) are not operations of the history
	store.mu.Unlock()
	// single-packet sizes of this configuration
	maxW, maxR := c15Limits(cfg)
	// plan: unique (off,len) per read, unique data per write
	type plan struct {
		kind byte
		off  int64
		n    int
		data []byte
		h    int
	}
	// sizes at and just below the single-packet size, and around the default size when the configured one is larger
	bigSize := func(max int) int {
		switch x := rnd.Intn(8); {
		case x < 2:
			return max
		case x < 3:
			return max - 1
		case x < 5:
			return max - rnd.Intn(16)
		case x < 6 && max > 32768:
			return 32769 + rnd.Intn(16)
		case x < 7 && max > 32768:
			return 32769 + rnd.Intn(max-32768)
		case x < 7:
			return max/8 + rnd.Intn(max/2)
		default:
			return max - 13 - rnd.Intn(3)
		}
	}
	usedRead := map[[2]int]bool{}
	plans := make([][]plan, cfg.Goroutines)
	opid := 0
	for g := range plans {
		for k := 0; k < cfg.OpsEach; k++ {
			opid++
			var p plan
			x := rnd.Intn(10)
			if x < 4 && len(canWrite) == 0 {
				x = 4 + rnd.Intn(6)
			}
			if x >= 4 && x < 9 && len(canRead) == 0 {
				x = []int{0, 9}[rnd.Intn(2)]
				if len(canWrite) == 0 {
					x = 9
				}
			}
			switch {
			case x < 4:
				p.kind = 'w'
				p.h = canWrite[rnd.Intn(len(canWrite))]
				p.n = 2 + rnd.Intn(10)
				if cfg.Big {
					p.n = bigSize(maxW)
				}
				p.off = int64(rnd.Intn(cfg.FileSize - p.n + 1))
				p.data = make([]byte, p.n)
				p.data[0], p.data[1] = byte(opid>>8), byte(opid) // unique
				for i := 2; i < p.n; i++ {
					p.data[i] = byte(rnd.Intn(256))
				}
			case x < 9:
				p.kind = 'r'
				p.h = canRead[rnd.Intn(len(canRead))]
				for tries := 0; ; tries++ {
					p.n = 1 + rnd.Intn(16)
					if cfg.Big {
						p.n = bigSize(maxR)
					}
					p.off = int64(rnd.Intn(cfg.FileSize - p.n + 1))
					if !usedRead[[2]int{int(p.off), p.n}] || tries > 50 {
						break
					}
				}
				if usedRead[[2]int{int(p.off), p.n}] {
					p.kind = 's'
				}
				usedRead[[2]int{int(p.off), p.n}] = true
			default:
				p.kind = 's'
				p.h = rnd.Intn(cfg.Handles)
			}
			plans[g] = append(plans[g], p)
		}
	}
	var mu sync.Mutex
	var wg sync.WaitGroup
	for g := range plans {
		wg.Add(1)
		go func(g int) {
			defer wg.Done()
			for _, p := range plans[g] {
				op := c15Op{Kind: p.kind, K: string(p.kind), Off: p.off, Len: p.n}
				f := files[p.h]
				op.Call = clk.tick()
				switch p.kind {
				case 'w':
					_, err := f.WriteAt(p.data, p.off)
					op.Ret = clk.tick()
					op.Data = p.data
					if err != nil {
						op.Err = err.Error()
					}
				case 'r':
					b := make([]byte, p.n)
					n, err := f.ReadAt(b, p.off)
					op.Ret = clk.tick()
					op.Data = b[:n]
					if err != nil {
						op.Err = err.Error()
					}
				case 's':
					fi, err := f.Stat()
					op.Ret = clk.tick()
					if err != nil {
						op.Err = err.Error()
					} else {
						op.Size = fi.Size()
					}
				}
				mu.Lock()
				ops = append(ops, op)
				mu.Unlock()
			}
		}(g)
	}
	done := make(chan struct{})
	go func() { wg.Wait(); close(done) }()
	if _, ok := lib.WaitHang("c15/"+cfg.Server, 30*time.Second, done); !ok { // out of the run's hang budget (lib/budget.go)
		return init, nil, "hang: concurrent operations did not finish within 30 s"
	}
	// match store events to client ops
	store.mu.Lock()
	log := append([]c15StoreEv(nil), store.log...)
	store.mu.Unlock()
	sort.Slice(ops, func(i, j int) bool { return ops[i].Ret < ops[j].Ret })
	used := make([]bool, len(log))
	for i := range ops {
		op := &ops[i]
		op.DataHex = hex.EncodeToString(op.Data)
		if op.Err != "" {
			return init, ops, fmt.Sprintf("operation failed: %c off=%d len=%d: %s", op.Kind, op.Off, op.Len, op.Err)
		}
		found := -1
		for j, ev := range log {
			if used[j] || ev.kind != op.Kind {
				continue
			}
			switch op.Kind {
			case 'w':
				if ev.off == op.Off && string(ev.data) == string(op.Data) {
					found = j
				}
			case 'r':
				if ev.off == op.Off && len(ev.data) == op.Len {
					found = j
				}
			case 's':
				// earliest-deadline-first matching of stat stamps to stat intervals
				if ev.stamp > op.Call && ev.stamp < op.Ret && (found < 0 || ev.stamp < log[found].stamp) {
					found = j
				}
			}
			if found >= 0 && op.Kind != 's' {
				break
			}
		}
		if found < 0 {
			// direct atomicity oracle: a single-packet operation must reach the store as exactly ONE ReadAt/WriteAt.
			// Look for the steps that served it piecewise: same kind, inside the operation's interval, contiguous
			// from its offset, together covering its range (and, for a write, carrying its data).
			if op.Kind != 's' {
				var steps []string
				cur, end := op.Off, op.Off+int64(op.Len)
				for progress := true; progress && cur < end; {
					progress = false
					for j, ev := range log {
						if used[j] || ev.kind != op.Kind || ev.off != cur || len(ev.data) == 0 || ev.off+int64(len(ev.data)) > end ||
							ev.stamp < op.Call || ev.stamp > op.Ret {
							continue
						}
						if op.Kind == 'w' && string(ev.data) != string(op.Data[cur-op.Off:cur-op.Off+int64(len(ev.data))]) {
							continue
						}
						used[j] = true
						steps = append(steps, fmt.Sprintf("%c off=%d len=%d stamp=%d", ev.kind, ev.off, len(ev.data), ev.stamp))
						cur += int64(len(ev.data))
						progress = true
						break
					}
				}
				if len(steps) >= 2 && cur == end {
					return init, ops, fmt.Sprintf("op-split-into-steps: the single-packet operation %c off=%d len=%d (call %d, ret %d; single-packet sizes of this configuration: write %d, read %d) reached the backing store as %d separate steps [%s] instead of one atomic step",
						op.Kind, op.Off, op.Len, op.Call, op.Ret, maxW, maxR, len(steps), strings.Join(steps, "; "))
				}
			}
			return init, ops, fmt.Sprintf("no store step found for operation %c off=%d len=%d (call %d, ret %d)", op.Kind, op.Off, op.Len, op.Call, op.Ret)
		}
		used[found] = true
		op.Stamp = log[found].stamp
	}
	// … and the store must have seen nothing else: one step per operation, no step without an operation
	var extra []string
	for j, ev := range log {
		if !used[j] {
			extra = append(extra, fmt.Sprintf("%c off=%d len=%d stamp=%d", ev.kind, ev.off, len(ev.data), ev.stamp))
		}
	}
	if len(extra) > 0 {
		n := len(extra)
		if n > 6 {
			extra = extra[:6]
		}
		return init, ops, fmt.Sprintf("extra-store-steps: %d completed operations reached the backing store as %d steps; %d steps belong to no operation: [%s]",
			len(ops), len(log), n, strings.Join(extra, "; "))
	}
	return init, ops, ""
}

// c15Limits gives the largest WriteAt and ReadAt that are ONE packet each way under cfg: a write is one WRITE up to the
// client's max packet (and the 256 KiB the servers accept per request packet: type, id, 1-byte handle, offset, length
// precede the data); a read is one READ answered by one DATA up to min(client max packet, server max-tx-packet) (and the
// 256 KiB the client accepts per reply: type, id, length precede the data).
func c15Limits(cfg c15Cfg) (maxWrite, maxRead int) {
	cli, srv := 32768, 32768
	if cfg.CliMax > 0 {
		cli = cfg.CliMax
	}
	if cfg.SrvMaxTx > srv { // smaller values are refused by the option
		srv = cfg.SrvMaxTx
	}
	maxWrite, maxRead = cli, cli
	if srv < maxRead {
		maxRead = srv
	}
	if lim := 256*1024 - (1 + 4 + 4 + 1 + 8 + 4); maxWrite > lim {
		maxWrite = lim
	}
	if lim := 256*1024 - (1 + 4 + 4); maxRead > lim {
		maxRead = lim
	}
	return
}

func c15Line(init []byte, ops []c15Op) string {
	var parts []string
	for _, op := range ops {
		switch op.Kind {
		case 'r':
			parts = append(parts, fmt.Sprintf("r,%d,%d,%d,%d,%s,%d", op.Call, op.Stamp, op.Ret, op.Off, lib.Hex(op.Data), op.Len))
		case 'w':
			parts = append(parts, fmt.Sprintf("w,%d,%d,%d,%d,%s", op.Call, op.Stamp, op.Ret, op.Off, lib.Hex(op.Data)))
		case 's':
			parts = append(parts, fmt.Sprintf("s,%d,%d,%d,%d", op.Call, op.Stamp, op.Ret, op.Size))
		}
	}
	if len(parts) == 0 {
		return "c15.check " + lib.Hex(init) + " -"
	}
	return "c15.check " + lib.Hex(init) + " " + strings.Join(parts, ";")
}

func checkC15(c *lib.Ctx) {
	r := c.R
	r.Rule = "concurrent histories of single-packet ReadAt/WriteAt within the extent and Stat (size) by 2..8 goroutines over one Client on 1..4 handles of one fixed-size file, each handle opened O_RDONLY, O_WRONLY or O_RDWR (operations go to handles that serve them); both servers, allocator on/off, request server with and without OpenFileWriter; 8 pairs (server max-tx-packet, client max packet) from the defaults to the 256 KiB frame limit, equal and unequal; every 5th history uses operations of exactly the configured single-packet size, just below it and just above the default size, on a file of 2..3 such packets; every read has a unique (offset,length), every write unique data, so each client operation is matched to the store step that served it — direct oracle: the instrumented store sees exactly one ReadAt/WriteAt/Stat step per completed operation (an operation served piecewise is not atomic), no step without an operation; the stamped history is decided by the PROVED checker checkStamped (Lean, C15.checker_sound) — exact trace validation, no search; non-trivial = history with at least two overlapping operations one of which is a write"
	r.Rule += ". HAMMER family: 16…32 goroutines over one Client, each owning one region of the file (256 bytes quick; 64…32768 thorough; 1…4 O_RDWR handles), do thousands of (WriteAt fresh pattern, ReadAt it back) pairs — back to back at each goroutine's own pace, or in volleys (all goroutines wait for each other and start a pair together; thorough also: before every 8th pair) — against both servers (allocator on/off) over a mutex-protected atomic store, 1.5 s per run and 4 runs quick (two side by side), 5 s per run and 12 runs thorough, each in a process of its own; direct oracle per operation: WriteAt returns (len, nil), ReadAt returns (len, nil) and exactly the bytes this goroutine wrote last (nobody else writes to its region), no call hangs, the connection stays up; the first 6 pairs of every goroutine are stamped and validated by the proved checker as one history"
	r.Rule += ". DISTINCT-HANDLES hammer: one session holds 2…4 handles that differ observably (two files of different content, each opened O_RDONLY, O_WRONLY or O_RDWR; 7 layouts, the os-backed server always with a read-only and a write-only handle), 16…32 goroutines, each bound to one handle and owning region g (64/256/1024 bytes) of both files, issue single-packet ReadAt/WriteAt back to back for 1.5 s (quick: one run per server; thorough: three of 5 s per server); oracle: every in-extent operation returns (len, nil), every read returns the bytes of the file its handle names, and after the run every region of both files holds what was written there through a handle of that file (or its initial content)"
	r.Rule += ". ALIAS family (484 histories quick, 5000 thorough): the file lives in a name space (the package's InMemHandler behind the request server, with and without LstatFileLister; a scratch directory behind the os-backed server; allocator on/off; start/working directory not given, the file's directory, its sub-directory) next to a symbolic link with absolute text, one with relative text, a chain of links, a link in a sub-directory, a hard link, a second file of another size and a link to it; 2..4 handles (r/w/rw) are opened through the own name, the links, the hard link, uncleaned spellings (/d/../f, /./f, //f) and relative spellings — the first two handles run through all ordered pairs of the 11 names; 2..8 goroutines issue single-packet ReadAt/WriteAt within the extent, File.Stat, File.Seek(0,SeekEnd), Client.Stat(name), Client.Lstat(name whose last component is no link), File.Truncate(current size), Client.Truncate(name, current size); every history ends with File.Stat through every handle and a read of the whole file through every readable handle after all goroutines returned; all size queries are the model's size operation and the history is decided by the proved checker (truncations to the current size are the identity and are left out); Go-side: one store step per operation of its class, no step without operation, every size query describes a regular file; non-trivial = overlapping write and at least two distinct names among the handles"
	var cfgs []c15Cfg
	var aliases []c15AliasCfg
	if c.Replay != "" {
		var probe struct {
			Hammer bool `json:"hammer"`
			Alias  bool `json:"alias"`
		}
		if err := lib.ReadReplay(c.Replay, &probe); err == nil && probe.Alias {
			var a c15AliasCfg
			if err := lib.ReadReplay(c.Replay, &a); err != nil {
				r.Fail(lib.Failure{Kind: "tie", Key: "replay", What: err.Error()})
				return
			}
			c15Aliases(c, []c15AliasCfg{a})
			return
		} else if err == nil && probe.Hammer {
			var h c15HammerCfg
			if err := lib.ReadReplay(c.Replay, &h); err != nil {
				r.Fail(lib.Failure{Kind: "tie", Key: "replay", What: err.Error()})
				return
			}
			c15Hammers(c, []c15HammerCfg{h})
			return
		}
		var one c15Cfg
		if err := lib.ReadReplay(c.Replay, &one); err != nil {
			r.Fail(lib.Failure{Kind: "tie", Key: "replay", What: err.Error()})
			return
		}
		cfgs = []c15Cfg{one}
	} else {
		c15Hammers(c, append(c15HammerCfgs(c), c15DistinctCfgs(c)...))
		n := 400
		if c.Tier == "thorough" {
			n = 6000
		}
		// (server max-tx-packet, client max packet): defaults, both raised, the largest pair whose replies still fit the
		// 256 KiB frame limit, and unequal pairs (the smaller side decides what one packet is)
		const top = 256*1024 - 9
		pairs := [][2]int{{0, 0}, {65536, 65536}, {256 * 1024, top}, {65536, 0}, {256 * 1024, 65536}, {65536, top}, {0, 65536}, {100000, 100000}}
		for i := 0; i < n; i++ {
			cfg := c15Cfg{
				Server: []string{"rs", "os"}[i%2], Alloc: (i/2)%2 == 1,
				Goroutines: 2 + c.Rand.Intn(7), OpsEach: 4 + c.Rand.Intn(20), Handles: 1 + c.Rand.Intn(3),
				FileSize: 48 + c.Rand.Intn(64), Seed: c.Rand.Int63(),
			}
			// i%4 = (server, allocator); with 8 pairs and every 5th history of maximal size all 32 combinations
			// (server, allocator, pair) occur among the maximal-size histories within 160 consecutive histories
			pr := pairs[(i/4)%len(pairs)]
			cfg.SrvMaxTx, cfg.CliMax = pr[0], pr[1]
			cfg.NoOpenFileWriter = cfg.Server == "rs" && (i/32)%3 == 2
			// handles of every kind; at least one that reads and one that writes
			for h := 0; h < cfg.Handles; h++ {
				cfg.Kinds = append(cfg.Kinds, []string{"rw", "rw", "r", "w"}[c.Rand.Intn(4)])
			}
			reads, writes := false, false
			for _, k := range cfg.Kinds {
				reads = reads || k == "r" || (k == "rw" && !cfg.NoOpenFileWriter)
				writes = writes || k != "r"
			}
			if !reads {
				cfg.Kinds[0] = map[bool]string{true: "r", false: "rw"}[cfg.NoOpenFileWriter]
			}
			writes = false
			for _, k := range cfg.Kinds {
				writes = writes || k != "r"
			}
			if !writes {
				cfg.Kinds = append(cfg.Kinds, []string{"w", "rw"}[c.Rand.Intn(2)])
			}
			cfg.Handles = len(cfg.Kinds)
			if i%5 == 4 {
				maxW, maxR := c15Limits(cfg)
				cfg.Big, cfg.FileSize, cfg.OpsEach = true, 3*max(maxW, maxR)+c.Rand.Intn(100), 3+c.Rand.Intn(6)
				// keep the volume of data per history (and so the checker's work) roughly constant
				switch m := max(maxW, maxR); {
				case m > 100000: // 256 KiB operations on two packets' worth of file
					cfg.FileSize, cfg.Goroutines, cfg.OpsEach = 2*m+c.Rand.Intn(100), 2+c.Rand.Intn(2), 2+c.Rand.Intn(3)
				case m > 65536:
					cfg.FileSize, cfg.Goroutines, cfg.OpsEach = 2*m+c.Rand.Intn(100), 2+c.Rand.Intn(3), 2+c.Rand.Intn(4)
				case m > 32768:
					cfg.Goroutines, cfg.OpsEach = 2+c.Rand.Intn(5), 2+c.Rand.Intn(4)
				}
			}
			cfgs = append(cfgs, cfg)
		}
		aliases = c15AliasCfgs(c)                                      // (drawn after the histories above: their sequence of random choices is unchanged)
		defer func() { lib.CheckpointNow(); c15Aliases(c, aliases) }() // the findings so far survive a death of the process in the alias family
	}
	var lines []string
	var keep []c15Cfg
	var tRun, tCheck time.Duration
	validated, pending := 0, 0
	// the stamped traces are validated in batches (a trace of 256 KiB operations is several megabytes of text)
	flush := func() bool {
		t1 := time.Now()
		out, err := c15Model(c, lines)
		tCheck += time.Since(t1)
		if err != nil {
			r.Fail(lib.Failure{Kind: "tie", Key: "c15/model-driver", What: err.Error()})
			return false
		}
		for i, o := range out {
			if o != "ok" {
				r.Fail(lib.Failure{Kind: "oracle", Key: "history/not-linearizable", What: "stamped history rejected by the proved checker: " + o, Input: keep[i], Actual: c15Short(lines[i])})
			}
		}
		validated += len(lines)
		lines, keep, pending = nil, nil, 0
		return true
	}
	for _, cfg := range cfgs {
		if c.Stop("c15/" + cfg.Server) {
			continue
		}
		tr := time.Now()
		init, ops, problem := c15Run(cfg)
		tRun += time.Since(tr)
		overlap := false
		for i := range ops {
			for j := range ops {
				if i != j && ops[i].Kind == 'w' && ops[i].Call < ops[j].Ret && ops[j].Call < ops[i].Ret {
					overlap = true
				}
			}
		}
		line := c15Line(init, ops)
		r.Case(line, overlap)
		r.Hist(fmt.Sprintf("%s-alloc=%v", cfg.Server, cfg.Alloc))
		r.Hist(fmt.Sprintf("goroutines-%d", cfg.Goroutines))
		maxW, maxR := c15Limits(cfg)
		r.Hist(fmt.Sprintf("single-packet-write=%d-read=%d", maxW, maxR))
		if cfg.Server == "rs" {
			r.Hist(fmt.Sprintf("rs-open-file-writer=%v", !cfg.NoOpenFileWriter))
		}
		for _, k := range cfg.Kinds {
			r.Hist("handle-" + k)
		}
		if cfg.Big {
			r.Hist("max-packet-sized-operations")
			r.Hist(fmt.Sprintf("max-packet-sized-operations/%s/read=%d", cfg.Server, maxR))
		}
		if overlap {
			r.Hist("has-overlapping-write")
		}
		if problem != "" {
			key := "history/" + strings.SplitN(problem, ":", 2)[0]
			if strings.HasPrefix(problem, "no store step") {
				key = "history/unmatched-operation"
			}
			r.Fail(lib.Failure{Kind: "oracle", Key: key, What: problem, Input: cfg})
			continue
		}
		if len(r.Samples) < 2 {
			short := ops
			if len(short) > 6 {
				short = short[:6]
			}
			r.Sample(map[string]any{"cfg": cfg, "first_ops": short})
		}
		lines = append(lines, line)
		keep = append(keep, cfg)
		if pending += len(line); pending > 96<<20 {
			if !flush() {
				return
			}
		}
	}
	if !flush() {
		return
	}
	r.Note("running %d histories took %.1f s, validating %d stamped traces with the proved checker %.1f s", len(cfgs), tRun.Seconds(), validated, tCheck.Seconds())
}

func c15Short(s string) string {
	if len(s) > 4000 {
		return s[:2000] + fmt.Sprintf(" …(%d characters)… ", len(s)-4000) + s[len(s)-2000:]
	}
	return s
}

// c15Model validates the lines with several model-driver processes at once (the lines are independent and large:
// the work is spread by size), results in input order.
func c15Model(c *lib.Ctx, lines []string) ([]string, error) {
	const k = 8
	if len(lines) < 2*k {
		return c.Model(lines)
	}
	idx := make([]int, len(lines))
	for i := range idx {
		idx[i] = i
	}
	sort.SliceStable(idx, func(a, b int) bool { return len(lines[idx[a]]) > len(lines[idx[b]]) })
	var part [k][]int
	var load [k]int
	for _, i := range idx {
		m := 0
		for j := 1; j < k; j++ {
			if load[j] < load[m] {
				m = j
			}
		}
		part[m] = append(part[m], i)
		load[m] += len(lines[i]) + 1
	}
	out := make([]string, len(lines))
	var mu sync.Mutex
	var wg sync.WaitGroup
	var first error
	for j := 0; j < k; j++ {
		wg.Add(1)
		go func(ix []int) {
			defer wg.Done()
			sub := &lib.Ctx{ModelPath: c.ModelPath, R: &lib.Result{}}
			in := make([]string, len(ix))
			for n, i := range ix {
				in[n] = lines[i]
			}
			res, err := sub.Model(in)
			mu.Lock()
			defer mu.Unlock()
			if err != nil {
				if first == nil {
					first = err
				}
				return
			}
			for n, i := range ix {
				out[i] = res[n]
			}
		}(part[j])
	}
	wg.Wait()
	if first != nil {
		return nil, first
	}
	c.R.ModelCases += len(lines)
	return out, nil
}
