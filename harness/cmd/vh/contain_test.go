package main

import (
	"os"
	"path/filepath"
	"regexp"
	"strings"
	"testing"
)

// Containment by construction (lib/contain.go, peers/guard.go): no file of the harness creates an os-backed
// server or a scratch directory except through the guarded constructors.
func TestContainmentConstructors(t *testing.T) {
	files, _ := filepath.Glob("*.go")
	more, _ := filepath.Glob("../../peers/*.go")
	files = append(files, more...)
	forbidden := []*regexp.Regexp{
		regexp.MustCompile(`\bsftp\.NewServer\(`),       // peers.NewOSServer
		regexp.MustCompile(`\bos\.MkdirTemp\("",`),      // lib.MkScratch
		regexp.MustCompile(`\bos\.MkdirTemp\(os\.Temp`), // lib.MkScratch
		regexp.MustCompile(`\bioutil\.TempDir\(`),       // lib.MkScratch
	}
	for _, f := range files {
		if strings.HasSuffix(f, "_test.go") || f == "../../peers/guard.go" {
			continue
		}
		b, err := os.ReadFile(f)
		if err != nil {
			t.Fatal(err)
		}
		for i, line := range strings.Split(string(b), "\n") {
			if j := strings.Index(line, "//"); j >= 0 {
				line = line[:j]
			}
			for _, re := range forbidden {
				if re.MatchString(line) {
					t.Errorf("%s:%d: %s — use peers.NewOSServer / lib.MkScratch", f, i+1, strings.TrimSpace(line))
				}
			}
		}
	}
}
