package main

// C04, family "flood": what holds AT THE MOMENT Client.Close RETURNS.
//
// N single-request calls (Stat/Lstat/ReadLink/RealPath/Mkdir; N = a few hundred … 20000) are in flight on N
// goroutines of one Client — the peer has read every request and answers none of them —, two more goroutines sit in
// Client.Wait, and 0…8 racing goroutines keep starting further calls (which the peer answers).  Then the connection
// ends in one of three ways:
//
//   close       Client.Close is called; the peer, like a server that exits, ends its output when its input ends;
//   cut+close   the peer ends the reply stream (EOF) and Client.Close is called at the same moment (a PRNG number of
//               microseconds apart, either order): Close races with the receiver's shutdown;
//   err+close   the same with a Read error value of the table cliErrKinds.
//
// The case runs under a chosen GOMAXPROCS (1, 2, 4, 8, 16).  Immediately after Close has returned, ONE goroutine
// dump is taken (runtime.Stack stops the world: the dump is a consistent picture of that moment) and nothing else
// is done to the connection.  Oracles — all exact, none depends on a time threshold:
//
//   * no goroutine started by pkg/sftp is still executing package code (a goroutine that has nothing but its own
//     entry function left on the stack is in the act of exiting and is polled for ≤ 200 ms);
//   * no goroutine is still parked in Client.Wait (close(c.closed) makes every waiter runnable before it returns,
//     and Close returns only after the receiver has finished);
//   * no call is still parked waiting for its result (a call that has been notified is runnable or has returned);
//   * then, WITHOUT any further event: Wait returns, every outstanding call returns — with an error, they were never
//     answered —, a call started now fails, and the goroutine table is free of pkg/sftp (hang budget; ≤ 5 s poll).
//
// A case is T independent trials (fresh Client each) and stops at the first trial that fails.

import (
	"bytes"
	"fmt"
	"io"
	"math/rand"
	"runtime"
	"sort"
	"strings"
	"sync"
	"sync/atomic"
	"time"

	"github.com/pkg/sftp"

	"verifharness/lib"
	"verifharness/wire"
)

const c04FloodOp = "flood"

// ---------- the peer ----------

type acPeer struct {
	c2sR    *io.PipeReader
	c2sW    *io.PipeWriter
	s2cR    *io.PipeReader
	s2cW    *io.PipeWriter
	arrived atomic.Int64 // flood requests read (none is answered)
	wmu     sync.Mutex
	endWith error // what the reply stream ends with when the request stream has ended (nil: EOF)
	done    chan struct{}
}

func newACPeer(version []byte, endWith error) *acPeer {
	p := &acPeer{endWith: endWith, done: make(chan struct{})}
	p.c2sR, p.c2sW = io.Pipe()
	p.s2cR, p.s2cW = io.Pipe()
	fake := newFakeSrv(cliFileSize)
	go func() {
		defer close(p.done)
		first := true
		for {
			pk, err := wire.ReadFrame(p.c2sR)
			if err != nil {
				// the client closed its writer (or the transport died): a server exits, which ends its output
				p.end(p.endWith)
				io.Copy(io.Discard, p.c2sR)
				return
			}
			if first && pk.Typ == wire.Init {
				first = false
				p.write(version)
				continue
			}
			first = false
			if q, derr := cliDecodeReq(pk); derr == nil && strings.HasPrefix(q.Path, "race-") {
				p.write(fake.Reply(pk)) // an error here: the reply stream has been ended already
				continue
			}
			p.arrived.Add(1)
		}
	}()
	return p
}

func (p *acPeer) write(b []byte) error {
	p.wmu.Lock()
	defer p.wmu.Unlock()
	_, err := p.s2cW.Write(b)
	return err
}

// end ends the reply stream: EOF, or err itself for the client's Read.
func (p *acPeer) end(err error) {
	if err != nil {
		p.s2cW.CloseWithError(err)
	} else {
		p.s2cW.Close()
	}
}

func (p *acPeer) shutdown() {
	p.s2cW.Close()
	p.c2sR.Close()
}

// ---------- the goroutine picture ----------

type acSnap struct {
	Truncated  bool           `json:"truncated,omitempty"`
	Goroutines int            `json:"goroutines"`
	PkgRunning []string       `json:"package_goroutines_executing_package_code,omitempty"`
	PkgTop     string         `json:"-"`
	PkgRoot    string         `json:"-"` // of the first such goroutine: the package function its entry function called
	PkgExiting int            `json:"package_goroutines_exiting,omitempty"`
	WaitParked int            `json:"parked_in_Wait"`
	CallParked int            `json:"calls_parked_waiting_for_result"`
	ParkedAt   map[string]int `json:"calls_parked_at,omitempty"`
	CallsInPkg int            `json:"calls_inside_package"`
}

const acPkg = "github.com/pkg/sftp."

// acParse reads the text of runtime.Stack(all).
func acParse(buf []byte, truncated bool) acSnap {
	s := acSnap{Truncated: truncated, ParkedAt: map[string]int{}}
	blocks := bytes.Split(buf, []byte("\n\n"))
	if truncated && len(blocks) > 0 {
		blocks = blocks[:len(blocks)-1] // the last one is cut somewhere
	}
	for bi, blk := range blocks {
		lines := bytes.Split(bytes.TrimSpace(blk), []byte("\n"))
		if len(lines) == 0 || !bytes.HasPrefix(lines[0], []byte("goroutine ")) {
			continue
		}
		s.Goroutines++
		if bi == 0 {
			continue // the goroutine that takes the dump
		}
		state := ""
		if i, j := bytes.IndexByte(lines[0], '['), bytes.LastIndexByte(lines[0], ']'); i >= 0 && j > i {
			state = string(lines[0][i+1 : j])
			if k := strings.IndexByte(state, ','); k >= 0 {
				state = state[:k]
			}
		}
		var funcs []string
		createdBy := ""
		for _, l := range lines[1:] {
			if len(l) == 0 || l[0] == '\t' || l[0] == '.' {
				continue
			}
			if bytes.HasPrefix(l, []byte("created by ")) {
				createdBy = string(l[len("created by "):])
				if j := strings.Index(createdBy, " in goroutine"); j > 0 {
					createdBy = createdBy[:j]
				}
				continue
			}
			if j := bytes.LastIndexByte(l, '('); j > 0 {
				l = l[:j]
			}
			funcs = append(funcs, string(l))
		}
		if len(funcs) == 0 {
			continue
		}
		if strings.HasPrefix(createdBy, acPkg) {
			// started by the package: is it still executing package code, or has it only its entry function left?
			entry := funcs[len(funcs)-1]
			top := ""
			for _, f := range funcs {
				if strings.HasPrefix(f, acPkg) && f != entry && !strings.HasPrefix(f, entry+".") {
					top = f
					break
				}
			}
			if top == "" {
				s.PkgExiting++
				continue
			}
			if s.PkgTop == "" {
				s.PkgTop = top
				for j := len(funcs) - 1; j >= 0; j-- {
					if f := funcs[j]; strings.HasPrefix(f, acPkg) && f != entry && !strings.HasPrefix(f, entry+".") {
						s.PkgRoot = f
						break
					}
				}
			}
			n := min(len(funcs), 6)
			s.PkgRunning = append(s.PkgRunning, fmt.Sprintf("%s %s (created by %s)", lines[0], strings.Join(funcs[:n], " < "), createdBy))
			continue
		}
		// a harness goroutine: inside a package call?
		first := ""
		in := false
		for _, f := range funcs {
			if first == "" && !strings.HasPrefix(f, "runtime.") {
				first = f
			}
			if strings.HasPrefix(f, acPkg) {
				in = true
			}
		}
		if !in {
			continue
		}
		s.CallsInPkg++
		if strings.HasPrefix(first, acPkg) && (state == "select" || state == "chan receive") {
			// parked on a channel operation of the package's own
			if strings.HasSuffix(first, ").Wait") {
				s.WaitParked++
			} else {
				s.CallParked++
				s.ParkedAt[cliShortFn(first)]++
			}
		}
	}
	if len(s.ParkedAt) == 0 {
		s.ParkedAt = nil
	}
	return s
}

// ---------- one case ----------

type acTrial struct {
	Trial     int     `json:"trial"`
	InFlight  int     `json:"in_flight"`
	CloseMs   float64 `json:"close_ms"`
	DumpMs    float64 `json:"dump_ms"`
	Snap      acSnap  `json:"at_close_return"`
	Returned  int     `json:"calls_returned"`
	NoError   int     `json:"calls_without_error"`
	RacerCall int     `json:"racer_calls"`
}

func acSpin(d time.Duration) {
	if d <= 0 {
		return
	}
	for t0 := time.Now(); time.Since(t0) < d; {
	}
}

func c04RunAtClose(cs c04Case) (res c04Res) {
	fail := func(key, what string, act any) { res.Fails = append(res.Fails, c20Fail{key, what, act}) }
	if cs.Fault != "close" && cs.Fault != "cut+close" && cs.Fault != "err+close" {
		fail("tie/unknown-fault", cs.Fault, nil)
		return
	}
	var ferr error
	family := "opaque"
	if cs.Fault == "err+close" {
		var known bool
		if ferr, family, known = cliErrValue(cs.Err, "read"); !known {
			fail("tie/unknown-error-kind", cs.Err, nil)
			return
		}
	}
	fkey := cs.Fault
	if cs.Fault == "err+close" && family != "opaque" {
		fkey += "/errv:" + family
	}
	if cs.Procs > 0 {
		defer runtime.GOMAXPROCS(runtime.GOMAXPROCS(cs.Procs))
	}
	trials := max(cs.Trials, 1)
	rng := rand.New(rand.NewSource(cs.Seed))
	for t := 0; t < trials && len(res.Fails) == 0; t++ {
		tr := c04AtCloseTrial(cs, t, rng, ferr, fkey, fail, &res)
		res.InFlight = tr.InFlight
		res.NReq += tr.InFlight + tr.RacerCall
		res.RacerOK += tr.RacerCall
		if len(res.Fails) > 0 {
			res.Trace = append(res.Trace, fmt.Sprintf("trial %d of %d failed: close returned after %.3f ms; dump took %.1f ms", t, trials, tr.CloseMs, tr.DumpMs))
		}
		if res.ExitNow {
			return
		}
	}
	// thousands of goroutines have come and gone: the process's goroutine table and heap stay large, which slows every
	// later goroutine dump in it — the cases that follow get a fresh process
	res.ExitNow = true
	return
}

func c04AtCloseTrial(cs c04Case, t int, rng *rand.Rand, ferr error, fkey string, fail func(key, what string, act any), res *c04Res) (tr acTrial) {
	tr.Trial = t
	N := cs.At
	peer := newACPeer(cliVersion(), map[bool]error{true: ferr, false: nil}[cs.Fault == "err+close"])
	type mk struct {
		c   *sftp.Client
		err error
	}
	mkc := make(chan mk, 1)
	go func() {
		c, err := sftp.NewClientPipe(peer.s2cR, peer.c2sW, sftp.MaxPacketUnchecked(cliMaxPacket))
		mkc <- mk{c, err}
	}()
	var client *sftp.Client
	select {
	case m := <-mkc:
		if m.err != nil {
			peer.shutdown()
			fail("tie/new-client", m.err.Error(), nil)
			return
		}
		client = m.c
	case <-cliCase.Load().After(cliDeadline):
		cliCase.Load().Fired()
		peer.shutdown()
		fail("tie/new-client", "handshake did not finish", nil)
		res.ExitNow = true
		return
	}
	// the dump buffer is made before anything starts, so that taking the picture is the first thing after Close
	buf := make([]byte, 2<<20+2200*(N+cs.Racers))

	// ---- N calls in flight, two goroutines in Wait, the racers ----
	errs := make([]error, N)
	var returned atomic.Int64
	var fwg sync.WaitGroup
	fwg.Add(N)
	for g := 0; g < N; g++ {
		go func(g int) {
			defer fwg.Done()
			path := fmt.Sprintf("flood-%d", g)
			var err error
			switch g % 5 {
			case 0:
				_, err = client.Stat(path)
			case 1:
				_, err = client.Lstat(path)
			case 2:
				_, err = client.ReadLink(path)
			case 3:
				_, err = client.RealPath(path)
			case 4:
				err = client.Mkdir(path)
			}
			errs[g] = err
			returned.Add(1)
		}(g)
	}
	var wwg sync.WaitGroup
	for w := 0; w < 2; w++ {
		wwg.Add(1)
		go func() { defer wwg.Done(); client.Wait() }()
	}
	var ended atomic.Bool
	var racerCalls, racerLate atomic.Int64
	var rwg sync.WaitGroup
	for g := 0; g < cs.Racers; g++ {
		rwg.Add(1)
		go func(g int) {
			defer rwg.Done()
			errsAfter := 0
			for i := 0; i < 1_000_000 && errsAfter < 3; i++ {
				path := fmt.Sprintf("race-%d-%d", g, i)
				after := ended.Load()
				var err error
				switch (g + i) % 3 {
				case 0:
					_, err = client.Stat(path)
				case 1:
					_, err = client.Lstat(path)
				case 2:
					_, err = client.RealPath(path)
				}
				racerCalls.Add(1)
				if err != nil {
					errsAfter++
				} else if after {
					racerLate.Add(1)
				}
			}
		}(g)
	}
	// every flood request has been read by the peer: N calls are registered and waiting
	k := cliCase.Load()
	w := k.Wait(cliDeadline)
	for t0 := time.Now(); peer.arrived.Load() < int64(N); {
		if time.Since(t0) > w {
			k.Spend(w)
			fail("hang/flood-setup/"+fkey, fmt.Sprintf("only %d of %d concurrent calls got their request to the peer within 20 s (no fault injected yet)", peer.arrived.Load(), N), cliDescribe(cliGoroutines2())[:min(20, len(cliGoroutines2()))])
			res.ExitNow = true
			peer.shutdown()
			return
		}
		time.Sleep(200 * time.Microsecond)
	}
	tr.InFlight = N
	if cs.Racers > 0 {
		time.Sleep(time.Duration(rng.Intn(300)) * time.Microsecond)
	}

	// ---- the end of the connection ----
	closed := make(chan struct{})
	var tClose time.Duration
	var n int
	var tDump time.Duration
	gap := time.Duration(rng.Intn(120)) * time.Microsecond
	cutFirst := rng.Intn(2) == 0
	go func() {
		defer close(closed)
		if cs.Fault != "close" {
			rel := make(chan struct{})
			go func() {
				<-rel
				if !cutFirst {
					acSpin(gap)
				}
				peer.end(ferr)
			}()
			runtime.Gosched()
			close(rel)
			if cutFirst {
				acSpin(gap)
			}
		}
		t0 := time.Now()
		client.Close()
		// the picture of the moment Close returned
		t1 := time.Now()
		n = runtime.Stack(buf, true)
		tClose, tDump = t1.Sub(t0), time.Since(t1)
	}()
	if _, ok := lib.WaitCase(k, cliDeadline, closed); !ok {
		fail("close-hang/"+fkey, fmt.Sprintf("Client.Close did not return within 20 s with %d calls in flight", N), cliDescribe(cliGoroutines2())[:min(20, len(cliGoroutines2()))])
		res.ExitNow = true
		peer.shutdown()
		return
	}
	ended.Store(true)
	tr.CloseMs, tr.DumpMs = float64(tClose.Microseconds())/1000, float64(tDump.Microseconds())/1000
	retAtDump := int(returned.Load())
	snap := acParse(buf[:n], n == len(buf))
	buf = nil
	tr.Snap = snap
	detail := func() map[string]any {
		return map[string]any{"trial": t, "calls_in_flight_when_the_connection_ended": N, "at_the_moment_Close_returned": snap, "calls_returned_when_the_dump_was_done": retAtDump, "gomaxprocs": runtime.GOMAXPROCS(0)}
	}
	if len(snap.PkgRunning) > 0 {
		fail("alive-at-close-return/"+cliShortFn(snap.PkgTop)+"/"+fkey, "a goroutine started by pkg/sftp is still executing package code at the moment Client.Close returns (Close does not wait for it)", detail())
	}
	if snap.WaitParked > 0 {
		fail("wait-blocked-at-close-return/"+fkey, fmt.Sprintf("Client.Close has returned, yet %d goroutine(s) are still parked in Client.Wait: the connection is not marked as shut down", snap.WaitParked), detail())
	}
	if snap.CallParked > 0 {
		at := make([]string, 0, len(snap.ParkedAt))
		for f := range snap.ParkedAt {
			at = append(at, f)
		}
		sort.Strings(at)
		fail("not-notified-at-close-return/"+strings.Join(at, "+")+"/"+fkey, fmt.Sprintf("Client.Close has returned, yet %d of %d outstanding calls are still parked waiting for their result: they have not been notified", snap.CallParked, N), detail())
	}
	// ---- without any further event: Wait, the outstanding calls, the racers ----
	if !cliWithin(cliDeadline, func() { client.Wait() }) || !cliWithin(cliDeadline, wwg.Wait) {
		fail("wait-hang/"+fkey, "Client.Wait did not return within 20 s after Client.Close had returned", cliDescribe(cliGoroutines2())[:min(20, len(cliGoroutines2()))])
		res.ExitNow = true
		peer.shutdown()
		return
	}
	if !cliWithin(cliDeadline, fwg.Wait) {
		fail("hang/outstanding-call/"+fkey, fmt.Sprintf("%d of %d calls outstanding when the connection ended have not returned 20 s after Client.Close returned (no further event)", N-int(returned.Load()), N), cliDescribe(cliGoroutines2())[:min(20, len(cliGoroutines2()))])
		res.ExitNow = true
		peer.shutdown()
		return
	}
	if !cliWithin(cliDeadline+5*time.Second, rwg.Wait) {
		fail("hang/racer/"+fkey, "a racing caller did not return within 20 s after Client.Close returned", cliDescribe(cliGoroutines2())[:min(20, len(cliGoroutines2()))])
		res.ExitNow = true
		peer.shutdown()
		return
	}
	tr.Returned = int(returned.Load())
	tr.RacerCall = int(racerCalls.Load())
	for g, err := range errs {
		if err == nil {
			tr.NoError++
			if tr.NoError == 1 {
				fail("no-error/flood-call/"+fkey, "a call whose request was never answered returned no error", fmt.Sprintf("flood-%d", g))
			}
		}
	}
	if racerLate.Load() > 0 {
		fail("after-call-succeeded/racer/"+fkey, "a racing call started after Client.Close had returned reported success", racerLate.Load())
	}
	var aerr error
	if !cliWithin(cliDeadline, func() { _, aerr = client.Stat("after") }) {
		fail("hang/after/Stat/"+fkey, "a Stat started after Client.Close returned did not return within 20 s", nil)
		res.ExitNow = true
		peer.shutdown()
		return
	}
	if aerr == nil {
		fail("after-call-succeeded/after/Stat/"+fkey, "a Stat started after Client.Close returned no error", nil)
	}
	peer.shutdown()
	if _, ok := lib.WaitCase(k, 5*time.Second, peer.done); !ok {
		fail("tie/server-goroutine", "harness peer goroutine did not finish", nil)
		res.ExitNow = true
		return
	}
	if started, callers := cliWaitQuiet(5 * time.Second); len(started)+len(callers) > 0 {
		top := "?"
		if len(started) > 0 {
			top = cliShortFn(started[0].PkgFrame())
		} else {
			top = "caller-in/" + cliShortFn(callers[0].PkgFrame())
		}
		all := cliDescribe(append(started, callers...))
		fail("goroutine-leak/"+top, "goroutines of pkg/sftp survive Client.Close (polled for 5 s)", all[:min(20, len(all))])
		res.ExitNow = true
	}
	return
}

// ---------- generator ----------

// c04GenAtClose lists the flood cases of a tier.
func c04GenAtClose(rng *rand.Rand, thorough bool, rkinds []string) []c04Case {
	var out []c04Case
	add := func(fault string, n, procs, racers, trials int) {
		cs := c04Case{Op: c04FloodOp, Fault: fault, At: n, Procs: procs, Racers: racers, Trials: trials, Seed: rng.Int63()}
		if fault == "err+close" {
			cs.Err = rkinds[rng.Intn(len(rkinds))]
		}
		out = append(out, cs)
	}
	type sz struct{ n, trials int }
	sizes := []sz{{300, 10}, {2000, 4}}
	procs := []int{1, 2, 4, 8}
	if thorough {
		sizes = []sz{{100, 40}, {300, 30}, {1000, 12}, {2000, 10}, {5000, 6}}
		procs = []int{1, 2, 3, 4, 8, 16}
	}
	reps := map[bool]int{false: 1, true: 3}[thorough]
	for rep := 0; rep < reps; rep++ {
		for _, fault := range []string{"close", "cut+close", "err+close"} {
			for pi, p := range procs {
				for si, s := range sizes {
					racers := []int{0, 2, 8, 1, 4}[(pi+si+rep)%5]
					add(fault, s.n, p, racers, s.trials)
					if thorough {
						add(fault, s.n, p, []int{0, 2, 8, 1, 4}[(pi+si+rep+2)%5], s.trials)
					}
				}
			}
			// the big ones
			for _, p := range map[bool][]int{false: {4, 8}, true: {2, 4, 8, 16}}[thorough] {
				add(fault, 20000, p, map[bool]int{true: 0, false: 3}[p == 4], map[bool]int{false: 2, true: 4}[thorough])
				if thorough {
					add(fault, 8000, p, 2, 5)
				}
			}
		}
	}
	return out
}
