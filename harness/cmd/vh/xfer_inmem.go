package main

// The package's OWN example backend, sftp.InMemHandler(), as a third kind of served file system (server spec
// {Kind: "rs", InMem: true}): the handlers a user of the request server is told to start from. The transfer checks ran
// against the os-backed server and against the harness's handlers (xfMemFS) only; a file object of the package that
// stores bytes itself (memFile: ReadAt / WriteAt / Truncate over one slice) was never read back.
//
// The harness reaches the file system behind the handlers the way the request server does: by calling the handler
// methods with a *sftp.Request (Put: Remove + Filewrite(CREAT|TRUNC) + WriteAt on a FRESH file object, so that what a
// case sees does not depend on the cases that ran before it on the same server; Get: Fileread + ReadAt to end of
// file). Nothing here touches the host's file system.
//
// (memFile.WriteAt sleeps one microsecond per byte: the generators keep the sizes against this backend small.)

import (
	"bytes"
	"errors"
	"fmt"
	"io"
	"os"
	"time"

	"github.com/pkg/sftp"

	"verifharness/lib"
	"verifharness/wire"
)

type xfInMem struct {
	h     sftp.Handlers
	class string // hang class of the direct calls (that of the server kind)
}

func xfNewInMem(class string) *xfInMem { return &xfInMem{h: sftp.InMemHandler(), class: class} }

// guarded runs a direct call into the handlers (code of the package: its locks are its own) under the hang budget.
func (m *xfInMem) guarded(what string, f func() error) error {
	done := make(chan error, 1)
	go func() { done <- f() }()
	if err, ok := lib.WaitHang(m.class, 20*time.Second, done); ok {
		return err
	}
	return fmt.Errorf("InMemHandler, direct %s: %v", what, xfErrHang)
}

func (m *xfInMem) req(method, path string, flags uint32) *sftp.Request {
	r := sftp.NewRequest(method, path)
	r.Flags = flags
	return r
}

// Remove makes sure nothing is stored under path.
func (m *xfInMem) Remove(path string) error {
	return m.guarded("Remove", func() error { return m.remove(path) })
}

func (m *xfInMem) remove(path string) error {
	err := m.h.FileCmd.Filecmd(m.req("Remove", path, 0))
	if err != nil && !errors.Is(err, os.ErrNotExist) {
		return err
	}
	return nil
}

// Put stores b under path in a file object that never held anything else.
func (m *xfInMem) Put(path string, b []byte) error {
	return m.guarded("Put", func() error { return m.put(path, b) })
}

func (m *xfInMem) put(path string, b []byte) error {
	if err := m.remove(path); err != nil {
		return err
	}
	w, err := m.h.FilePut.Filewrite(m.req("Put", path, wire.FWrite|wire.FCreat|wire.FTrunc))
	if err != nil {
		return err
	}
	if len(b) > 0 {
		if n, err := w.WriteAt(b, 0); err != nil || n != len(b) {
			return errors.Join(errors.New("InMemHandler: storing the initial content failed"), err)
		}
	}
	return nil
}

// Get reads everything stored under path.
func (m *xfInMem) Get(path string) (out []byte, err error) {
	err = m.guarded("Get", func() error {
		b, e := m.get(path)
		out = b
		return e
	})
	return out, err
}

func (m *xfInMem) get(path string) ([]byte, error) {
	r, err := m.h.FileGet.Fileread(m.req("Get", path, wire.FRead))
	if err != nil {
		return nil, err
	}
	var out []byte
	buf := make([]byte, 64<<10)
	for {
		n, err := r.ReadAt(buf, int64(len(out)))
		out = append(out, buf[:n]...)
		switch {
		case err == io.EOF:
			if out == nil {
				out = []byte{}
			}
			return out, nil
		case err != nil:
			return out, err
		case n == 0:
			return out, errors.New("InMemHandler: ReadAt returned (0, nil)")
		}
	}
}

// xfInMemEmptyWrite: a documented difference of the example backend, not asked by the checks. memFile.WriteAt grows
// the file to the write's offset before it copies: a WRITE of NO bytes beyond the end of the file (File.Write /
// WriteAt with an empty buffer put one on the wire) extends the file with zeros up to that offset, where pwrite(2)
// of nothing changes nothing. The transfer itself is exact (nothing was to be moved, nothing that was written is
// lost); the case is counted in the histogram and left out of the content comparison.
func xfInMemEmptyWrite(cs xfCase, out xfOutcome) bool {
	if !cs.Srv.InMem || cs.IsRead() || cs.Len != 0 || cs.Off <= int64(cs.FileLen) {
		return false
	}
	return xfZeroExtended(xfFilePat(cs.FileLen), out.FileAfter, cs.Off)
}

// xfZeroExtended: got is want followed by zeros up to (at most) offset `to`.
func xfZeroExtended(want, got []byte, to int64) bool {
	if len(got) <= len(want) || int64(len(got)) > to || !bytes.Equal(got[:len(want)], want) {
		return false
	}
	for _, b := range got[len(want):] {
		if b != 0 {
			return false
		}
	}
	return true
}
