package main

import (
	"bufio"
	"bytes"
	"encoding/binary"
	"fmt"
	"io"
	"os"
	"os/exec"
	"runtime"
	"runtime/debug"
	"strings"
	"syscall"
	"time"

	"github.com/pkg/sftp"

	"verifharness/lib"
	"verifharness/wire"
)

func init() {
	register("c08", checkC08)
	children["c08"] = c08Child
}

// ---- child: decodes one case per input line, isolated so that a panic, a run-away allocation or a
// hang in the code under test is an observation (exit status / missing answer), not a harness crash ----

// line: <entry> <typ> <hex body>        entry ∈ main fx attrs fxattrs
// answer: <ok|err|panic> <bytes allocated>
func c08Child(args []string) {
	debug.SetGCPercent(-1)
	lim := syscall.Rlimit{Cur: 3 << 30, Max: 3 << 30}
	syscall.Setrlimit(syscall.RLIMIT_AS, &lim)
	sftp.VerifFxRegisterExtensions()
	in := bufio.NewScanner(os.Stdin)
	in.Buffer(make([]byte, 1<<20), 1<<26)
	out := bufio.NewWriter(os.Stdout)
	var ms runtime.MemStats
	for in.Scan() {
		f := strings.Fields(in.Text())
		if len(f) != 3 {
			fmt.Fprintln(out, "bad 0")
			out.Flush()
			continue
		}
		if f[0] == "fxframe" {
			fmt.Fprintln(out, c08FrameChild(f[2]))
			out.Flush()
			if runtime.ReadMemStats(&ms); ms.HeapAlloc > 1<<30 {
				debug.SetGCPercent(100)
				runtime.GC()
				debug.SetGCPercent(-1)
			}
			continue
		}
		var typ int
		fmt.Sscan(f[1], &typ)
		body := lib.UnHex(f[2])
		runtime.ReadMemStats(&ms)
		before := ms.TotalAlloc
		res := func() (res string) {
			defer func() {
				if r := recover(); r != nil {
					res = "panic"
				}
			}()
			var err error
			switch f[0] {
			case "main":
				_, err = sftp.VerifDecodeRequest(uint8(typ), body)
			case "fx":
				_, err = sftp.VerifFxDecode(uint8(typ), body)
			case "attrs":
				_, _, err = sftp.VerifUnmarshalAttrs(body)
			case "fxattrs":
				_, _, err = sftp.VerifFxAttrsDecode(body)
			}
			if err != nil {
				return "err"
			}
			return "ok"
		}()
		runtime.ReadMemStats(&ms)
		fmt.Fprintf(out, "%s %d\n", res, ms.TotalAlloc-before)
		out.Flush()
		if ms.HeapAlloc > 1<<30 {
			debug.SetGCPercent(100)
			runtime.GC()
			debug.SetGCPercent(-1)
		}
	}
}

type c08Pool struct {
	cmd *exec.Cmd
	in  io.WriteCloser
	out *bufio.Reader
}

func c08Start() (*c08Pool, error) {
	cmd := exec.Command(os.Args[0], "child", "c08")
	cmd.Stderr = io.Discard
	in, _ := cmd.StdinPipe()
	outp, _ := cmd.StdoutPipe()
	if err := cmd.Start(); err != nil {
		return nil, err
	}
	return &c08Pool{cmd, in, bufio.NewReaderSize(outp, 1<<16)}, nil
}

// ask returns the child's answer, or ("died"/"hang", 0) after which the pool must be restarted.
func (p *c08Pool) ask(line string) (string, uint64) {
	a := p.askRaw(line)
	if a == "died" || a == "hang" {
		return a, 0
	}
	var res string
	var n uint64
	fmt.Sscan(a, &res, &n)
	return res, n
}

// askRaw returns the child's answer line, or "died"/"hang" after which the pool must be restarted.
func (p *c08Pool) askRaw(line string) string {
	type ans struct {
		s string
		e error
	}
	ch := make(chan ans, 1)
	go func() {
		if _, err := io.WriteString(p.in, line+"\n"); err != nil {
			ch <- ans{"", err}
			return
		}
		s, err := p.out.ReadString('\n')
		ch <- ans{s, err}
	}()
	a, ok := lib.WaitHang("c08/decode", 20*time.Second, ch) // out of the run's hang budget (lib/budget.go)
	if !ok {
		p.cmd.Process.Kill()
		p.cmd.Wait()
		return "hang"
	}
	if a.e != nil {
		p.cmd.Process.Kill()
		p.cmd.Wait()
		return "died"
	}
	return strings.TrimSpace(a.s)
}
func (p *c08Pool) stop() { p.in.Close(); p.cmd.Wait() }

type c08Case struct {
	Entry string `json:"entry"`
	Typ   int    `json:"type"`
	Body  string `json:"body_hex"`
	Kind  string `json:"kind,omitempty"`
	Mut   string `json:"mutation,omitempty"`
	// Entry "fxframe": one call of RawPacket.ReadFrom / RequestPacket.ReadFrom of the filexfer codec
	Frame *c08Frame `json:"frame,omitempty"`
	// Entry "client": one reply of one client operation with an inflated count/length word (a case of C20's child)
	Client *c20Case `json:"client_case,omitempty"`
}

type countingReader struct {
	r io.Reader
	n int
}

func (c *countingReader) Read(p []byte) (int, error) { n, err := c.r.Read(p); c.n += n; return n, err }

func checkC08(c *lib.Ctx) {
	r := c.R
	r.Rule = "every decoding entry point of both codecs (request decoder, attribute block, name list / response decoders of the filexfer codec, packet framing) on: every truncation of valid encodings of every packet kind, every 4-byte window replaced by 0, 1, n-1, n+1, 2^31-1, 2^32-1, every type byte 0..255, PRNG bytes; each decode runs in a child process (GC off, 3 GiB address-space limit, 20 s deadline): outcome class ok/err/panic compared with the Lean interpreter of the regenerated tables, bytes allocated <= 64*len + 64 KiB; framing: long and zero frames refused after exactly 4 bytes, short frames reported; filexfer framing (RawPacket.ReadFrom, RequestPacket.ReadFrom): limit in {16, 1024, default, 256 KiB, 1 MiB, PRNG} x receive buffer capacity in {nil, 3, 4, 5, 64, limit-1, limit, limit+1, 2x, 4x limit} with len 0 and len = cap x declared length in {0, 1, 4, 5, 6, 9, 10, limit and capacity -1/+0/+1, 2x, 4x limit (+1), 2^31-1, 2^31, 2^32-1} x stream {complete + next frame, complete, one byte short, header only}: over-limit and zero frames refused with exactly 4 bytes consumed, admissible frames delivered whole and without touching the next frame, allocation <= 64*consumed + limit + 64 KiB; client reply decoding (through C20's child: a fresh Client against a scripted peer per case): the operations whose replies carry counts or lengths (Stat, Lstat, File.Stat, ReadDir, ReadLink, RealPath, Getwd, Open, Create, StatVFS, File.Read / ReadAt / WriteTo) x every reply of the operation x the valid reply or a STATUS / HANDLE / DATA / NAME / ATTRS reply in its place x every count or length word set to 2^16, 2^24, 2^31-1, 2^32-1: the call allocates <= 64*reply bytes + 1 MiB and the process survives; non-trivial = mutated (not the valid original) input"
	sftp.VerifFxRegisterExtensions()
	var cases []c08Case
	if c.Replay != "" {
		var one c08Case
		if err := lib.ReadReplay(c.Replay, &one); err != nil {
			r.Fail(lib.Failure{Kind: "tie", Key: "replay", What: err.Error()})
			return
		}
		cases = []c08Case{one}
	} else {
		g := c06Gen{c}
		perKind := 2
		windowStep := 3
		if c.Tier == "thorough" {
			perKind, windowStep = 12, 1
		}
		// 0, 1, n-1, n+1, 2^31-1, 2^32-1 and the values at which a multiplication of a count by an element
		// size (8, 12, 32) wraps around 2^32
		specials := func(n uint32) []uint32 {
			return []uint32{0, 1, n - 1, n + 1, 0x7fffffff, 0xffffffff, 0x20000000, 0x20000001, 0x80000000, 0x15555556, 0x08000000, 0xfffffffc}
		}
		for _, k := range c06Kinds {
			for i := 0; i < perKind; i++ {
				v := g.pkt(k, 5+i*7)
				if len(v.Data) > 40 {
					v.Data = v.Data[:40]
					v.Len = 40
				}
				if len(v.Path) > 40 {
					v.Path = v.Path[:40]
				}
				if len(v.Path2) > 40 {
					v.Path2 = v.Path2[:40]
				}
				frame, _, _ := c06Build(k, v)
				body := frame[5:]
				entries := []string{"fx"}
				if k.Request {
					entries = append(entries, "main")
				}
				for _, e := range entries {
					add := func(b []byte, mut string) {
						cases = append(cases, c08Case{Entry: e, Typ: int(k.Typ), Body: lib.Hex(b), Kind: k.Name, Mut: mut})
					}
					add(body, "")
					for cut := 0; cut < len(body); cut++ {
						add(body[:cut], "truncate")
					}
					for off := 0; off+4 <= len(body); off += windowStep {
						old := binary.BigEndian.Uint32(body[off:])
						for _, sv := range specials(old) {
							m := append([]byte(nil), body...)
							binary.BigEndian.PutUint32(m[off:], sv)
							add(m, "window")
						}
					}
					m := append(append([]byte(nil), body...), 0xde, 0xad, 0xbe, 0xef)
					add(m, "garbage-appended")
				}
				if k.Name == "Attrs" || k.Name == "Setstat" {
					blk := c06WireSt(v.Flags, v.Stat).Block()
					for _, e := range []string{"attrs", "fxattrs"} {
						for cut := 0; cut <= len(blk); cut++ {
							cases = append(cases, c08Case{Entry: e, Body: lib.Hex(blk[:cut]), Kind: "attr-block", Mut: "truncate"})
						}
						for off := 0; off+4 <= len(blk); off++ {
							old := binary.BigEndian.Uint32(blk[off:])
							for _, sv := range specials(old) {
								m := append([]byte(nil), blk...)
								binary.BigEndian.PutUint32(m[off:], sv)
								cases = append(cases, c08Case{Entry: e, Body: lib.Hex(m), Kind: "attr-block", Mut: "window"})
							}
						}
					}
				}
			}
		}
		// absurd counts with nothing behind them
		for _, e := range []string{"attrs", "fxattrs"} {
			for _, cnt := range []uint32{0x0fffffff, 0xffffffff, 0x7fffffff, 0x20000000, 0x20000001, 0x40000000, 0x80000000, 0xe0000000, 2, 1} {
				cases = append(cases, c08Case{Entry: e, Body: lib.Hex(wire.B{}.U32(0x80000000).U32(cnt)), Kind: "attr-block", Mut: "count-only"})
			}
		}
		for _, cnt := range []uint32{0x0fffffff, 0xffffffff, 3} {
			cases = append(cases, c08Case{Entry: "fx", Typ: wire.Name, Body: lib.Hex(wire.B{}.U32(7).U32(cnt)), Kind: "Name", Mut: "count-only"})
		}
		valid := wire.B{}.U32(9).Str("/p")
		for t := 0; t < 256; t++ {
			cases = append(cases, c08Case{Entry: "main", Typ: t, Body: lib.Hex(valid), Kind: "type-byte", Mut: "type"})
			cases = append(cases, c08Case{Entry: "fx", Typ: t, Body: lib.Hex(valid), Kind: "type-byte", Mut: "type"})
		}
		nr := 300
		if c.Tier == "thorough" {
			nr = 20000
		}
		for i := 0; i < nr; i++ {
			b := make([]byte, c.Rand.Intn(48))
			c.Rand.Read(b)
			k := c06Kinds[c.Rand.Intn(len(c06Kinds))]
			cases = append(cases, c08Case{Entry: []string{"main", "fx"}[i%2], Typ: int(k.Typ), Body: lib.Hex(b), Kind: k.Name, Mut: "random"})
		}
		cases = append(cases, c08FrameCases(c)...)
	}

	pool, err := c08Start()
	if err != nil {
		r.Fail(lib.Failure{Kind: "tie", Key: "child-start", What: err.Error()})
		return
	}
	defer func() { pool.stop() }()
	kindOfTyp := map[int][]string{}
	isRequest := map[string]bool{}
	for _, k := range c06Kinds {
		kindOfTyp[int(k.Typ)] = append(kindOfTyp[int(k.Typ)], k.Name)
		isRequest[k.Name] = k.Request
	}
	var lines, impl []string
	frameFails := map[string]int{}
	defer func() {
		if len(frameFails) > 0 {
			r.Note("filexfer framing: failing cases per class (limit / buffer capacity / declared length): %v", frameFails)
		}
	}()
	for _, cs := range cases {
		if cs.Entry == "client" {
			continue // run below, through C20's child
		}
		if c.Stop("c08/decode") {
			continue
		}
		if cs.Entry == "fxframe" {
			if cs.Frame == nil {
				r.Fail(lib.Failure{Kind: "tie", Key: "replay", What: "fxframe case without frame parameters"})
				continue
			}
			line := "fxframe 0 " + cs.Frame.spec()
			ans := pool.askRaw(line)
			f := *cs.Frame
			r.Case(line, f.Cap > 0 || f.Declared > f.Limit || int64(f.Avail) != int64(f.Declared))
			r.Hist(c08FrameBucket(f))
			if c08FrameJudge(r, cs, ans) {
				frameFails[c08FrameBucket(f)]++
			}
			if ans == "died" || ans == "hang" {
				if pool, err = c08Start(); err != nil {
					return
				}
			}
			continue
		}
		line := fmt.Sprintf("%s %d %s", cs.Entry, cs.Typ, cs.Body)
		res, alloc := pool.ask(line)
		r.Case(line, cs.Mut != "")
		r.Hist(cs.Entry + "-" + cs.Mut)
		blen := len(lib.UnHex(cs.Body))
		if res == "died" || res == "hang" {
			key := "fx"
			if cs.Entry == "main" || cs.Entry == "attrs" {
				key = "main"
			}
			r.Fail(lib.Failure{Kind: "oracle", Key: key + "/decode-" + res + "/" + cs.Kind, What: "decoding these bytes killed the process (out of memory / fatal error) or did not finish within 20 s: memory or time out of proportion to the input", Input: cs})
			pool, err = c08Start()
			if err != nil {
				return
			}
			continue
		}
		if res == "panic" {
			r.Fail(lib.Failure{Kind: "oracle", Key: cs.Entry + "/decode-panic/" + cs.Kind, What: "decoding panicked", Input: cs})
		}
		if alloc > uint64(64*blen+64<<10) {
			r.Fail(lib.Failure{Kind: "oracle", Key: cs.Entry + "/alloc-out-of-proportion/" + cs.Kind, What: fmt.Sprintf("decoding %d input bytes allocated %d bytes", blen, alloc), Input: cs})
		}
		// model outcome class
		switch cs.Entry {
		case "attrs":
			lines = append(lines, "codec.dec a 10 "+cs.Body)
			impl = append(impl, res)
		case "main", "fx":
			names := kindOfTyp[cs.Typ]
			if len(names) == 1 && cs.Typ != 200 && (cs.Entry == "fx" || isRequest[names[0]]) {
				// the filexfer VERSION decoder drops the buffer's sticky error (accepts a short body): known difference of that codec, not a panic/alloc issue
				if cs.Entry == "fx" && (names[0] == "Version") && blen < 4 {
					break
				}
				lines = append(lines, fmt.Sprintf("c06.parse %s %s %s", cs.Entry, names[0], cs.Body))
				impl = append(impl, res)
			}
		}
	}
	// outcome class only (values are compared in C06)
	model, err := c.Model(lines)
	if err != nil {
		r.Fail(lib.Failure{Kind: "tie", Key: "c08/model-driver", What: err.Error()})
	} else {
		for i := range lines {
			m := strings.Fields(model[i])[0]
			if m == "nokind" {
				continue
			}
			if m != impl[i] {
				f := strings.Fields(lines[i])
				r.Fail(lib.Failure{Kind: "correspondence", Key: "c08/outcome/" + f[1] + "/" + f[2], What: "model and implementation differ in outcome class (ok / err / panic)", Input: lines[i], Expected: m, Actual: impl[i]})
			}
		}
	}

	// ---- framing ----
	var flines, fimpl []string
	frames := [][]byte{}
	v := wire.Frame(wire.Stat, wire.B{}.U32(1).Str("/x"))
	for cut := 0; cut <= len(v); cut++ {
		frames = append(frames, v[:cut])
	}
	for _, n := range []uint32{0, 1, uint32(len(v) - 5), uint32(len(v) - 3), 0x7fffffff, 0xffffffff, 262144, 262145, 262143, 262157, 262158, 262144 + 4096} {
		f := append([]byte(nil), v...)
		binary.BigEndian.PutUint32(f, n)
		frames = append(frames, f)
	}
	big := make([]byte, 4+262144)
	binary.BigEndian.PutUint32(big, 262144)
	big[4] = wire.Write
	frames = append(frames, big, big[:len(big)-1], append(append([]byte(nil), big...), 1, 2, 3))
	for _, f := range frames {
		for _, alloc := range []bool{false, true} {
			cr := &countingReader{r: bytes.NewReader(f)}
			var typ uint8
			var payload []byte
			var err error
			panicked := func() (p any) {
				defer func() { p = recover() }()
				typ, payload, err = sftp.VerifRecvPacket(cr, alloc)
				return nil
			}()
			if panicked != nil {
				hx := lib.Hex(f[:min(len(f), 24)])
				r.Fail(lib.Failure{Kind: "oracle", Key: "framing/panic", What: fmt.Sprintf("recvPacket panicked: %v", panicked),
					Input: map[string]any{"stream_prefix": hx, "stream_len": len(f), "allocator": alloc}})
				continue
			}
			declared := uint32(0)
			if len(f) >= 4 {
				declared = binary.BigEndian.Uint32(f)
			}
			cls := "ok"
			switch {
			case err == io.EOF:
				cls = "eof"
			case err != nil && len(f) < 4:
				cls = "shorthdr"
			case err != nil && declared > 262144:
				cls = "long"
			case err != nil && declared == 0:
				cls = "zero"
			case err != nil:
				cls = "shortbody"
			}
			hx := lib.Hex(f)
			if len(hx) > 80 {
				hx = hx[:80] + "…"
			}
			in := map[string]any{"stream": hx, "stream_len": len(f), "allocator": alloc}
			r.Case(fmt.Sprintf("frame %x %v", f[:min(len(f), 16)], alloc)+fmt.Sprint(len(f)), true)
			r.Hist("framing-" + cls)
			if len(f) >= 4 && (declared > 262144 || declared == 0) {
				if err == nil || cr.n != 4 {
					r.Fail(lib.Failure{Kind: "oracle", Key: "framing/long-or-zero-not-refused-early", What: "a frame declaring 0 or more than 262144 bytes must be refused after reading exactly the 4 length bytes", Input: in, Actual: fmt.Sprintf("err=%v consumed=%d", err, cr.n)})
				}
			}
			if err == nil && (len(payload)+1 != int(declared) || len(f) < 4+int(declared)) {
				r.Fail(lib.Failure{Kind: "oracle", Key: "framing/delivered-short", What: "a delivered payload must have exactly the declared length", Input: in, Actual: fmt.Sprintf("typ=%d payload=%d declared=%d", typ, len(payload), declared)})
			}
			if err == nil && len(f) >= 4 && len(f)-4 < int(declared) {
				r.Fail(lib.Failure{Kind: "oracle", Key: "framing/delivered-short", What: "fewer bytes than declared were available but a packet was delivered", Input: in})
			}
			if !alloc && len(f) < 100 {
				flines = append(flines, "c06.recv "+lib.Hex(f))
				fimpl = append(fimpl, cls)
			}
		}
	}
	fm, err := c.Model(flines)
	if err == nil {
		for i := range flines {
			if strings.Fields(fm[i])[0] != fimpl[i] {
				r.Fail(lib.Failure{Kind: "correspondence", Key: "c08/recv", What: "framing: model and implementation differ", Input: flines[i], Expected: fm[i], Actual: fimpl[i]})
			}
		}
	}
	// ---- client side: replies with inflated counts / lengths ----
	if c.Replay == "" {
		c08ClientAlloc(c, nil)
	} else if cases[0].Entry == "client" && cases[0].Client != nil {
		c08ClientAlloc(c, cases[0].Client)
	}
	r.Sample(map[string]any{"entry": "fxattrs", "body": "800000000fffffff", "note": "extended flag and a count of 268 million with no data behind it"})
	r.Sample(cases[len(cases)/2])
	for _, cs := range cases {
		if cs.Frame != nil && cs.Frame.Cap > int(cs.Frame.Limit) && cs.Frame.Declared > cs.Frame.Limit && int(cs.Frame.Declared) <= cs.Frame.Cap {
			r.Sample(cs)
			break
		}
	}
}
