package main

// Shared helpers of the transfer checks C01 (bytes moved are the file's bytes),
// C12 (offset and closed-state semantics) and C13 (partial failure): client
// option sets, data patterns, chunk plans, ReadFrom source kinds, the three kinds
// of backend (os-backed Server, RequestServer over an in-memory file system, the
// scripted peer of xfer_peer.go) and a goroutine-safe front for lib.Result.

import (
	"bytes"
	"encoding/json"
	"errors"
	"fmt"
	"io"
	"math/rand"
	"os"
	"os/exec"
	"path/filepath"
	"sort"
	"strings"
	"sync"
	"syscall"
	"time"
	"verifharness/peers"

	"github.com/pkg/sftp"

	"verifharness/lib"
	"verifharness/wire"
)

// ---------- client options ----------

type xfCfg struct {
	MP        int  `json:"mp"`
	Unchecked bool `json:"unchecked"`
	Conc      int  `json:"conc"`
	CR        bool `json:"concurrent_reads"`
	CW        bool `json:"concurrent_writes"`
	Fstat     bool `json:"use_fstat"`
}

func (x xfCfg) Opts() []sftp.ClientOption {
	var o []sftp.ClientOption
	if x.Unchecked {
		o = append(o, sftp.MaxPacketUnchecked(x.MP))
	} else {
		o = append(o, sftp.MaxPacketChecked(x.MP))
	}
	return append(o, sftp.MaxConcurrentRequestsPerFile(x.Conc), sftp.UseConcurrentReads(x.CR),
		sftp.UseConcurrentWrites(x.CW), sftp.UseFstat(x.Fstat))
}

func xfB(b bool) int {
	if b {
		return 1
	}
	return 0
}

func (x xfCfg) String() string {
	u := ""
	if x.Unchecked {
		u = "u"
	}
	return fmt.Sprintf("mp%d%s/c%d/cr%d/cw%d/fs%d", x.MP, u, x.Conc, xfB(x.CR), xfB(x.CW), xfB(x.Fstat))
}

var xfMPs = []int{1, 2, 3, 4, 7, 32768}
var xfConcs = []int{1, 2, 3, 64}

// xfAllCfgs is the full option product (192 option sets); Unchecked alternates.
func xfAllCfgs() []xfCfg {
	var out []xfCfg
	i := 0
	for _, mp := range xfMPs {
		for _, conc := range xfConcs {
			for b := 0; b < 8; b++ {
				out = append(out, xfCfg{MP: mp, Unchecked: i%2 == 1, Conc: conc, CR: b&1 != 0, CW: b&2 != 0, Fstat: b&4 != 0})
				i++
			}
		}
	}
	return out
}

// xfCoverCfgs gives one option set per (mp, conc) pair with the three booleans rotating
// with `rot`, so that a handful of rotations covers the whole product.
func xfCoverCfgs(rot int) []xfCfg {
	var out []xfCfg
	j := 0
	for _, mp := range xfMPs {
		for _, conc := range xfConcs {
			b := (j*3 + rot) % 8
			out = append(out, xfCfg{MP: mp, Unchecked: (j+rot)%2 == 1, Conc: conc, CR: b&1 != 0, CW: b&2 != 0, Fstat: b&4 != 0})
			j++
		}
	}
	return out
}

// ---------- data ----------

// xfFilePat is the initial content of every served file: byte i = i mod 251
// (the same pattern the Lean driver uses, so results can be compared by hash).
func xfFilePat(n int) []byte { return xfPat(0, n) }

// xfPat is the data a write-side call moves: byte i = (seed+i) mod 251.
func xfPat(seed, n int) []byte {
	b := make([]byte, n)
	for i := range b {
		b[i] = byte((seed + i) % 251)
	}
	return b
}

// xfHash is the driver's content hash.
func xfHash(b []byte) uint64 {
	h := uint64(7)
	for _, x := range b {
		h = (31*h + uint64(x) + 1) % 1000000007
	}
	return h
}

// xfOverwrite is what a file looks like after data was written at off (zero-filled gap).
func xfOverwrite(file []byte, off int64, data []byte) []byte {
	end := int(off) + len(data)
	out := append([]byte(nil), file...)
	if len(data) == 0 {
		return out
	}
	if end > len(out) {
		out = append(out, make([]byte, end-len(out))...)
	}
	copy(out[off:], data)
	return out
}

// xfSlice is file[off, off+n) clamped to the file.
func xfSlice(file []byte, off int64, n int) []byte {
	if off >= int64(len(file)) || n <= 0 {
		return nil
	}
	end := off + int64(n)
	if end > int64(len(file)) {
		end = int64(len(file))
	}
	return file[off:end]
}

func xfShort(b []byte) string {
	if len(b) <= 48 {
		return lib.Hex(b)
	}
	return fmt.Sprintf("%s…(%d bytes, hash %d)", lib.Hex(b[:48]), len(b), xfHash(b))
}

// xfFirstDiff returns the first index at which a and b differ (or the shorter length), -1 if equal.
func xfFirstDiff(a, b []byte) int {
	n := len(a)
	if len(b) < n {
		n = len(b)
	}
	for i := 0; i < n; i++ {
		if a[i] != b[i] {
			return i
		}
	}
	if len(a) != len(b) {
		return n
	}
	return -1
}

// ---------- chunk plans ----------

type xfChunk struct {
	Off int64
	Len int
}

// xfPlan is the harness's own statement of the chunk plan: contiguous chunks of mp bytes
// from off, the last one shorter, none empty.
func xfPlan(mp int, off int64, n int) []xfChunk {
	var out []xfChunk
	for n > 0 {
		l := mp
		if n < l {
			l = n
		}
		out = append(out, xfChunk{off, l})
		off += int64(l)
		n -= l
	}
	return out
}

func xfPlanText(p []xfChunk) string {
	if len(p) == 0 {
		return "-"
	}
	q := append([]xfChunk(nil), p...)
	sort.Slice(q, func(i, j int) bool {
		if q[i].Off != q[j].Off {
			return q[i].Off < q[j].Off
		}
		return q[i].Len < q[j].Len
	})
	var sb strings.Builder
	for i, c := range q {
		if i > 0 {
			sb.WriteByte(',')
		}
		fmt.Fprintf(&sb, "%d:%d", c.Off, c.Len)
	}
	return sb.String()
}

// xfReadChunkSim lists the READ requests readChunkAt-style refilling produces for one buffer of
// length l at off on a file of size S whose server answers at most `cap` bytes per reply
// (cap <= 0: unlimited), and the bytes it obtains. This is the protocol-level statement
// "ask again for the rest until the buffer is full or the server says EOF".
func xfReadChunkSim(S int64, off int64, l int, cap int) (reqs []xfChunk, got int, eof bool) {
	for got < l {
		o := off + int64(got)
		reqs = append(reqs, xfChunk{o, l - got})
		if o >= S {
			return reqs, got, true
		}
		n := l - got
		if int64(n) > S-o {
			n = int(S - o)
		}
		if cap > 0 && n > cap {
			n = cap
		}
		got += n
	}
	return reqs, got, false
}

// xfAppliedPrefix is the length of the contiguous run of bytes starting at `start` that the given stored
// writes cover (at most max).
func xfAppliedPrefix(applied []xfChunk, start int64, max int) int64 {
	a := append([]xfChunk(nil), applied...)
	sort.Slice(a, func(i, j int) bool { return a[i].Off < a[j].Off })
	end := start
	for _, c := range a {
		if c.Off > end {
			break
		}
		if e := c.Off + int64(c.Len); e > end {
			end = e
		}
	}
	if end-start > int64(max) {
		return int64(max)
	}
	return end - start
}

// xfWireCheck compares the multiset of recorded (offset, length) requests with the required
// ones; `optional` may additionally appear (each at most once). Returns "" when conformant.
func xfWireCheck(rec, required []xfChunk, optional func(xfChunk) bool) string {
	need := map[xfChunk]int{}
	for _, c := range required {
		need[c]++
	}
	seenOpt := map[xfChunk]int{}
	var extra, dup []xfChunk
	for _, c := range rec {
		if need[c] > 0 {
			need[c]--
			continue
		}
		if optional != nil && optional(c) {
			seenOpt[c]++
			if seenOpt[c] > 1 {
				dup = append(dup, c)
			}
			continue
		}
		extra = append(extra, c)
	}
	var missing []xfChunk
	for c, n := range need {
		for ; n > 0; n-- {
			missing = append(missing, c)
		}
	}
	if len(extra)+len(dup)+len(missing) == 0 {
		return ""
	}
	return fmt.Sprintf("missing=%s unexpected=%s duplicated=%s", xfPlanText(missing), xfPlanText(extra), xfPlanText(dup))
}

// ---------- size classes ----------

// xfSizeClasses are the lengths the properties name for a packet size and request bound.
func xfSizeClasses(mp, conc int) []int {
	set := map[int]bool{0: true, 1: true}
	for k := 1; k <= 3; k++ {
		for d := -1; d <= 1; d++ {
			if v := k*mp + d; v >= 0 {
				set[v] = true
			}
		}
	}
	for r := -1; r <= 2; r++ {
		if v := mp*conc + r; v >= 0 {
			set[v] = true
		}
	}
	var out []int
	for v := range set {
		out = append(out, v)
	}
	sort.Ints(out)
	return out
}

// xfSizeClass names the class of n relative to mp and conc (for histograms).
func xfSizeClass(n, mp, conc int) string {
	switch {
	case n == 0:
		return "0"
	case n == 1:
		return "1"
	case n > mp*conc+2:
		return ">mp·conc"
	case n >= mp*conc-1 && n > 3*mp+1:
		return "mp·conc±"
	case n < mp-1:
		return "<mp"
	case n%mp == 0:
		return "k·mp"
	case n%mp == 1 && n > mp:
		return "k·mp+1"
	case n%mp == mp-1:
		return "k·mp−1"
	case n <= mp:
		return "<mp"
	}
	return "multi-chunk-other"
}

// xfMaxSize bounds generated lengths for an option set: 3·mp·conc+2, kept to a few MB for mp = 32768.
func xfMaxSize(cfg xfCfg) int {
	m := 3*cfg.MP*cfg.Conc + 2
	if m > 3*32768*4+2 && cfg.Conc > 4 {
		m = cfg.MP*cfg.Conc + cfg.MP + 2
	}
	return m
}

// xfPickSize draws a length: mostly a named class, sometimes uniform up to the bound.
func xfPickSize(rng *rand.Rand, cfg xfCfg) int {
	cl := xfSizeClasses(cfg.MP, cfg.Conc)
	if rng.Intn(4) == 0 {
		return rng.Intn(xfMaxSize(cfg) + 1)
	}
	return cl[rng.Intn(len(cl))]
}

// xfPickOff draws a start offset relative to a file size S.
func xfPickOff(rng *rand.Rand, cfg xfCfg, S int) int64 {
	c := []int{0, 0, 0, 1, cfg.MP - 1, cfg.MP, cfg.MP + 1, 2*cfg.MP + 1, S - 1, S, S + 1, S + cfg.MP}
	if S > 0 && rng.Intn(3) == 0 {
		return int64(rng.Intn(S + 2))
	}
	v := c[rng.Intn(len(c))]
	if v < 0 {
		v = 0
	}
	return int64(v)
}

// ---------- ReadFrom sources ----------

// The kinds File.ReadFrom distinguishes: Len(), Size(), *io.LimitedReader, Stat(), and opaque.
var xfSrcKinds = []string{"len", "size", "stat", "limited", "opaque", "opaque1", "size-small", "size-big", "size-neg", "limited-big"}

type xfSource struct {
	R        io.Reader
	Consumed func() int64
	Cleanup  func()
}

type xfCountReader struct {
	r    io.Reader
	n    int64
	step int // max bytes per Read (0: unlimited)
	mu   sync.Mutex
	// failAfter >= 0: return failErr once that many bytes were handed out
	failAfter int64
	failErr   error
}

func (c *xfCountReader) Read(p []byte) (int, error) {
	c.mu.Lock()
	defer c.mu.Unlock()
	if c.step > 0 && len(p) > c.step {
		p = p[:c.step]
	}
	if c.failErr != nil {
		if c.n >= c.failAfter {
			return 0, c.failErr
		}
		if int64(len(p)) > c.failAfter-c.n {
			p = p[:c.failAfter-c.n]
		}
	}
	n, err := c.r.Read(p)
	c.n += int64(n)
	return n, err
}

func (c *xfCountReader) count() int64 { c.mu.Lock(); defer c.mu.Unlock(); return c.n }

type xfSizeReader struct {
	*xfCountReader
	size int64
}

func (s xfSizeReader) Size() int64 { return s.size }

// xfNewSource builds a source of the given kind delivering data.
func xfNewSource(kind string, data []byte, dir string) (xfSource, error) {
	cr := &xfCountReader{r: bytes.NewReader(data), failAfter: -1}
	switch kind {
	case "len":
		br := bytes.NewReader(data) // has Len() int (and Size(); Len is matched first)
		return xfSource{R: br, Consumed: func() int64 { return int64(len(data) - br.Len()) }}, nil
	case "size":
		return xfSource{R: xfSizeReader{cr, int64(len(data))}, Consumed: cr.count}, nil
	case "size-small": // a Size() that under-reports: the data must still arrive completely
		return xfSource{R: xfSizeReader{cr, int64(len(data) / 2)}, Consumed: cr.count}, nil
	case "size-big":
		return xfSource{R: xfSizeReader{cr, int64(2*len(data) + 5)}, Consumed: cr.count}, nil
	case "size-neg":
		return xfSource{R: xfSizeReader{cr, -1}, Consumed: cr.count}, nil
	case "limited":
		return xfSource{R: &io.LimitedReader{R: cr, N: int64(len(data))}, Consumed: cr.count}, nil
	case "limited-big":
		return xfSource{R: &io.LimitedReader{R: cr, N: int64(len(data)) + 9}, Consumed: cr.count}, nil
	case "opaque":
		return xfSource{R: struct{ io.Reader }{cr}, Consumed: cr.count}, nil
	case "opaque1": // one byte per Read: io.ReadFull must assemble the chunks
		cr.step = 1
		return xfSource{R: struct{ io.Reader }{cr}, Consumed: cr.count}, nil
	case "stat":
		f, err := os.CreateTemp(dir, "src-")
		if err != nil {
			return xfSource{}, err
		}
		if _, err := f.Write(data); err != nil {
			f.Close()
			return xfSource{}, err
		}
		if _, err := f.Seek(0, io.SeekStart); err != nil {
			f.Close()
			return xfSource{}, err
		}
		return xfSource{R: f, Consumed: func() int64 { p, _ := f.Seek(0, io.SeekCurrent); return p },
			Cleanup: func() { f.Close(); os.Remove(f.Name()) }}, nil
	}
	return xfSource{}, fmt.Errorf("unknown source kind %q", kind)
}

// xfSrcKnownSize is what File.ReadFrom learns about the source size (0: nothing).
func xfSrcKnownSize(kind string, n int) int64 {
	switch kind {
	case "len", "size", "stat", "limited":
		return int64(n)
	case "size-small":
		return int64(n / 2)
	case "size-big":
		return int64(2*n + 5)
	case "size-neg":
		return -1
	case "limited-big":
		return int64(n) + 9
	}
	return 0
}

// xfReadFromConcurrent tells whether ReadFrom takes the concurrent path (documented rule:
// concurrent writes enabled and the source announces more than one packet, or a negative size).
func xfReadFromConcurrent(cfg xfCfg, kind string, n int) bool {
	if !cfg.CW {
		return false
	}
	k := xfSrcKnownSize(kind, n)
	return k < 0 || k > int64(cfg.MP)
}

// ---------- open modes ----------

// xfOpenMode is one way of opening the File a transfer runs through. Wire is the pflags word the OPEN request must
// carry (draft-ietf-secsh-filexfer-02: READ 1, WRITE 2, APPEND 4, CREAT 8, TRUNC 16, EXCL 32), written out here
// independently of the package's own translation.
type xfOpenMode struct {
	Name   string
	Flags  int    // handed to Client.OpenFile
	Create bool   // Client.Create(path) instead (documented: O_RDWR|O_CREATE|O_TRUNC)
	Wire   uint32 // expected pflags
	Fresh  bool   // the file does not exist before the open
	Refuse bool   // the file exists and O_EXCL is given: the open must fail and leave the file alone
}

func (m xfOpenMode) Reads() bool  { return m.Wire&wire.FRead != 0 }
func (m xfOpenMode) Writes() bool { return m.Wire&wire.FWrite != 0 }
func (m xfOpenMode) Trunc() bool  { return m.Wire&wire.FTrunc != 0 }
func (m xfOpenMode) Append() bool { return m.Wire&wire.FAppend != 0 }

// Empties: the file is empty right after the open whatever it held before.
func (m xfOpenMode) Empties() bool { return (m.Trunc() || m.Fresh) && !m.Refuse }

var xfOpenModeList = []xfOpenMode{
	{Name: "rdonly", Flags: os.O_RDONLY, Wire: 1},
	{Name: "wronly", Flags: os.O_WRONLY, Wire: 2},
	{Name: "rdwr", Flags: os.O_RDWR, Wire: 3},
	{Name: "wronly+creat", Flags: os.O_WRONLY | os.O_CREATE, Wire: 2 | 8},
	{Name: "rdwr+creat", Flags: os.O_RDWR | os.O_CREATE, Wire: 3 | 8},
	{Name: "wronly+append", Flags: os.O_WRONLY | os.O_APPEND, Wire: 2 | 4},
	{Name: "rdwr+append", Flags: os.O_RDWR | os.O_APPEND, Wire: 3 | 4},
	{Name: "wronly+creat+append", Flags: os.O_WRONLY | os.O_CREATE | os.O_APPEND, Wire: 2 | 4 | 8},
	{Name: "wronly+trunc", Flags: os.O_WRONLY | os.O_TRUNC, Wire: 2 | 16},
	{Name: "rdwr+trunc", Flags: os.O_RDWR | os.O_TRUNC, Wire: 3 | 16},
	{Name: "rdwr+creat+trunc", Flags: os.O_RDWR | os.O_CREATE | os.O_TRUNC, Wire: 3 | 8 | 16},
	{Name: "create()", Create: true, Wire: 3 | 8 | 16},
	{Name: "wronly+creat+excl", Flags: os.O_WRONLY | os.O_CREATE | os.O_EXCL, Wire: 2 | 8 | 32, Fresh: true},
	{Name: "rdwr+creat+excl", Flags: os.O_RDWR | os.O_CREATE | os.O_EXCL, Wire: 3 | 8 | 32, Fresh: true},
	{Name: "wronly+creat+excl/exists", Flags: os.O_WRONLY | os.O_CREATE | os.O_EXCL, Wire: 2 | 8 | 32, Refuse: true},
	{Name: "rdwr+creat+excl/exists", Flags: os.O_RDWR | os.O_CREATE | os.O_EXCL, Wire: 3 | 8 | 32, Refuse: true},
}

func xfOpenModeByName(name string) (xfOpenMode, bool) {
	for _, m := range xfOpenModeList {
		if m.Name == name {
			return m, true
		}
	}
	return xfOpenMode{}, false
}

// The modes a write-side transfer rotates through, and those of a read-side transfer (a read needs READ access; the
// modes that empty the file make every read an end-of-file read).
var xfWriteOpenModes = []string{"wronly+creat", "rdwr+creat", "wronly", "rdwr", "wronly+append", "rdwr+append", "wronly+creat+append",
	"wronly+trunc", "rdwr+trunc", "rdwr+creat+trunc", "create()", "wronly+creat+excl", "rdwr+creat+excl", "wronly+creat+excl/exists"}
var xfReadOpenModes = []string{"rdonly", "rdwr", "rdwr+creat", "rdwr+append", "rdwr+trunc", "rdwr", "rdonly", "rdwr+creat", "rdwr+append", "create()",
	"rdwr", "rdwr+creat", "rdonly", "rdwr+append", "rdwr+creat+excl", "rdwr", "rdwr+creat", "rdwr+append", "rdonly", "rdwr+creat+excl/exists"}

// Open opens path on cli the way the mode says.
func (m xfOpenMode) Open(cli *sftp.Client, path string) (*sftp.File, error) {
	if m.Create {
		return cli.Create(path)
	}
	return cli.OpenFile(path, m.Flags)
}

// HandlerFlags is what a request-server handler must be shown for the mode.
func (m xfOpenMode) HandlerFlags() sftp.FileOpenFlags {
	return sftp.FileOpenFlags{Read: m.Wire&wire.FRead != 0, Write: m.Wire&wire.FWrite != 0, Append: m.Wire&wire.FAppend != 0,
		Creat: m.Wire&wire.FCreat != 0, Trunc: m.Wire&wire.FTrunc != 0, Excl: m.Wire&wire.FExcl != 0}
}

// ---------- backends ----------

type xfSrvSpec struct {
	Kind  string `json:"kind"` // os | rs | peer
	Alloc bool   `json:"alloc"`
	MaxTx uint32 `json:"max_tx"` // 0: default
	Perm  bool   `json:"permute"`
	// rs only: the FilePut handler has no OpenFile method (it is not an sftp.OpenFileWriter). A read-write open is then
	// served by Filewrite: writes work, READs through that handle are refused by the server.
	NoOFW bool `json:"no_open_file_writer,omitempty"`
	// rs only: the handlers are the package's own example backend sftp.InMemHandler() (xfer_inmem.go) instead of the
	// harness's xfMemFS
	InMem bool `json:"inmem_handler,omitempty"`
}

func (s xfSrvSpec) String() string {
	t := s.Kind
	if s.Alloc {
		t += "+alloc"
	}
	if s.MaxTx != 0 {
		t += fmt.Sprintf("+tx%d", s.MaxTx)
	}
	if s.Perm {
		t += "+perm"
	}
	if s.NoOFW {
		t += "-openfilewriter"
	}
	if s.InMem {
		t = "InMemHandler:" + t
	}
	return t
}

var xfRealSpecs = []xfSrvSpec{
	{Kind: "os"}, {Kind: "os", Alloc: true}, {Kind: "os", MaxTx: 65536}, {Kind: "os", Alloc: true, MaxTx: 65536},
	{Kind: "rs"}, {Kind: "rs", Alloc: true}, {Kind: "rs", MaxTx: 65536}, {Kind: "rs", Alloc: true, MaxTx: 65536},
}

// xfReal is a real *sftp.Client connected through in-memory pipes to a real server.
type xfReal struct {
	Spec  xfSrvSpec
	Cli   *sftp.Client
	OS    *sftp.Server
	RS    *sftp.RequestServer
	Mem   *xfMemFS
	IM    *xfInMem    // rs with Spec.InMem: the package's own example backend (Mem is nil then)
	Tap   *xfFrameTap // every request frame the server has read (type and first string field)
	Dir   string
	done  chan struct{}
	s2cW  *io.PipeWriter
	c2sR  *io.PipeReader
	ownsD bool
}

type xfRWC struct {
	io.Reader
	io.WriteCloser
	closeRead func()
}

func (r xfRWC) Close() error { r.closeRead(); return r.WriteCloser.Close() }

// xfStartPair starts a server of the given kind and connects a real client (sftp.NewClientPipe) to it.
// dir is the scratch directory for os-backed files ("" for rs).
func xfStartPair(spec xfSrvSpec, cfg xfCfg, dir string) (*xfReal, error) {
	c2sR, c2sW := io.Pipe()
	s2cR, s2cW := io.Pipe()
	p := &xfReal{Spec: spec, Dir: dir, done: make(chan struct{}), s2cW: s2cW, c2sR: c2sR, Tap: &xfFrameTap{}}
	rwc := xfRWC{Reader: io.TeeReader(c2sR, p.Tap), WriteCloser: s2cW, closeRead: func() { c2sR.Close() }}
	switch spec.Kind {
	case "os":
		var so []sftp.ServerOption
		if spec.Alloc {
			so = append(so, sftp.WithAllocator())
		}
		if spec.MaxTx != 0 {
			so = append(so, sftp.WithMaxTxPacket(spec.MaxTx))
		}
		srv, err := peers.NewOSServer(rwc, so...)
		if err != nil {
			return nil, err
		}
		p.OS = srv
		go func() { srv.Serve(); s2cW.Close(); close(p.done) }()
	case "rs":
		var ro []sftp.RequestServerOption
		if spec.Alloc {
			ro = append(ro, sftp.WithRSAllocator())
		}
		if spec.MaxTx != 0 {
			ro = append(ro, sftp.WithRSMaxTxPacket(spec.MaxTx))
		}
		var h sftp.Handlers
		if spec.InMem {
			p.IM = xfNewInMem(xfClass(spec))
			h = p.IM.h
		} else {
			p.Mem = xfNewMemFS()
			p.Mem.tap = p.Tap
			h = p.Mem.Handlers()
			if spec.NoOFW {
				h.FilePut = xfMemPutOnly{p.Mem}
			}
		}
		rs := sftp.NewRequestServer(rwc, h, ro...)
		p.RS = rs
		go func() { rs.Serve(); s2cW.Close(); close(p.done) }()
	default:
		return nil, fmt.Errorf("xfStartPair: kind %q", spec.Kind)
	}
	type res struct {
		c   *sftp.Client
		err error
	}
	ch := make(chan res, 1)
	go func() { c, err := sftp.NewClientPipe(s2cR, c2sW, cfg.Opts()...); ch <- res{c, err} }()
	select {
	case r := <-ch:
		if r.err != nil {
			c2sW.Close()
			return nil, r.err
		}
		p.Cli = r.c
	case <-time.After(lib.HangWait(20 * time.Second)):
		lib.SpendHang(xfClass(spec), lib.HangWait(20*time.Second))
		c2sW.Close()
		s2cW.Close()
		return nil, errors.New("client handshake timed out")
	}
	return p, nil
}

func (p *xfReal) Path(name string) string {
	if p.Spec.Kind == "os" {
		return filepath.Join(p.Dir, name)
	}
	return "/" + name
}

func (p *xfReal) Put(name string, b []byte) error {
	if p.Spec.Kind == "os" {
		return os.WriteFile(p.Path(name), b, 0o644)
	}
	if p.IM != nil {
		return p.IM.Put(p.Path(name), b)
	}
	p.Mem.Put(p.Path(name), b)
	return nil
}

func (p *xfReal) Get(name string) ([]byte, error) {
	if p.Spec.Kind == "os" {
		return os.ReadFile(p.Path(name))
	}
	if p.IM != nil {
		return p.IM.Get(p.Path(name))
	}
	b, ok := p.Mem.Get(p.Path(name))
	if !ok {
		return nil, os.ErrNotExist
	}
	return b, nil
}

// Remove makes sure the served file does not exist.
func (p *xfReal) Remove(name string) error {
	if p.Spec.Kind == "os" {
		err := os.Remove(p.Path(name))
		if os.IsNotExist(err) {
			return nil
		}
		return err
	}
	if p.IM != nil {
		return p.IM.Remove(p.Path(name))
	}
	p.Mem.Delete(p.Path(name))
	return nil
}

// OpenHandles is the number of handles the server still holds.
func (p *xfReal) OpenHandles() int {
	if p.OS != nil {
		return sftp.VerifOpenHandles(p.OS)
	}
	return sftp.VerifOpenRequests(p.RS)
}

func (p *xfReal) Shutdown() {
	go p.Cli.Close() // closes the request stream; waits for the client's receiver
	// a clean-up wait, not an oracle: it comes out of the hang budget (so that a server that never returns costs a
	// bounded amount of time) under a class of its own, which stops no case
	lib.WaitCleanup(xfClass(p.Spec), 5*time.Second, p.done)
	p.s2cW.Close()
	p.c2sR.Close()
}

// ---------- in-memory handlers for the request server ----------

type xfMemFS struct {
	mu      sync.Mutex
	files   map[string][]byte
	Opens   int
	Closes  int
	limit   int64     // > 0: a non-empty WriteAt reaching beyond this offset is refused (nothing is stored)
	applied []xfChunk // WriteAt calls that were stored
	// What a NAME shows once it no longer refers to the file that was opened under it (see xfNameView). The data of
	// the open file stays where the handles find it; STAT/LSTAT of the path answer from the view, FSTAT of a handle
	// does not. The request server hands both to Filelist as Method "Stat" with the same path, so the kind of the
	// request is taken from the frame tap (the server has read the frame before it calls the handler; the callers
	// that use views issue one such request at a time).
	views map[string]xfNameView
	tap   *xfFrameTap
	// the latest open the handlers saw: which method was called and the flags the request showed it
	lastOpen xfMemOpen
	// fault: the backend behind the handlers breaks at a byte offset of the served file (see xfHFault, xfer_fault.go)
	fault     *xfHFault
	faultErr  error
	faultErr2 error // the second fault's error (xfHFault.Err2), nil: none
	faultHit  int   // ReadAt/WriteAt calls that met the fault
	// closeErr: the Close() of the file objects the handlers hand out fails with this error (the object is closed all
	// the same; C12: what the client makes of a CLOSE that is answered with a failure)
	closeErr error
}

// SetCloseErr makes the Close() of every file object fail with the named error value of xfHandlerErrs ("": succeed).
func (m *xfMemFS) SetCloseErr(name string) error {
	m.mu.Lock()
	defer m.mu.Unlock()
	m.closeErr = nil
	if name == "" {
		return nil
	}
	k, ok := xfHErrByName(name)
	if !ok {
		return fmt.Errorf("unknown error value %q", name)
	}
	m.closeErr = k.Err
	return nil
}

// xfMemOpen is what a handler saw of an OPEN request.
type xfMemOpen struct {
	Via   string // Fileread | Filewrite | OpenFile
	Flags sftp.FileOpenFlags
}

func (m *xfMemFS) LastOpen() xfMemOpen { m.mu.Lock(); defer m.mu.Unlock(); return m.lastOpen }

func (m *xfMemFS) Delete(p string) { m.mu.Lock(); delete(m.files, p); m.mu.Unlock() }

// xfMemPutOnly is the same file system as a FileWriter that is NOT an sftp.OpenFileWriter.
type xfMemPutOnly struct{ m *xfMemFS }

func (w xfMemPutOnly) Filewrite(r *sftp.Request) (io.WriterAt, error) { return w.m.Filewrite(r) }

// SetNameView installs (or with Kind "" / "same" removes) the view of a path.
func (m *xfMemFS) SetNameView(p string, v xfNameView) {
	m.mu.Lock()
	defer m.mu.Unlock()
	if v.Kind == "" || v.Kind == "same" {
		delete(m.views, p)
		return
	}
	if m.views == nil {
		m.views = map[string]xfNameView{}
	}
	m.views[p] = v
}

var xfErrQuota = errors.New("quota exceeded (injected)")

func (m *xfMemFS) SetLimit(n int64) { m.mu.Lock(); m.limit = n; m.applied = nil; m.mu.Unlock() }

func (m *xfMemFS) TakeApplied() []xfChunk {
	m.mu.Lock()
	defer m.mu.Unlock()
	a := m.applied
	m.applied = nil
	return a
}

func xfNewMemFS() *xfMemFS { return &xfMemFS{files: map[string][]byte{}} }

func (m *xfMemFS) Handlers() sftp.Handlers {
	return sftp.Handlers{FileGet: m, FilePut: m, FileCmd: m, FileList: m}
}

func (m *xfMemFS) Put(p string, b []byte) {
	m.mu.Lock()
	m.files[p] = append([]byte(nil), b...)
	m.mu.Unlock()
}

func (m *xfMemFS) Get(p string) ([]byte, bool) {
	m.mu.Lock()
	defer m.mu.Unlock()
	b, ok := m.files[p]
	return append([]byte(nil), b...), ok
}

func (m *xfMemFS) Counts() (opens, closes int) {
	m.mu.Lock()
	defer m.mu.Unlock()
	return m.Opens, m.Closes
}

type xfMemHandle struct {
	m      *xfMemFS
	path   string
	closed bool
}

func (h *xfMemHandle) ReadAt(b []byte, off int64) (int, error) {
	h.m.mu.Lock()
	defer h.m.mu.Unlock()
	f := h.m.files[h.path]
	if off < 0 {
		return 0, os.ErrInvalid
	}
	if ft := h.m.fault; ft != nil && ft.Op == "read" && len(b) > 0 && h.m.faultErr2 != nil && off >= ft.At2 {
		h.m.faultHit++
		return 0, h.m.faultErr2
	}
	if ft := h.m.fault; ft != nil && ft.Op == "read" && ft.touches(off, len(b)) {
		// the backend delivers nothing at or beyond At: the bytes below it (Partial) or nothing, and the error
		h.m.faultHit++
		n := 0
		if (ft.Partial || h.m.faultErr == io.EOF) && off < ft.At && off < int64(len(f)) {
			n = copy(b[:ft.At-off], f[off:])
		}
		return n, h.m.faultErr
	}
	if off >= int64(len(f)) {
		return 0, io.EOF
	}
	n := copy(b, f[off:])
	if n < len(b) {
		return n, io.EOF
	}
	return n, nil
}

func (h *xfMemHandle) WriteAt(b []byte, off int64) (int, error) {
	h.m.mu.Lock()
	defer h.m.mu.Unlock()
	if off < 0 {
		return 0, os.ErrInvalid
	}
	if h.m.limit > 0 && len(b) > 0 && off+int64(len(b)) > h.m.limit {
		return 0, xfErrQuota
	}
	if ft := h.m.fault; ft != nil && ft.Op == "write" && len(b) > 0 && h.m.faultErr2 != nil && off >= ft.At2 {
		h.m.faultHit++
		return 0, h.m.faultErr2
	}
	if ft := h.m.fault; ft != nil && ft.Op == "write" && ft.touches(off, len(b)) {
		// the backend stores nothing at or beyond At: the bytes below it (Partial: (n > 0, err)) or nothing, and the error
		h.m.faultHit++
		n := 0
		if ft.Partial && off < ft.At {
			n = int(ft.At - off)
			h.m.applied = append(h.m.applied, xfChunk{off, n})
			h.m.files[h.path] = xfOverwrite(h.m.files[h.path], off, b[:n])
		}
		return n, h.m.faultErr
	}
	if len(b) > 0 {
		h.m.applied = append(h.m.applied, xfChunk{off, len(b)})
		if len(h.m.applied) > 1<<16 {
			h.m.applied = h.m.applied[len(h.m.applied)-1024:]
		}
	}
	h.m.files[h.path] = xfOverwrite(h.m.files[h.path], off, b)
	if h.m.files[h.path] == nil {
		h.m.files[h.path] = []byte{}
	}
	return len(b), nil
}

func (h *xfMemHandle) Close() error {
	h.m.mu.Lock()
	defer h.m.mu.Unlock()
	h.closed = true
	h.m.Closes++
	return h.m.closeErr
}

func (m *xfMemFS) Fileread(r *sftp.Request) (io.ReaderAt, error) {
	m.mu.Lock()
	defer m.mu.Unlock()
	if _, ok := m.files[r.Filepath]; !ok {
		return nil, os.ErrNotExist
	}
	m.Opens++
	m.lastOpen = xfMemOpen{Via: "Fileread", Flags: r.Pflags()}
	return &xfMemHandle{m: m, path: r.Filepath}, nil
}

func (m *xfMemFS) open(r *sftp.Request, via string) (*xfMemHandle, error) {
	m.mu.Lock()
	defer m.mu.Unlock()
	fl := r.Pflags()
	m.lastOpen = xfMemOpen{Via: via, Flags: fl}
	_, ok := m.files[r.Filepath]
	switch {
	case !ok && !fl.Creat:
		return nil, os.ErrNotExist
	case ok && fl.Creat && fl.Excl:
		return nil, os.ErrExist
	case !ok:
		m.files[r.Filepath] = []byte{}
	}
	if fl.Trunc {
		m.files[r.Filepath] = []byte{}
	}
	m.Opens++
	return &xfMemHandle{m: m, path: r.Filepath}, nil
}

func (m *xfMemFS) Filewrite(r *sftp.Request) (io.WriterAt, error) { return m.open(r, "Filewrite") }
func (m *xfMemFS) OpenFile(r *sftp.Request) (sftp.WriterAtReaderAt, error) {
	return m.open(r, "OpenFile")
}

func (m *xfMemFS) Filecmd(r *sftp.Request) error {
	m.mu.Lock()
	defer m.mu.Unlock()
	switch r.Method {
	case "Setstat":
		f, ok := m.files[r.Filepath]
		if !ok {
			return os.ErrNotExist
		}
		if r.AttrFlags().Size {
			n := int(r.Attributes().Size)
			if n <= len(f) {
				m.files[r.Filepath] = f[:n:n]
			} else {
				m.files[r.Filepath] = append(append([]byte(nil), f...), make([]byte, n-len(f))...)
			}
		}
		return nil
	case "Remove":
		if _, ok := m.files[r.Filepath]; !ok {
			return os.ErrNotExist
		}
		delete(m.files, r.Filepath)
		return nil
	}
	return sftp.ErrSSHFxOpUnsupported
}

type xfMemInfo struct {
	name string
	size int64
	mode os.FileMode // 0: a regular file, 0644
}

func (i xfMemInfo) Name() string { return i.name }
func (i xfMemInfo) Size() int64  { return i.size }
func (i xfMemInfo) Mode() os.FileMode {
	if i.mode == 0 {
		return 0o644
	}
	return i.mode
}
func (i xfMemInfo) ModTime() time.Time { return time.Unix(1_000_000_000, 0) }
func (i xfMemInfo) IsDir() bool        { return i.mode.IsDir() }
func (i xfMemInfo) Sys() any           { return nil }

type xfMemList []os.FileInfo

func (l xfMemList) ListAt(out []os.FileInfo, off int64) (int, error) {
	if off >= int64(len(l)) {
		return 0, io.EOF
	}
	n := copy(out, l[off:])
	if n < len(out) {
		return n, io.EOF
	}
	return n, nil
}

func (m *xfMemFS) Filelist(r *sftp.Request) (sftp.ListerAt, error) {
	m.mu.Lock()
	defer m.mu.Unlock()
	switch r.Method {
	case "Stat", "Lstat":
		if v, ok := m.views[r.Filepath]; ok && !(m.tap != nil && m.tap.LastStat() == wire.Fstat) {
			// (without an LstatFileLister the request server turns LSTAT into Method "Stat" as well)
			size, mode, exists := v.Attrs(m.tap != nil && m.tap.LastStat() == wire.Lstat)
			if !exists {
				return nil, os.ErrNotExist
			}
			return xfMemList{xfMemInfo{filepath.Base(r.Filepath), size, mode}}, nil
		}
		f, ok := m.files[r.Filepath]
		if !ok {
			return nil, os.ErrNotExist
		}
		return xfMemList{xfMemInfo{name: filepath.Base(r.Filepath), size: int64(len(f))}}, nil
	case "List":
		var l xfMemList
		for p, f := range m.files {
			l = append(l, xfMemInfo{name: filepath.Base(p), size: int64(len(f))})
		}
		return l, nil
	}
	return nil, sftp.ErrSSHFxOpUnsupported
}

// ---------- a name that no longer refers to the open file ----------

// xfNameView is what the path a File was opened with shows after the name was disturbed while the handle stays
// open: Kind "same" (or ""): still the open file; "gone": nothing there (renamed away, removed, dangling link);
// "file": another regular file of Size bytes (rotated, replaced, or a link to one); "dir": a directory.
// Link: the name itself is a symbolic link (LSTAT shows the link).
type xfNameView struct {
	Kind string `json:"kind"`
	Size int64  `json:"size,omitempty"`
	Link bool   `json:"link,omitempty"`
}

// Attrs gives size, mode and existence as STAT (lstat: LSTAT) of the name reports them.
func (v xfNameView) Attrs(lstat bool) (size int64, mode os.FileMode, exists bool) {
	if lstat && v.Link {
		return 9, os.ModeSymlink | 0o777, true
	}
	switch v.Kind {
	case "file":
		return v.Size, 0o644, true
	case "dir":
		return 4096, os.ModeDir | 0o755, true
	}
	return 0, 0, false
}

// ---------- the requests a real server has read ----------

type xfTapRec struct {
	Typ byte
	Str string // the first string field after the id (handle, path or extension name); "" if none
}

// xfFrameTap is fed (io.TeeReader) with everything a server reads from its client. It splits the stream into
// frames and records type and first string field of each. A frame is recorded when its last byte has passed,
// i.e. before the server can act on it.
type xfFrameTap struct {
	mu       sync.Mutex
	lenBuf   []byte
	left     int // bytes of the current frame body still to come
	head     []byte
	inBody   bool
	recs     []xfTapRec
	lastStat byte
}

const xfTapKeep = 1024

func (t *xfFrameTap) Write(p []byte) (int, error) {
	t.mu.Lock()
	defer t.mu.Unlock()
	n := len(p)
	for len(p) > 0 {
		if !t.inBody {
			k := 4 - len(t.lenBuf)
			if k > len(p) {
				k = len(p)
			}
			t.lenBuf = append(t.lenBuf, p[:k]...)
			p = p[k:]
			if len(t.lenBuf) < 4 {
				break
			}
			t.left = int(uint32(t.lenBuf[0])<<24 | uint32(t.lenBuf[1])<<16 | uint32(t.lenBuf[2])<<8 | uint32(t.lenBuf[3]))
			t.lenBuf, t.head, t.inBody = t.lenBuf[:0], t.head[:0], true
			if t.left == 0 {
				t.inBody = false
			}
			continue
		}
		k := t.left
		if k > len(p) {
			k = len(p)
		}
		if room := xfTapKeep - len(t.head); room > 0 {
			t.head = append(t.head, p[:min(k, room)]...)
		}
		p = p[k:]
		if t.left -= k; t.left == 0 {
			t.inBody = false
			t.record()
		}
	}
	return n, nil
}

func (t *xfFrameTap) record() {
	h := t.head
	if len(h) == 0 {
		return
	}
	rec := xfTapRec{Typ: h[0]}
	if h[0] != wire.Init && len(h) >= 9 {
		l := int(uint32(h[5])<<24 | uint32(h[6])<<16 | uint32(h[7])<<8 | uint32(h[8]))
		if l >= 0 && 9+l <= len(h) {
			rec.Str = string(h[9 : 9+l])
		}
	}
	switch rec.Typ {
	case wire.Stat, wire.Lstat, wire.Fstat:
		t.lastStat = rec.Typ
	}
	if len(t.recs) >= 4096 {
		t.recs = append(t.recs[:0], t.recs[2048:]...)
	}
	t.recs = append(t.recs, rec)
}

// LastStat is the type of the latest STAT, LSTAT or FSTAT frame (0: none yet).
func (t *xfFrameTap) LastStat() byte { t.mu.Lock(); defer t.mu.Unlock(); return t.lastStat }

// Take returns and clears the frames recorded since the last call.
func (t *xfFrameTap) Take() []xfTapRec {
	t.mu.Lock()
	defer t.mu.Unlock()
	r := t.recs
	t.recs = nil
	return r
}

// ---------- running calls with a liveness deadline ----------

var xfErrHang = errors.New("no return within 20 s")

// xfGuard runs f and reports false when it did not return within 20 s (the goroutine is abandoned).
func xfGuard(f func()) (ok bool, panicked any) { return xfGuardK(nil, f) }

// xfGuardK is xfGuard for a call of case k: the 20 s come out of the run's hang budget (lib/budget.go) and are
// charged to the case's class when they pass; once the case has hung, its remaining calls get a short deadline.
func xfGuardK(k *lib.Case, f func()) (ok bool, panicked any) {
	done := make(chan any, 1)
	go func() {
		defer func() { done <- recover() }()
		f()
	}()
	p, ok := lib.WaitCase(k, 20*time.Second, done)
	return ok, p
}

// xfProp is the property this process checks; with the server kind it is the hang class of a case.
var xfProp = "xfer"

func xfClass(spec xfSrvSpec) string { return xfProp + "/" + spec.String() }

// xfHangBudget bounds what hangs may cost a run: every hang is a failure of its own and takes 20 s to declare; after
// xfHangLimit of them against one server kind the remaining cases against that kind are not run (and that is said).
type xfHangBudget struct {
	mu sync.Mutex
	n  map[string]int
}

const xfHangLimit = 4

func (h *xfHangBudget) Add(spec xfSrvSpec) {
	h.mu.Lock()
	if h.n == nil {
		h.n = map[string]int{}
	}
	h.n[spec.String()]++
	h.mu.Unlock()
}

func (h *xfHangBudget) Spent(spec xfSrvSpec) bool {
	h.mu.Lock()
	defer h.mu.Unlock()
	return h.n[spec.String()] >= xfHangLimit || lib.Stop(xfClass(spec)) // … or the run's own budgets say so (and count the case)
}

func (h *xfHangBudget) Report(r *lib.Result) {
	h.mu.Lock()
	defer h.mu.Unlock()
	var ks []string
	for k, n := range h.n {
		if n >= xfHangLimit {
			ks = append(ks, k)
		}
	}
	sort.Strings(ks)
	for _, k := range ks {
		r.Note("%d calls hung against server kind %s (each reported); the remaining cases against it were not run", h.n[k], k)
	}
}

// ---------- error classes ----------

// xfErrClass names an error the way the Lean driver does: ok|eof|closed|invalid|whence|srv<code>|other:<text>.
func xfErrClass(err error) string {
	switch {
	case err == nil:
		return "ok"
	case err == io.EOF:
		return "eof"
	case errors.Is(err, os.ErrClosed):
		return "closed"
	case errors.Is(err, os.ErrInvalid):
		return "invalid"
	case errors.Is(err, os.ErrPermission):
		return "srv3"
	case errors.Is(err, os.ErrNotExist):
		return "srv2"
	}
	if code, _, _, ok := sftp.VerifStatusFields(err); ok {
		return fmt.Sprintf("srv%d", code)
	}
	if strings.Contains(err.Error(), "whence") {
		return "whence"
	}
	return "other:" + err.Error()
}

// ---------- goroutine-safe result front ----------

type xfRes struct {
	mu sync.Mutex
	r  *lib.Result
}

func (x *xfRes) Case(text string, nontrivial bool) {
	x.mu.Lock()
	x.r.Case(text, nontrivial)
	x.mu.Unlock()
}
func (x *xfRes) Hist(keys ...string) {
	x.mu.Lock()
	for _, k := range keys {
		x.r.Hist(k)
	}
	x.mu.Unlock()
}
func (x *xfRes) Sample(s any) { x.mu.Lock(); x.r.Sample(s); x.mu.Unlock() }
func (x *xfRes) Fail(f lib.Failure) {
	x.mu.Lock()
	x.r.Fail(f)
	x.mu.Unlock()
}
func (x *xfRes) Note(format string, a ...any) { x.mu.Lock(); x.r.Note(format, a...); x.mu.Unlock() }

// xfParallel runs fn(worker, 0..n-1) on `workers` goroutines (worker = 1..workers; 0 is the main goroutine).
func xfParallel(n, workers int, fn func(w, i int)) {
	if workers < 1 {
		workers = 1
	}
	var wg sync.WaitGroup
	ch := make(chan int)
	for w := 1; w <= workers; w++ {
		wg.Add(1)
		go func(w int) {
			defer wg.Done()
			for i := range ch {
				fn(w, i)
			}
		}(w)
	}
	for i := 0; i < n; i++ {
		ch <- i
	}
	close(ch)
	wg.Wait()
}

// ---------- running a check in a child process ----------

// A panic in one of the package's own goroutines (readAt / WriteTo workers, the client's receiver)
// cannot be recovered by the caller and would take the harness down with it. Each of the three
// checks therefore runs in a child process of the same binary; the parent reports a dead child as
// an observation, together with the cases that were in flight (each worker keeps the JSON of its
// current case in a fixed slot of a small file).

const xfSlotSize = 8192
const xfSlots = 72

var xfInflightFile *os.File

// xfInflight records v as the case worker `slot` is running now.
func xfInflight(slot int, v any) {
	if xfInflightFile == nil || slot < 0 || slot >= xfSlots {
		return
	}
	b, err := json.Marshal(v)
	if err != nil || len(b) > xfSlotSize-1 {
		b = []byte(fmt.Sprintf("%q", fmt.Sprint(v)))
		if len(b) > xfSlotSize-1 {
			b = b[:xfSlotSize-1]
		}
	}
	buf := make([]byte, xfSlotSize)
	copy(buf, b)
	xfInflightFile.WriteAt(buf, int64(slot)*xfSlotSize)
}

func xfInChild(c *lib.Ctx, id string, body func(c *lib.Ctx)) {
	xfProp = id
	if p := os.Getenv("VH_XFER_INFLIGHT"); p != "" {
		// we are the child
		if f, err := os.OpenFile(p, os.O_RDWR, 0); err == nil {
			xfInflightFile = f
			defer f.Close()
		}
		body(c)
		return
	}
	if os.Getenv("VH_XFER_INPROCESS") != "" {
		body(c)
		return
	}
	dir, err := lib.MkScratch("vh-" + id + "-parent-")
	if err != nil {
		c.R.Fail(lib.Failure{Kind: "tie", Key: "tmpdir", What: err.Error()})
		return
	}
	defer os.RemoveAll(dir)
	slots := filepath.Join(dir, "inflight")
	if err := os.WriteFile(slots, make([]byte, xfSlots*xfSlotSize), 0o600); err != nil {
		c.R.Fail(lib.Failure{Kind: "tie", Key: "tmpdir", What: err.Error()})
		return
	}
	outFile := filepath.Join(dir, "result.json")
	args := []string{id, "--tier", c.Tier, "--seed", fmt.Sprint(c.Seed), "--out", outFile}
	if c.ModelPath != "" {
		args = append(args, "--model", c.ModelPath)
	}
	if c.Replay != "" {
		args = append(args, "--replay", c.Replay)
	}
	cmd := exec.Command(os.Args[0], args...)
	cmd.Env = append(os.Environ(), "VH_XFER_INFLIGHT="+slots, "GOTRACEBACK=single", "TMPDIR="+dir) // the child's scratch lives (and dies) under our directory
	var stderr bytes.Buffer
	cmd.Stderr = &stderr
	limit := 10 * time.Minute
	if c.Tier == "thorough" {
		limit = 60 * time.Minute
	}
	if err := cmd.Start(); err != nil {
		c.R.Fail(lib.Failure{Kind: "tie", Key: "child-start", What: err.Error()})
		return
	}
	done := make(chan error, 1)
	go func() { done <- cmd.Wait() }()
	// if this process is told to stop, the child is told first and its partial result brought in (main writes it)
	cancelHook := lib.OnInterrupt(func() {
		cmd.Process.Signal(syscall.SIGTERM)
		select {
		case <-done:
		case <-time.After(8 * time.Second):
			cmd.Process.Kill()
		}
		for _, f := range []string{outFile, outFile + ".partial"} {
			if b, err := os.ReadFile(f); err == nil && c.R.Absorb(b) == nil {
				break
			}
		}
	})
	defer cancelHook()
	defer lib.KeepAlive()() // the child has a watchdog of its own and is bounded by `limit`
	// the child lives on this run's budgets and ends by itself when the soft deadline passes; the kill is the backstop
	limit = max(time.Minute, min(limit, lib.Remaining()+2*time.Minute))
	var runErr error
	select {
	case runErr = <-done:
	case <-time.After(limit):
		// ask first, so that the child writes what it has found (exit status 4), then kill
		cmd.Process.Signal(syscall.SIGTERM)
		select {
		case <-done:
		case <-time.After(10 * time.Second):
			cmd.Process.Kill()
			<-done
		}
		runErr = fmt.Errorf("stopped after %v", limit)
	}
	if b, err := os.ReadFile(outFile); err == nil && runErr == nil {
		seed, tier := c.R.Seed, c.R.Tier
		if err := json.Unmarshal(b, c.R); err != nil {
			c.R.Fail(lib.Failure{Kind: "tie", Key: "child-result", What: err.Error()})
		}
		c.R.Seed, c.R.Tier = seed, tier
		if stderr.Len() > 0 {
			os.Stderr.Write(stderr.Bytes())
		}
		return
	}
	// the child died: report it with what was in flight
	var inflight []json.RawMessage
	if b, err := os.ReadFile(slots); err == nil {
		for i := 0; i+xfSlotSize <= len(b); i += xfSlotSize {
			rec := bytes.TrimRight(b[i:i+xfSlotSize], "\x00")
			if len(rec) > 0 && json.Valid(rec) {
				inflight = append(inflight, json.RawMessage(append([]byte(nil), rec...)))
			}
		}
	}
	tail := stderr.String()
	if len(tail) > 6000 {
		tail = tail[:3000] + "\n…\n" + tail[len(tail)-3000:]
	}
	key := "crash/process-died"
	if strings.Contains(tail, "panic:") || strings.Contains(tail, "fatal error:") {
		key = "crash/panic-in-package-goroutine"
	}
	c.R.Rule = "the check ran in a child process which died; see the failure"
	// what the child had found before it died: its result file (written on SIGTERM) or its last checkpoint
	for _, f := range []string{outFile, outFile + ".partial"} {
		if b, err := os.ReadFile(f); err == nil && c.R.Absorb(b) == nil {
			c.R.Note("the child process running the check died (%v); the failures above it are those it had recorded by then", runErr)
			break
		}
	}
	c.R.Fail(lib.Failure{Kind: "oracle", Key: key, What: fmt.Sprintf("the process running the check died (%v); a panic or fatal error outside the calling goroutine cannot be recovered. The cases in flight are given as input (one of them triggered it); stderr is in `actual`", runErr),
		Input: map[string]any{"in_flight": inflight}, Expected: "the check completes", Actual: tail})
}

// xfReplayInputs returns the replay file's input, or the list of in-flight cases of a crash report.
func xfReplayInputs(path string) ([]json.RawMessage, error) {
	var raw json.RawMessage
	if err := lib.ReadReplay(path, &raw); err != nil {
		return nil, err
	}
	var crash struct {
		InFlight []json.RawMessage `json:"in_flight"`
	}
	if json.Unmarshal(raw, &crash) == nil && len(crash.InFlight) > 0 {
		return crash.InFlight, nil
	}
	return []json.RawMessage{raw}, nil
}

// ---------- the Lean driver's xfer.* ops ----------

type xfModel struct {
	Plan, ReadAt, Seq bool
	WTM, RFM          int // model switches for the two known defects, set from what the implementation shows
}

// xfProbeModel checks which xfer.* ops the driver has, using the examples its author published;
// an op whose example does not reproduce is not used (and said so).
func xfProbeModel(c *lib.Ctx) xfModel {
	var m xfModel
	if c.ModelPath == "" {
		c.R.Skip("no --model given: xfer.* model comparisons skipped")
		return m
	}
	probes := []struct{ in, want string }{
		{"xfer.plan 4 0 10", "0:4,4:4,8:2"},
		{"xfer.readat 4,64,1,0,0,4,1,1 10 3 9 -", "7 eof 287215524"},
		{"xfer.seq 4,64,1,0,0,4,1,1 10 wt", "12:10:ok:609502209 10:609502209"},
	}
	var lines []string
	for _, p := range probes {
		lines = append(lines, p.in)
	}
	before := c.R.ModelCases
	out, err := c.Model(lines)
	c.R.ModelCases = before
	if err != nil {
		c.R.Skip("model driver unusable (%v): xfer.* comparisons skipped", err)
		return m
	}
	ok := make([]bool, len(probes))
	for i, p := range probes {
		ok[i] = out[i] == p.want
		if !ok[i] {
			if out[i] == "bad-op" {
				c.R.Skip("Lean driver op %s does not exist in this build of sftpmodel: comparison skipped (the harness computes the expectation itself)", strings.Fields(p.in)[0])
			} else {
				c.R.Skip("Lean driver op %s answers %q for %q where the harness expects %q: format not understood, comparison skipped", strings.Fields(p.in)[0], out[i], p.in, p.want)
			}
		}
	}
	m.Plan, m.ReadAt, m.Seq = ok[0], ok[1], ok[2]
	return m
}

// cfgToken renders an option set as the driver's <cfg> token.
func (m xfModel) cfgToken(cfg xfCfg, maxTx int) string {
	if maxTx < cfg.MP {
		maxTx = cfg.MP
	}
	return fmt.Sprintf("%d,%d,%d,%d,%d,%d,%d,%d", cfg.MP, cfg.Conc, xfB(cfg.CR), xfB(cfg.CW), xfB(cfg.Fstat), maxTx, m.WTM, m.RFM)
}
