package main

// C05: boundary values of attribute fields and large / long-named directories (see c05.go).
//
// The random sequences (c05_gen.go) draw times, sizes and owners from the tables below with some probability; the
// DIRECTED sequences of this file walk through every boundary systematically. Both kinds are plain c05Input values
// (seed tree + operations) executed by c05RunSeq with the oracle of the whole check: outcome category, returned
// values and canonical snapshot equal between Client/Server on tree A and package os on tree B.

import (
	"fmt"
	"math/rand"
	"os"
	"strings"
	"syscall"
	"time"

	"verifharness/lib"
)

// SFTP v3 carries times as uint32 seconds: every value of the table is representable on the wire. (Times before
// 1970 or after 2106 are not; files dated so are outside what the protocol can report and are not generated.)
var c05BoundTimes = []int64{0, 1, 1<<31 - 1, 1 << 31, 1<<32 - 1}

// sizes travel as uint64
var c05BoundSizes = []int64{0, 1, 1<<31 - 1, 1 << 31, 1<<32 - 1, 1 << 32, 1<<32 + 1}

// uid / gid travel as uint32; -1 (= 2^32-1 on the wire) is chown(2)'s "leave unchanged"
var c05BoundIDs = []int64{0, 1, 65534, 65535, 65536, 1<<31 - 1, 1 << 31, 1<<32 - 2, -1}

func c05TimeLabel(t int64) string {
	switch t {
	case 0:
		return "0"
	case 1:
		return "1"
	case 1<<31 - 1:
		return "2^31-1"
	case 1 << 31:
		return "2^31"
	case 1<<32 - 1:
		return "2^32-1"
	}
	switch {
	case t < 0:
		return "negative"
	case t < 1<<31:
		return "other<2^31"
	case t < 1<<32:
		return "other>=2^31"
	}
	return "beyond-uint32"
}

func c05SizeLabel(n int64) string {
	for _, b := range c05BoundSizes {
		if n == b {
			switch {
			case n < 2:
				return fmt.Sprint(n)
			case n == 1<<31-1:
				return "2^31-1"
			case n == 1<<31:
				return "2^31"
			case n == 1<<32-1:
				return "2^32-1"
			case n == 1<<32:
				return "2^32"
			}
			return "2^32+1"
		}
	}
	switch {
	case n < 0:
		return "negative"
	case n <= 64:
		return "small"
	case n < 1<<31:
		return "other<2^31"
	case n < 1<<32:
		return "other<2^32"
	}
	return "other>=2^32"
}

func c05IDLabel(n int64) string {
	switch n {
	case -1:
		return "-1(keep)"
	case 1<<31 - 1:
		return "2^31-1"
	case 1 << 31:
		return "2^31"
	case 1<<32 - 2:
		return "2^32-2"
	}
	if n <= 65536 {
		return fmt.Sprint(n)
	}
	return "other"
}

func c05GenTime(r *rand.Rand) int64 {
	if r.Intn(100) < 40 {
		return c05BoundTimes[r.Intn(len(c05BoundTimes))]
	}
	return 1_000_000_000 + r.Int63n(500_000_000)
}

func c05GenID(r *rand.Rand) int64 {
	if r.Intn(100) < 20 {
		return int64(os.Getuid())
	}
	return c05BoundIDs[r.Intn(len(c05BoundIDs))]
}

func c05P(v int64) *int64 { return &v }

// ---------------------------------------------------------------------------------------------
// what the scratch file system can store (histogram only; the differential holds either way, both trees live on it)

func c05ProbeStorable(r *lib.Result) {
	dir, err := lib.MkScratch("vh-c05-probe-")
	if err != nil {
		return
	}
	defer os.RemoveAll(dir)
	f := dir + "/f"
	if os.WriteFile(f, []byte("x"), 0o644) != nil {
		return
	}
	yn := func(ok bool) string {
		if ok {
			return "stored"
		}
		return "NOT-stored"
	}
	for _, t := range c05BoundTimes {
		err := os.Chtimes(f, time.Unix(t, 0), time.Unix(t, 0))
		fi, e2 := os.Stat(f)
		ok := err == nil && e2 == nil && fi.ModTime().Unix() == t && c05Atime(fi).Unix() == t
		r.Hist("storable:time/" + c05TimeLabel(t) + "=" + yn(ok))
	}
	for _, n := range c05BoundSizes {
		err := os.Truncate(f, n)
		fi, e2 := os.Stat(f)
		ok := err == nil && e2 == nil && fi.Size() == n
		var blocks int64 = -1
		if st, k := fi.Sys().(*syscall.Stat_t); e2 == nil && k {
			blocks = st.Blocks
		}
		r.Hist("storable:size/" + c05SizeLabel(n) + "=" + yn(ok))
		if ok && n > c05BigFile && blocks*512 > 1<<20 {
			r.Note("the scratch file system does not keep a file truncated to %d bytes sparse (%d blocks)", n, blocks)
		}
	}
	os.Truncate(f, 0)
	for _, id := range c05BoundIDs {
		if id < 0 {
			continue
		}
		err := os.Chown(f, int(id), int(id))
		fi, e2 := os.Stat(f)
		ok := false
		if st, k := fi.Sys().(*syscall.Stat_t); err == nil && e2 == nil && k {
			ok = int64(st.Uid) == id && int64(st.Gid) == id
		}
		r.Hist("storable:owner/" + c05IDLabel(id) + "=" + yn(ok))
	}
	// file kinds: which special files the scratch file system lets this process create, and what opening one gives
	// (the device nodes of the trees carry the device number 0:0, which no driver answers to)
	for _, k := range c05SpecialOrder {
		p := dir + "/kind-" + k
		if err := syscall.Mknod(p, c05SpecialKinds[k]|0o600, 0); err != nil {
			r.Hist("storable:kind/" + k + "=NOT-created(" + err.Error() + ")")
			continue
		}
		fi, e2 := os.Lstat(p)
		r.Hist("storable:kind/" + k + "=" + yn(e2 == nil && fi.Mode()&c05SpecialMask != 0))
		fd, err := syscall.Open(p, syscall.O_RDONLY|syscall.O_NONBLOCK, 0)
		if err == nil {
			syscall.Close(fd)
			r.Hist("storable:kind/" + k + "/open(O_NONBLOCK)=ok")
		} else {
			r.Hist("storable:kind/" + k + "/open(O_NONBLOCK)=" + err.Error())
		}
	}
	m := os.FileMode(0o755) | os.ModeSetuid | os.ModeSetgid | os.ModeSticky
	err = os.Chmod(f, m)
	fi, e2 := os.Stat(f)
	r.Hist("storable:mode/setuid+setgid+sticky=" + yn(err == nil && e2 == nil && fi.Mode() == m))
}

// ---------------------------------------------------------------------------------------------
// directed sequences

type c05Directed struct {
	fam string // histogram bucket
	in  c05Input
}

// c05DirectedSeqs returns the directed sequences of a tier; each is built for both path modes.
func c05DirectedSeqs(tier string) []c05Directed {
	var out []c05Directed
	add := func(fam string, tree []c05Ent, ops []c05Op) {
		for _, mode := range []string{"abs", "rel"} {
			out = append(out, c05Directed{fam, c05Input{Mode: mode, Tree: tree, Ops: ops}})
		}
	}
	thorough := tier == "thorough"
	const mid = int64(1_200_000_000)
	look := func(p, parent string) []c05Op {
		return []c05Op{{K: "stat", P: p}, {K: "lstat", P: p}, {K: "readdir", P: parent}, {K: "readdirctx", P: parent, Ctx: "live"}, {K: "walk", P: "."}}
	}

	// ---- times set through the client: both at a boundary, only one of the two, two different boundaries
	baseTree := func() []c05Ent {
		return []c05Ent{{P: "d", K: "dir", Mode: 0o755}, {P: "d/f", K: "file", Data: "hello", Mode: 0o644}, {P: "g", K: "file", Mode: 0o600}, {P: "s", K: "sym", T: "d/f"}}
	}
	for i, t := range c05BoundTimes {
		other := c05BoundTimes[(i+2)%len(c05BoundTimes)]
		pairs := [][2]int64{{t, t}, {t, mid}, {mid, t}, {t, other}} // {atime, mtime}
		if thorough {
			pairs = pairs[:0]
			for _, u := range append([]int64{mid}, c05BoundTimes...) {
				pairs = append(pairs, [2]int64{t, u}, [2]int64{u, t})
			}
		}
		for _, target := range []string{"d/f", "d", "s"} {
			parent := "d"
			if target != "d/f" {
				parent = "."
			}
			var ops []c05Op
			for _, am := range pairs {
				op := c05Op{K: "chtimes", P: target, N: am[1]}
				if am[0] != am[1] {
					op.A = c05P(am[0])
				}
				ops = append(ops, op)
				ops = append(ops, look(target, parent)...)
			}
			add("times-set/"+c05TimeLabel(t), baseTree(), ops)
		}
	}

	// ---- entries that ALREADY carry boundary times
	for i, t := range c05BoundTimes {
		other := c05BoundTimes[(i+1)%len(c05BoundTimes)]
		for _, am := range [][2]int64{{t, t}, {other, t}, {t, mid}} {
			tree := []c05Ent{
				{P: "d", K: "dir", Mode: 0o755, MT: c05P(am[1]), AT: c05P(am[0])},
				{P: "d/f", K: "file", Data: "hello", Mode: 0o644, MT: c05P(am[1]), AT: c05P(am[0])},
				{P: "d/h", K: "hard", T: "d/f"},
				{P: "s", K: "sym", T: "d/f"},
				{P: "e", K: "dir", Mode: 0o700, MT: c05P(am[1])},
			}
			ops := append(look("d/f", "d"), look("d", ".")...)
			ops = append(ops, look("s", ".")...)
			ops = append(ops, c05Op{K: "glob", P: "*/*"}, c05Op{K: "stat", P: "e"}, c05Op{K: "walk", P: "d"},
				// and what an unrelated change does to them
				c05Op{K: "chmod", P: "d/f", Mode: 0o600}, c05Op{K: "stat", P: "d/f"},
				c05Op{K: "rename", P: "d/f", Q: "d/g"}, c05Op{K: "stat", P: "d/g"}, c05Op{K: "readdir", P: "d"})
			add("times-present/"+c05TimeLabel(t), tree, ops)
		}
	}

	// ---- sizes: Truncate to a boundary (sparse), and files that already have such a size
	sizes := append([]int64{-1}, c05BoundSizes...)
	if thorough {
		sizes = append(sizes, 1<<31-2, 1<<31+1, 1<<32-2, 1<<32+2, 1<<33, 1<<40, 1<<62, 1<<63-1)
	}
	for _, n := range sizes {
		tree := []c05Ent{{P: "f", K: "file", Data: "hello", Mode: 0o644}, {P: "h", K: "hard", T: "f"}, {P: "s", K: "sym", T: "f"}, {P: "d", K: "dir", Mode: 0o755}}
		ops := []c05Op{{K: "truncate", P: "f", N: n}}
		ops = append(ops, look("f", ".")...)
		ops = append(ops, c05Op{K: "stat", P: "h"}, c05Op{K: "stat", P: "s"}, c05Op{K: "glob", P: "*"},
			c05Op{K: "openfile", P: "f", Flag: os.O_WRONLY, Data: "abc"}, c05Op{K: "stat", P: "f"},
			c05Op{K: "truncate", P: "s", N: 1}, c05Op{K: "stat", P: "f"},
			c05Op{K: "truncate", P: "s", N: n}, c05Op{K: "lstat", P: "s"}, c05Op{K: "stat", P: "s"},
			c05Op{K: "truncate", P: "d", N: n}, c05Op{K: "truncate", P: "missing", N: n},
			c05Op{K: "openfile", P: "f", Flag: os.O_RDWR | os.O_TRUNC, Data: "z"}, c05Op{K: "stat", P: "f"})
		add("size-set/"+c05SizeLabel(n), tree, ops)
		if n > 0 {
			tree := []c05Ent{{P: "d", K: "dir", Mode: 0o755}, {P: "d/f", K: "file", Data: "hello", Mode: 0o644, Size: n}, {P: "s", K: "sym", T: "d/f"}}
			ops := append(look("d/f", "d"), c05Op{K: "stat", P: "s"}, c05Op{K: "glob", P: "d/*"},
				c05Op{K: "rename", P: "d/f", Q: "g"}, c05Op{K: "stat", P: "g"}, c05Op{K: "link", P: "g", Q: "d/h"}, c05Op{K: "readdir", P: "d"},
				c05Op{K: "truncate", P: "g", N: 0}, c05Op{K: "stat", P: "d/h"}, c05Op{K: "removeall", P: "d"})
			add("size-present/"+c05SizeLabel(n), tree, ops)
		}
	}

	// ---- modes: setuid / setgid / sticky in every combination, on files and directories, set and already present
	specials := []os.FileMode{os.ModeSetuid, os.ModeSetgid, os.ModeSticky, os.ModeSetuid | os.ModeSetgid, os.ModeSetuid | os.ModeSetgid | os.ModeSticky}
	perms := []os.FileMode{0o755, 0o644, 0, 0o777}
	if thorough {
		specials = append(specials, os.ModeSetuid|os.ModeSticky, os.ModeSetgid|os.ModeSticky, 0)
		perms = append(perms, 0o700, 0o070, 0o007, 0o111, 0o222, 0o444, 0o2, 0o20, 0o200)
	}
	for _, sp := range specials {
		var ops []c05Op
		var tree []c05Ent
		tree = append(tree, c05Ent{P: "d", K: "dir", Mode: 0o755}, c05Ent{P: "f", K: "file", Data: "x", Mode: 0o644}, c05Ent{P: "s", K: "sym", T: "f"})
		for i, pm := range perms {
			m := uint32(sp | pm)
			for _, target := range []string{"f", "d", "s"} {
				ops = append(ops, c05Op{K: "chmod", P: target, Mode: m}, c05Op{K: "stat", P: target}, c05Op{K: "lstat", P: target})
			}
			ops = append(ops, c05Op{K: "readdir", P: "."}, c05Op{K: "walk", P: "."})
			tree = append(tree, c05Ent{P: fmt.Sprintf("pf%d", i), K: "file", Mode: m}, c05Ent{P: fmt.Sprintf("pd%d", i), K: "dir", Mode: m})
		}
		// writing to / changing the owner of a setuid file: what the kernel does to the bits must be the same on both sides
		ops = append(ops, c05Op{K: "chmod", P: "f", Mode: uint32(sp | 0o755)}, c05Op{K: "openfile", P: "f", Flag: os.O_WRONLY, Data: "w"}, c05Op{K: "stat", P: "f"},
			c05Op{K: "chmod", P: "f", Mode: uint32(sp | 0o755)}, c05Op{K: "chown", P: "f", UID: c05P(1), GID: c05P(1)}, c05Op{K: "stat", P: "f"},
			c05Op{K: "chmod", P: "f", Mode: uint32(sp | 0o755)}, c05Op{K: "truncate", P: "f", N: 0}, c05Op{K: "stat", P: "f"},
			c05Op{K: "mkdir", P: "pd0/sub"}, c05Op{K: "create", P: "pd0/file", Data: "q"}, c05Op{K: "readdir", P: "pd0"})
		add("modes/"+(sp|0o0).String(), tree, ops)
	}

	// ---- owners: Chown to the boundary ids (we run as uid 0, or both sides fail alike), and entries owned so already
	for _, id := range c05BoundIDs {
		var ops []c05Op
		for _, ug := range [][2]int64{{id, id}, {id, 0}, {0, id}, {-1, id}, {id, -1}} {
			for _, target := range []string{"f", "d", "s"} {
				ops = append(ops, c05Op{K: "chown", P: target, UID: c05P(ug[0]), GID: c05P(ug[1])}, c05Op{K: "stat", P: target}, c05Op{K: "lstat", P: target})
			}
			ops = append(ops, c05Op{K: "readdir", P: "."}, c05Op{K: "walk", P: "."})
		}
		ops = append(ops, c05Op{K: "chown", P: "missing", UID: c05P(id), GID: c05P(id)}, c05Op{K: "chown", P: "f"})
		tree := []c05Ent{{P: "d", K: "dir", Mode: 0o755}, {P: "f", K: "file", Data: "x", Mode: 0o644 | uint32(os.ModeSetuid)}, {P: "s", K: "sym", T: "f"}}
		add("owner-set/"+c05IDLabel(id), tree, ops)
		if id >= 0 {
			tree := []c05Ent{
				{P: "d", K: "dir", Mode: 0o755, UID: c05P(id)}, {P: "d/f", K: "file", Data: "x", Mode: 0o644, UID: c05P(id), GID: c05P(id)},
				{P: "g", K: "file", Mode: 0o600, GID: c05P(id)}, {P: "s", K: "sym", T: "d/f", UID: c05P(id), GID: c05P(id)},
			}
			ops := append(look("d/f", "d"), look("d", ".")...)
			ops = append(ops, look("s", ".")...)
			ops = append(ops, c05Op{K: "stat", P: "g"}, c05Op{K: "chmod", P: "g", Mode: 0o644}, c05Op{K: "stat", P: "g"},
				c05Op{K: "create", P: "d/new", Data: "n"}, c05Op{K: "mkdir", P: "d/sub"}, c05Op{K: "readdir", P: "d"},
				c05Op{K: "rename", P: "d/f", Q: "moved"}, c05Op{K: "stat", P: "moved"})
			add("owner-present/"+c05IDLabel(id), tree, ops)
		}
	}

	// ---- file kinds: unix sockets, fifos, character and block device nodes in listings and under the composites
	for _, k := range c05SpecialOrder {
		tree := []c05Ent{
			{P: "d", K: "dir", Mode: 0o755}, {P: "d/k", K: k, Mode: 0o644}, {P: "d/f", K: "file", Data: "hello", Mode: 0o644},
			{P: "ln", K: "sym", T: "d/k"}, {P: "h", K: "hard", T: "d/k"},
			{P: "e", K: "dir", Mode: 0o755}, {P: "e/k2", K: k, Mode: 0o600 | uint32(os.ModeSetgid), UID: c05P(1), GID: c05P(65534)}, {P: "e/sub", K: "dir", Mode: 0o755}, {P: "e/sub/k3", K: k, Mode: 0o666},
			{P: "t", K: k, Mode: 0, MT: c05P(1<<31 - 1)},
		}
		ops := look("d/k", "d")
		ops = append(ops, look("ln", ".")...)
		ops = append(ops, look("h", ".")...)
		ops = append(ops, c05Op{K: "stat", P: "e/k2"}, c05Op{K: "lstat", P: "t"}, c05Op{K: "readlink", P: "d/k"}, c05Op{K: "readdir", P: "d/k"}, c05Op{K: "readdirctx", P: "ln", Ctx: "live"},
			c05Op{K: "walk", P: "d/k"}, c05Op{K: "walk", P: "d"}, c05Op{K: "walk", P: "e"}, c05Op{K: "walk", P: "ln"},
			c05Op{K: "glob", P: "*/*"}, c05Op{K: "glob", P: "*/*/*"}, c05Op{K: "glob", P: "d/k*"}, c05Op{K: "glob", P: "[a-z]"}, c05Op{K: "realpath", P: "d/k"}, c05Op{K: "statvfs", P: "d/k"},
			// used where a directory is expected
			c05Op{K: "mkdirall", P: "d/k"}, c05Op{K: "mkdirall", P: "d/k/x"}, c05Op{K: "mkdirall", P: "ln"}, c05Op{K: "mkdirall", P: "ln/x/y"}, c05Op{K: "mkdir", P: "d/k"}, c05Op{K: "mkdir", P: "d/k/x"},
			c05Op{K: "stat", P: "d/k/x"}, c05Op{K: "lstat", P: "d/k/x"}, c05Op{K: "rmdir", P: "d/k/x"}, c05Op{K: "remove", P: "d/k/x"}, c05Op{K: "removeall", P: "d/k/x"}, c05Op{K: "rename", P: "d/f", Q: "d/k/x"},
			c05Op{K: "symlink", P: "d", Q: "d/k/x"}, c05Op{K: "link", P: "d/f", Q: "d/k/x"},
			// attributes
			c05Op{K: "chmod", P: "d/k", Mode: 0o600}, c05Op{K: "lstat", P: "d/k"}, c05Op{K: "chmod", P: "ln", Mode: 0o755 | uint32(os.ModeSticky)}, c05Op{K: "stat", P: "h"},
			c05Op{K: "chtimes", P: "d/k", N: 1 << 31, A: c05P(1)}, c05Op{K: "stat", P: "d/k"}, c05Op{K: "chown", P: "d/k", UID: c05P(65534), GID: c05P(1)}, c05Op{K: "readdir", P: "d"},
			c05Op{K: "truncate", P: "d/k", N: 0}, c05Op{K: "truncate", P: "d/k", N: 5},
			// name-space operations on them
			c05Op{K: "link", P: "d/k", Q: "d/k4"}, c05Op{K: "rename", P: "d/k4", Q: "e/k9"}, c05Op{K: "posixrename", P: "e/k9", Q: "d/k4"}, c05Op{K: "symlink", P: "k4", Q: "d/s4"}, c05Op{K: "stat", P: "d/s4"},
			c05Op{K: "rename", P: "d/f", Q: "d/k4"}, c05Op{K: "rename", P: "e/sub", Q: "t"}, c05Op{K: "rename", P: "t", Q: "e/sub"}, c05Op{K: "readdir", P: "d"}, c05Op{K: "walk", P: "."},
			c05Op{K: "rmdir", P: "t"}, c05Op{K: "remove", P: "ln"}, c05Op{K: "remove", P: "h"}, c05Op{K: "openfile", P: "e/k2", Flag: os.O_RDONLY | os.O_CREATE | os.O_EXCL},
			c05Op{K: "removeall", P: "e/sub/k3"}, c05Op{K: "removeall", P: "e"}, c05Op{K: "readdir", P: "."}, c05Op{K: "removeall", P: "d"}, c05Op{K: "walk", P: "."})
		add("kinds/"+k, tree, ops)
	}

	// ---- non-canonical spellings of ABSOLUTE paths (no working directory: the kernel resolves what the client wrote)
	out = append(out, c05NonCanonSeqs()...)

	// ---- Glob pattern syntax over names that hold the magic characters (c05_globpat.go)
	out = append(out, c05GlobSeqs()...)

	// ---- large and long-named directories: listing in several READDIR batches, long NAME replies
	counts, lens := []int{129, 1024, 1100}, []int{1, 120, 200, 255}
	if thorough {
		counts = []int{0, 1, 127, 128, 129, 255, 256, 257, 1023, 1024, 1025, 1100, 2048, 4100}
		lens = []int{1, 16, 64, 79, 80, 100, 120, 200, 254, 255}
	}
	for _, n := range counts {
		for _, l := range lens {
			tree := []c05Ent{{P: "big", K: "fill", N: n, L: l}, {P: "ln", K: "sym", T: "big"}}
			ops := []c05Op{
				{K: "readdir", P: "big"}, {K: "readdirctx", P: "big", Ctx: "live"}, {K: "readdirctx", P: "big", Ctx: "cancelled"},
				{K: "readdirctx", P: "big", Ctx: "cancel-soon"}, {K: "readdir", P: "ln"},
				{K: "walk", P: "big"}, {K: "glob", P: "big/*"}, {K: "glob", P: "big/1*"}, {K: "glob", P: "*/*"}, {K: "stat", P: "big"},
				{K: "walk", P: "."}, {K: "removeall", P: "big"}, {K: "readdir", P: "."},
			}
			add(fmt.Sprintf("bigdir/n=%d,l=%d", n, l), tree, ops)
		}
	}
	return out
}

// c05NonCanonSeqs: every operation kind over a table of non-canonical spellings — trailing slashes on files,
// directories and symbolic links (to a directory, to a file, dangling), "/./", "//", "x/../y" over a real directory
// and over a symbolic link whose target lives in another directory, "link/..", a final "." — of paths in one small
// tree.  Path mode abs only (see c05Gen.spell for the working-directory case); RemoveAll is left out (ibid.).
func c05NonCanonSeqs() []c05Directed {
	tree := []c05Ent{
		{P: "a", K: "dir", Mode: 0o755}, {P: "a/x", K: "file", Data: "1", Mode: 0o644}, {P: "a/sub", K: "dir", Mode: 0o755},
		{P: "b", K: "dir", Mode: 0o755}, {P: "b/c", K: "dir", Mode: 0o755}, {P: "b/x", K: "file", Data: "22", Mode: 0o600}, {P: "b/c/y", K: "file", Data: "333", Mode: 0o644},
		{P: "a/up", K: "sym", T: "../b/c"}, // a/up/.. is b, not a
		{P: "f", K: "file", Data: "4444", Mode: 0o644}, {P: "lf", K: "sym", T: "f"}, {P: "ld", K: "sym", T: "b/c"}, {P: "la", K: "sym", T: "a", TAbs: true},
		{P: "dang", K: "sym", T: "missing"}, {P: "loop", K: "sym", T: "loop"}, {P: "p", K: "fifo", Mode: 0o644},
	}
	spell := []string{
		"f/", "lf/", "ld/", "la/", "a/", "dang/", "loop/", "p/", "missing/", "a/x/", "a/sub//", "ld//",
		"a/up/..", "a/up/../x", "a/up/../c", "a/up/../c/y", "ld/..", "ld/../x", "ld/../c/y", "la/..", "la/../f", "la/up/../x",
		"a/../f", "a/../a/x", "f/../f", "missing/../f", "dang/../f", "a/sub/../x", "a/sub/../../b/x",
		"a/./x", "./f", "a//x", "a///sub", "f/.", "a/.", "lf/.", "ld/.", "a/sub/.", "./a/./sub/./", "a/up/./../x", "a/up//..//x",
	}
	var out []c05Directed
	add := func(fam string, ops []c05Op) {
		out = append(out, c05Directed{"noncanon/" + fam, c05Input{Mode: "abs", Tree: tree, Ops: ops}})
	}
	per := func(fam string, f func(p string) []c05Op) {
		var ops []c05Op
		for _, p := range spell {
			ops = append(ops, f(p)...)
		}
		add(fam, ops)
	}
	per("look", func(p string) []c05Op {
		return []c05Op{{K: "stat", P: p}, {K: "lstat", P: p}, {K: "readlink", P: p}, {K: "realpath", P: p}, {K: "statvfs", P: p}}
	})
	per("list", func(p string) []c05Op {
		ops := []c05Op{{K: "readdir", P: p}, {K: "readdirctx", P: p, Ctx: "live"}}
		if !strings.Contains(p, "..") { // Walk joins the root and the listed names lexically, like filepath.Walk (c05Gen.spell)
			ops = append(ops, c05Op{K: "walk", P: p})
		}
		return ops
	})
	per("attr", func(p string) []c05Op {
		return []c05Op{{K: "chmod", P: p, Mode: 0o640}, {K: "chtimes", P: p, N: 1_234_567_890}, {K: "chown", P: p, UID: c05P(1), GID: c05P(1)}, {K: "truncate", P: p, N: 2}, {K: "openfile", P: p, Flag: os.O_RDONLY},
			{K: "stat", P: "f"}, {K: "stat", P: "a/x"}, {K: "stat", P: "b/x"}, {K: "stat", P: "b/c"}}
	})
	// creating: the spelling names the new entry's parent, or the new entry itself with a trailing slash
	n := 0
	per("create", func(p string) []c05Op {
		n++
		nm := fmt.Sprintf("n%d", n)
		return []c05Op{{K: "mkdir", P: p + "/" + nm}, {K: "create", P: p + "/" + nm + "f", Data: "c"}, {K: "mkdir", P: nm + "/"}, {K: "create", P: nm + "g/", Data: "c"},
			{K: "mkdirall", P: p + "/" + nm + "m/z"}, {K: "symlink", P: "f", Q: p + "/" + nm + "s"}, {K: "link", P: "f", Q: p + "/" + nm + "h"}, {K: "openfile", P: p, Flag: os.O_WRONLY | os.O_CREATE, Data: "w"}}
	})
	// renaming: the spelling as the source, and as the target
	n = 0
	per("rename", func(p string) []c05Op {
		n++
		nm := fmt.Sprintf("r%d", n)
		return []c05Op{{K: "create", P: nm, Data: "r"}, {K: "rename", P: nm, Q: p}, {K: "rename", P: nm, Q: nm + "new/"}, {K: "posixrename", P: p, Q: nm + "moved"}, {K: "rename", P: nm + "moved", Q: "f"},
			{K: "link", P: p, Q: nm + "lnk"}, {K: "readdir", P: "."}}
	})
	// removing: each spelling on a fresh copy of what it names is not possible inside one sequence, so the entries are
	// removed one spelling after the other and looked at in between
	per("remove", func(p string) []c05Op {
		return []c05Op{{K: "remove", P: p}, {K: "rmdir", P: p}, {K: "lstat", P: "lf"}, {K: "lstat", P: "ld"}, {K: "lstat", P: "la"}, {K: "lstat", P: "dang"}}
	})
	return out
}
