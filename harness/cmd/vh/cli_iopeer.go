package main

// Peer I/O disciplines for the client-side checks (C03): a transport with chosen back-pressure and a scripted peer
// with a chosen way of doing its I/O.
//
// peers.ScriptedServer reads the client's requests eagerly in a goroutine of its own into a practically unbounded
// queue: the client's writes never wait for the peer, which hides every ordering problem between the client's
// sending side and its receiving side.  Real servers are different: OpenSSH's sftp-server is ONE thread that reads
// some requests, then writes their replies and does not read while it writes; transports have bounded buffers
// (OS pipes, ssh channel windows) or none (io.Pipe, net.Pipe).
//
// Transport (both directions): "sync" — every Write blocks until the other side has read all of it (io.Pipe
// semantics) —, "buf64" / "buf4096" — a bounded buffer: Write blocks while the buffer is full —, "buf1m".
//
// Peer discipline:
//   eager      a goroutine of its own reads requests as fast as they come (the historical peer), replies are written
//              by the scripting goroutine;
//   batch<k>   ONE thread: reads up to k requests (waits for the first one only while it owes no reply; for the further
//              ones a short while), then writes the replies chosen by the reply mode — NOT reading while it writes —,
//              then returns to reading.  It may stop reading in the middle of a frame;
//   slow       batch with k PRNG 1…4 and think time (0…400 µs) before each read and before writing;
//   bytewise   batch2 that reads and writes in pieces of 1…7 bytes (every piece is a Write / Read of its own).
//
// Every discipline is legal and makes progress: the peer answers every request it has read and always returns to
// reading once its writes are done; while it writes, the client's receiver only has to keep reading replies.

import (
	"encoding/binary"
	"errors"
	"fmt"
	"io"
	"math/rand"
	"strings"
	"sync"
	"time"

	"github.com/pkg/sftp"

	"verifharness/peers"
	"verifharness/wire"
)

// ---------- the transport: one direction ----------

var errIOTimeout = errors.New("iopipe: read deadline")

// ioPipe is one direction of a transport with a buffer of `cap` bytes (0: synchronous).
type ioPipe struct {
	mu     sync.Mutex
	cap    int
	buf    []byte // accepted, not yet read
	pend   []byte // the rest of the Write in progress: not accepted yet (cap 0: read directly from here)
	closed bool   // either end closed
	rwake  chan struct{}
	wwake  chan struct{}
	wmu    sync.Mutex // one Write at a time
}

func newIOPipe(cap int) *ioPipe {
	return &ioPipe{cap: cap, rwake: make(chan struct{}, 1), wwake: make(chan struct{}, 1)}
}

func ioWake(c chan struct{}) {
	select {
	case c <- struct{}{}:
	default:
	}
}

// accept moves bytes of the Write in progress into the buffer (mu held).
func (p *ioPipe) accept() {
	if n := min(p.cap-len(p.buf), len(p.pend)); n > 0 {
		p.buf = append(p.buf, p.pend[:n]...)
		p.pend = p.pend[n:]
	}
}

func (p *ioPipe) Write(b []byte) (int, error) {
	p.wmu.Lock()
	defer p.wmu.Unlock()
	p.mu.Lock()
	if p.closed {
		p.mu.Unlock()
		return 0, io.ErrClosedPipe
	}
	p.pend = b
	p.accept()
	ioWake(p.rwake)
	for len(p.pend) > 0 && !p.closed {
		p.mu.Unlock()
		<-p.wwake
		p.mu.Lock()
	}
	left := len(p.pend)
	p.pend = nil
	p.mu.Unlock()
	if left > 0 {
		return len(b) - left, io.ErrClosedPipe
	}
	return len(b), nil
}

// ReadDeadline reads up to len(b) bytes; d < 0: no deadline. errIOTimeout: nothing arrived within d.
func (p *ioPipe) ReadDeadline(b []byte, d time.Duration) (int, error) {
	var timer *time.Timer
	var tc <-chan time.Time
	for {
		p.mu.Lock()
		switch {
		case len(p.buf) > 0:
			n := copy(b, p.buf)
			p.buf = p.buf[n:]
			if len(p.buf) == 0 {
				p.buf = nil
			}
			p.accept()
			if len(p.pend) == 0 {
				ioWake(p.wwake)
			}
			if len(p.buf) > 0 {
				ioWake(p.rwake)
			}
			p.mu.Unlock()
			if timer != nil {
				timer.Stop()
			}
			return n, nil
		case p.cap == 0 && len(p.pend) > 0:
			n := copy(b, p.pend)
			p.pend = p.pend[n:]
			if len(p.pend) == 0 {
				ioWake(p.wwake)
			} else {
				ioWake(p.rwake)
			}
			p.mu.Unlock()
			if timer != nil {
				timer.Stop()
			}
			return n, nil
		case p.closed:
			p.mu.Unlock()
			if timer != nil {
				timer.Stop()
			}
			return 0, io.EOF
		}
		p.mu.Unlock()
		if d == 0 {
			return 0, errIOTimeout
		}
		if d > 0 && timer == nil {
			timer = time.NewTimer(d)
			tc = timer.C
		}
		select {
		case <-p.rwake:
		case <-tc:
			return 0, errIOTimeout
		}
	}
}

func (p *ioPipe) Read(b []byte) (int, error) { return p.ReadDeadline(b, -1) }

func (p *ioPipe) Close() error {
	p.mu.Lock()
	p.closed = true
	p.mu.Unlock()
	ioWake(p.rwake)
	ioWake(p.wwake)
	return nil
}

func ioTransportCap(name string) (int, bool) {
	switch name {
	case "", "sync":
		return 0, true
	case "buf64":
		return 64, true
	case "buf4096":
		return 4096, true
	case "buf1m":
		return 1 << 20, true
	}
	return 0, false
}

// ---------- the peer ----------

type ioPeer struct {
	c2s, s2c *ioPipe
	Reqs     chan wire.Pkt // eager discipline only: requests as they arrive
	Serial   bool          // one thread reads and writes
	K        int           // serial: requests per batch (0: PRNG 1…4 per round)
	Think    bool
	Pieces   bool // read and write in pieces of 1…7 bytes
	rng      *rand.Rand
	mu       sync.Mutex
	raw      []byte
	part     []byte // serial: the bytes of a frame read so far
}

// newIOClient creates a Client over a transport of the given kind, connected to a peer of the given discipline.
func newIOClient(versionFrame []byte, transport, discipline string, seed int64, opts ...sftp.ClientOption) (*sftp.Client, *ioPeer, error) {
	cp, ok := ioTransportCap(transport)
	if !ok {
		return nil, nil, fmt.Errorf("unknown transport %q", transport)
	}
	p := &ioPeer{c2s: newIOPipe(cp), s2c: newIOPipe(cp), rng: rand.New(rand.NewSource(seed ^ 0x696f7065))}
	switch {
	case discipline == "eager":
	case strings.HasPrefix(discipline, "batch"):
		p.Serial = true
		if _, err := fmt.Sscanf(discipline, "batch%d", &p.K); err != nil || p.K < 1 {
			return nil, nil, fmt.Errorf("unknown peer discipline %q", discipline)
		}
	case discipline == "slow":
		p.Serial, p.Think = true, true
	case discipline == "bytewise":
		p.Serial, p.K, p.Pieces = true, 2, true
	default:
		return nil, nil, fmt.Errorf("unknown peer discipline %q", discipline)
	}
	type res struct {
		c   *sftp.Client
		err error
	}
	ch := make(chan res, 1)
	go func() {
		c, err := sftp.NewClientPipe(p.s2c, p.c2s, opts...)
		ch <- res{c, err}
	}()
	hs := make(chan error, 1)
	go func() {
		pk, _, err := p.ReadFrame(-1)
		if err == nil && pk.Typ != wire.Init {
			err = fmt.Errorf("first packet has type %d", pk.Typ)
		}
		if err == nil {
			err = p.Reply(versionFrame)
		}
		hs <- err
	}()
	k := cliCase.Load()
	select {
	case err := <-hs:
		if err != nil {
			p.Shutdown()
			return nil, p, err
		}
	case <-k.After(cliDeadline):
		k.Fired()
		p.Shutdown()
		return nil, p, peers.ErrTimeout
	}
	select {
	case r := <-ch:
		if r.err != nil {
			p.Shutdown()
			return nil, p, r.err
		}
		if !p.Serial {
			p.Reqs = make(chan wire.Pkt, 65536)
			go func() {
				for {
					pk, _, err := p.ReadFrame(-1)
					if err != nil {
						close(p.Reqs)
						return
					}
					p.Reqs <- pk
				}
			}()
		}
		return r.c, p, nil
	case <-k.After(cliDeadline):
		k.Fired()
		p.Shutdown()
		return nil, p, peers.ErrTimeout
	}
}

// ReadFrame reads one request frame. d < 0: wait as long as it takes; else ok == false when no further byte arrived
// for d — the bytes read so far are kept, the next call goes on from there.
func (p *ioPeer) ReadFrame(d time.Duration) (pk wire.Pkt, ok bool, err error) {
	for {
		need := 4
		if len(p.part) >= 4 {
			n := binary.BigEndian.Uint32(p.part)
			if n == 0 || n > 1<<24 {
				return wire.Pkt{}, false, errors.New("wire: bad frame length")
			}
			need = 4 + int(n)
		}
		if len(p.part) >= 4 && len(p.part) == need {
			pk = wire.Pkt{Typ: p.part[4], Body: append([]byte(nil), p.part[5:]...)}
			p.part = p.part[:0]
			return pk, true, nil
		}
		want := need - len(p.part)
		if p.Pieces {
			want = min(want, 1+p.rng.Intn(7))
		}
		b := make([]byte, want)
		n, rerr := p.c2s.ReadDeadline(b, d)
		if n > 0 {
			p.part = append(p.part, b[:n]...)
			p.mu.Lock()
			p.raw = append(p.raw, b[:n]...)
			p.mu.Unlock()
		}
		if rerr == errIOTimeout {
			return wire.Pkt{}, false, nil
		}
		if rerr != nil {
			return wire.Pkt{}, false, rerr
		}
	}
}

// Reply writes raw bytes to the client, in the calling goroutine (in pieces of 1…7 bytes under "bytewise").
func (p *ioPeer) Reply(b []byte) error {
	if !p.Pieces {
		_, err := p.s2c.Write(b)
		return err
	}
	for len(b) > 0 {
		n := min(len(b), 1+p.rng.Intn(7))
		if _, err := p.s2c.Write(b[:n]); err != nil {
			return err
		}
		b = b[n:]
	}
	return nil
}

// Pause is the peer's think time (discipline "slow").
func (p *ioPeer) Pause() {
	if p.Think {
		time.Sleep(time.Duration(p.rng.Intn(400)) * time.Microsecond)
	}
}

// BatchSize is how many requests the serial peer wants to have read before it answers, this round.
func (p *ioPeer) BatchSize() int {
	if p.K > 0 {
		return p.K
	}
	return 1 + p.rng.Intn(4)
}

func (p *ioPeer) RawIn() []byte {
	p.mu.Lock()
	defer p.mu.Unlock()
	return append([]byte(nil), p.raw...)
}

func (p *ioPeer) Shutdown() {
	p.s2c.Close()
	p.c2s.Close()
}
