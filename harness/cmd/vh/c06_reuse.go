package main

// C06, second part: decoding INTO values and buffers that are not zero.
//
// Both codecs offer decoders that write into an existing value: the filexfer Packet interface documents
// "prepopulating an internal buffer as a hint" (WritePacket.Data, DataPacket.Data, the Buffer behind
// ExtendedPacket/ExtendedReplyPacket), RequestPacket/RawPacket.ReadFrom take a backing slice, the wire
// codec's UnmarshalBinary methods assign into the receiver and the servers read every frame into pooled
// allocator pages. The property's statement (decoding the encoding yields the packet) must not depend on
// what the destination held before; this file enumerates destinations:
//   held     : one packet value decodes a sequence of frames (long, short, medium … in every order)
//   prefill  : byte-slice fields are make([]byte, l, c) for l, c around the payload length
//   prim     : Buffer.ConsumeByteSliceCopy(hint) and Buffer.UnmarshalBinary on a filled Buffer, directly
//   readseq  : ReadFrom with one backing slice of every length/capacity around the frame length
//   pool     : recvPacket + makePacket through ONE allocator with pages released and reused
//   cross    : the same body decoded by both codecs yields the same fields
//   buffer   : one filexfer Buffer driven through sequences of its own operations (c06_buffer.go)
// The expected value of every decode is the decode of the same bytes into a fresh zero value, and the
// held value's own re-encoding must be the frame again.

import (
	"bytes"
	"fmt"
	"sort"

	"github.com/pkg/sftp"

	"verifharness/lib"
	"verifharness/wire"
)

// c06ReuseIn is the replayable input of one case.
type c06ReuseIn struct {
	Mode     string     `json:"mode"`
	Kind     string     `json:"kind,omitempty"`
	Frames   []string   `json:"frames"` // complete frames (hex), decoded in this order into the same destination
	L        int        `json:"l"`      // length of the pre-populated slice / backing slice
	C        int        `json:"c"`      // its capacity; -1: nil
	Scribble bool       `json:"scribble,omitempty"`
	Raw      bool       `json:"raw,omitempty"`
	Release  []bool     `json:"release,omitempty"`
	Ops      []c06BufOp `json:"ops,omitempty"` // mode fx-buffer (c06_buffer.go): operations on one filexfer Buffer
}

const c06Fill = 0xa7
const c06RawExt = "raw-ext@verif.example"

func c06KindByName(n string) (c06Kind, bool) {
	for _, k := range c06Kinds {
		if k.Name == n {
			return k, true
		}
	}
	switch n {
	case "VFSRaw":
		return c06Kind{Name: n, Typ: 201}, true
	case "ExtRaw":
		return c06Kind{Name: n, Typ: 200}, true
	}
	return c06Kind{}, false
}

func c06MaskStat(flags uint32, st sftp.FileStat) sftp.FileStat {
	var o sftp.FileStat
	if flags&1 != 0 {
		o.Size = st.Size
	}
	if flags&2 != 0 {
		o.UID, o.GID = st.UID, st.GID
	}
	if flags&4 != 0 {
		o.Mode = st.Mode
	}
	if flags&8 != 0 {
		o.Atime, o.Mtime = st.Atime, st.Mtime
	}
	if flags&0x80000000 != 0 {
		o.Extended = st.Extended
	}
	return o
}

// c06Mask blanks attribute fields not covered by their flags word (the decoders leave them undefined, and say so).
func c06Mask(v sftp.VerifPkt) sftp.VerifPkt {
	v.Stat = c06MaskStat(v.Flags, v.Stat)
	if len(v.Names) > 0 {
		ns := make([]sftp.VerifName, len(v.Names))
		copy(ns, v.Names)
		for i := range ns {
			ns[i].Stat = c06MaskStat(ns[i].Flags, ns[i].Stat)
		}
		v.Names = ns
	}
	return v
}

func c06Show(v sftp.VerifPkt, err error) string {
	s := fmt.Sprintf("%+v", v)
	if len(s) > 600 {
		s = fmt.Sprintf("%s… (Data %d bytes %s…)", s[:300], len(v.Data), lib.Hex(v.Data[:c06min(len(v.Data), 24)]))
	}
	if err != nil {
		s += " err=" + err.Error()
	}
	return s
}

func c06min(a, b int) int {
	if a < b {
		return a
	}
	return b
}

// c06HintRel names how the pre-populated slice relates to the payload length n.
func c06HintRel(l, c, n int) string {
	switch {
	case c < 0:
		return "hint-nil"
	case l >= n:
		return "hint-len>=n"
	case c >= n:
		return "hint-len<n<=cap"
	}
	return "hint-cap<n"
}

// c06LC: lengths and capacities around n.
func c06LC(n int) [][2]int {
	cand := []int{0, 1, n - 1, n, n + 1, 2 * n, 2*n + 7}
	seen := map[[2]int]bool{}
	out := [][2]int{{0, -1}}
	for _, l := range cand {
		for _, c := range cand {
			if l < 0 || c < l || seen[[2]int{l, c}] {
				continue
			}
			seen[[2]int{l, c}] = true
			out = append(out, [2]int{l, c})
		}
	}
	sort.Slice(out, func(i, j int) bool { return out[i][0] < out[j][0] || out[i][0] == out[j][0] && out[i][1] < out[j][1] })
	return out
}

func c06Frames(in c06ReuseIn) ([][]byte, error) {
	var out [][]byte
	for _, h := range in.Frames {
		f := lib.UnHex(h)
		if len(f) < 5 {
			return nil, fmt.Errorf("frame %q too short", h)
		}
		out = append(out, f)
	}
	return out, nil
}

// c06RunReuse evaluates one case and records its failures. It reports whether the case passed.
func c06RunReuse(c *lib.Ctx, in c06ReuseIn) (ok bool) {
	r := c.R
	ok = true
	fail := func(key, what string, exp, act any) {
		ok = false
		r.Fail(lib.Failure{Kind: "oracle", Key: key, What: what, Input: in, Expected: exp, Actual: act})
	}
	defer func() {
		if p := recover(); p != nil {
			fail("panic/"+in.Mode, "the decoder panicked on the encoding of a packet for this destination", "a decoded packet", fmt.Sprint(p))
		}
	}()
	frames, err := c06Frames(in)
	if err != nil {
		r.Fail(lib.Failure{Kind: "tie", Key: "c06/replay-input", What: err.Error(), Input: in})
		return false
	}
	switch in.Mode {
	case "fx-held", "fx-prefill":
		run := func(scribble bool) (string, string, any, any) {
			h, err := sftp.VerifFxHold(in.Kind)
			if err != nil {
				return "c06/hook", err.Error(), nil, nil
			}
			if in.Mode == "fx-prefill" && in.C >= 0 && !h.Prefill(in.L, in.C, c06Fill) {
				return "c06/hook", "kind has no byte-slice field", nil, nil
			}
			for i, f := range frames {
				z, _ := sftp.VerifFxHold(in.Kind)
				zv, zre, zerr := z.Decode(f[5:], false)
				v, re, err := h.Decode(f[5:], scribble)
				if zerr != nil || !bytes.Equal(zre, f) {
					return "roundtrip/fx/" + in.Kind, fmt.Sprintf("frame %d: decode into a zero value fails or does not re-encode to the frame", i), lib.Hex(f), lib.Hex(zre) + fmt.Sprint(" ", zerr)
				}
				if err != nil || !c06Same(c06Mask(v), c06Mask(zv)) {
					return "", fmt.Sprintf("frame %d of the sequence: decoding into the used value gives another packet than decoding the same bytes into a zero value", i), c06Show(c06Mask(zv), zerr), c06Show(c06Mask(v), err)
				}
				if !bytes.Equal(re, f) {
					return "", fmt.Sprintf("frame %d of the sequence: the value decoded into does not re-encode to the frame it was decoded from", i), lib.Hex(f), lib.Hex(re)
				}
			}
			return "", "", nil, nil
		}
		key, what, exp, act := run(in.Scribble)
		if what != "" {
			if key == "" {
				key = map[string]string{"fx-held": "reuse/fx/", "fx-prefill": "prefill/fx/"}[in.Mode] + in.Kind
				if in.Scribble {
					if _, w2, _, _ := run(false); w2 == "" {
						key, what = "alias/fx/"+in.Kind, what+" (only after the source buffer was overwritten: the decoded value aliases it)"
					}
				}
			}
			fail(key, what, exp, act)
		}
	case "fx-prim":
		// frames[0] is used as raw input: a length-prefixed string followed by a trailer
		b := frames[0]
		n := int(uint32(b[0])<<24 | uint32(b[1])<<16 | uint32(b[2])<<8 | uint32(b[3]))
		if n > len(b)-4 {
			r.Fail(lib.Failure{Kind: "tie", Key: "c06/replay-input", What: "prim input shorter than its prefix", Input: in})
			return false
		}
		out, rest, err := sftp.VerifFxConsumeCopy(b, in.L, in.C, c06Fill)
		if err != nil || !bytes.Equal(out, b[4:4+n]) || rest != len(b)-4-n {
			fail("prim/fx/ConsumeByteSliceCopy", "ConsumeByteSliceCopy(hint) does not return the string's bytes (length len(data), equal to data) for this hint",
				fmt.Sprintf("%d bytes %s rest=%d", n, lib.Hex(b[4:4+n]), len(b)-4-n), fmt.Sprintf("%d bytes %s rest=%d err=%v", len(out), lib.Hex(out), rest, err))
		}
		bo, m, err := sftp.VerifFxBufferUnmarshal(b, in.L, in.C, c06Fill)
		if err != nil || !bytes.Equal(bo, b) || !bytes.Equal(m, b) {
			fail("prim/fx/Buffer.UnmarshalBinary", "Buffer.UnmarshalBinary(data) on a used Buffer does not hold exactly data afterwards",
				lib.Hex(b), fmt.Sprintf("Bytes=%s MarshalBinary=%s err=%v", lib.Hex(bo), lib.Hex(m), err))
		}
	case "fx-readseq":
		vs, errs := sftp.VerifFxReadSeq(frames, in.L, in.C, c06Fill, in.Raw, 34000)
		for i, f := range frames {
			var exp sftp.VerifPkt
			var eerr error
			if in.Raw {
				exp = sftp.VerifPkt{Kind: "Raw", Code: uint32(f[4]), Data: f[9:]}
				exp.ID = uint32(f[5])<<24 | uint32(f[6])<<16 | uint32(f[7])<<8 | uint32(f[8])
			} else {
				exp, eerr = sftp.VerifFxDecode(f[4], f[5:])
			}
			if eerr != nil || errs[i] != nil || !c06Same(c06Mask(vs[i]), c06Mask(exp)) {
				key := "readfrom/fx/request"
				if in.Raw {
					key = "readfrom/fx/raw"
				}
				fail(key, fmt.Sprintf("frame %d: ReadFrom with this backing slice gives another packet than decoding the frame's bytes into a zero value", i),
					c06Show(c06Mask(exp), eerr), c06Show(c06Mask(vs[i]), errs[i]))
				break
			}
		}
	case "root-held", "root-prefill":
		k, found := c06KindByName(in.Kind)
		if !found {
			r.Fail(lib.Failure{Kind: "tie", Key: "c06/replay-input", What: "unknown kind", Input: in})
			return false
		}
		h, err := sftp.VerifRootHold(k.Typ)
		if err != nil {
			r.Fail(lib.Failure{Kind: "tie", Key: "c06/hook", What: err.Error(), Input: in})
			return false
		}
		if in.Mode == "root-prefill" && in.C >= 0 && !h.Prefill(in.L, in.C, c06Fill) {
			r.Fail(lib.Failure{Kind: "tie", Key: "c06/hook", What: "kind has no byte-slice field", Input: in})
			return false
		}
		pre := map[string]string{"root-held": "reuse/main/", "root-prefill": "prefill/main/"}[in.Mode]
		for i, f := range frames {
			var exp sftp.VerifPkt
			var eerr error
			if k.Name == "Data" {
				exp, eerr = sftp.VerifRootDecodeResponse(f[4], f[5:])
			} else {
				exp, eerr = sftp.VerifDecodeRequest(f[4], f[5:])
			}
			v, re, err := h.Decode(f[5:])
			if eerr != nil || err != nil || !c06Same(v, exp) {
				fail(pre+in.Kind, fmt.Sprintf("frame %d of the sequence: UnmarshalBinary into the used value gives another packet than into a zero value", i), c06Show(exp, eerr), c06Show(v, err))
				break
			}
			if re != nil && !bytes.Equal(re, f) {
				fail(pre+in.Kind, fmt.Sprintf("frame %d of the sequence: the value decoded into does not re-encode to the frame it was decoded from", i), lib.Hex(f), lib.Hex(re))
				break
			}
		}
	case "root-pool":
		vs, errs := sftp.VerifRecvSeq(frames, in.Release)
		for i, f := range frames {
			exp, eerr := sftp.VerifDecodeRequest(f[4], f[5:])
			if eerr != nil || errs[i] != nil || !c06Same(vs[i], exp) {
				fail("pool/main/"+exp.Kind, fmt.Sprintf("frame %d: recvPacket into a pooled page + makePacket gives another packet than decoding the frame's bytes from a fresh slice", i), c06Show(exp, eerr), c06Show(vs[i], errs[i]))
				break
			}
		}
	case "cross":
		for _, f := range frames {
			c06Cross(c, in, f, fail)
		}
	case "fx-buffer":
		return c06RunBuffer(c, in)
	default:
		r.Fail(lib.Failure{Kind: "tie", Key: "c06/replay-input", What: "unknown mode " + in.Mode, Input: in})
		return false
	}
	return ok
}

// c06Cross: the same body decoded by the wire codec and by the filexfer codec yields the same fields.
func c06Cross(c *lib.Ctx, in c06ReuseIn, f []byte, fail func(key, what string, exp, act any)) {
	typ, body := f[4], f[5:]
	fx, fxErr := sftp.VerifFxDecode(typ, body)
	var mv sftp.VerifPkt
	var mErr error
	switch {
	case typ == 101 || typ == 103 || typ == 105:
		mv, mErr = sftp.VerifRootDecodeResponse(typ, body)
	default:
		mv, mErr = sftp.VerifDecodeRequest(typ, body)
	}
	key := "cross/" + in.Kind
	if (fxErr != nil) != (mErr != nil) {
		fail(key, "one codec accepts the bytes the other rejects", fmt.Sprint("main: ", mErr), fmt.Sprint("filexfer: ", fxErr))
		return
	}
	if fxErr != nil {
		return
	}
	// bring the wire codec's picture (flags word + raw attribute bytes) into the filexfer codec's (flags + values)
	if mv.Attrs != nil || mv.Kind == "Open" || mv.Kind == "Setstat" || mv.Kind == "Fsetstat" {
		st, rest, err := sftp.VerifUnmarshalFileStat(mv.Flags, mv.Attrs)
		if err != nil || len(rest) != 0 || st == nil {
			fail(key, "the wire codec's attribute bytes do not decode by its own flags word", "attribute block per flags", fmt.Sprintf("flags=%#x attrs=%s rest=%d err=%v", mv.Flags, lib.Hex(mv.Attrs), len(rest), err))
			return
		}
		mv.Stat, mv.Attrs = *st, nil
	}
	if mv.Kind == "Mkdir" { // the wire codec keeps only the flags word of MKDIR's attribute block (known, DESIGN 15.2)
		fx.Stat = sftp.FileStat{}
	}
	if fx.Kind == "Write" || fx.Kind == "Data" {
		fx.Len = uint32(len(fx.Data))
	}
	if typ == 200 {
		mv.ExtName = fx.ExtName
	}
	if !c06Same(c06Mask(mv), c06Mask(fx)) {
		fail(key, "the two codecs decode the same bytes to different fields", "main: "+c06Show(c06Mask(mv), nil), "filexfer: "+c06Show(c06Mask(fx), nil))
	}
}

// pktN: a packet of kind k whose payload (WRITE/DATA) has n bytes.
func (g c06Gen) pktN(k c06Kind, i, n int) sftp.VerifPkt {
	v := g.pkt(k, i)
	if n >= 0 {
		v.Data = make([]byte, n)
		g.c.Rand.Read(v.Data)
		if k.Name == "Write" || k.Name == "Data" {
			v.Len = uint32(n)
		}
	}
	return v
}

func (g c06Gen) frame(k c06Kind, i, n int) []byte {
	f, _, _ := c06Build(k, g.pktN(k, i, n))
	return f
}

func (g c06Gen) rawExtFrame(n int) []byte {
	p := make([]byte, n)
	g.c.Rand.Read(p)
	return wire.Frame(200, wire.B{}.U32(g.u32()).Str(c06RawExt).Raw(p))
}

var c06Perms3 = [][3]int{{0, 1, 2}, {0, 2, 1}, {1, 0, 2}, {1, 2, 0}, {2, 0, 1}, {2, 1, 0}}

// c06ReuseAll generates the cases of this file.
func c06ReuseAll(c *lib.Ctx) {
	r := c.R
	g := c06Gen{c}
	thorough := c.Tier == "thorough"
	hexAll := func(fs [][]byte) []string {
		var out []string
		for _, f := range fs {
			out = append(out, lib.Hex(f))
		}
		return out
	}
	sampled := map[string]bool{}
	do := func(in c06ReuseIn, nontrivial bool, hist string) {
		r.Case(fmt.Sprintf("%+v", in), nontrivial)
		r.Hist("reuse-" + in.Mode)
		if hist != "" {
			r.Hist(hist)
		}
		if nontrivial && !sampled[in.Mode] && len(in.Frames) > 0 && len(in.Frames[0]) < 200 {
			sampled[in.Mode] = true
			r.Sample(in)
		}
		c06RunReuse(c, in)
	}

	// payload sizes: (long, short, medium) triples with short < medium <= long, all six orders
	longs := []int{8, 255, 1000}
	if thorough {
		longs = []int{2, 8, 64, 255, 1000, 4096, 32768}
	}
	type tri [3]int
	var tris []tri
	seenT := map[tri]bool{}
	for _, L := range longs {
		for _, S := range []int{0, 1, 4, L/2 - 1} {
			for _, M := range []int{S + 1, (S + L) / 2, L - 1, L} {
				t := tri{L, S, M}
				if S < 0 || !(S < M && M <= L) || seenT[t] {
					continue
				}
				seenT[t] = true
				tris = append(tris, t)
			}
		}
	}

	r.Note("not exercised: packet.go's sshFxInitPacket.UnmarshalBinary APPENDS to Extensions (a used INIT value accumulates the pairs of every decode); the type is unexported and makePacket always starts from a zero value, so no caller can observe it")
	// ---- held: one value, a sequence of frames ----
	seqPer := 12
	if thorough {
		seqPer = 120
	}
	idx := 0
	for _, k := range c06Kinds {
		hasData := k.Name == "Write" || k.Name == "Data"
		var seqs [][][]byte
		if hasData {
			for _, t := range tris {
				for _, p := range c06Perms3 {
					seqs = append(seqs, [][]byte{g.frame(k, g.c.Rand.Intn(32), t[p[0]]), g.frame(k, g.c.Rand.Intn(32), t[p[1]]), g.frame(k, g.c.Rand.Intn(32), t[p[2]])})
				}
			}
		}
		for s := 0; s < seqPer; s++ {
			// list lengths and flag subsets: i%4 entries / pairs; (3, 0|1, 2) in every order, then a random tail
			base := [3]int{3 + 4*g.c.Rand.Intn(8), g.c.Rand.Intn(2) + 4*g.c.Rand.Intn(8), 2 + 4*g.c.Rand.Intn(8)}
			p := c06Perms3[s%6]
			seq := [][]byte{g.frame(k, base[p[0]], -1), g.frame(k, base[p[1]], -1), g.frame(k, base[p[2]], -1)}
			for j := 0; j < g.c.Rand.Intn(3); j++ {
				seq = append(seq, g.frame(k, g.c.Rand.Intn(32), -1))
			}
			seqs = append(seqs, seq)
		}
		for _, f := range k.Fields {
			if f.kind != "attrs" {
				continue
			}
			// attribute blocks: every flag, none, some — a block without flags after a full one must clear it
			for _, t := range [][3]int{{31, 0, 5}, {15, 16, 10}, {31, 32, 21}} {
				for _, p := range c06Perms3 {
					seqs = append(seqs, [][]byte{g.frame(k, t[p[0]], -1), g.frame(k, t[p[1]], -1), g.frame(k, t[p[2]], -1)})
				}
			}
		}
		for _, seq := range seqs {
			idx++
			do(c06ReuseIn{Mode: "fx-held", Kind: k.Name, Frames: hexAll(seq), C: -1, Scribble: idx%2 == 0}, true, "")
			if k.Request && k.Name != "Init" || k.Name == "Data" {
				do(c06ReuseIn{Mode: "root-held", Kind: k.Name, Frames: hexAll(seq), C: -1}, true, "")
			}
		}
	}
	// the generic containers: an unregistered extension and the generic extended reply (both keep a Buffer)
	vfsKind, _ := c06KindByName("VFS")
	for _, t := range tris {
		for _, p := range c06Perms3 {
			idx++
			do(c06ReuseIn{Mode: "fx-held", Kind: "ExtRaw", Frames: hexAll([][]byte{g.rawExtFrame(t[p[0]]), g.rawExtFrame(t[p[1]]), g.rawExtFrame(t[p[2]])}), C: -1, Scribble: idx%2 == 0}, true, "")
		}
	}
	for s := 0; s < seqPer; s++ {
		do(c06ReuseIn{Mode: "fx-held", Kind: "VFSRaw", Frames: hexAll([][]byte{g.frame(vfsKind, s, -1), g.frame(vfsKind, s+1, -1)}), C: -1, Scribble: s%2 == 0}, true, "")
	}

	// ---- prefill: byte-slice fields of given length and capacity ----
	sizes := []int{0, 1, 3, 255, 1000}
	if thorough {
		sizes = []int{0, 1, 2, 3, 4, 7, 8, 9, 63, 64, 65, 255, 256, 1000, 4095, 4096, 4097, 32768}
	}
	for _, n := range sizes {
		for _, lc := range c06LC(n) {
			l, cp := lc[0], lc[1]
			rel := c06HintRel(l, cp, n)
			for _, name := range []string{"Write", "Data"} {
				k, _ := c06KindByName(name)
				f := g.frame(k, g.c.Rand.Intn(32), n)
				idx++
				do(c06ReuseIn{Mode: "fx-prefill", Kind: name, Frames: []string{lib.Hex(f)}, L: l, C: cp, Scribble: idx%2 == 0}, cp >= 0, rel)
				do(c06ReuseIn{Mode: "root-prefill", Kind: name, Frames: []string{lib.Hex(f)}, L: l, C: cp}, cp >= 0, "")
			}
			idx++
			do(c06ReuseIn{Mode: "fx-prefill", Kind: "ExtRaw", Frames: []string{lib.Hex(g.rawExtFrame(n))}, L: l, C: cp, Scribble: idx%2 == 0}, cp >= 0, rel)
			// primitives: be32(n) ‖ data ‖ trailer
			d := make([]byte, n)
			g.c.Rand.Read(d)
			prim := wire.B{}.Bytes(d).Raw([]byte("tail")[:1+n%4])
			do(c06ReuseIn{Mode: "fx-prim", Frames: []string{lib.Hex(prim)}, L: l, C: cp}, cp >= 0, rel)
		}
	}
	{
		f := g.frame(vfsKind, 1, -1)
		n := len(f) - 9
		for _, lc := range c06LC(n) {
			do(c06ReuseIn{Mode: "fx-prefill", Kind: "VFSRaw", Frames: []string{lib.Hex(f)}, L: lc[0], C: lc[1]}, lc[1] >= 0, c06HintRel(lc[0], lc[1], n))
		}
	}

	// ---- readseq / pool: mixed request kinds through one backing slice / one allocator ----
	var reqKinds []c06Kind
	for _, k := range c06Kinds {
		if k.Request && k.Name != "Init" {
			reqKinds = append(reqKinds, k)
		}
	}
	nSeq := 40
	if thorough {
		nSeq = 1500
	}
	for s := 0; s < nSeq; s++ {
		var seq [][]byte
		minLen, maxLen := 1<<30, 0
		cnt := 3 + g.c.Rand.Intn(3)
		for j := 0; j < cnt; j++ {
			k := reqKinds[g.c.Rand.Intn(len(reqKinds))]
			if j == s%cnt {
				k, _ = c06KindByName("Write") // every sequence carries a payload
			}
			n := -1
			if k.Name == "Write" {
				n = []int{0, 1, 3, 60, 255, 1000, 4096}[g.c.Rand.Intn(7)]
			}
			f := g.frame(k, g.c.Rand.Intn(32), n)
			seq = append(seq, f)
			if len(f)-4 < minLen {
				minLen = len(f) - 4
			}
			if len(f)-4 > maxLen {
				maxLen = len(f) - 4
			}
		}
		// backing slices: nil, below the 4 length bytes, around the shortest and the longest packet length
		lcs := [][2]int{{0, -1}, {0, 0}, {0, 3}, {0, 4}, {4, 4}, {0, 5}, {0, 64}, {0, minLen - 1}, {0, minLen}, {minLen, minLen + 1},
			{0, maxLen - 1}, {maxLen - 1, maxLen - 1}, {0, maxLen}, {maxLen, maxLen}, {0, maxLen + 1}, {maxLen + 4, 2 * maxLen}}
		if !thorough {
			lcs = [][2]int{lcs[s%3], lcs[3+s%4], lcs[7+s%3], lcs[10+s%3], lcs[13+s%3]}
		}
		for _, lc := range lcs {
			if lc[1] >= 0 && lc[0] > lc[1] {
				continue
			}
			do(c06ReuseIn{Mode: "fx-readseq", Frames: hexAll(seq), L: lc[0], C: lc[1]}, lc[1] >= 0, "")
			do(c06ReuseIn{Mode: "fx-readseq", Frames: hexAll(seq), L: lc[0], C: lc[1], Raw: true}, lc[1] >= 0, "")
		}
		rel := make([]bool, len(seq))
		for j := range rel {
			switch s % 3 {
			case 0:
				rel[j] = true
			case 1:
				rel[j] = j%2 == 0
			}
		}
		do(c06ReuseIn{Mode: "root-pool", Frames: hexAll(seq), C: -1, Release: rel}, true, "")
	}
}
