package main

// Shared infrastructure of the client-side checks C03, C04 and C20:
//   * a pool of child processes (`vh child <name>`) that run cases one at a time over a
//     line protocol, so that a panic in ANY goroutine of the code under test, an
//     out-of-memory death or a wedged process is an observation (exit status + stderr),
//     attributed to exactly one case and confirmed by re-running that case alone;
//   * a 20 s deadline wrapper for calls into the package;
//   * a goroutine-table reader that separates goroutines started by pkg/sftp from the
//     harness's own.

import (
	"bufio"
	"bytes"
	"encoding/json"
	"fmt"
	"io"
	"os"
	"os/exec"
	"regexp"
	"runtime"
	"runtime/debug"
	"runtime/pprof"
	"strings"
	"sync"
	"sync/atomic"
	"syscall"
	"time"

	"verifharness/lib"
)

const cliDeadline = 20 * time.Second // hangs are declared after this long only (DESIGN 8a)

// ---------- parent side ----------

type cliDeath struct {
	Idx        int    `json:"idx"`
	Why        string `json:"why"`   // "panic", "oom", "fatal", "timeout", "exit"
	Site       string `json:"site"`  // function of pkg/sftp in which the panic was raised
	Head       string `json:"head"`  // first line of the panic / fatal error
	Stack      string `json:"stack"` // the panicking goroutine's stack (trimmed)
	Confirmed  bool   `json:"alone"` // died again when re-run alone in a fresh process
	Background bool   `json:"background_goroutine"`
}

type cliChildProc struct {
	cmd    *exec.Cmd
	in     io.WriteCloser
	out    *bufio.Reader
	stderr *cliTail
	done   chan error
}

// cliTail keeps the first 48 KiB written to it (a Go panic message comes first).
type cliTail struct {
	mu sync.Mutex
	b  bytes.Buffer
}

func (t *cliTail) Write(p []byte) (int, error) {
	t.mu.Lock()
	defer t.mu.Unlock()
	if room := 48<<10 - t.b.Len(); room > 0 {
		if len(p) > room {
			t.b.Write(p[:room])
		} else {
			t.b.Write(p)
		}
	}
	return len(p), nil
}
func (t *cliTail) String() string { t.mu.Lock(); defer t.mu.Unlock(); return t.b.String() }

func cliStartChild(name string, args []string) (*cliChildProc, error) {
	cmd := exec.Command(os.Args[0], append([]string{"child", name}, args...)...)
	// GOGC off: allocation is measured as a TotalAlloc delta; GOMEMLIMIT makes the runtime return
	// memory eagerly before the hard data-segment limit (RLIMIT_DATA counts committed private writable memory, not the runtime's address-space reservations) (set by the child itself) is hit.
	cmd.Env = append(os.Environ(), "GOMEMLIMIT=768MiB", "GOTRACEBACK=all", "GOMAXPROCS=4")
	in, err := cmd.StdinPipe()
	if err != nil {
		return nil, err
	}
	out, err := cmd.StdoutPipe()
	if err != nil {
		return nil, err
	}
	tail := &cliTail{}
	cmd.Stderr = tail
	if err := cmd.Start(); err != nil {
		return nil, err
	}
	p := &cliChildProc{cmd: cmd, in: in, out: bufio.NewReaderSize(out, 1<<20), stderr: tail, done: make(chan error, 1)}
	return p, nil
}

func (p *cliChildProc) kill() {
	p.in.Close()
	p.cmd.Process.Kill()
	p.cmd.Wait()
}

// roundTrip sends one case and waits for its result line.
// The third result reports that the child announced its own exit (its process state is no longer clean).
func (p *cliChildProc) roundTrip(idx int, c json.RawMessage, timeout time.Duration, class string) (json.RawMessage, *cliDeath, bool) {
	line, _ := json.Marshal(struct {
		I int             `json:"i"`
		C json.RawMessage `json:"c"`
		K string          `json:"k,omitempty"` // hang class of the case (lib/budget.go)
	}{idx, c, class})
	type rd struct {
		b   []byte
		err error
	}
	ch := make(chan rd, 1)
	go func() {
		if _, err := p.in.Write(append(line, '\n')); err != nil {
			// the child is gone; the read below reports it
		}
		b, err := p.out.ReadBytes('\n')
		ch <- rd{b, err}
	}()
	select {
	case r := <-ch:
		if r.err == nil {
			var env struct {
				I int             `json:"i"`
				R json.RawMessage `json:"r"`
				X bool            `json:"x"`
			}
			if json.Unmarshal(r.b, &env) == nil && env.I == idx {
				if env.X {
					p.kill()
				}
				return env.R, nil, env.X
			}
			p.kill()
			return nil, &cliDeath{Idx: idx, Why: "protocol", Head: "unparsable result line: " + string(bytes.TrimSpace(r.b))}, true
		}
		// EOF: the child died
		p.in.Close()
		werr := p.cmd.Wait()
		d := cliClassifyDeath(p.stderr.String(), werr)
		d.Idx = idx
		return nil, d, true
	case <-time.After(timeout):
		p.kill()
		lib.SpendHang(class, timeout)
		return nil, &cliDeath{Idx: idx, Why: "timeout", Head: fmt.Sprintf("child did not answer within %v", timeout), Stack: cliTrim(p.stderr.String(), 3000)}, true
	}
}

var cliFrameRe = regexp.MustCompile(`^(github\.com/pkg/sftp[^\s(]*(?:\([^)]*\))?[^\s(]*)\(`)

// cliClassifyDeath reads a Go crash report.
func cliClassifyDeath(stderr string, werr error) *cliDeath {
	d := &cliDeath{Why: "exit", Head: fmt.Sprint(werr)}
	lines := strings.Split(stderr, "\n")
	start := -1
	for i, l := range lines {
		if strings.HasPrefix(l, "panic: ") || strings.HasPrefix(l, "fatal error: ") || strings.HasPrefix(l, "runtime: out of memory") {
			start = i
			d.Head = l
			switch {
			case strings.HasPrefix(l, "panic: "):
				d.Why = "panic"
			case strings.Contains(l, "out of memory") || strings.Contains(l, "cannot allocate memory"):
				d.Why = "oom"
			default:
				d.Why = "fatal"
			}
			break
		}
	}
	if start < 0 {
		d.Stack = cliTrim(stderr, 2000)
		return d
	}
	if strings.Contains(stderr, "out of memory") || strings.Contains(stderr, "cannot allocate memory") {
		d.Why = "oom"
	}
	// first goroutine block after the head is the one that crashed
	var stack []string
	in := false
	for _, l := range lines[start+1:] {
		if strings.HasPrefix(l, "goroutine ") {
			if in {
				break
			}
			in = true
		}
		if in {
			if l == "" {
				break
			}
			stack = append(stack, l)
		}
	}
	d.Stack = cliTrim(strings.Join(stack, "\n"), 2500)
	// site: first pkg/sftp function on that stack that is not a primitive decoder
	for _, l := range stack {
		m := cliFrameRe.FindStringSubmatch(l)
		if m == nil {
			continue
		}
		fn := strings.TrimPrefix(m[1], "github.com/pkg/sftp.")
		if d.Site == "" {
			d.Site = fn
		}
		switch fn {
		case "unmarshalUint32", "unmarshalUint64", "unmarshalString":
			continue
		}
		d.Site = fn
		break
	}
	for _, l := range stack {
		if strings.HasPrefix(l, "created by github.com/pkg/sftp.") {
			d.Background = true
		}
	}
	return d
}

func cliTrim(s string, n int) string {
	if len(s) > n {
		return s[:n] + "…"
	}
	return s
}

// cliRunPool runs every case in child processes (`vh child <name> args…`), `workers` at a time, one case
// at a time per child. A case during which the child dies is re-run alone in a fresh child; the death is
// reported with Confirmed set accordingly. results[i] is nil for a case that has no result.
//
// The pool obeys the run's budgets (lib/budget.go): a case whose hang class must not be scheduled any more (hang
// budget exhausted and the class has hung, or the soft deadline passed) is not run; deaths[i] is then cliNotRun.
func cliRunPool(name string, args []string, cases []json.RawMessage, workers int, caseTimeout time.Duration, progress func(done int)) ([]json.RawMessage, map[int]*cliDeath, error) {
	return cliRunPoolC(name, args, cases, workers, caseTimeout, progress, nil)
}

// cliNotRun marks a case that the pool did not run because of the run's time budgets; callers skip it silently
// (lib.BudgetReport says how many cases of which class were cut).
var cliNotRun = &cliDeath{Why: "not-run"}

// cliRunPoolC is cliRunPool with a hang class per case (nil: the child's name is the class of every case).
func cliRunPoolC(name string, args []string, cases []json.RawMessage, workers int, caseTimeout time.Duration, progress func(done int), class func(i int) string) ([]json.RawMessage, map[int]*cliDeath, error) {
	if class == nil {
		class = func(int) string { return name }
	}
	results := make([]json.RawMessage, len(cases))
	deaths := map[int]*cliDeath{}
	var mu sync.Mutex
	var firstErr error
	idxCh := make(chan int, len(cases))
	for i := range cases {
		idxCh <- i
	}
	close(idxCh)
	if workers < 1 {
		workers = 1
	}
	if workers > len(cases) {
		workers = len(cases)
	}
	// The callers judge the results when the whole pool is done.  If the run is interrupted before that, what the
	// cases' own processes reported is put into the result unprocessed (the deliberate self-test cases excepted).
	defer lib.OnInterrupt(func() {
		if vhResult == nil {
			return
		}
		mu.Lock()
		defer mu.Unlock()
		n := 0
		for i := range cases {
			if bytes.Contains(cases[i], []byte("selftest")) {
				continue
			}
			var in any
			json.Unmarshal(cases[i], &in)
			if d := deaths[i]; d != nil && d != cliNotRun {
				n++
				vhResult.Fail(lib.Failure{Kind: "oracle", Key: "unprocessed/" + d.Why + "/" + d.Site, What: "the process running this case died (" + d.Head + ") [run interrupted: reported as the pool saw it]", Input: in, Actual: d})
			}
			var res struct {
				Fails []struct {
					Key  string `json:"key"`
					What string `json:"what"`
					Act  any    `json:"actual"`
				} `json:"fails"`
			}
			if results[i] == nil || json.Unmarshal(results[i], &res) != nil {
				continue
			}
			for _, f := range res.Fails {
				n++
				kind := "oracle"
				if strings.HasPrefix(f.Key, "tie/") {
					kind = "tie"
				}
				vhResult.Fail(lib.Failure{Kind: kind, Key: "unprocessed/" + f.Key, What: f.What + " [run interrupted: reported as the case's own process recorded it, not judged by the check]", Input: in, Actual: f.Act})
			}
		}
		if n > 0 {
			vhResult.Note("interrupted while %d cases of child %q were running or waiting to be judged: %d reports of their processes are included under keys unprocessed/…", len(cases), name, n)
		}
	})()
	var wg sync.WaitGroup
	doneN := 0
	for w := 0; w < workers; w++ {
		wg.Add(1)
		go func() {
			defer wg.Done()
			var p *cliChildProc
			defer func() {
				if p != nil {
					p.in.Close()
					waitc := make(chan struct{})
					go func() { p.cmd.Wait(); close(waitc) }()
					select {
					case <-waitc:
					case <-time.After(5 * time.Second):
						p.cmd.Process.Kill()
						<-waitc
					}
				}
			}()
			for i := range idxCh {
				cl := class(i)
				if lib.Stop(cl) {
					mu.Lock()
					deaths[i] = cliNotRun
					mu.Unlock()
					continue
				}
				if p == nil {
					var err error
					if p, err = cliStartChild(name, args); err != nil {
						mu.Lock()
						firstErr = err
						mu.Unlock()
						return
					}
				}
				// the per-case timeout is the backstop behind the child's own deadlines (which are short once the hang
				// budget is used up): it shrinks with them, and never reaches far beyond the soft deadline
				tmo := min(caseTimeout, max(30*time.Second, lib.Remaining()+30*time.Second))
				if lib.HangExhausted() {
					tmo = min(tmo, 60*time.Second)
				}
				res, d, gone := p.roundTrip(i, cases[i], tmo, cl)
				if gone {
					p = nil
				}
				if d != nil {
					// confirm alone (up to 3 times: some crashes depend on the schedule; a child that did not answer at
					// all is tried once more only, and nothing is confirmed once the class must not be scheduled any more)
					tries := 3
					if d.Why == "timeout" {
						tries = 1
					}
					for try := 0; try < tries && !d.Confirmed && !lib.Stopped(cl); try++ {
						q, err := cliStartChild(name, args)
						if err != nil {
							break
						}
						res2, d2, gone2 := q.roundTrip(i, cases[i], tmo, cl)
						if d2 != nil {
							d2.Confirmed = true
							d = d2
						} else {
							if !gone2 {
								q.kill()
							}
							res = res2
						}
					}
				}
				mu.Lock()
				results[i] = res
				if d != nil {
					deaths[i] = d
				}
				doneN++
				n := doneN
				mu.Unlock()
				if progress != nil {
					progress(n)
				}
			}
		}()
	}
	wg.Wait()
	return results, deaths, firstErr
}

// ---------- child side ----------

// cliChildLoop is the body of a `vh child <name>` process: cases in on stdin, results out on stdout.
// With gcOff the collector is disabled (C20 meters allocation as a TotalAlloc delta and collects by hand).
func cliChildLoop(gcOff bool, run func(idx int, c json.RawMessage) (res any, exit bool)) {
	// hard data-segment limit (RLIMIT_DATA counts committed private writable memory, not the runtime's address-space reservations): an absurd count that allocates kills this child, not the harness
	lim := syscall.Rlimit{Cur: 1 << 30, Max: 1 << 30}
	syscall.Setrlimit(syscall.RLIMIT_DATA, &lim)
	if gcOff {
		debug.SetGCPercent(-1)
	}
	if pf := os.Getenv("VH_CPUPROFILE"); pf != "" {
		f, _ := os.Create(pf)
		pprof.StartCPUProfile(f)
		defer pprof.StopCPUProfile()
	}
	in := bufio.NewReaderSize(os.Stdin, 1<<20)
	out := bufio.NewWriter(os.Stdout)
	for {
		line, err := in.ReadBytes('\n')
		if len(bytes.TrimSpace(line)) > 0 {
			var env struct {
				I int             `json:"i"`
				C json.RawMessage `json:"c"`
				K string          `json:"k"`
			}
			if e := json.Unmarshal(line, &env); e != nil {
				fmt.Fprintln(os.Stderr, "vh child: bad case line:", e)
				os.Exit(3)
			}
			cliCase.Store(lib.NewCase(env.K))
			r, exit := run(env.I, env.C)
			lib.FlushBudget()
			b, _ := json.Marshal(struct {
				I int  `json:"i"`
				R any  `json:"r"`
				X bool `json:"x,omitempty"`
			}{env.I, r, exit})
			out.Write(b)
			out.WriteByte('\n')
			out.Flush()
			if exit {
				os.Exit(0)
			}
		}
		if err != nil {
			return
		}
	}
}

// cliCase is the hang account of the case this child process is running (one at a time).
var cliCase atomic.Pointer[lib.Case]

// cliWithin runs f in its own goroutine and reports whether it returned within d.  Deadlines of a second and more come
// from the run's hang budget and are charged to the current case when they pass; once the case has hung, its
// remaining waits are short.
func cliWithin(d time.Duration, f func()) bool {
	if d >= time.Second {
		return cliCase.Load().Within(d, f)
	}
	done := make(chan struct{})
	go func() { defer close(done); f() }()
	t := time.NewTimer(d)
	defer t.Stop()
	select {
	case <-done:
		return true
	case <-t.C:
		return false
	}
}

// ---------- goroutine table ----------

type cliGoroutine struct {
	Head      string   // "goroutine 12 [chan receive]:"
	Funcs     []string // function of each frame, top first
	CreatedBy string
}

// PkgFrame returns the topmost frame inside pkg/sftp ("" if none).
func (g cliGoroutine) PkgFrame() string {
	for _, f := range g.Funcs {
		if strings.HasPrefix(f, "github.com/pkg/sftp.") {
			return f
		}
	}
	return ""
}

var (
	cliStackMu  sync.Mutex
	cliStackBuf = make([]byte, 256<<10)
)

func cliGoroutines() []cliGoroutine {
	cliStackMu.Lock()
	defer cliStackMu.Unlock()
	var buf []byte
	for {
		n := runtime.Stack(cliStackBuf, true)
		if n < len(cliStackBuf) {
			buf = cliStackBuf[:n]
			break
		}
		cliStackBuf = make([]byte, 2*len(cliStackBuf))
	}
	var out []cliGoroutine
	for _, blk := range strings.Split(string(buf), "\n\n") {
		lines := strings.Split(strings.TrimSpace(blk), "\n")
		if len(lines) == 0 || !strings.HasPrefix(lines[0], "goroutine ") {
			continue
		}
		g := cliGoroutine{Head: lines[0]}
		for _, l := range lines[1:] {
			if strings.HasPrefix(l, "\t") {
				continue
			}
			if strings.HasPrefix(l, "created by ") {
				g.CreatedBy = strings.TrimPrefix(l, "created by ")
				if j := strings.Index(g.CreatedBy, " in goroutine"); j > 0 {
					g.CreatedBy = g.CreatedBy[:j]
				}
				continue
			}
			if j := strings.LastIndexByte(l, '('); j > 0 {
				l = l[:j]
			}
			g.Funcs = append(g.Funcs, l)
		}
		out = append(out, g)
	}
	return out
}

// cliPkgGoroutines splits the goroutines that have anything to do with pkg/sftp into those the package
// started itself (leak candidates) and harness goroutines still inside a package call (blocked callers).
func cliPkgGoroutines() (started, callers []cliGoroutine) {
	for _, g := range cliGoroutines() {
		byPkg := strings.HasPrefix(g.CreatedBy, "github.com/pkg/sftp.")
		if byPkg {
			started = append(started, g)
		} else if g.PkgFrame() != "" {
			callers = append(callers, g)
		}
	}
	return
}

// cliWaitQuiet polls the goroutine table for up to `max` until no goroutine belongs to pkg/sftp.
func cliWaitQuiet(max time.Duration) (started, callers []cliGoroutine) {
	// a poll of a second and more is a liveness deadline like the others: out of the hang budget, charged when it passes
	k := cliCase.Load()
	charge := max >= time.Second
	if charge {
		max = k.Wait(max)
		defer func() {
			if len(started)+len(callers) > 0 {
				k.Spend(max)
			}
		}()
	}
	deadline := time.Now().Add(max)
	sleep := 100 * time.Microsecond
	for i := 0; ; i++ {
		if i < 3 {
			runtime.Gosched()
		}
		started, callers = cliPkgGoroutines()
		if len(started) == 0 && len(callers) == 0 {
			return nil, nil
		}
		if time.Now().After(deadline) {
			return
		}
		if i < 3 {
			continue
		}
		time.Sleep(sleep)
		if sleep < 50*time.Millisecond {
			sleep *= 2
		}
	}
}

func cliDescribe(gs []cliGoroutine) []string {
	var out []string
	for _, g := range gs {
		top := ""
		// the machinery of a blocked lock / channel operation says nothing: start at the operation itself
		for len(g.Funcs) > 1 && (strings.HasPrefix(g.Funcs[0], "runtime.") || strings.HasPrefix(g.Funcs[0], "internal/sync.") || strings.HasPrefix(g.Funcs[0], "sync.runtime_")) {
			g.Funcs = g.Funcs[1:]
		}
		if len(g.Funcs) > 0 {
			n := len(g.Funcs)
			if n > 4 {
				n = 4
			}
			top = strings.Join(g.Funcs[:n], " < ")
		}
		out = append(out, fmt.Sprintf("%s %s (created by %s)", g.Head, top, g.CreatedBy))
	}
	return out
}

// cliShortFn strips the package path and closure numbering details from a function name for use in keys.
func cliShortFn(fn string) string {
	fn = strings.TrimPrefix(fn, "github.com/pkg/sftp.")
	return fn
}
