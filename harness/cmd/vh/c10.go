package main

import (
	"fmt"
	"io"
	"os"
	"path"
	"sort"
	"strings"
	"sync"
	"time"

	"github.com/pkg/sftp"

	"verifharness/lib"
)

func init() { register("c10", checkC10) }

// ---- recording handlers ----

type c10Rec struct {
	Method   string `json:"method"`
	Filepath string `json:"filepath"`
	Target   string `json:"target"`
	Flags    uint32 `json:"flags"`
	Attrs    string `json:"attrs"`
}

type c10H struct {
	mu   sync.Mutex
	log  []c10Rec
	err  error // what handlers return (nil = succeed)
	data []byte
}

func (h *c10H) rec(r *sftp.Request) {
	h.mu.Lock()
	defer h.mu.Unlock()
	h.log = append(h.log, c10Rec{r.Method, r.Filepath, r.Target, r.Flags, lib.Hex(r.Attrs)})
}
func (h *c10H) take() []c10Rec {
	h.mu.Lock()
	defer h.mu.Unlock()
	l := h.log
	h.log = nil
	return l
}

type c10RW struct{ h *c10H }

func (f c10RW) ReadAt(p []byte, off int64) (int, error) {
	if f.h.err != nil {
		return 0, f.h.err
	}
	if off >= int64(len(f.h.data)) {
		return 0, io.EOF
	}
	n := copy(p, f.h.data[off:])
	if n < len(p) {
		return n, io.EOF
	}
	return n, nil
}
func (f c10RW) WriteAt(p []byte, off int64) (int, error) {
	if f.h.err != nil {
		return 0, f.h.err
	}
	return len(p), nil
}

func (h *c10H) Fileread(r *sftp.Request) (io.ReaderAt, error) {
	h.rec(r)
	if r.Filepath == "/open-fails" {
		return nil, h.err
	}
	return c10RW{h}, nil
}
func (h *c10H) Filewrite(r *sftp.Request) (io.WriterAt, error) {
	h.rec(r)
	if r.Filepath == "/open-fails" {
		return nil, h.err
	}
	return c10RW{h}, nil
}
func (h *c10H) OpenFile(r *sftp.Request) (sftp.WriterAtReaderAt, error) {
	h.rec(r)
	if r.Filepath == "/open-fails" {
		return nil, h.err
	}
	return c10RW{h}, nil
}
func (h *c10H) Filecmd(r *sftp.Request) error { h.rec(r); return h.err }
func (h *c10H) PosixRename(r *sftp.Request) error {
	h.rec(r)
	return h.err
}
func (h *c10H) StatVFS(r *sftp.Request) (*sftp.StatVFS, error) {
	h.rec(r)
	if h.err != nil {
		return nil, h.err
	}
	return &sftp.StatVFS{Bsize: 4096, Namemax: 255}, nil
}
func (h *c10H) Filelist(r *sftp.Request) (sftp.ListerAt, error) {
	h.rec(r)
	if h.err != nil {
		return nil, h.err
	}
	return c15One{c16Info{name: path.Base(r.Filepath), idx: 7}}, nil
}
func (h *c10H) Lstat(r *sftp.Request) (sftp.ListerAt, error) { return h.Filelist(r) }
func (h *c10H) Readlink(p string) (string, error) {
	h.mu.Lock()
	h.log = append(h.log, c10Rec{Method: "Readlink", Filepath: p})
	h.mu.Unlock()
	if h.err != nil {
		return "", h.err
	}
	return "target-of-" + p, nil
}

func c10AbsClean(p string) bool { return path.IsAbs(p) && path.Clean(p) == p }

func checkC10(c *lib.Ctx) {
	r := c.R
	if c.Replay != "" {
		// replays of section (d) carry their scenario; the older sections are deterministic and simply re-run
		var scn c10rScn
		if err := lib.ReadReplay(c.Replay, &scn); err == nil && scn.Sect == "ret" {
			r.Rule = c10rRule_
			checkC10Ret(c, &scn)
			return
		}
		// replays of section (c) name their error term
		var ein struct {
			Term string `json:"term"`
		}
		if err := lib.ReadReplay(c.Replay, &ein); err == nil && ein.Term != "" {
			if _, perr := c10Parse(ein.Term); perr == nil {
				r.Rule = "(c) one error term; " + c10RuleTable
				checkC10Err(c, ein.Term, map[string]bool{})
				return
			}
		}
	}
	defer func() { r.Rule += "; " + c10rRule_ }()
	defer checkC10Ret(c, nil)
	r.Rule = "(a) cleanPathWithBase vs the Lean path model: exhaustive over all strings of length <= 7 (quick) / <= 8 (thorough) over the alphabet {'/', '.', 'a', 0xff} with 5 bases, plus PRNG strings; (b) end to end through a real RequestServer with recording handlers: every request kind x tricky path strings x start directories: handler called exactly once with the expected method, AbsClean paths, the flags and attribute bytes sent; (c) error algebra: the full product wrapper x inner error (see (d) error-product for the lists) through statusFromError -> normaliseError directly, compared with the Lean model over the regenerated ErrTables (c10.client / c10.status; custom Unwrap as W, atoms the model does not distinguish as X, errors.Join has no model value), and through the wire from 14 return sites of recording handlers; " + c10RuleTable + "; non-trivial = path needing cleaning / wrapped error"
	// ---------- (a) path model differential ----------
	alpha := []byte{'/', '.', 'a', 0xff}
	maxLen := 7
	if c.Tier == "thorough" {
		maxLen = 8
	}
	bases := []string{"/", "/a", "/a/a", "/.a", "/\xff"}
	var lines, impl []string
	var gen func(prefix []byte, n int)
	all := [][]byte{}
	gen = func(prefix []byte, n int) {
		all = append(all, append([]byte(nil), prefix...))
		if n == 0 {
			return
		}
		for _, ch := range alpha {
			gen(append(prefix, ch), n-1)
		}
	}
	gen(nil, maxLen)
	for i, p := range all {
		b := bases[i%len(bases)]
		got := sftp.VerifCleanPathWithBase(b, string(p))
		lines = append(lines, fmt.Sprintf("c10.withbase %s %s", lib.Hex([]byte(b)), lib.Hex(p)))
		impl = append(impl, lib.Hex([]byte(got)))
		nontriv := string(p) != got
		r.Case(lines[len(lines)-1], nontriv)
		if !c10AbsClean(got) {
			r.Fail(lib.Failure{Kind: "oracle", Key: "path/not-absclean", What: "cleanPathWithBase result is not absolute and clean", Input: map[string]string{"base": b, "p": lib.Hex(p)}, Actual: got})
		}
	}
	r.Hist(fmt.Sprintf("path-exhaustive-len<=%d", maxLen))
	for i := 0; i < 3000; i++ {
		n := c.Rand.Intn(24)
		p := make([]byte, n)
		for j := range p {
			switch c.Rand.Intn(6) {
			case 0, 1:
				p[j] = '/'
			case 2, 3:
				p[j] = '.'
			case 4:
				p[j] = byte('a' + c.Rand.Intn(3))
			default:
				p[j] = byte(c.Rand.Intn(256))
			}
		}
		b := "/" + strings.Repeat("b/", c.Rand.Intn(3)) + "c"
		got := sftp.VerifCleanPathWithBase(b, string(p))
		lines = append(lines, fmt.Sprintf("c10.withbase %s %s", lib.Hex([]byte(b)), lib.Hex(p)))
		impl = append(impl, lib.Hex([]byte(got)))
		r.Case(lines[len(lines)-1], true)
		if !c10AbsClean(got) {
			r.Fail(lib.Failure{Kind: "oracle", Key: "path/not-absclean", What: "cleanPathWithBase result is not absolute and clean", Input: map[string]string{"base": b, "p": lib.Hex(p)}, Actual: got})
		}
	}
	r.Hist("path-random")
	c.Compare("c10", lines, impl)
	r.Sample(map[string]string{"op": "cleanPathWithBase", "base": "/home/u", "p": "../../../etc/passwd", "result": sftp.VerifCleanPathWithBase("/home/u", "../../../etc/passwd")})

	// ---------- (b) adapter end to end ----------
	paths := []string{"", ".", "..", "a", "a/b", "/a/b", "a//b/", "./a/../b", "../../x", "/..", "a/./b/..", "\xff\xfe", "a b", "//", "/a/../../b", strings.Repeat("x/", 20) + "y"}
	for i := 0; i < 20; i++ {
		paths = append(paths, string(all[c.Rand.Intn(len(all))]))
	}
	starts := []string{"", "/", "/home/u", "rel/start", "/x/../y/"}
	hungCalls := map[string]bool{} // a call that did not return once is not made again (each costs a hang deadline)
	for _, sd := range starts {
		h := &c10H{data: []byte("0123456789")}
		var opts []sftp.RequestServerOption
		expBase := "/"
		if sd != "" {
			opts = append(opts, sftp.WithStartDirectory(sd))
			expBase = sftp.VerifCleanPath(sd)
		}
		p, err := vhStartRS(sftp.Handlers{FileGet: h, FilePut: h, FileCmd: h, FileList: h}, nil, opts...)
		if err != nil {
			r.Fail(lib.Failure{Kind: "tie", Key: "rs-start", What: err.Error()})
			return
		}
		cl := p.Client
		exp := func(q string) string { return sftp.VerifCleanPathWithBase(expBase, q) }
		type call struct {
			name   string
			do     func(q, q2 string) error
			method string
			two    bool
			target func(q, q2 string) (fp, tg string)
		}
		std := func(q, q2 string) (string, string) { return exp(q), "" }
		both := func(q, q2 string) (string, string) { return exp(q), exp(q2) }
		calls := []call{
			{"Stat", func(q, _ string) error { _, e := cl.Stat(q); return e }, "Stat", false, std},
			{"Lstat", func(q, _ string) error { _, e := cl.Lstat(q); return e }, "Lstat", false, std},
			{"Mkdir", func(q, _ string) error { return cl.Mkdir(q) }, "Mkdir", false, std},
			{"RemoveDirectory", func(q, _ string) error { return cl.RemoveDirectory(q) }, "Rmdir", false, std},
			{"Rename", func(q, q2 string) error { return cl.Rename(q, q2) }, "Rename", true, both},
			{"PosixRename", func(q, q2 string) error { return cl.PosixRename(q, q2) }, "PosixRename", true, both},
			{"Link", func(q, q2 string) error { return cl.Link(q, q2) }, "Link", true, both},
			// symlink: Filepath = the target text VERBATIM, Target = the cleaned link path
			{"Symlink", func(q, q2 string) error { return cl.Symlink(q, q2) }, "Symlink", true, func(q, q2 string) (string, string) { return q, exp(q2) }},
			{"ReadLink", func(q, _ string) error { _, e := cl.ReadLink(q); return e }, "Readlink", false, std},
			{"Chmod", func(q, _ string) error { return cl.Chmod(q, 0o640) }, "Setstat", false, std},
			{"Truncate", func(q, _ string) error { return cl.Truncate(q, 5) }, "Setstat", false, std},
			{"StatVFS", func(q, _ string) error { _, e := cl.StatVFS(q); return e }, "StatVFS", false, std},
			{"ReadDir", func(q, _ string) error { _, e := cl.ReadDir(q); return e }, "List", false, std},
			{"Open", func(q, _ string) error {
				f, e := cl.Open(q)
				if e == nil {
					f.Close()
				}
				return e
			}, "Get", false, std},
			{"OpenFile-w", func(q, _ string) error {
				f, e := cl.OpenFile(q, os.O_WRONLY|os.O_CREATE|os.O_TRUNC)
				if e == nil {
					f.Close()
				}
				return e
			}, "Put", false, std},
			{"OpenFile-rw", func(q, _ string) error {
				f, e := cl.OpenFile(q, os.O_RDWR|os.O_CREATE)
				if e == nil {
					f.Close()
				}
				return e
			}, "Open", false, std},
		}
		for _, q := range paths {
			for _, cc := range calls {
				if hungCalls[cc.name] || c.Stop("c10/adapter/"+cc.name) {
					continue
				}
				q2 := "t/" + q
				h.take()
				done := make(chan error, 1)
				go func() { done <- cc.do(q, q2) }()
				cerr, returned := lib.WaitHang("c10/adapter/"+cc.name, 20*time.Second, done)
				if !returned {
					r.Fail(lib.Failure{Kind: "oracle", Key: "adapter/hang/" + cc.name, What: "client call did not return", Input: map[string]string{"start": sd, "path": lib.Hex([]byte(q))}})
					hungCalls[cc.name] = true // the other calls go on (the connection still serves them)
					continue
				}
				recs := h.take()
				key := fmt.Sprintf("%s sd=%q q=%x", cc.name, sd, q)
				r.Case(key, q != exp(q))
				r.Hist("adapter-" + cc.method)
				wantFp, wantTg := cc.target(q, q2)
				ok := len(recs) == 1 && recs[0].Method == cc.method && recs[0].Filepath == wantFp && recs[0].Target == wantTg
				if cc.method == "Readlink" && len(recs) == 1 {
					ok = recs[0].Filepath == wantFp // custom ReadlinkFileLister gets only the path
				}
				if cc.method == "Symlink" && len(recs) == 1 {
					ok = ok && c10AbsClean(recs[0].Target)
				} else if len(recs) == 1 && cc.method != "Symlink" {
					ok = ok && c10AbsClean(recs[0].Filepath) && (recs[0].Target == "" || c10AbsClean(recs[0].Target))
				}
				// flags / attrs conveyed
				if ok {
					switch cc.name {
					case "Chmod":
						ok = recs[0].Flags == 4 && recs[0].Attrs == "000001a0"
					case "Truncate":
						ok = recs[0].Flags == 1 && recs[0].Attrs == "0000000000000005"
					case "Open":
						ok = recs[0].Flags == 1
					case "OpenFile-w":
						ok = recs[0].Flags == 2|8|16
					case "OpenFile-rw":
						ok = recs[0].Flags == 1|2|8
					}
				}
				if !ok {
					r.Fail(lib.Failure{Kind: "oracle", Key: "adapter/" + cc.name, What: "handler was not invoked exactly once with the method, clean absolute paths, flags and attributes the client sent",
						Input:    map[string]string{"start": sd, "path": lib.Hex([]byte(q)), "path2": lib.Hex([]byte(q2))},
						Expected: c10Rec{Method: cc.method, Filepath: wantFp, Target: wantTg}, Actual: map[string]any{"calls": recs, "client_err": fmt.Sprint(cerr)}})
				}
				if len(r.Samples) < 4 && q == "./a/../b" && (cc.name == "Symlink" || cc.name == "Rename") {
					r.Sample(map[string]any{"call": cc.name, "start": sd, "path": q, "handler_saw": recs})
				}
			}
		}
		// RealPath without a custom resolver is answered by the server itself with the cleaned path
		for _, q := range paths {
			if hungCalls["RealPath"] || c.Stop("c10/adapter/RealPath") {
				continue
			}
			var got string
			var err error
			if !lib.Within("c10/adapter/RealPath", 20*time.Second, func() { got, err = cl.RealPath(q) }) {
				r.Fail(lib.Failure{Kind: "oracle", Key: "adapter/hang/RealPath", What: "client call did not return", Input: map[string]string{"start": sd, "path": lib.Hex([]byte(q))}})
				hungCalls["RealPath"] = true
				continue
			}
			r.Case(fmt.Sprintf("realpath sd=%q q=%x", sd, q), true)
			if err != nil || got != exp(q) || !c10AbsClean(got) {
				r.Fail(lib.Failure{Kind: "oracle", Key: "adapter/RealPath", What: "RealPath is not the clean absolute path under the start directory", Input: map[string]string{"start": sd, "path": lib.Hex([]byte(q))}, Expected: exp(q), Actual: fmt.Sprint(got, err)})
			}
		}
		p.Close()
	}

	checkC10Err(c, "", hungCalls)
}

// checkC10Err is section (c). With a term (replay) only that term is run.
func checkC10Err(c *lib.Ctx, only string, hungCalls map[string]bool) {
	r := c.R
	// ---------- (c) error algebra: the product wrapper x inner error, see c10_errterm.go for THE RULE ----------
	ecases := c10Errors()
	if only != "" {
		ecases = []c10ErrCase{c10Lookup(only)}
	}
	h := &c10H{data: []byte("0123456789")}
	p, err := vhStartRS(sftp.Handlers{FileGet: h, FilePut: h, FileCmd: h, FileList: h}, nil)
	if err != nil {
		r.Fail(lib.Failure{Kind: "tie", Key: "rs-start", What: err.Error()})
		return
	}
	defer p.Close()
	cl := p.Client
	type via struct {
		name  string
		value bool // the request is answered with a value (handle, attributes, name …), not with a status
		do    func() error
	}
	withFile := func(flags int, f func(*sftp.File) error) error {
		save := h.err
		h.err = nil
		file, e := cl.OpenFile("/f", flags)
		h.err = save
		if e != nil {
			return fmt.Errorf("harness: open: %w", e)
		}
		e = f(file)
		h.err = nil
		file.Close()
		h.err = save
		return e
	}
	vias := []via{
		{"Filecmd", false, func() error { return cl.Mkdir("/d") }},
		{"Filecmd-Rename", false, func() error { return cl.Rename("/a", "/b") }},
		{"Filecmd-Setstat", false, func() error { return cl.Chmod("/a", 0o600) }},
		{"PosixRename", false, func() error { return cl.PosixRename("/a", "/b") }},
		{"Filelist", true, func() error { _, e := cl.Stat("/s"); return e }},
		{"Filelist-Lstat", true, func() error { _, e := cl.Lstat("/s"); return e }},
		{"Filelist-List", true, func() error { _, e := cl.ReadDir("/s"); return e }},
		{"Fileread-open", true, func() error { _, e := cl.Open("/open-fails"); return e }},
		{"Filewrite-open", true, func() error { _, e := cl.OpenFile("/open-fails", os.O_WRONLY|os.O_CREATE); return e }},
		{"OpenFile-open", true, func() error { _, e := cl.OpenFile("/open-fails", os.O_RDWR); return e }},
		{"Readlink", true, func() error { _, e := cl.ReadLink("/l"); return e }},
		{"StatVFS", true, func() error { _, e := cl.StatVFS("/v"); return e }},
		{"ReadAt", true, func() error {
			return withFile(os.O_RDONLY, func(f *sftp.File) error { _, e := f.ReadAt(make([]byte, 4), 0); return e })
		}},
		{"WriteAt", false, func() error {
			return withFile(os.O_WRONLY, func(f *sftp.File) error { _, e := f.WriteAt([]byte("abcd"), 0); return e })
		}},
	}
	var elines, eimpl []string
	cells := map[string]int{}
	devHits := map[string]int{}
	for _, ec := range ecases {
		h.err = ec.Err
		// direct (no wire): statusFromError -> normaliseError
		code, msg := sftp.VerifStatusFromError(ec.Err)
		direct := c10KindOfClientErr(sftp.VerifNormaliseError(sftp.VerifStatusError(code, msg, "")))
		results := map[string]string{"direct": direct}
		texts := map[string]string{"direct": msg}
		if mt := c10ModelTerm(ec.T); mt != "" {
			elines = append(elines, "c10.client "+mt)
			eimpl = append(eimpl, direct)
			elines = append(elines, "c10.status "+mt)
			eimpl = append(eimpl, fmt.Sprint(code))
		} else {
			r.Hist("error-terms-without-model-value")
		}
		for _, v := range vias {
			if ec.Err == nil {
				continue // no error: the adapter part (b) is about that
			}
			// a handler that answers "OK" (status code 0) where a handle, attributes or a name must be returned
			// has returned nothing: the client reports a protocol error for it (no value to give back). Only
			// status-only requests can meaningfully be answered with ErrSSHFxOk.
			if c10KindHas(ec.Kind, "ok") && v.value {
				continue
			}
			if hungCalls["via/"+v.name] || c.Stop("c10/errkind/"+v.name) {
				continue
			}
			var e error
			if !lib.Within("c10/errkind/"+v.name, 20*time.Second, func() { e = v.do() }) {
				r.Fail(lib.Failure{Kind: "oracle", Key: "errkind/hang/" + v.name, What: "client call did not return within 20 s", Input: map[string]string{"term": ec.Term, "via": v.name}})
				hungCalls["via/"+v.name] = true
				continue
			}
			results[v.name] = c10KindOfClientErr(e)
			if _, m, _, ok := sftp.VerifStatusFields(e); ok {
				texts[v.name] = m
			}
		}
		r.Case("err "+ec.Term, ec.T.isWrapper())
		r.Hist("error-terms")
		cells[ec.Class+" x "+ec.Family+" ["+ec.Basis+"]"]++
		var names []string
		for n := range results {
			names = append(names, n)
		}
		sort.Strings(names)
		for _, n := range names {
			got := results[n]
			in := map[string]string{"term": ec.Term, "go_error": fmt.Sprintf("%#v", ec.Err), "via": n, "rule_basis": ec.Basis}
			if !c10KindHas(ec.Kind, got) {
				fam := "other"
				switch ec.Kind {
				case "permission", "notexist", "eof":
					fam = ec.Kind
				}
				r.Fail(lib.Failure{Kind: "oracle", Key: "errkind/" + fam + "/" + strings.SplitN(ec.Term, "(", 2)[0], What: "error kind not preserved from handler to client (" + ec.Class + " around " + ec.Family + ")",
					Input: in, Expected: ec.Kind, Actual: got})
				continue
			}
			if ec.Basis == "dev" && got == "failure" {
				devHits[ec.Family]++
			}
			if got == "failure" && ec.Err != nil && !strings.Contains(texts[n], ec.Err.Error()) {
				// "any other error as a failure carrying its text" (OPENDIR decorates a bare errno with the path)
				r.Fail(lib.Failure{Kind: "oracle", Key: "errkind/failure-text", What: "failure does not carry the handler error's text", Input: in, Expected: ec.Err.Error(), Actual: texts[n]})
			}
		}
	}
	h.err = nil
	for k, n := range cells {
		r.HistAdd("errcell: "+k, n)
	}
	r.Note("error rule, documented readings (not the property's words; pinned to the headline 'unchanged in kind' read with errors.Is / errors.As): io.EOF and ErrSSHFx codes are looked through EVERY wrapper (fmt.Errorf %%w, custom Unwrap, errors.Join, nested; ErrSSHFx codes also through *os.PathError/*os.LinkError/*os.SyscallError), whereas not-exist / permission are looked through ONE of os's own wrappers only (behind %%w, Join or two wrappers they are 'any other error': failure with text); io.ErrUnexpectedEOF, os.ErrExist, os.ErrClosed and custom types whose Is() claims not-exist are failures with text")
	if n := devHits["statuserror"]; n > 0 {
		r.Note("documented reading: a handler returning *sftp.StatusError{Code: n} (what a proxying handler gets from a Client) is answered SSH_FX_FAILURE carrying its text, not status n, on the unchanged tree (statusFromError asks errors.As for fxerr only); both answers are accepted (%d observations)", n)
	}
	c.Compare("c10", elines, eimpl)
}
