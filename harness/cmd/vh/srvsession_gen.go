package main

// Shared by C07 and C11: server-session programs (valid client sessions for either
// server kind), their rendering into request frames with the independent codec
// verifharness/wire, the PRNG generator, and stream mutations.
//
// A session is a small program: a step is "send this request", where a request that
// needs a handle names the step (OPEN/OPENDIR) whose HANDLE reply supplies it.  The
// program is run interactively (send, read the reply, substitute); a handle is only
// ever used after its HANDLE reply has been received.

import (
	"encoding/binary"
	"encoding/hex"
	"fmt"
	"math/rand"
	"path/filepath"
	"strings"

	"verifharness/wire"
)

// ssCfg selects the server under test.
type ssCfg struct {
	Kind    string `json:"kind"`              // "os" (sftp.NewServer on a scratch tree) | "rs" (sftp.NewRequestServer, counting handlers)
	Alloc   bool   `json:"alloc,omitempty"`   // WithAllocator / WithRSAllocator
	WorkDir bool   `json:"workdir,omitempty"` // os: WithServerWorkingDirectory(tree[/Start]) + relative paths; rs: WithStartDirectory(Start or "/") + relative paths
	MaxTx   uint32 `json:"maxtx,omitempty"`   // WithMaxTxPacket / WithRSMaxTxPacket
	Tree    string `json:"tree,omitempty"`    // "" standard tree | "empty"
	InMem   bool   `json:"inmem,omitempty"`   // rs only: the package's own InMemHandler (witness cases; no handler oracles)
	// rs only: this percentage of the reader/writer/rw/lister objects (chosen by CloseErrSeed and the
	// object's serial number) return an error from their FIRST Close.
	CloseErr     int    `json:"close_err,omitempty"`
	CloseErrSeed uint32 `json:"close_err_seed,omitempty"`
	// os only: sftp.ReadOnly().  Every request that would modify something must be answered
	// PERMISSION_DENIED and the served tree must end exactly as it began, whatever the stream.
	RO bool `json:"ro,omitempty"`
	// os only: sftp.WithDebug(w), w a recording writer: the end-of-Serve sweep reports the handles
	// left open through it (and must still close each of them exactly once).
	Debug bool `json:"debug,omitempty"`
	// Start is a clean absolute slash path ("/home/u").  rs: WithStartDirectory(Start), the standard tree
	// lives below Start in the handlers' name space (absolute session paths are Start/<rel>, with WorkDir
	// the session uses relative paths).  os: the standard tree lives in <scratch tree>/Start, which with
	// WorkDir is the working directory.
	Start string `json:"start,omitempty"`
	// rs only: comma-separated optional interfaces the handlers / handler objects do NOT implement:
	//   closer      reader, writer, read-writer and lister objects have no Close method (no io.Closer)
	//   terr        reader, writer and read-writer objects have no TransferError method
	//   alt         closer / terr only hit the objects with an even serial number (mixed population)
	//   openfile    FilePut is not an OpenFileWriter (read-write opens go through Filewrite)
	//   lstat       FileList is not an LstatFileLister (LSTAT is served as Stat)
	//   posixrename FileCmd is not a PosixRenameFileCmder (posix-rename is served as Rename)
	//   statvfs     FileCmd is not a StatVFSFileCmder (statvfs is answered OP_UNSUPPORTED)
	Without string `json:"without,omitempty"`
}

func (c ssCfg) without(tok string) bool {
	for _, t := range strings.Split(c.Without, ",") {
		if t == tok {
			return true
		}
	}
	return false
}

func (c ssCfg) String() string {
	s := c.Kind
	if c.Alloc {
		s += "+alloc"
	}
	if c.WorkDir {
		s += "+workdir"
	}
	if c.MaxTx != 0 {
		s += fmt.Sprintf("+maxtx%d", c.MaxTx)
	}
	if c.Tree != "" {
		s += "+tree-" + c.Tree
	}
	if c.InMem {
		s += "+inmem"
	}
	if c.CloseErr != 0 {
		s += fmt.Sprintf("+closeerr%d", c.CloseErr)
	}
	if c.RO {
		s += "+readonly"
	}
	if c.Debug {
		s += "+debug"
	}
	if c.Start != "" {
		s += "+start=" + c.Start
	}
	if c.Without != "" {
		s += "+without=" + c.Without
	}
	return s
}

// ssStep is one request of a session program.
type ssStep struct {
	Op string `json:"op"`           // init open close read write fstat fsetstat opendir readdir stat lstat mkdir rmdir remove rename symlink readlink realpath setstat ext
	P1 string `json:"p1,omitempty"` // tree-relative path
	P2 string `json:"p2,omitempty"`
	H  int    `json:"h,omitempty"`  // >0: index of the step whose HANDLE reply supplies the handle; 0: the literal HL
	HL string `json:"hl,omitempty"` // literal handle string (never-issued handles)
	// Sp (with H > 0): a look-alike SPELLING of the issued handle is sent instead of it — a string that was
	// never issued although it reads like the issued one ("01", "+1", "1 ", …: ssSpell)
	Sp  string `json:"sp,omitempty"`
	Pf  uint32 `json:"pf,omitempty"` // OPEN pflags
	Off uint64 `json:"off,omitempty"`
	Len uint32 `json:"len,omitempty"` // READ length / WRITE data length / attribute size
	AF  uint32 `json:"af,omitempty"`  // attribute flags
	Ext string `json:"ext,omitempty"` // extended request name
	// Burst > 1: the request is sent Burst times (distinct ids) in ONE write, i.e. pipelined, and the
	// Burst replies are collected afterwards.  Only for requests whose handle was issued earlier.
	Burst int `json:"burst,omitempty"`
}

// ssSpellings are the look-alike spellings of a handle string h; none of them is h itself.
var ssSpellings = []string{"lead0", "lead00", "plus", "minus", "space-before", "space-after", "nul-after", "hex", "point0", "newline-after"}

func ssSpell(h, sp string) string {
	switch sp {
	case "lead0":
		return "0" + h
	case "lead00":
		return "00" + h
	case "plus":
		return "+" + h
	case "minus":
		return "-" + h
	case "space-before":
		return " " + h
	case "space-after":
		return h + " "
	case "nul-after":
		return h + "\x00"
	case "hex":
		return "0x" + h
	case "point0":
		return h + ".0"
	case "newline-after":
		return h + "\n"
	}
	return h
}

// ssBurstID is the request id of copy k of a burst step.
func ssBurstID(i, k int) uint32 { return ssID(i) + uint32(k)*100000 }

// frames renders the step as the frames of one write: one frame, or Burst copies with distinct ids.
func (s ssStep) frames(i int, cfg ssCfg, tree string, handles map[int]string) [][]byte {
	f := s.frame(i, cfg, tree, handles)
	if s.Burst <= 1 || s.Op == "init" {
		return [][]byte{f}
	}
	out := make([][]byte, s.Burst)
	for k := range out {
		g := append([]byte(nil), f...)
		binary.BigEndian.PutUint32(g[5:], ssBurstID(i, k))
		out[k] = g
	}
	return out
}

var ssOpType = map[string]byte{
	"init": wire.Init, "open": wire.Open, "close": wire.Close, "read": wire.Read, "write": wire.Write,
	"fstat": wire.Fstat, "fsetstat": wire.Fsetstat, "opendir": wire.Opendir, "readdir": wire.Readdir,
	"stat": wire.Stat, "lstat": wire.Lstat, "mkdir": wire.Mkdir, "rmdir": wire.Rmdir, "remove": wire.Remove,
	"rename": wire.Rename, "symlink": wire.Symlink, "readlink": wire.Readlink, "realpath": wire.Realpath,
	"setstat": wire.Setstat, "ext": wire.Extended,
}

func ssPath(cfg ssCfg, tree, rel string) string {
	switch {
	case cfg.WorkDir:
		if rel == "" {
			return "."
		}
		return rel
	case cfg.Kind == "os":
		return filepath.Join(tree, cfg.Start, rel)
	default:
		return cfg.Start + "/" + rel
	}
}

func ssData(n uint32) []byte {
	b := make([]byte, n)
	for i := range b {
		b[i] = byte(i*7 + int(n) + 1)
	}
	return b
}

// ssID is the request id of step i.
func ssID(i int) uint32 { return uint32(100 + i) }

// frame renders the step as a request frame; handles maps step index -> issued handle string.
func (s ssStep) frame(i int, cfg ssCfg, tree string, handles map[int]string) []byte {
	id := ssID(i)
	p := func(rel string) string { return ssPath(cfg, tree, rel) }
	h := s.HL
	if s.H > 0 {
		if v, ok := handles[s.H]; ok {
			h = v
		} else {
			h = fmt.Sprintf("unissued-%d", s.H) // the open failed: a never-issued handle
		}
		h = ssSpell(h, s.Sp)
	}
	at := wire.St{Flags: s.AF, Size: uint64(s.Len), Perm: 0o640, Atime: 1_500_000_000, Mtime: 1_500_000_000}
	if s.AF&wire.AExt != 0 {
		at.Ext = [][2]string{{"note@example.com", "v1"}}
	}
	switch s.Op {
	case "init":
		return wire.Frame(wire.Init, wire.B{}.U32(3))
	case "open":
		return wire.Req(wire.Open, id, wire.B{}.Str(p(s.P1)).U32(s.Pf).Raw(at.Block()))
	case "close", "fstat", "readdir":
		return wire.Req(ssOpType[s.Op], id, wire.B{}.Str(h))
	case "read":
		return wire.Req(wire.Read, id, wire.B{}.Str(h).U64(s.Off).U32(s.Len))
	case "write":
		return wire.Req(wire.Write, id, wire.B{}.Str(h).U64(s.Off).Bytes(ssData(s.Len)))
	case "fsetstat":
		return wire.Req(wire.Fsetstat, id, wire.B{}.Str(h).Raw(at.Block()))
	case "setstat":
		return wire.Req(wire.Setstat, id, wire.B{}.Str(p(s.P1)).Raw(at.Block()))
	case "mkdir":
		return wire.Req(wire.Mkdir, id, wire.B{}.Str(p(s.P1)).U32(0))
	case "rename", "symlink":
		return wire.Req(ssOpType[s.Op], id, wire.B{}.Str(p(s.P1)).Str(p(s.P2)))
	case "ext":
		switch s.Ext {
		case "statvfs@openssh.com":
			return wire.Req(wire.Extended, id, wire.B{}.Str(s.Ext).Str(p(s.P1)))
		case "posix-rename@openssh.com", "hardlink@openssh.com":
			return wire.Req(wire.Extended, id, wire.B{}.Str(s.Ext).Str(p(s.P1)).Str(p(s.P2)))
		default:
			return wire.Req(wire.Extended, id, wire.B{}.Str(s.Ext).Str(p(s.P1)).U32(7))
		}
	default: // opendir stat lstat rmdir remove readlink realpath
		return wire.Req(ssOpType[s.Op], id, wire.B{}.Str(p(s.P1)))
	}
}

// ---------- generator ----------

type ssGenOpts struct {
	N         int  // number of PRNG steps after INIT (and after the initial opens of Many)
	WrongKind bool // sometimes use a live handle of the wrong kind (READ on a write-only handle, READDIR on a file handle …)
	PathOnly  bool // no OPEN/OPENDIR and no handle requests (safe to pipeline: all requests run on the one command worker)
	Stale     bool // C11 flavour: failing opens, repeated / bogus closes, use-after-close
	Many      int  // open this many handles first (up to 32 simultaneously open)
	CloseAll  bool // close every live handle at the end (clean session)
}

type ssSym struct {
	step int
	kind string // r w rw dir
}

// ssGen produces a session program.  Everything that exists in the standard tree:
// files a.txt b.bin d/x d/y, directories d e, links ln->a.txt dl->d.
func ssGen(rnd *rand.Rand, o ssGenOpts) []ssStep {
	steps := []ssStep{{Op: "init"}}
	var open, closed []ssSym
	newN := 0
	newName := func() string { newN++; return fmt.Sprintf("n%d", newN) }
	files := []string{"a.txt", "b.bin", "d/x", "d/y", "ln"}
	dirs := []string{"d", "e", "dl"}
	missing := []string{"nope", "d/nope", "err/f", "nodir/f"}
	var made []string // names created by this session (may or may not exist at run time)
	pick := func(l []string) string { return l[rnd.Intn(len(l))] }
	anyPath := func() string {
		switch k := rnd.Intn(10); {
		case k < 4:
			return pick(files)
		case k < 6:
			return pick(dirs)
		case k < 8 && len(made) > 0:
			return pick(made)
		default:
			return pick(missing)
		}
	}
	add := func(s ssStep) int { steps = append(steps, s); return len(steps) - 1 }
	doOpen := func(kind string, fail bool) {
		if !fail && len(open) >= 32 { // never more than 32 simultaneously open handles
			j := rnd.Intn(len(open))
			steps = append(steps, ssStep{Op: "close", H: open[j].step})
			closed = append(closed, open[j])
			open = append(open[:j], open[j+1:]...)
		}
		var s ssStep
		switch kind {
		case "r":
			s = ssStep{Op: "open", P1: pick(files), Pf: wire.FRead}
			if fail {
				s.P1 = pick(missing)
			}
		case "w":
			n := newName()
			made = append(made, n)
			s = ssStep{Op: "open", P1: n, Pf: wire.FWrite | wire.FCreat | wire.FTrunc, AF: wire.APerm}
			if rnd.Intn(4) == 0 {
				s.P1, s.Pf, s.AF = "b.bin", wire.FWrite, 0
			}
			if fail {
				s.P1 = "nodir/f"
			}
		case "rw":
			n := newName()
			made = append(made, n)
			s = ssStep{Op: "open", P1: n, Pf: wire.FRead | wire.FWrite | wire.FCreat}
			if rnd.Intn(3) == 0 {
				s.P1 = "a.txt"
			}
			if fail {
				s.P1, s.Pf = "nope", wire.FRead|wire.FWrite
			}
		case "dir":
			s = ssStep{Op: "opendir", P1: pick(dirs)}
			if fail {
				s.P1 = pick([]string{"nope", "a.txt", "err/d"})
			}
		}
		i := add(s)
		if !fail {
			open = append(open, ssSym{i, kind})
		}
	}
	kinds := []string{"r", "w", "rw", "dir"}
	// get returns a live handle of one of the wanted kinds, opening one if needed.
	get := func(want ...string) ssSym {
		if o.WrongKind && len(open) > 0 && rnd.Intn(4) == 0 {
			return open[rnd.Intn(len(open))]
		}
		var c []ssSym
		for _, h := range open {
			for _, w := range want {
				if h.kind == w {
					c = append(c, h)
				}
			}
		}
		if len(c) == 0 {
			doOpen(want[rnd.Intn(len(want))], false)
			return open[len(open)-1]
		}
		return c[rnd.Intn(len(c))]
	}
	closeAt := func(j int) {
		add(ssStep{Op: "close", H: open[j].step})
		closed = append(closed, open[j])
		open = append(open[:j], open[j+1:]...)
	}
	handleReq := func(h int, hl string, kind string) {
		switch kind {
		case "read":
			add(ssStep{Op: "read", H: h, HL: hl, Off: uint64(rnd.Intn(40)), Len: uint32(1 + rnd.Intn(64))})
		case "write":
			add(ssStep{Op: "write", H: h, HL: hl, Off: uint64(rnd.Intn(40)), Len: uint32(rnd.Intn(48))})
		case "fstat":
			add(ssStep{Op: "fstat", H: h, HL: hl})
		case "fsetstat":
			add(ssStep{Op: "fsetstat", H: h, HL: hl, AF: []uint32{0, wire.ASize, wire.APerm, wire.ATime, wire.ASize | wire.APerm}[rnd.Intn(5)], Len: uint32(rnd.Intn(30))})
		case "readdir":
			add(ssStep{Op: "readdir", H: h, HL: hl})
		case "close":
			add(ssStep{Op: "close", H: h, HL: hl})
		}
	}
	hreqs := []string{"read", "write", "fstat", "fsetstat", "readdir"}

	for i := 0; i < o.Many && i < 32; i++ {
		doOpen(kinds[i%4], false)
	}
	for n := 0; n < o.N; n++ {
		k := rnd.Intn(100)
		if o.PathOnly && k < 40 {
			k = 40 + rnd.Intn(60)
		}
		if o.Stale && rnd.Intn(3) == 0 {
			switch s := rnd.Intn(6); {
			case s == 5 && len(open) > 0: // a look-alike spelling of a LIVE handle: never issued, to be refused, the handle stays
				steps = append(steps, ssStep{Op: pick(append([]string{"close"}, hreqs...)), H: open[rnd.Intn(len(open))].step, Sp: pick(ssSpellings), Off: uint64(rnd.Intn(8)), Len: uint32(1 + rnd.Intn(8))})
			case s == 0: // an open that fails
				doOpen(kinds[rnd.Intn(4)], true)
			case s == 1 && len(closed) > 0: // repeated close
				handleReq(closed[rnd.Intn(len(closed))].step, "", "close")
			case s == 2: // close of a never-issued handle
				handleReq(0, pick([]string{"999", "", "abc", "0", "-1", "1 "}), "close")
			case s == 3 && len(closed) > 0: // use after close
				handleReq(closed[rnd.Intn(len(closed))].step, "", pick(hreqs))
			default: // request on a never-issued handle
				handleReq(0, pick([]string{"999", "", "abc", "77"}), pick(hreqs))
			}
			continue
		}
		switch {
		case k < 8:
			doOpen("r", rnd.Intn(6) == 0)
		case k < 14:
			doOpen("w", rnd.Intn(8) == 0)
		case k < 18:
			doOpen("rw", rnd.Intn(8) == 0)
		case k < 22:
			doOpen("dir", rnd.Intn(6) == 0)
		case k < 27:
			handleReq(get("r", "rw").step, "", "read")
		case k < 32:
			handleReq(get("w", "rw").step, "", "write")
		case k < 34:
			handleReq(get(kinds...).step, "", "fstat")
		case k < 36:
			handleReq(get("w", "rw", "r").step, "", "fsetstat")
		case k < 38:
			handleReq(get("dir").step, "", "readdir")
		case k < 40:
			if len(open) > 0 {
				closeAt(rnd.Intn(len(open)))
			} else {
				add(ssStep{Op: "stat", P1: anyPath()})
			}
		case k < 48:
			add(ssStep{Op: "stat", P1: anyPath()})
		case k < 53:
			add(ssStep{Op: "lstat", P1: anyPath()})
		case k < 59:
			n := newName()
			made = append(made, n)
			add(ssStep{Op: "mkdir", P1: n})
		case k < 63:
			add(ssStep{Op: "rmdir", P1: pick([]string{"e", "d", "nope", anyPath()})})
		case k < 67:
			add(ssStep{Op: "remove", P1: pick([]string{"d/y", "nope", "ln", anyPath()})})
		case k < 72:
			n := newName()
			made = append(made, n)
			add(ssStep{Op: "rename", P1: pick([]string{"d/x", "a.txt", "nope", "e"}), P2: n})
		case k < 76:
			n := newName()
			made = append(made, n)
			add(ssStep{Op: "symlink", P1: pick(files), P2: n})
		case k < 80:
			add(ssStep{Op: "readlink", P1: pick([]string{"ln", "dl", "a.txt", "nope"})})
		case k < 84:
			add(ssStep{Op: "realpath", P1: pick([]string{"", "d/../a.txt", "nope/x", "d"})})
		case k < 89:
			add(ssStep{Op: "setstat", P1: anyPath(), AF: []uint32{0, wire.ASize, wire.APerm, wire.ATime, wire.ASize | wire.APerm | wire.ATime}[rnd.Intn(5)], Len: uint32(rnd.Intn(30))})
		case k < 92:
			add(ssStep{Op: "ext", Ext: "statvfs@openssh.com", P1: pick([]string{"", "d", "nope"})})
		case k < 95:
			n := newName()
			made = append(made, n)
			add(ssStep{Op: "ext", Ext: "posix-rename@openssh.com", P1: pick([]string{"d/y", "b.bin", "nope"}), P2: n})
		case k < 98:
			n := newName()
			made = append(made, n)
			add(ssStep{Op: "ext", Ext: "hardlink@openssh.com", P1: pick([]string{"a.txt", "d", "nope"}), P2: n})
		default:
			add(ssStep{Op: "ext", Ext: "unknown@example.com", P1: "a.txt"})
		}
	}
	if o.CloseAll {
		for len(open) > 0 {
			closeAt(rnd.Intn(len(open)))
		}
	}
	return steps
}

// ssGenChurn produces the "worn handle" flavour: for a read, a write, a read-write and a directory
// handle in turn — open it; use it 32 times one request at a time (the requests rotate through
// all eight pool workers, so every worker has served the handle) and 16 times pipelined; CLOSE it;
// then name it in 16 more sequential and 16 more pipelined requests, CLOSE it again, and use it once
// more.  Everything after the first CLOSE must be refused without touching the handler object —
// also when that object's Close returned an error (ssCfg.CloseErr).  A "keeper" handle stays open
// throughout, so that the end-of-session sweep always has something to do.
func ssGenChurn(rnd *rand.Rand, closeAll bool) []ssStep {
	steps := []ssStep{{Op: "init"}}
	add := func(s ssStep) int { steps = append(steps, s); return len(steps) - 1 }
	keeper := add(ssStep{Op: "open", P1: "b.bin", Pf: wire.FRead})
	// every kind of failing open, once: missing, handler error, missing parent, a directory opened for
	// writing, exclusive creation of an existing file, no access flags, a file as path component; OPENDIR of
	// a missing name, of a regular file, of a link to one, handler error.  Each is followed by a request
	// naming the handle it did not issue, and the block by requests naming the handle NUMBERS a failed open
	// might have kept behind the client's back.
	failing := []ssStep{
		{Op: "open", P1: "nope", Pf: wire.FRead}, {Op: "open", P1: "err/f", Pf: wire.FRead}, {Op: "open", P1: "nodir/f", Pf: wire.FWrite | wire.FCreat | wire.FTrunc},
		{Op: "open", P1: "d", Pf: wire.FWrite | wire.FCreat}, {Op: "open", P1: "a.txt", Pf: wire.FWrite | wire.FCreat | wire.FExcl}, {Op: "open", P1: "a.txt", Pf: 0},
		{Op: "open", P1: "d/x/y", Pf: wire.FRead}, {Op: "open", P1: "nope", Pf: wire.FRead | wire.FWrite},
		{Op: "opendir", P1: "nope"}, {Op: "opendir", P1: "a.txt"}, {Op: "opendir", P1: "ln"}, {Op: "opendir", P1: "err/d"}, {Op: "opendir", P1: "d/x"},
	}
	rnd.Shuffle(len(failing), func(a, b int) { failing[a], failing[b] = failing[b], failing[a] })
	for _, f := range failing {
		i := add(f)
		add(ssStep{Op: []string{"fstat", "read", "close", "readdir"}[rnd.Intn(4)], H: i, Len: 4})
	}
	for n := 2; n <= 6; n++ {
		add(ssStep{Op: []string{"read", "fstat", "write", "readdir"}[rnd.Intn(4)], HL: fmt.Sprint(n), Len: 4})
		add(ssStep{Op: "close", HL: fmt.Sprint(n)})
	}
	kinds := []string{"r", "w", "rw", "dir"}
	rnd.Shuffle(len(kinds), func(a, b int) { kinds[a], kinds[b] = kinds[b], kinds[a] })
	nNew := 0
	for _, kind := range kinds {
		var h int
		switch kind {
		case "r":
			h = add(ssStep{Op: "open", P1: []string{"a.txt", "b.bin", "d/y"}[rnd.Intn(3)], Pf: wire.FRead})
		case "w":
			nNew++
			h = add(ssStep{Op: "open", P1: fmt.Sprintf("n%d", nNew), Pf: wire.FWrite | wire.FCreat | wire.FTrunc, AF: wire.APerm})
		case "rw":
			nNew++
			h = add(ssStep{Op: "open", P1: fmt.Sprintf("n%d", nNew), Pf: wire.FRead | wire.FWrite | wire.FCreat})
		case "dir":
			h = add(ssStep{Op: "opendir", P1: "d"})
		}
		// requests that do not fit the kind of the (live) handle, right after the open — for a directory
		// handle while its listing still has every entry: READ on a directory handle, READDIR on a file
		// handle, WRITE on a read-only and READ on a write-only handle; once each, and once pipelined.  The
		// handle must stay open and keep working.
		wrong := map[string][]string{"r": {"write", "readdir"}, "w": {"read", "readdir"}, "rw": {"readdir"}, "dir": {"read", "write"}}[kind]
		for _, op := range wrong {
			add(ssStep{Op: op, H: h, Off: uint64(rnd.Intn(8)), Len: uint32(1 + rnd.Intn(8))})
		}
		add(ssStep{Op: wrong[rnd.Intn(len(wrong))], H: h, Len: 3, Burst: 4})
		use := func(n int, burst int) {
			for x := 0; x < n; x++ {
				op := map[string]string{"r": "read", "w": "write", "dir": "readdir"}[kind]
				if kind == "rw" {
					op = []string{"write", "read"}[x%2]
				}
				s := ssStep{Op: op, H: h, Burst: burst}
				if op != "readdir" {
					s.Off, s.Len = uint64(rnd.Intn(24)), uint32(1+rnd.Intn(24))
				}
				add(s)
			}
		}
		seq := 32
		if kind == "dir" { // READDIR runs on the single command worker
			seq = 6
		}
		use(seq, 0)
		use(1, 16)
		if kind == "rw" {
			use(1, 16)
		}
		// look-alike spellings of the live handle: refused, and the handle stays open
		for _, sp := range []string{ssSpellings[rnd.Intn(len(ssSpellings))], ssSpellings[rnd.Intn(len(ssSpellings))]} {
			op := map[string]string{"r": "read", "w": "write", "rw": "write", "dir": "readdir"}[kind]
			add(ssStep{Op: op, H: h, Sp: sp, Len: 4})
			add(ssStep{Op: "close", H: h, Sp: sp})
		}
		use(1, 0)
		add(ssStep{Op: "read", H: keeper, Off: 0, Len: 8})
		add(ssStep{Op: "close", H: h})
		use(seq/2, 0)
		add(ssStep{Op: "fstat", H: h})
		add(ssStep{Op: "fsetstat", H: h, AF: wire.ASize, Len: 3})
		use(1, 16)
		if kind == "rw" {
			use(1, 16)
		}
		add(ssStep{Op: "close", H: h})
		use(1, 0)
		add(ssStep{Op: "close", H: h, Burst: 4})
	}
	if closeAll {
		add(ssStep{Op: "close", H: keeper})
	}
	return steps
}

// ssGenReadOnly is the "read-only" flavour: every request kind that modifies something, and OPEN with
// every way of asking for a modification (write, create, truncate — alone, with read, with the flags
// that modify nothing: append, excl), interleaved with reads, on existing and on new names; handles of
// opens that may or may not succeed are used, some are closed, some left open.  Against a ReadOnly()
// server everything modifying must be refused and the tree stay as it was; against any other server
// it is one more valid session.
//
// nOps / nCmds: how many of the 15 OPEN variants and of the 17 path requests are used (PRNG choice; 0 = all).
func ssGenReadOnly(rnd *rand.Rand, closeAll bool, nOps, nCmds int) []ssStep {
	steps := []ssStep{{Op: "init"}}
	add := func(s ssStep) int { steps = append(steps, s); return len(steps) - 1 }
	var opened []int
	open := func(p string, pf uint32) int {
		i := add(ssStep{Op: "open", P1: p, Pf: pf})
		opened = append(opened, i)
		return i
	}
	R, W, A, C, T, X := uint32(wire.FRead), uint32(wire.FWrite), uint32(wire.FAppend), uint32(wire.FCreat), uint32(wire.FTrunc), uint32(wire.FExcl)
	h1 := open("a.txt", R)
	add(ssStep{Op: "read", H: h1, Off: 0, Len: 16})
	type op struct {
		p  string
		pf uint32
	}
	ops := []op{{"d/x", R | T}, {"nA", C}, {"nB", R | C}, {"d/y", T}, {"b.bin", W}, {"b.bin", A}, {"b.bin", R | A}, {"a.txt", X}, {"a.txt", R | X},
		{"nC", R | C | X}, {"b.bin", W | A}, {"nD", W | C | T}, {"a.txt", R | W}, {"d/x", C | T}, {"b.bin", R | W | A | C | T}}
	rnd.Shuffle(len(ops), func(a, b int) { ops[a], ops[b] = ops[b], ops[a] })
	if nOps > 0 && nOps < len(ops) {
		ops = ops[:nOps]
	}
	for _, o := range ops {
		h := open(o.p, o.pf)
		switch rnd.Intn(4) {
		case 0:
			add(ssStep{Op: "read", H: h, Off: 0, Len: 8})
		case 1:
			add(ssStep{Op: "write", H: h, Off: uint64(rnd.Intn(8)), Len: uint32(1 + rnd.Intn(8))})
		case 2:
			add(ssStep{Op: "fsetstat", H: h, AF: wire.ASize, Len: uint32(rnd.Intn(6))})
		}
		if rnd.Intn(3) == 0 {
			add(ssStep{Op: "close", H: h})
			opened = opened[:len(opened)-1]
		}
	}
	add(ssStep{Op: "write", H: h1, Off: 2, Len: 5}) // on a read handle
	add(ssStep{Op: "fsetstat", H: h1, AF: wire.APerm})
	add(ssStep{Op: "fsetstat", H: h1, AF: wire.ASize, Len: 1})
	cmds := []ssStep{{Op: "setstat", P1: "a.txt", AF: wire.ASize, Len: 3}, {Op: "setstat", P1: "d", AF: wire.APerm}, {Op: "mkdir", P1: "nE"}, {Op: "rmdir", P1: "e"}, {Op: "remove", P1: "d/y"},
		{Op: "remove", P1: "ln"}, {Op: "rename", P1: "a.txt", P2: "nF"}, {Op: "symlink", P1: "a.txt", P2: "nG"}, {Op: "ext", Ext: "posix-rename@openssh.com", P1: "b.bin", P2: "nH"},
		{Op: "ext", Ext: "hardlink@openssh.com", P1: "b.bin", P2: "nI"}, {Op: "stat", P1: "a.txt"}, {Op: "lstat", P1: "ln"}, {Op: "readlink", P1: "ln"}, {Op: "realpath", P1: ""},
		{Op: "ext", Ext: "statvfs@openssh.com", P1: "d"}, {Op: "ext", Ext: "unknown@example.com", P1: "a.txt"}, {Op: "fstat", H: h1}}
	rnd.Shuffle(len(cmds), func(a, b int) { cmds[a], cmds[b] = cmds[b], cmds[a] })
	if nCmds > 0 && nCmds < len(cmds) {
		cmds = cmds[:nCmds]
	}
	for _, c := range cmds {
		add(c)
	}
	d := add(ssStep{Op: "opendir", P1: "d"})
	opened = append(opened, d)
	add(ssStep{Op: "readdir", H: d})
	add(ssStep{Op: "read", H: h1, Off: 0, Len: 32})
	if closeAll {
		for _, h := range opened {
			add(ssStep{Op: "close", H: h})
		}
	}
	return steps
}

// ---------- mutations (positions are frame-relative, so they survive a different scratch path) ----------

type ssMut struct {
	Kind  string `json:"kind"`            // none | cut | len | type | strlen | field | garbage | raw | tail
	Frame int    `json:"frame,omitempty"` // frame index (0 = INIT)
	Off   int    `json:"off,omitempty"`   // cut: bytes of Frame kept; strlen: offset of the length field inside Frame
	Val   uint32 `json:"val,omitempty"`   // len/strlen: new field value; type: new type byte; tail: number of bytes appended INSIDE Frame (its length word follows)
	Hex   string `json:"hex,omitempty"`   // garbage: appended bytes; raw: bytes inserted before Frame
	Pipe  bool   `json:"pipe,omitempty"`  // send the whole stream at once (dedicated pipelining cases)
	// Tr is the transport the server is given for this case (ssStartTr):
	//   ""      one connection object: the server's Close ends BOTH directions (net.Conn, net.Pipe, an ssh channel);
	//   "split" two independent pipes (struct{io.Reader; io.WriteCloser}, the stdin/stdout of an sftp subsystem):
	//           Close ends the server's output only, its input stays readable for as long as the peer keeps it open;
	//   "buf"   the reader is a bytes.Reader over the whole mutated stream (every byte is there before Serve
	//           starts, EOF follows the last one), the writer a separate sink; implies Pipe.
	// On the last two nothing but the server's own loop stops it from reading what follows a malformed packet.
	Tr string `json:"tr,omitempty"`
	// Stage (with Pipe, not on "buf"): a STAGED pipeline.  The first Stage well-formed requests of the stream are
	// sent one at a time, each reply read (so that every handle the rest uses was issued and RECEIVED); everything
	// from request Stage on — requests on those live handles, the malformed packet, what follows it — goes out in
	// ONE write.  The requests in front of the malformed packet are then still queued or running when it arrives.
	Stage int `json:"stage,omitempty"`
	// Hold (request server, with Stage): the ReadAt / WriteAt methods of the handler objects block from the moment
	// the pipelined part is written until the server has hung up (its transport's Close was called), resp. — a
	// stream without a malformed packet — until the server has taken the whole write; a bound ends the hold
	// otherwise.  Stall (with Stage): the peer does not READ the server's output during that time (a client that
	// writes its batch before it reads any reply): the response path backs up and the workers stay busy.
	Hold  bool `json:"hold,omitempty"`
	Stall bool `json:"stall,omitempty"`
	// field: the W-byte (4 | 8) integer field at Off of Frame := V64; the rest of the frame is kept.
	// Fit (string-length fields): the string is cut or padded to the new length and the frame's length
	// prefix follows, so the request stays well-formed and is DISPATCHED with the new length.
	// Pad (attribute flags words): zero words are appended (length prefix follows) until the attribute
	// block is as long as the new flags promise — the request is dispatched with the new flags.
	W    int    `json:"w,omitempty"`
	V64  uint64 `json:"v64,omitempty"`
	Fit  bool   `json:"fit,omitempty"`
	Pad  bool   `json:"pad,omitempty"`
	Name string `json:"name,omitempty"` // what the field means (documentation of the case; not used by apply)
}

// applyField rewrites one integer field of frame g (see ssMut).
func (m ssMut) applyField(g []byte) []byte {
	if m.Off < 0 || m.Off+m.W > len(g) || (m.W != 4 && m.W != 8) {
		return g
	}
	if m.Fit && m.W == 4 && m.Off >= 5 {
		old := uint64(binary.BigEndian.Uint32(g[m.Off:]))
		if m.V64 <= 1<<16 && uint64(m.Off+4)+old <= uint64(len(g)) {
			str := append([]byte(nil), g[m.Off+4:m.Off+4+int(old)]...)
			for uint64(len(str)) < m.V64 {
				str = append(str, 'A')
			}
			tail := append([]byte(nil), g[m.Off+4+int(old):]...)
			g = append(g[:m.Off+4:m.Off+4], str[:m.V64]...)
			g = append(g, tail...)
			binary.BigEndian.PutUint32(g[m.Off:], uint32(m.V64))
			binary.BigEndian.PutUint32(g, uint32(len(g)-4))
			return g
		}
	}
	if m.W == 4 {
		binary.BigEndian.PutUint32(g[m.Off:], uint32(m.V64))
	} else {
		binary.BigEndian.PutUint64(g[m.Off:], m.V64)
	}
	if m.Pad && m.Off >= 5 {
		for k := 0; k < 16; k++ {
			q, why := ssParseReq(g[4], g[5:])
			if why != "" || !q.Soft {
				break
			}
			g = append(g, 0, 0, 0, 0)
			binary.BigEndian.PutUint32(g, uint32(len(g)-4))
		}
	}
	return g
}

func (m ssMut) apply(frames [][]byte) []byte {
	var out []byte
	raw, _ := hex.DecodeString(m.Hex)
	for i, f := range frames {
		g := append([]byte(nil), f...)
		if i == m.Frame {
			switch m.Kind {
			case "cut":
				k := m.Off
				if k > len(g) {
					k = len(g)
				}
				return append(out, g[:k]...)
			case "len":
				binary.BigEndian.PutUint32(g, m.Val)
			case "type":
				g[4] = byte(m.Val)
			case "strlen":
				if m.Off+4 <= len(g) {
					binary.BigEndian.PutUint32(g[m.Off:], m.Val)
				}
			case "field":
				g = m.applyField(g)
			case "tail":
				if m.Val <= 1<<16 {
					g = append(g, ssData(m.Val)...)
					binary.BigEndian.PutUint32(g, uint32(len(g)-4))
				}
			case "raw":
				out = append(out, raw...)
			}
		}
		out = append(out, g...)
	}
	switch m.Kind {
	case "garbage":
		out = append(out, raw...)
	case "raw":
		if m.Frame >= len(frames) {
			out = append(out, raw...)
		}
	}
	return out
}
