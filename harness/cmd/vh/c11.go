package main

// C11 — Handles are unique, die on close, and all resources are released once.
//
// Session programs with failing opens, repeated closes, closes of never-issued handles,
// use-after-close and up to 32 simultaneously open handles are run interactively against
// both server kinds (allocator on/off) inside child processes; the connection is ended
// after a chosen request (EOF after its reply, EOF without waiting for the reply, EOF or
// a transport error in the middle of the following packet, transport error).  Oracles
// (srvsession_exec.go, ssRunC11 / ssTrack): handle strings pairwise distinct; a request
// naming a never-issued or closed handle gets a failure STATUS and leaves tree, fd table,
// handler log and object counters unchanged; one fd / one open handler object per live
// handle after every step; contexts alive while the handle is open and cancelled once it is
// closed; after Serve returns: no fd into the tree, every object closed exactly once,
// TransferError exactly on the readers/writers whose handle was still open, before Close,
// every context cancelled, no package goroutine left.
//
// Model comparison (srvsession_model.go): every session is also replayed in the executable
// Lean model of the handle table (driver op `c11.run`, configuration bits from `cur.cfg c11rs` /
// `cur.cfg c11os`, i.e. regenerated from the source): status class of every handle request,
// handle string of every OPEN / OPENDIR, per object closed / TransferError / context / touched
// after Serve, and the table before the end and after it.  Key c11/c11.run/<rs|os>.

import (
	"encoding/json"
	"fmt"
	"os"
	"runtime"

	"verifharness/lib"
)

func init() { register("c11", checkC11) }

func checkC11(c *lib.Ctx) {
	r := c.R
	thorough := c.Tier == "thorough"
	r.Rule = "sessions: INIT + PRNG mix of OPEN (r / w+creat / rw, existing and missing files, handler errors), OPENDIR (ok, missing, not a directory), READ/WRITE/FSTAT/FSETSTAT/READDIR on live handles, CLOSE, repeated CLOSE, CLOSE and other requests on never-issued handles (\"999\", \"\", \"abc\", …), use-after-close, path requests; flavours: small, 32 handles opened first, all closed at the end or left open, and \"worn handle\" (per handle kind r/w/rw/dir: 32 sequential uses so that every pool worker has served it, 16 pipelined, CLOSE, then 16 sequential + 16 pipelined uses of the closed handle, second CLOSE, one more use, 4 pipelined CLOSEs); request-server flavours where 25 % (PRNG) or 100 % of the reader/writer/rw/lister objects fail their first Close; against os-backed Server (absolute paths / working directory) and RequestServer with counting handlers, allocator on and off. For each session the connection is ended after request index i (quick: first, last and a PRNG subset; thorough: every i) in 5 ways: EOF after the reply, EOF without reading the reply, EOF inside the next packet, transport error, transport error inside the next packet. Each case runs on a fresh server in a child process; non-trivial when at least one request follows INIT; distinct by (server config, session, cut index, mode, offset)"
	base, err := ssMkBase(ssBaseRnd())
	if err != nil {
		r.Fail(lib.Failure{Kind: "tie", Key: "tmpdir", What: err.Error()})
		return
	}
	defer os.RemoveAll(base)
	workers := runtime.NumCPU()
	if workers > 16 {
		workers = 16
	}
	if c.Replay != "" {
		var in ssInput
		if err := lib.ReadReplay(c.Replay, &in); err != nil || in.End == nil {
			r.Fail(lib.Failure{Kind: "tie", Key: "replay", What: fmt.Sprint("bad replay input: ", err)})
			return
		}
		j := &ssPJob{Kind: "c11", Cfg: in.Cfg, Prog: in.Prog, PID: ssProgID(in.Cfg, in.Prog), End: in.End}
		col := &ssCollector{r: r, base: base, jobs: []*ssPJob{j}}
		res := ssRunAlone(base, j)
		res.Prev = -1
		r.Case(fmt.Sprint(j.input()), true)
		col.done(0, j, &res)
		col.confirm(1)
		if mc := newSSModelCmp(c); mc != nil {
			mc.add(j, &res)
			mc.close()
		}
		return
	}

	nSmall, nMany, nChurn, subset := 10, 3, 2, 14
	midOffs := 1
	if thorough {
		nSmall, nMany, nChurn, midOffs = 100, 20, 8, 3
	}
	var progs [][]ssStep
	for i := 0; i < nSmall; i++ {
		progs = append(progs, ssGen(c.Rand, ssGenOpts{N: 18 + c.Rand.Intn(10), Stale: true, CloseAll: i%2 == 0}))
	}
	for i := 0; i < nMany; i++ {
		progs = append(progs, ssGen(c.Rand, ssGenOpts{N: 24, Stale: true, Many: 32, CloseAll: i%2 == 0}))
	}
	for i := 0; i < nChurn; i++ {
		progs = append(progs, ssGenChurn(c.Rand, i%2 == 0))
	}
	// close-error flavours: a quarter of the handler objects (PRNG per session run) / every object
	// fails its first Close; the handle must die all the same and the object be closed exactly once
	cfgs := []ssCfg{{Kind: "os"}, {Kind: "os", Alloc: true}, {Kind: "rs"}, {Kind: "rs", Alloc: true}, {Kind: "os", WorkDir: true}, {Kind: "rs", WorkDir: true},
		{Kind: "rs", CloseErr: 25, CloseErrSeed: c.Rand.Uint32()}, {Kind: "rs", Alloc: true, CloseErr: 100}}
	modes := []string{"eof", "noreply", "mid", "break", "breakmid"}
	var jobs []*ssPJob
	for _, p := range progs {
		for _, st := range p {
			r.Hist("op/" + st.Op)
		}
		n := len(p)
		var cuts []int
		if thorough {
			for i := 0; i < n; i++ {
				cuts = append(cuts, i)
			}
		} else {
			seen := map[int]bool{0: true, n - 1: true}
			cuts = []int{0, n - 1}
			for len(cuts) < subset+2 && len(cuts) < n {
				if i := c.Rand.Intn(n); !seen[i] {
					seen[i] = true
					cuts = append(cuts, i)
				}
			}
		}
		for _, cfg := range cfgs {
			pid := ssProgID(cfg, p)
			for _, i := range cuts {
				for _, m := range modes {
					if m != "mid" && m != "breakmid" {
						jobs = append(jobs, &ssPJob{Kind: "c11", Cfg: cfg, Prog: p, PID: pid, End: &ssEnd{After: i, Mode: m}})
						continue
					}
					offs := []int{1, 3, 4, 5, 9, 12, 1000} // inside the length word, at the type byte, inside the id, inside a string, all but the last byte
					c.Rand.Shuffle(len(offs), func(a, b int) { offs[a], offs[b] = offs[b], offs[a] })
					for _, o := range offs[:midOffs] {
						jobs = append(jobs, &ssPJob{Kind: "c11", Cfg: cfg, Prog: p, PID: pid, End: &ssEnd{After: i, Mode: m, MidOff: o}})
					}
				}
			}
		}
	}
	col := &ssCollector{r: r, base: base, jobs: jobs}
	mc := newSSModelCmp(c)
	nSample := 0
	ssRunPool(base, workers, jobs, func(i int, j *ssPJob, res *ssResult) {
		eb, _ := json.Marshal(j.End)
		r.Case(j.Cfg.String()+" "+j.PID+" "+string(eb), j.End.After >= 1)
		r.Hist("end/" + j.End.Mode)
		r.Hist("cfg/" + j.Cfg.String())
		if nSample < 5 && i%(len(jobs)/5+1) == 0 {
			nSample++
			r.Sample(map[string]any{"cfg": j.Cfg.String(), "session_steps": len(j.Prog), "steps_up_to_cut": j.Prog[max(0, j.End.After-4) : j.End.After+1], "end": j.End})
		}
		col.done(i, j, res)
		mc.add(j, res)
	})
	col.confirm(3)
	mc.close()
	r.Note("sessions=%d configs=%d cases=%d children=%d; child deaths: %d", len(progs), len(cfgs), len(jobs), workers, len(col.crashed))
	if mc == nil {
		r.Skip("model comparison (driver op c11.run): no --model given")
	}
	r.Skip("model comparison, not expressible with the driver op c11.run: INIT and path requests (dropped from the trace: the model has no action for them); requests that do not fit the kind of their live handle (one `use` action: found => called; such sessions are counted in model/skip/…); TransferError of a ListerAt (Request.transferError only tells readers and writers: the model's terr of a directory object is not compared); a context cancelled more than once; the table of the os-backed server after Serve (server.go's sweep closes the files but does not delete the map entries, the model forgets them: unobservable, not compared); for the request server the table CONTENTS (only VerifOpenRequests = its size is exported; the os-backed table is read exactly through VerifSwapFile probes)")
}
