package main

// C11 — Handles are unique, die on close, and all resources are released once.
//
// Session programs with failing opens, repeated closes, closes of never-issued handles,
// use-after-close and up to 32 simultaneously open handles are run interactively against
// both server kinds (allocator on/off) inside child processes; the connection is ended
// after a chosen request (EOF after its reply, EOF without waiting for the reply, EOF or
// a transport error in the middle of the following packet, transport error, or a well-framed packet
// with an undecodable body as the last thing received — srvsession_bad.go).  Oracles
// (srvsession_exec.go, ssRunC11 / ssTrack): handle strings pairwise distinct; a request
// naming a never-issued or closed handle gets a failure STATUS and leaves tree, fd table,
// handler log and object counters unchanged; one fd / one open handler object per live
// handle after every step; contexts alive while the handle is open and cancelled once it is
// closed; after Serve returns: no fd into the tree, every object closed exactly once,
// TransferError exactly on the readers/writers whose handle was still open, before Close,
// every context cancelled, no package goroutine left.
//
// Part "objfault" (c11_objfault.go, runs first): handler OBJECTS WHOSE METHODS FAIL — counting objects x per-method
// outcome schedules (ListAt / ReadAt / WriteAt returning (0, err), (n > 0, err), EOF variants, (0, nil); Close failing;
// the handler method itself failing) x every request kind that obtains an object (STAT, LSTAT, FSTAT, READLINK with and
// without ReadlinkFileLister, OPENDIR, OPEN r / w / rw) x 5 session ends; whatever its methods returned, every object
// is closed exactly once, told TransferError exactly when its handle was still open, its context cancelled.
// Families E / O of that part (c11_ends.go): THE WAYS A SESSION ENDS as a dimension of its own — handle population (0..n
// handles of each kind open, some closed before) x {EOF at / inside a frame, the transport's reader failing with 12
// error values at / inside a frame, the application's RequestServer.Close() (idle, handles open, requests in flight, a
// handler running, twice, concurrently, with / after a client EOF, after Serve returned), the transport's writer
// failing, malformed packets}, on the request server (E) and on the os-backed server over a scratch tree (O; "Close"
// is the Close of the transport given to NewServer); Serve's return value and the TransferError value per end in the histogram.
//
// Option dimensions (c11Configs; every value is a field of ssCfg, so replays carry it):
//   - os-backed: ReadOnly() (refusals leave handle table, descriptors and tree alone; the tree must end as
//     it began), WithDebug(recording writer) (the end-of-Serve sweep reports exactly the handles still open,
//     each once, and every file — seen through a counting wrapper — is closed exactly once all the same),
//     working directory = the tree / <tree>/home/u with relative session paths;
//   - request server: WithStartDirectory("/home/u") with absolute and with relative session paths; handler
//     OBJECTS with / without io.Closer and with / without TransferError (type variants built by struct
//     embedding, srvsession_run.go; what a value really implements is read back by type assertion and the
//     expectations follow it: "closed exactly once" only for objects that can be closed, "TransferError
//     exactly when the handle was still open" only for objects that have the method; contexts are checked
//     for all); HANDLERS with / without OpenFileWriter (read-write opens then yield write handles through
//     Filewrite), LstatFileLister, PosixRenameFileCmder, StatVFSFileCmder (self-test by type assertion
//     whenever a server is built: a mismatch is a tie/server-start failure).
//
// Model comparison (srvsession_model.go): every session is also replayed in the executable
// Lean model of the handle table (driver op `c11.run`, extended configuration token `<8 bits>:<kinds>` from
// `c11.cur rs` / `c11.cur os`, i.e. regenerated from the source): status class of every handle request
// (ok / ebadf / wrongkind — READ, WRITE and READDIR are kind-checked uses R: W: D:), handle string of every
// OPEN / OPENDIR (handles=), kind of every object (kinds=, from the object the handler returned resp. how
// the file was opened), per object closed / TransferError (listers included) / context / touched after
// Serve, and the table before the end and after Serve on both servers.  Key c11/c11.run/<rs|os>.
// Requests that do not fit the kind of their live handle are generated deliberately (worn-handle
// sessions: right after the open, single and pipelined; PRNG sessions with WrongKind).
// The option dimensions stay comparable: fields an object cannot show (closed count without Close,
// TransferError count without the method) are left out of the comparison, WRITE / FSETSTAT refused by a
// ReadOnly() server are no table action (like path requests); a configuration the model cannot express
// at all (ssModelInexpressible) is skipped for the model comparison only, bucket model/skip/configuration/….

import (
	"encoding/json"
	"fmt"
	"os"
	"runtime"

	"verifharness/lib"
)

func init() { register("c11", checkC11) }

// c11Cfg is a server configuration and the share of the sessions it meets (1 = all, n = every n-th, rotating).
type c11Cfg struct {
	cfg    ssCfg
	share  int
	sparse bool // thorough: the connection is ended after a PRNG subset of the request indices (as in quick), not after every one
}

const c11Start = "/home/u"

// c11Dims names the option values of a configuration, one histogram bucket per dimension.
func c11Dims(cfg ssCfg) []string {
	k := cfg.Kind
	loc := "absolute-paths"
	switch {
	case cfg.WorkDir && cfg.Start != "":
		loc = "relative-paths-in-" + cfg.Start
	case cfg.WorkDir:
		loc = "relative-paths"
	case cfg.Start != "":
		loc = "absolute-paths+start-directory-" + cfg.Start
	}
	d := []string{k + "/paths=" + loc, fmt.Sprintf("%s/allocator=%v", k, cfg.Alloc)}
	if k == "os" {
		return append(d, fmt.Sprintf("os/ReadOnly=%v", cfg.RO), fmt.Sprintf("os/WithDebug=%v", cfg.Debug))
	}
	d = append(d, fmt.Sprintf("rs/close-error-percent=%d", cfg.CloseErr))
	for _, t := range []string{"closer", "terr", "alt", "openfile", "lstat", "posixrename", "statvfs"} {
		d = append(d, fmt.Sprintf("rs/without-%s=%v", t, cfg.without(t)))
	}
	return d
}

// c11Configs: the eight configurations every session meets, plus the option dimensions.
//
// os-backed server: ReadOnly() x WithDebug(w) x {absolute paths, working directory + relative paths,
// working directory <tree>/home/u + relative paths} x allocator.
// Request server: {default start directory + absolute paths, WithStartDirectory("/") + relative paths,
// WithStartDirectory("/home/u") + absolute paths, WithStartDirectory("/home/u") + relative paths} x allocator x
// handler objects {with Close and TransferError, without Close, without TransferError, without both, and the
// three mixed populations where only every second object lacks them} x handlers {FilePut with / without
// OpenFileWriter} x {FileList with / without LstatFileLister} x {FileCmd with / without PosixRenameFileCmder}
// x {with / without StatVFSFileCmder}, and first-Close errors (25 %, 100 %) on some of them.
//
// quick: the eight base configurations on every session and 13 more (one or two per new option value,
// allocator / path style rotating with the seed), each on every second session; thorough: the eight base
// configurations on every session (ended after every request index) and the full product, each member on a
// rotating share of the sessions (ended after 16 request indices each).
func c11Configs(c *lib.Ctx, thorough bool) []c11Cfg {
	ces := c.Rand.Uint32()
	out := []c11Cfg{}
	seen := map[string]bool{}
	add := func(cfg ssCfg, share int) {
		if k := cfg.String(); !seen[k] {
			seen[k] = true
			out = append(out, c11Cfg{cfg: cfg, share: share, sparse: share > 1})
		}
	}
	for _, cfg := range []ssCfg{{Kind: "os"}, {Kind: "os", Alloc: true}, {Kind: "rs"}, {Kind: "rs", Alloc: true}, {Kind: "os", WorkDir: true}, {Kind: "rs", WorkDir: true},
		{Kind: "rs", CloseErr: 25, CloseErrSeed: ces}, {Kind: "rs", Alloc: true, CloseErr: 100}} {
		add(cfg, 1)
	}
	objVariants := []string{"", "closer", "terr", "closer,terr", "alt,closer", "alt,terr", "alt,closer,terr"}
	join := func(a, b string) string {
		if a == "" || b == "" {
			return a + b
		}
		return a + "," + b
	}
	if !thorough {
		b := func(n uint) bool { return c.Seed>>n&1 == 1 }
		all := "closer,terr,openfile,lstat,posixrename,statvfs"
		for _, cfg := range []ssCfg{
			{Kind: "os", RO: true, Alloc: b(0)},
			{Kind: "os", RO: true, WorkDir: true, Start: c11Start, Alloc: !b(0), Debug: b(1)},
			{Kind: "os", Debug: true, Alloc: b(2)},
			{Kind: "os", Debug: true, WorkDir: true, Alloc: !b(2), Start: []string{"", c11Start}[c.Seed&1]},
			{Kind: "rs", Start: c11Start, WorkDir: true, Alloc: b(1)},
			{Kind: "rs", Start: c11Start, Alloc: !b(1)},
			{Kind: "rs", Without: "closer", Alloc: b(0)},
			{Kind: "rs", Without: "terr", Alloc: !b(0)},
			{Kind: "rs", Without: "closer,terr", WorkDir: b(2)},
			{Kind: "rs", Without: objVariants[4+int(c.Seed&0xffff)%3], CloseErr: 25 + 75*int(c.Seed&1), CloseErrSeed: ces},
			{Kind: "rs", Without: "openfile", Alloc: b(1)},
			{Kind: "rs", Without: "lstat,posixrename,statvfs", Alloc: !b(1), CloseErr: 25, CloseErrSeed: ces},
			{Kind: "rs", Without: all, Start: c11Start, WorkDir: true},
		} {
			add(cfg, 2)
		}
		return out
	}
	var prod []ssCfg
	for _, alloc := range []bool{false, true} {
		for _, ro := range []bool{false, true} {
			for _, dbg := range []bool{false, true} {
				for _, loc := range []ssCfg{{}, {WorkDir: true}, {WorkDir: true, Start: c11Start}} {
					prod = append(prod, ssCfg{Kind: "os", Alloc: alloc, RO: ro, Debug: dbg, WorkDir: loc.WorkDir, Start: loc.Start})
				}
			}
		}
		for _, loc := range []ssCfg{{}, {WorkDir: true}, {Start: c11Start}, {WorkDir: true, Start: c11Start}} {
			for _, ov := range objVariants {
				for hv := 0; hv < 16; hv++ {
					w := ov
					for bit, t := range []string{"openfile", "lstat", "posixrename", "statvfs"} {
						if hv>>bit&1 == 1 {
							w = join(w, t)
						}
					}
					cfg := ssCfg{Kind: "rs", Alloc: alloc, WorkDir: loc.WorkDir, Start: loc.Start, Without: w}
					// first-Close errors where some object can be closed at all: rotating 0 / 25 % / 100 %
					if !cfg.without("closer") || cfg.without("alt") {
						switch (len(prod) + int(c.Seed&0xffff)) % 3 {
						case 1:
							cfg.CloseErr, cfg.CloseErrSeed = 25, ces
						case 2:
							cfg.CloseErr = 100
						}
					}
					prod = append(prod, cfg)
				}
			}
		}
	}
	for _, cfg := range prod {
		add(cfg, c11ThoroughShare)
	}
	return out
}

// every member of the option product meets 1/c11ThoroughShare of the sessions of the thorough tier (3 of
// 132), each ended at 16 request indices (first, last, PRNG) in the 5 ways
const c11ThoroughShare = 44

func checkC11(c *lib.Ctx) {
	r := c.R
	thorough := c.Tier == "thorough"
	r.Rule = "sessions: INIT + PRNG mix of OPEN (r / w+creat / rw, existing and missing files, handler errors), OPENDIR (ok, missing, not a directory), READ/WRITE/FSTAT/FSETSTAT/READDIR on live handles, CLOSE, repeated CLOSE, CLOSE and other requests on never-issued handles (\"999\", \"\", \"abc\", …), use-after-close, path requests; flavours: small, 32 handles opened first, all closed at the end or left open, \"read-only\" (every modifying request kind and OPEN with every combination of write / create / truncate / append / excl / read flags on existing and new names, the handles used and partly closed) and \"worn handle\" (per handle kind r/w/rw/dir: 32 sequential uses so that every pool worker has served it, 16 pipelined, CLOSE, then 16 sequential + 16 pipelined uses of the closed handle, second CLOSE, one more use, 4 pipelined CLOSEs); request-server flavours where 25 % (PRNG) or 100 % of the reader/writer/rw/lister objects fail their first Close; against os-backed Server (absolute paths / working directory) and RequestServer with counting handlers, allocator on and off (these eight configurations meet every session); option dimensions — os-backed: ReadOnly() x WithDebug(recording writer) x {absolute, working directory + relative paths, working directory <tree>/home/u + relative paths} x allocator; request server: {default, WithStartDirectory(\"/\") + relative, WithStartDirectory(\"/home/u\") + absolute, + relative paths} x allocator x handler objects {with / without io.Closer} x {with / without TransferError} (also mixed: only every second object without) x FilePut {with / without OpenFileWriter} x FileList {with / without LstatFileLister} x FileCmd {with / without PosixRenameFileCmder} x {with / without StatVFSFileCmder} (type variants by struct embedding, verified by type assertion when the server is built) x first-Close errors; quick: 13 members of the product (every new option value at least once, allocator / path style rotating with the seed) on every second session, thorough: the whole product, each member on a rotating 1/44 of the sessions (3 of 132) with the connection ended at 16 request indices each. For each session the connection is ended after request index i (quick: first, last and a PRNG subset; thorough: every i) in 5 ways: EOF after the reply, EOF without reading the reply, EOF inside the next packet, transport error, transport error inside the next packet; and, at request indices where handles are open (quick: 4 per (configuration, session), 2 packets each; thorough: all of them with 1 packet each on the base configurations, 6 with 2 packets each on the members of the option product), in a 6th way: a well-FRAMED packet whose BODY does not decode is the last thing the server receives — derived from a valid request of every kind (INIT, the 19 request types, statvfs / posix-rename / hardlink / unknown extended; handle requests name a live handle) by: nothing after the type byte, the frame ending inside each field (id, every string-length word, offset, length, pflags, attribute flags), inside each string, each string length announcing 1 / 4 / 1000 / 2^32-1 bytes more than the frame holds, an attribute block shorter than its flags (OPEN / SETSTAT / FSETSTAT: refused, then EOF), and type bytes that are no request (0, 2, 21, 99, 101-105, 199, 201, 255) — all combinations dealt out round-robin; every fourth in the same write as the last request, whose reply is not read first. The server has to stop by itself (the stream stays open until it did or 3 s passed), and every release oracle applies as for the other ends. Each case runs on a fresh server in a child process; non-trivial when at least one request follows INIT; distinct by (server config, session, cut index, mode, offset)." + ofRule
	base, err := ssMkBase(ssBaseRnd())
	if err != nil {
		r.Fail(lib.Failure{Kind: "tie", Key: "tmpdir", What: err.Error()})
		return
	}
	defer os.RemoveAll(base)
	workers := runtime.NumCPU()
	if workers > 16 {
		workers = 16
	}
	if c.Replay != "" {
		var part ofInput
		if err := lib.ReadReplay(c.Replay, &part); err == nil && part.Part == "objfault" && part.Case != nil {
			checkC11ObjFault(c, part.Case)
			return
		}
		var in ssInput
		if err := lib.ReadReplay(c.Replay, &in); err != nil || in.End == nil {
			r.Fail(lib.Failure{Kind: "tie", Key: "replay", What: fmt.Sprint("bad replay input: ", err)})
			return
		}
		j := &ssPJob{Kind: "c11", Cfg: in.Cfg, Prog: in.Prog, PID: ssProgID(in.Cfg, in.Prog), End: in.End}
		col := &ssCollector{r: r, base: base, jobs: []*ssPJob{j}}
		res := ssRunAlone(base, j)
		res.Prev = -1
		r.Case(fmt.Sprint(j.input()), true)
		col.done(0, j, &res)
		col.confirm(1)
		if mc := newSSModelCmp(c); mc != nil {
			mc.add(j, &res)
			mc.close()
		}
		return
	}

	// part objfault (c11_objfault.go): handler objects whose methods fail, on every request kind that obtains one
	if os.Getenv("VH_C11_PART") != "sessions" {
		checkC11ObjFault(c, nil)
	}
	if os.Getenv("VH_C11_PART") == "objfault" {
		return
	}

	nSmall, nMany, nChurn, nRO, subset := 10, 3, 2, 1, 14
	midOffsAll := 1
	if thorough {
		nSmall, nMany, nChurn, nRO, midOffsAll = 100, 20, 8, 4, 3
	}
	var progs [][]ssStep
	for i := 0; i < nSmall; i++ {
		progs = append(progs, ssGen(c.Rand, ssGenOpts{N: 18 + c.Rand.Intn(10), Stale: true, CloseAll: i%2 == 0, WrongKind: i%3 != 0}))
	}
	for i := 0; i < nMany; i++ {
		progs = append(progs, ssGen(c.Rand, ssGenOpts{N: 24, Stale: true, Many: 32, CloseAll: i%2 == 0, WrongKind: i%2 == 1}))
	}
	for i := 0; i < nChurn; i++ {
		progs = append(progs, ssGenChurn(c.Rand, i%2 == 0))
	}
	// the "read-only" flavour: every modifying request kind and OPEN with every combination of modifying
	// and harmless pflags; it meets every configuration and in particular every ReadOnly() one
	roFrom := len(progs)
	for i := 0; i < nRO; i++ {
		progs = append(progs, ssGenReadOnly(c.Rand, i%2 == 1, 0, 0))
	}
	// close-error flavours: a quarter of the handler objects (PRNG per session run) / every object
	// fails its first Close; the handle must die all the same and the object be closed exactly once
	cfgs := c11Configs(c, thorough)
	{ // the handler / object type variants implement exactly what their configuration says (type assertions)
		var l []ssCfg
		for _, cc := range cfgs {
			l = append(l, cc.cfg)
		}
		bad, n := cntVariantsSelfTest(l)
		r.HistAdd("selftest/interface-variants-verified-by-type-assertion", n)
		for _, b := range bad {
			r.Fail(lib.Failure{Kind: "tie", Key: "tie/interface-variant-selftest", What: b})
		}
		if len(bad) > 0 {
			return
		}
	}
	modes := []string{"eof", "noreply", "mid", "break", "breakmid"}
	var jobs []*ssPJob
	nPairs := 0
	// session END MODE "badpkt": the last thing the server receives is a well-framed packet whose body does
	// not decode — every request kind x every way of failing (srvsession_bad.go).  The combinations are dealt
	// out round-robin (PRNG order) over the (configuration, session, cut) triples, so that a run meets each of
	// them several times, on both servers; cuts are taken where handles are open (static estimate).
	badCombos := ssBadCombos()
	c.Rand.Shuffle(len(badCombos), func(a, b int) { badCombos[a], badCombos[b] = badCombos[b], badCombos[a] })
	badNext := 0
	nBadCuts, nBadPer := 4, 2
	if thorough {
		nBadCuts = 6 // (the base configurations: every cut with open handles, one packet each)
	}
	for pi, p := range progs {
		for _, st := range p {
			r.Hist("op/" + st.Op)
		}
		n := len(p)
		liveEst := ssLiveEstimate(p)
		var allCuts, someCuts []int
		for i := 0; i < n; i++ {
			allCuts = append(allCuts, i)
		}
		{
			seen := map[int]bool{0: true, n - 1: true}
			someCuts = []int{0, n - 1}
			for len(someCuts) < subset+2 && len(someCuts) < n {
				if i := c.Rand.Intn(n); !seen[i] {
					seen[i] = true
					someCuts = append(someCuts, i)
				}
			}
		}
		for ci, cc := range cfgs {
			if (pi+ci+int(c.Seed&0xffff))%cc.share != 0 && !(cc.cfg.RO && pi >= roFrom && (!thorough || pi-roFrom == ci%nRO)) {
				continue // a configuration of the option product meets a rotating share of the sessions (a ReadOnly() one always a read-only flavour)
			}
			cfg := cc.cfg
			nPairs++
			pid := ssProgID(cfg, p)
			cuts, midOffs := someCuts, 1
			if thorough && !cc.sparse {
				cuts, midOffs = allCuts, midOffsAll
			}
			for _, i := range cuts {
				for _, m := range modes {
					if m != "mid" && m != "breakmid" {
						jobs = append(jobs, &ssPJob{Kind: "c11", Cfg: cfg, Prog: p, PID: pid, End: &ssEnd{After: i, Mode: m}})
						continue
					}
					offs := []int{1, 3, 4, 5, 9, 12, 1000} // inside the length word, at the type byte, inside the id, inside a string, all but the last byte
					c.Rand.Shuffle(len(offs), func(a, b int) { offs[a], offs[b] = offs[b], offs[a] })
					for _, o := range offs[:midOffs] {
						jobs = append(jobs, &ssPJob{Kind: "c11", Cfg: cfg, Prog: p, PID: pid, End: &ssEnd{After: i, Mode: m, MidOff: o}})
					}
				}
			}
			// undecodable packets: at cuts with open handles (thorough, base configurations: at every such cut)
			var bcuts []int
			for _, i := range c.Rand.Perm(n) {
				if liveEst[i] > 0 && (len(bcuts) < nBadCuts || (thorough && !cc.sparse)) {
					bcuts = append(bcuts, i)
				}
			}
			if len(bcuts) == 0 {
				bcuts = []int{n - 1}
			}
			per := nBadPer
			if thorough && !cc.sparse {
				per = 1
			}
			for _, i := range bcuts {
				for x := 0; x < per; x++ {
					bc := badCombos[badNext%len(badCombos)]
					badNext++
					jobs = append(jobs, &ssPJob{Kind: "c11", Cfg: cfg, Prog: p, PID: pid, End: &ssEnd{After: i, Mode: "badpkt", Bad: bc.Req, Defect: bc.Defect, Unread: c.Rand.Intn(4) == 0}})
				}
			}
		}
	}
	col := &ssCollector{r: r, base: base, jobs: jobs}
	mc := newSSModelCmp(c)
	nSample := 0
	ssRunPool(base, workers, jobs, func(i int, j *ssPJob, res *ssResult) {
		eb, _ := json.Marshal(j.End)
		r.Case(j.Cfg.String()+" "+j.PID+" "+string(eb), j.End.After >= 1)
		r.Hist("end/" + j.End.Mode)
		r.Hist("cfg/" + j.Cfg.String())
		for _, d := range c11Dims(j.Cfg) {
			r.Hist("option/" + d)
		}
		if nSample < 5 && i%(len(jobs)/5+1) == 0 {
			nSample++
			r.Sample(map[string]any{"cfg": j.Cfg.String(), "session_steps": len(j.Prog), "steps_up_to_cut": j.Prog[max(0, j.End.After-4) : j.End.After+1], "end": j.End})
		}
		col.done(i, j, res)
		mc.add(j, res)
	})
	col.confirm(3)
	mc.close()
	r.Note("sessions=%d configs=%d (configuration, session) pairs=%d cases=%d children=%d; child deaths: %d", len(progs), len(cfgs), nPairs, len(jobs), workers, len(col.crashed))
	if mc == nil {
		r.Skip("model comparison (driver op c11.run): no --model given")
	}
	r.Skip("model comparison, not expressible with the driver op c11.run: INIT and path requests (dropped from the trace: the model has no action for them); a context cancelled more than once (observable only as cancelled / not); the table CONTENTS of the request server (only VerifOpenRequests = its size is exported; the os-backed table is read exactly through VerifSwapFile probes, before the end and after Serve); notification of a placeholder (kind letter p: a failed open's request is out of the table before any sweep, the letter changes nothing in the model either); TransferError / context of os-backed files (they have neither); a zero-length WRITE on an os-backed handle of another kind (WriteAt of no bytes never reaches the descriptor: sent to the model as a use that fits every handle); WRITE / FSETSTAT refused by a ReadOnly() server (refused before the table is consulted: dropped from the trace like path requests, sessions counted in model/compared-without/readonly-refused-handle-requests); the closed / TransferError counts of handler objects that lack the method (nothing to observe: those fields are left out, sessions counted in model/compared-without/closed-count-of-objects-without-Close)")
}
