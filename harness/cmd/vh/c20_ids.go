package main

// C20, family "id": replies whose REQUEST ID matches no outstanding request.
//
// Every other family sends the malformed reply under the id of the request it answers.  Here the frame is complete
// and well-formed — of every reply type: the valid reply and every substituted kind (STATUS x3, HANDLE, DATA, NAME
// x1/x2, ATTRS, EXTENDED_REPLY, VERSION, type 99) — and only its id belongs to nobody:
//
//   foreign       the reply to request #Idx carries another id: id+0x1000, 0, 2^32-1, id+1 (not issued yet, or the id
//                 of a neighbour on the concurrent paths), id-1 (answered already), id+2^31;
//   dup           the reply to request #Idx is delivered TWICE (the second copy finds its request answered);
//   unsol-before  a reply nobody asked for, before the first request of the operation;
//   unsol-after   … after the last reply of the operation (and before the probe).
//
// Oracle as everywhere in C20: the operation returns a value or an error, nothing panics — in particular not the
// background receiver, whose panic no caller can recover: the case runs in a child process —, nothing hangs, and the
// Client is usable afterwards or has failed cleanly (Wait returns, later calls fail at once, Close returns).

import (
	"encoding/binary"

	"verifharness/lib"
)

var c20IDKinds = []string{"+0x1000", "0", "max", "next", "prev", "+2^31"}

func c20Unsolicited(m c20Mut) bool {
	return m.Kind == "id" && (m.How == "unsol-before" || m.How == "unsol-after")
}

// c20IDValue is the id a frame carries instead of id.
func c20IDValue(kind string, id uint32) uint32 {
	switch kind {
	case "0":
		return 0
	case "max":
		return 1<<32 - 1
	case "next":
		return id + 1
	case "prev":
		return id - 1
	case "+2^31":
		return id + 1<<31
	}
	return id + 0x1000
}

// c20ApplyID builds what is sent in place of the valid reply to a request (foreign, dup).
func c20ApplyID(m c20Mut, valid []byte) []byte {
	id := binary.BigEndian.Uint32(valid[5:9])
	b := append([]byte(nil), valid...)
	if m.Base != "valid" && m.Base != "" {
		b = c20Base(m.Base, id)
	}
	switch m.How {
	case "dup":
		return append(b, b...)
	case "foreign":
		binary.BigEndian.PutUint32(b[5:], c20IDValue(m.ID, id))
	}
	return b
}

// c20UnsolicitedFrame builds a reply nobody asked for; last is the id of the last request the peer has seen (0: none).
func c20UnsolicitedFrame(m c20Mut, last uint32) []byte {
	base := m.Base
	if base == "valid" || base == "" {
		base = "status-ok"
	}
	id := c20IDValue(m.ID, last)
	if m.ID == "prev" {
		id = last // the request answered last
	}
	return c20Base(base, id)
}

// c20GenIDs: the id family. Quick rotates the reply types and the ids over the operations, replies and option
// variants (every combination occurs, none is multiplied with the others); thorough takes the product.
func c20GenIDs(c *lib.Ctx, pairs []c20Pair, dry map[string]c20Res) []c20Case {
	var out []c20Case
	rot := c.Rand.Intn(1 << 16)
	for pi, p := range pairs {
		if p.valueOnly {
			continue
		}
		d, ok := dry[cliOpKey(p.op.Name, p.variant)]
		if !ok {
			continue
		}
		nrep := c20Nrep(p.op.Name, d)
		add := func(j int, base, how, id string) {
			out = append(out, c20Case{Op: p.op.Name, Opt: p.variant, Idx: j, Mut: c20Mut{Base: base, Kind: "id", How: how, ID: id}})
		}
		base := func(k int) string { return c20Bases[(rot+k)%len(c20Bases)] }
		idk := func(k int) string { return c20IDKinds[(rot+k)%len(c20IDKinds)] }
		switch p.level {
		case 3:
			for j := 0; j < nrep; j++ {
				for _, b := range append([]string{"valid"}, c20Bases...) {
					for _, k := range c20IDKinds {
						add(j, b, "foreign", k)
					}
					add(j, b, "dup", "")
				}
			}
			for _, b := range c20Bases {
				for _, k := range c20IDKinds {
					add(0, b, "unsol-before", k)
					add(0, b, "unsol-after", k)
				}
			}
		case 2:
			for j := 0; j < nrep; j++ {
				for _, k := range []string{"+0x1000", "0", "max"} {
					add(j, "valid", "foreign", k)
				}
				add(j, "valid", "foreign", c20IDKinds[3+(rot+pi+j)%3])
				add(j, base(pi+5*j), "foreign", idk(pi+j))
				add(j, "valid", "dup", "")
				add(j, base(pi+5*j+1), "dup", "")
			}
			for k := 0; k < 3; k++ {
				add(0, base(pi+4*k), "unsol-before", idk(pi+k))
				add(0, base(pi+4*k+2), "unsol-after", idk(pi+k+3))
			}
		default:
			if nrep == 0 {
				continue
			}
			j := (rot + pi) % nrep
			add(j, "valid", "foreign", idk(pi))
			add((j+1)%nrep, base(pi), "foreign", idk(pi+1))
			add((j+2)%nrep, []string{"valid", base(pi + 1)}[pi%2], "dup", "")
			add(0, base(pi+2), []string{"unsol-before", "unsol-after"}[pi%2], idk(pi+2))
		}
	}
	return out
}
