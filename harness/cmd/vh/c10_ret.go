package main

// C10, second half: "Whatever the handler returns reaches the client unchanged in kind".
//
// A scenario is a short session against a REAL RequestServer whose handlers are scripted step by step:
// every step arms what the handler-interface call (Fileread, Filewrite, OpenFile, Filecmd, PosixRename,
// StatVFS, Filelist, Lstat, Readlink, RealPath) and what the handler-returned object's calls
// (ReadAt, WriteAt, ListAt, Close) return, sends ONE request (raw wire peer, or one call of the real Client),
// and compares the client-visible reply with what the handler was seen to return.
// The set of optional handler interfaces is a scenario parameter (types composed by embedding).
// Scenarios run in child processes (`vh child c10ret`): a panic in a server goroutine is an observation.

import (
	"encoding/json"
	"errors"
	"fmt"
	"io"
	"os"
	"sync"
	"syscall"
	"time"

	"github.com/pkg/sftp"
)

func init() { children["c10ret"] = func([]string) { cliChildLoop(false, c10rChild) } }

// ---------- scenario description (JSON-able, replayable) ----------

type c10rCfg struct {
	OpenFW      bool   `json:"open_file_writer,omitempty"`
	Lstat       bool   `json:"lstat_lister,omitempty"`
	RealPath    int    `json:"realpath_lister,omitempty"` // 0 absent, 1 RealPathFileLister, 2 legacy (no error result)
	Readlink    bool   `json:"readlink_lister,omitempty"`
	NameLookup  bool   `json:"name_lookup_lister,omitempty"`
	PosixRename bool   `json:"posix_rename_cmder,omitempty"`
	StatVFS     bool   `json:"statvfs_cmder,omitempty"`
	Obj         int    `json:"object_ifaces,omitempty"` // bit 0: io.Closer, bit 1: TransferError on readers/writers/listers
	Alloc       bool   `json:"allocator,omitempty"`
	MaxTx       uint32 `json:"max_tx_packet,omitempty"` // 0 = default
	Start       string `json:"start_dir,omitempty"`     // "" = option not given
	CliMaxPkt   int    `json:"client_max_packet,omitempty"`
}

// c10rRet is what one handler call returns.
type c10rRet struct {
	Err   string `json:"err,omitempty"`   // error term of c10Errors ("" = nil)
	N     string `json:"n,omitempty"`     // ReadAt/WriteAt count relative to len(p): full (default) allbut1 half one zero
	Count int    `json:"count,omitempty"` // ListAt: entries the lister still has (it returns min(Count, len(buf)))
	Str   string `json:"str,omitempty"`   // hex: Readlink / RealPath result
	Salt  int    `json:"salt,omitempty"`  // varies data patterns, names, statvfs values
	Info  int    `json:"info,omitempty"`  // FileInfo flavour: 0 plain, 1 FileInfoUidGid, 2 FileInfoExtendedData, 3 Sys()=*syscall.Stat_t
	Names int    `json:"names,omitempty"` // 0 plain names, 1 hostile names (".", "..", slashes, non-UTF-8; raw only), 2 odd but slash-free
}

type c10rStep struct {
	Op     string    `json:"op"`
	Slot   int       `json:"slot,omitempty"`
	P      string    `json:"path,omitempty"`  // hex
	P2     string    `json:"path2,omitempty"` // hex
	Pflags uint32    `json:"pflags,omitempty"`
	AFlags uint32    `json:"aflags,omitempty"`
	Attrs  string    `json:"attrs,omitempty"` // hex of the attribute bytes after the flags word
	Off    uint64    `json:"off,omitempty"`
	Len    uint32    `json:"len,omitempty"`
	Salt   int       `json:"salt,omitempty"`
	HRet   c10rRet   `json:"hret"`           // handler-interface call
	ORet   []c10rRet `json:"oret,omitempty"` // ReadAt / WriteAt / ListAt calls, in order; beyond: (0, io.EOF)
	CRet   c10rRet   `json:"cret"`           // Close() of the handler-returned object
}

type c10rScn struct {
	Sect  string     `json:"sect"` // "ret"
	Via   string     `json:"via"`  // raw | client
	Cfg   c10rCfg    `json:"cfg"`
	Steps []c10rStep `json:"steps"`
	Name  string     `json:"name,omitempty"`
}

// ---------- error terms ----------

// c10rWireTerm: can the term be returned where a reply is awaited? Excluded: terms whose accepted kind includes
// "ok" although an error was returned (status code 0 as an error asks for a success reply without a value, see the
// note in checkC10), and *StatusError{EOF}, whose two accepted readings (eof / failure) end composite client
// operations differently.
func c10rWireTerm(e c10ErrCase) bool {
	if e.Err == nil || c10KindHas(e.Kind, "ok") {
		return false
	}
	return !(e.Basis == "dev" && c10KindHas(e.Kind, "eof"))
}

// c10rTerms lists the error terms handlers return here, up to the given level of the product
// (0: bare and one of P/L/S/W; 1: + custom Unwrap, errors.Join; 2: + two wrappers).
func c10rTerms(level int) []string {
	var out []string
	for _, e := range c10Errors() {
		if e.Level <= level && c10rWireTerm(e) {
			out = append(out, e.Term)
		}
	}
	return out
}

func c10rErr(term string) (error, string) {
	if term == "" || term == "NIL" {
		return nil, "ok"
	}
	e := c10Lookup(term)
	return e.Err, e.Kind
}

// ---------- what the handlers saw and gave ----------

type c10rEnt struct {
	Name  string      `json:"name"` // hex
	Size  uint64      `json:"size"`
	Mode  uint32      `json:"mode"` // wire mode (type bits + permission bits)
	Mtime uint32      `json:"mtime"`
	HasID bool        `json:"has_id,omitempty"`
	UID   uint32      `json:"uid,omitempty"`
	GID   uint32      `json:"gid,omitempty"`
	Ext   [][2]string `json:"ext,omitempty"`
}

type c10rCall struct {
	Fn       string    `json:"fn"`
	Method   string    `json:"method,omitempty"`
	Filepath string    `json:"filepath,omitempty"` // hex
	Target   string    `json:"target,omitempty"`   // hex
	Flags    uint32    `json:"flags,omitempty"`
	Attrs    string    `json:"attrs,omitempty"`
	Arg      string    `json:"arg,omitempty"` // hex (Readlink / RealPath argument)
	Off      int64     `json:"off,omitempty"`
	Len      int       `json:"len,omitempty"` // len(p) / len(buf)
	N        int       `json:"n,omitempty"`
	Err      string    `json:"err,omitempty"`
	Ents     []c10rEnt `json:"ents,omitempty"`
	data     []byte    // bytes given (ReadAt) / received (WriteAt)
}

type c10rCore struct {
	mu    sync.Mutex
	st    c10rStep
	ocall int
	calls []c10rCall
	obj   int
	xfer  int
}

func (c *c10rCore) arm(st c10rStep) {
	c.mu.Lock()
	c.st, c.ocall, c.calls = st, 0, nil
	c.mu.Unlock()
}
func (c *c10rCore) take() []c10rCall {
	c.mu.Lock()
	defer c.mu.Unlock()
	l := c.calls
	c.calls = nil
	return l
}
func (c *c10rCore) add(call c10rCall) {
	c.mu.Lock()
	c.calls = append(c.calls, call)
	c.mu.Unlock()
}
func (c *c10rCore) hcall(fn string, r *sftp.Request) c10rRet {
	c.mu.Lock()
	defer c.mu.Unlock()
	c.calls = append(c.calls, c10rCall{Fn: fn, Method: r.Method, Filepath: lib10Hex(r.Filepath), Target: lib10Hex(r.Target), Flags: r.Flags, Attrs: lib10HexB(r.Attrs), Err: c.st.HRet.Err})
	return c.st.HRet
}
func (c *c10rCore) nextO() c10rRet {
	c.mu.Lock()
	defer c.mu.Unlock()
	i := c.ocall
	c.ocall++
	if i < len(c.st.ORet) {
		return c.st.ORet[i]
	}
	return c10rRet{Err: "EOF", N: "zero"}
}

func c10rNOf(mode string, l int) int {
	switch mode {
	case "allbut1":
		return max(l-1, 0)
	case "half":
		return l / 2
	case "one":
		return min(1, l)
	case "zero":
		return 0
	}
	return l
}

func c10rPattern(p []byte, off int64, salt int) {
	x := uint32(off)*2654435761 + uint32(salt)*40503 + 17
	for i := range p {
		x = x*1664525 + 1013904223
		p[i] = byte(x >> 24)
	}
}

// ---------- handler-returned objects (mixins, composed by embedding) ----------

type c10rRd struct{ c *c10rCore }
type c10rWr struct{ c *c10rCore }
type c10rLs struct{ c *c10rCore }
type c10rCl struct{ c *c10rCore }
type c10rTE struct{ c *c10rCore }

func (o c10rRd) ReadAt(p []byte, off int64) (int, error) {
	ret := o.c.nextO()
	n := c10rNOf(ret.N, len(p))
	c10rPattern(p[:n], off, ret.Salt)
	// io.ReaderAt: "even if ReadAt returns n < len(p), it may use all of p as scratch space during the call"
	for i := n; i < len(p); i++ {
		p[i] = 0xEE ^ byte(i)
	}
	err, _ := c10rErr(ret.Err)
	o.c.add(c10rCall{Fn: "ReadAt", Off: off, Len: len(p), N: n, Err: ret.Err, data: append([]byte(nil), p[:n]...)})
	return n, err
}
func (o c10rWr) WriteAt(p []byte, off int64) (int, error) {
	ret := o.c.nextO()
	n := c10rNOf(ret.N, len(p))
	err, _ := c10rErr(ret.Err)
	o.c.add(c10rCall{Fn: "WriteAt", Off: off, Len: len(p), N: n, Err: ret.Err, data: append([]byte(nil), p...)})
	return n, err
}
func (o c10rLs) ListAt(ls []os.FileInfo, off int64) (int, error) {
	ret := o.c.nextO()
	n := min(ret.Count, len(ls))
	var ents []c10rEnt
	for i := 0; i < n; i++ {
		fi, e := c10rMkInfo(ret, int(off)+i)
		ls[i] = fi
		ents = append(ents, e)
	}
	err, _ := c10rErr(ret.Err)
	o.c.add(c10rCall{Fn: "ListAt", Off: off, Len: len(ls), N: n, Err: ret.Err, Ents: ents})
	return n, err
}
func (o c10rCl) Close() error {
	o.c.mu.Lock()
	ret := o.c.st.CRet
	o.c.calls = append(o.c.calls, c10rCall{Fn: "Close", Err: ret.Err})
	o.c.mu.Unlock()
	err, _ := c10rErr(ret.Err)
	return err
}
func (o c10rTE) TransferError(error) {
	o.c.mu.Lock()
	o.c.xfer++
	o.c.mu.Unlock()
}

func c10rReader(c *c10rCore) io.ReaderAt {
	rd, cl, te := c10rRd{c}, c10rCl{c}, c10rTE{c}
	switch c.obj & 3 {
	case 1:
		return struct {
			c10rRd
			c10rCl
		}{rd, cl}
	case 2:
		return struct {
			c10rRd
			c10rTE
		}{rd, te}
	case 3:
		return struct {
			c10rRd
			c10rCl
			c10rTE
		}{rd, cl, te}
	}
	return rd
}
func c10rWriter(c *c10rCore) io.WriterAt {
	wr, cl, te := c10rWr{c}, c10rCl{c}, c10rTE{c}
	switch c.obj & 3 {
	case 1:
		return struct {
			c10rWr
			c10rCl
		}{wr, cl}
	case 2:
		return struct {
			c10rWr
			c10rTE
		}{wr, te}
	case 3:
		return struct {
			c10rWr
			c10rCl
			c10rTE
		}{wr, cl, te}
	}
	return wr
}
func c10rRW(c *c10rCore) sftp.WriterAtReaderAt {
	rd, wr, cl, te := c10rRd{c}, c10rWr{c}, c10rCl{c}, c10rTE{c}
	switch c.obj & 3 {
	case 1:
		return struct {
			c10rRd
			c10rWr
			c10rCl
		}{rd, wr, cl}
	case 2:
		return struct {
			c10rRd
			c10rWr
			c10rTE
		}{rd, wr, te}
	case 3:
		return struct {
			c10rRd
			c10rWr
			c10rCl
			c10rTE
		}{rd, wr, cl, te}
	}
	return struct {
		c10rRd
		c10rWr
	}{rd, wr}
}
func c10rListerAt(c *c10rCore) sftp.ListerAt {
	ls, cl := c10rLs{c}, c10rCl{c}
	if c.obj&1 != 0 {
		return struct {
			c10rLs
			c10rCl
		}{ls, cl}
	}
	return ls
}

// ---------- FileInfo flavours ----------

type c10rFI struct {
	name  string
	size  int64
	mode  os.FileMode
	mtime int64
	sys   any
}

func (f c10rFI) Name() string       { return f.name }
func (f c10rFI) Size() int64        { return f.size }
func (f c10rFI) Mode() os.FileMode  { return f.mode }
func (f c10rFI) ModTime() time.Time { return time.Unix(f.mtime, 0) }
func (f c10rFI) IsDir() bool        { return f.mode.IsDir() }
func (f c10rFI) Sys() any           { return f.sys }

type c10rFIid struct {
	c10rFI
	uid, gid uint32
}

func (f c10rFIid) Uid() uint32 { return f.uid }
func (f c10rFIid) Gid() uint32 { return f.gid }

type c10rFIext struct {
	c10rFI
	ext []sftp.StatExtended
}

func (f c10rFIext) Extended() []sftp.StatExtended { return f.ext }

func c10rMkInfo(ret c10rRet, i int) (os.FileInfo, c10rEnt) {
	k := ret.Salt*131 + i
	name := fmt.Sprintf("e%d_%d", ret.Salt, i)
	switch ret.Names {
	case 1:
		name = []string{".", "..", "a/b", "/abs", "sp ace", "\xff\xfe" + name, "", "trail/", name}[k%9]
	case 2:
		name = []string{"sp ace " + name, "\xff\xfe" + name, "ünï" + name, "-" + name, name}[k%5]
	}
	fi := c10rFI{name: name, size: int64(k)*7919 + 1, mtime: 1_000_000_000 + int64(k)*3}
	var wmode uint32
	switch k % 3 {
	case 0:
		fi.mode, wmode = 0o640, 0o100640
	case 1:
		fi.mode, wmode = os.ModeDir|0o751, 0o040751
	default:
		fi.mode, wmode = os.ModeSymlink|0o777, 0o120777
	}
	if k%7 == 6 {
		fi.size = 1<<40 + int64(k)
	}
	e := c10rEnt{Name: lib10Hex(name), Size: uint64(fi.size), Mode: wmode, Mtime: uint32(fi.mtime)}
	switch ret.Info {
	case 1:
		e.HasID, e.UID, e.GID = true, uint32(1000+k), uint32(2000+k)
		return c10rFIid{fi, e.UID, e.GID}, e
	case 2:
		e.Ext = [][2]string{{"x@verif", fmt.Sprint("v", k)}, {"y@verif", ""}}
		return c10rFIext{fi, []sftp.StatExtended{{ExtType: "x@verif", ExtData: fmt.Sprint("v", k)}, {ExtType: "y@verif", ExtData: ""}}}, e
	case 3:
		e.HasID, e.UID, e.GID = true, uint32(3000+k), uint32(4000+k)
		fi.sys = &syscall.Stat_t{Uid: e.UID, Gid: e.GID}
		return fi, e
	}
	return fi, e
}

func c10rVFS(salt int) [11]uint64 {
	var v [11]uint64
	for i := range v {
		v[i] = uint64(salt)*1000003 + uint64(i)<<33 + uint64(i) + 1
	}
	return v
}

// ---------- handlers (mixins) ----------

type c10rGet struct{ c *c10rCore }
type c10rPut struct{ c *c10rCore }
type c10rOFW struct{ c *c10rCore }
type c10rCmd struct{ c *c10rCore }
type c10rPR struct{ c *c10rCore }
type c10rSV struct{ c *c10rCore }
type c10rLst struct{ c *c10rCore }
type c10rLstat struct{ c *c10rCore }
type c10rRP struct{ c *c10rCore }
type c10rRPold struct{ c *c10rCore }
type c10rRL struct{ c *c10rCore }
type c10rNL struct{ c *c10rCore }

func (h c10rGet) Fileread(r *sftp.Request) (io.ReaderAt, error) {
	if err, _ := c10rErr(h.c.hcall("Fileread", r).Err); err != nil {
		return nil, err
	}
	return c10rReader(h.c), nil
}
func (h c10rPut) Filewrite(r *sftp.Request) (io.WriterAt, error) {
	if err, _ := c10rErr(h.c.hcall("Filewrite", r).Err); err != nil {
		return nil, err
	}
	return c10rWriter(h.c), nil
}
func (h c10rOFW) OpenFile(r *sftp.Request) (sftp.WriterAtReaderAt, error) {
	if err, _ := c10rErr(h.c.hcall("OpenFile", r).Err); err != nil {
		return nil, err
	}
	return c10rRW(h.c), nil
}
func (h c10rCmd) Filecmd(r *sftp.Request) error {
	err, _ := c10rErr(h.c.hcall("Filecmd", r).Err)
	return err
}
func (h c10rPR) PosixRename(r *sftp.Request) error {
	err, _ := c10rErr(h.c.hcall("PosixRename", r).Err)
	return err
}
func (h c10rSV) StatVFS(r *sftp.Request) (*sftp.StatVFS, error) {
	ret := h.c.hcall("StatVFS", r)
	if err, _ := c10rErr(ret.Err); err != nil {
		return nil, err
	}
	v := c10rVFS(ret.Salt)
	return &sftp.StatVFS{Bsize: v[0], Frsize: v[1], Blocks: v[2], Bfree: v[3], Bavail: v[4], Files: v[5], Ffree: v[6], Favail: v[7], Fsid: v[8], Flag: v[9], Namemax: v[10]}, nil
}
func (h c10rLst) Filelist(r *sftp.Request) (sftp.ListerAt, error) {
	if err, _ := c10rErr(h.c.hcall("Filelist", r).Err); err != nil {
		return nil, err
	}
	return c10rListerAt(h.c), nil
}
func (h c10rLstat) Lstat(r *sftp.Request) (sftp.ListerAt, error) {
	if err, _ := c10rErr(h.c.hcall("Lstat", r).Err); err != nil {
		return nil, err
	}
	return c10rListerAt(h.c), nil
}
func (h c10rRP) RealPath(p string) (string, error) {
	h.c.mu.Lock()
	ret := h.c.st.HRet
	h.c.calls = append(h.c.calls, c10rCall{Fn: "RealPath", Arg: lib10Hex(p), Err: ret.Err})
	h.c.mu.Unlock()
	if err, _ := c10rErr(ret.Err); err != nil {
		return "", err
	}
	return lib10UnHex(ret.Str), nil
}
func (h c10rRPold) RealPath(p string) string {
	h.c.mu.Lock()
	ret := h.c.st.HRet
	h.c.calls = append(h.c.calls, c10rCall{Fn: "RealPath", Arg: lib10Hex(p)})
	h.c.mu.Unlock()
	return lib10UnHex(ret.Str)
}
func (h c10rRL) Readlink(p string) (string, error) {
	h.c.mu.Lock()
	ret := h.c.st.HRet
	h.c.calls = append(h.c.calls, c10rCall{Fn: "Readlink", Arg: lib10Hex(p), Err: ret.Err})
	h.c.mu.Unlock()
	if err, _ := c10rErr(ret.Err); err != nil {
		return "", err
	}
	return lib10UnHex(ret.Str), nil
}
func (h c10rNL) LookupUserName(s string) string  { return "user" + s }
func (h c10rNL) LookupGroupName(s string) string { return "group" + s }

var errC10rCfg = errors.New("c10ret: optional-interface combination not available")

func c10rHandlers(c *c10rCore, cfg c10rCfg) (sftp.Handlers, error) {
	var h sftp.Handlers
	h.FileGet = c10rGet{c}
	put, ofw := c10rPut{c}, c10rOFW{c}
	if cfg.OpenFW {
		h.FilePut = struct {
			c10rPut
			c10rOFW
		}{put, ofw}
	} else {
		h.FilePut = put
	}
	cmd, pr, sv := c10rCmd{c}, c10rPR{c}, c10rSV{c}
	switch {
	case cfg.PosixRename && cfg.StatVFS:
		h.FileCmd = struct {
			c10rCmd
			c10rPR
			c10rSV
		}{cmd, pr, sv}
	case cfg.PosixRename:
		h.FileCmd = struct {
			c10rCmd
			c10rPR
		}{cmd, pr}
	case cfg.StatVFS:
		h.FileCmd = struct {
			c10rCmd
			c10rSV
		}{cmd, sv}
	default:
		h.FileCmd = cmd
	}
	b, ls, rn, ro, rl, nl := c10rLst{c}, c10rLstat{c}, c10rRP{c}, c10rRPold{c}, c10rRL{c}, c10rNL{c}
	key := fmt.Sprintf("%t/%d/%t/%t", cfg.Lstat, cfg.RealPath, cfg.Readlink, cfg.NameLookup)
	switch key {
	case "false/0/false/false":
		h.FileList = b
	case "true/0/false/false":
		h.FileList = struct {
			c10rLst
			c10rLstat
		}{b, ls}
	case "false/1/false/false":
		h.FileList = struct {
			c10rLst
			c10rRP
		}{b, rn}
	case "false/2/false/false":
		h.FileList = struct {
			c10rLst
			c10rRPold
		}{b, ro}
	case "false/0/true/false":
		h.FileList = struct {
			c10rLst
			c10rRL
		}{b, rl}
	case "true/1/false/false":
		h.FileList = struct {
			c10rLst
			c10rLstat
			c10rRP
		}{b, ls, rn}
	case "true/2/false/false":
		h.FileList = struct {
			c10rLst
			c10rLstat
			c10rRPold
		}{b, ls, ro}
	case "true/0/true/false":
		h.FileList = struct {
			c10rLst
			c10rLstat
			c10rRL
		}{b, ls, rl}
	case "false/1/true/false":
		h.FileList = struct {
			c10rLst
			c10rRP
			c10rRL
		}{b, rn, rl}
	case "false/2/true/false":
		h.FileList = struct {
			c10rLst
			c10rRPold
			c10rRL
		}{b, ro, rl}
	case "true/1/true/false":
		h.FileList = struct {
			c10rLst
			c10rLstat
			c10rRP
			c10rRL
		}{b, ls, rn, rl}
	case "true/2/true/false":
		h.FileList = struct {
			c10rLst
			c10rLstat
			c10rRPold
			c10rRL
		}{b, ls, ro, rl}
	case "false/0/false/true":
		h.FileList = struct {
			c10rLst
			c10rNL
		}{b, nl}
	case "true/1/true/true":
		h.FileList = struct {
			c10rLst
			c10rLstat
			c10rRP
			c10rRL
			c10rNL
		}{b, ls, rn, rl, nl}
	default:
		return h, errC10rCfg
	}
	// self-check: the composed types implement exactly the optional interfaces the configuration names
	_, isOFW := h.FilePut.(sftp.OpenFileWriter)
	_, isPR := h.FileCmd.(sftp.PosixRenameFileCmder)
	_, isSV := h.FileCmd.(sftp.StatVFSFileCmder)
	_, isLs := h.FileList.(sftp.LstatFileLister)
	_, isRP := h.FileList.(sftp.RealPathFileLister)
	_, isRPold := h.FileList.(interface{ RealPath(string) string })
	_, isRL := h.FileList.(sftp.ReadlinkFileLister)
	_, isNL := h.FileList.(sftp.NameLookupFileLister)
	if isOFW != cfg.OpenFW || isPR != cfg.PosixRename || isSV != cfg.StatVFS || isLs != cfg.Lstat || isRP != (cfg.RealPath == 1) ||
		isRPold != (cfg.RealPath == 2) || isRL != cfg.Readlink || isNL != cfg.NameLookup {
		return h, fmt.Errorf("c10ret: composed handler types do not match the configuration %+v", cfg)
	}
	return h, nil
}

func lib10Hex(s string) string  { return lib10HexB([]byte(s)) }
func lib10HexB(b []byte) string { return fmt.Sprintf("%x", b) }
func lib10UnHex(s string) string {
	var b []byte
	fmt.Sscanf(s, "%x", &b)
	return string(b)
}

var _ = json.Marshal
