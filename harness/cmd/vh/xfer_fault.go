package main

// Handler-side failures of the request server: the backend behind the in-memory handlers (xfMemFS) breaks at a chosen
// byte offset of the served file, with a chosen error VALUE, optionally after having moved the bytes below that offset
// ((n > 0, err) results). C01 says what the client may report then: a nil error only for a complete transfer, io.EOF
// only at the true end of the file, otherwise an error and a count that covers only bytes that really moved.

import (
	"bytes"
	"errors"
	"fmt"
	"io"
	"io/fs"
	"math/rand"
	"os"
	"syscall"

	"github.com/pkg/sftp"
)

// xfHFault: a ReadAt (Op "read") / WriteAt (Op "write") of the handler that touches bytes at or beyond At moves only
// the bytes below At (Partial) or nothing, and returns the error Err names.
type xfHFault struct {
	Op      string `json:"op"`
	At      int64  `json:"at"`
	Err     string `json:"err"`
	Partial bool   `json:"partial,omitempty"`
	// a second fault further out (C13: "the error is the one belonging to the lowest failing offset"): a ReadAt / WriteAt
	// that STARTS at or beyond At2 (> At) moves nothing and returns the error Err2 names (another value than Err)
	At2  int64  `json:"at2,omitempty"`
	Err2 string `json:"err2,omitempty"`
	// Span > 0: only the bytes [At, At+Span) are out of reach (a bad sector, a lost object of a chunked store): a request
	// that lies wholly beyond them is served. 0: everything from At on.
	Span int64 `json:"span,omitempty"`
}

// touches: a request for [off, off+n) meets the fault.
func (f xfHFault) touches(off int64, n int) bool {
	return n > 0 && off+int64(n) > f.At && (f.Span <= 0 || off < f.At+f.Span)
}

func (f xfHFault) String() string {
	t := fmt.Sprintf("%s@%d=%s/p%d", f.Op, f.At, f.Err, xfB(f.Partial))
	if f.Err2 != "" {
		t += fmt.Sprintf("+@%d=%s", f.At2, f.Err2)
	}
	if f.Span > 0 {
		t += fmt.Sprintf("/span%d", f.Span)
	}
	return t
}

type xfBackendErr struct{ msg string }

func (e *xfBackendErr) Error() string { return e.msg }

// xfTimeoutErr is a custom error type with methods, the way network back ends report.
type xfTimeoutErr struct{}

func (xfTimeoutErr) Error() string   { return "backend: i/o timeout" }
func (xfTimeoutErr) Timeout() bool   { return true }
func (xfTimeoutErr) Temporary() bool { return true }

type xfHErrKind struct {
	Name string
	Err  error
	// EOF: for a READ this value is the io.ReaderAt way of saying "the file ends here" (exactly io.EOF): the handler then
	// behaves like a file truncated at At (the bytes below At are delivered, xfHFault.Partial is implied).
	EOF bool
	// WriteOnly: used for failing WRITEs only. (For a READ the request server drops the n > 0 bytes a ReadAt returns
	// together with an error other than the bare io.EOF, so "the file ends at At" cannot be said with these values
	// independently of the chunk plan.)
	WriteOnly bool
}

// xfHandlerErrs are the error values a handler's ReadAt / WriteAt fails with.
var xfHandlerErrs = []xfHErrKind{
	{Name: "io.EOF", Err: io.EOF, EOF: true},
	{Name: "io.ErrUnexpectedEOF", Err: io.ErrUnexpectedEOF},
	{Name: "wrapped(io.ErrUnexpectedEOF)", Err: fmt.Errorf("read object: %w", io.ErrUnexpectedEOF)},
	{Name: "os.ErrNotExist", Err: os.ErrNotExist},
	{Name: "os.ErrPermission", Err: os.ErrPermission},
	{Name: "errno(EIO)", Err: syscall.EIO},
	{Name: "PathError(io.ErrUnexpectedEOF)", Err: &os.PathError{Op: "read", Path: "/backend/f", Err: io.ErrUnexpectedEOF}},
	{Name: "errno(ENOSPC)", Err: syscall.ENOSPC},
	{Name: "custom", Err: errors.New("backend went away")},
	{Name: "PathError(ENOENT)", Err: &os.PathError{Op: "read", Path: "/backend/f", Err: syscall.ENOENT}},
	{Name: "sftp.ErrSSHFxEOF", Err: sftp.ErrSSHFxEOF, WriteOnly: true},
	{Name: "wrapped(io.EOF)", Err: fmt.Errorf("backend: %w", io.EOF), WriteOnly: true},
	{Name: "errno(ENOENT)", Err: syscall.ENOENT},
	{Name: "PathError(EACCES)", Err: &os.PathError{Op: "write", Path: "/backend/f", Err: syscall.EACCES}},
	{Name: "custom-type", Err: &xfBackendErr{"object store: connection reset"}},
	{Name: "errno(EBADF)", Err: syscall.EBADF},
	{Name: "io.ErrClosedPipe", Err: io.ErrClosedPipe},
	{Name: "wrapped(os.ErrNotExist)", Err: fmt.Errorf("open chunk 7: %w", os.ErrNotExist)},
	{Name: "io.ErrShortWrite", Err: io.ErrShortWrite},
	{Name: "timeout", Err: xfTimeoutErr{}},
	{Name: "PathError(os.ErrPermission)", Err: &os.PathError{Op: "write", Path: "/backend/f", Err: os.ErrPermission}},
	{Name: "errno(EDQUOT)", Err: syscall.EDQUOT},
	{Name: "sftp.ErrSSHFxFailure", Err: sftp.ErrSSHFxFailure},
	{Name: "fs.ErrClosed", Err: fs.ErrClosed},
	{Name: "sftp.ErrSSHFxOpUnsupported", Err: sftp.ErrSSHFxOpUnsupported},
	{Name: "errno(EINVAL)", Err: syscall.EINVAL},
	{Name: "PathError(custom)", Err: &os.PathError{Op: "pread", Path: "/backend/f", Err: errors.New("stale file handle")}},
	{Name: "sftp.ErrSSHFxConnectionLost", Err: sftp.ErrSSHFxConnectionLost},
	{Name: "joined(io.ErrUnexpectedEOF)", Err: errors.Join(errors.New("gzip member truncated"), io.ErrUnexpectedEOF)},
}

func xfHErrByName(name string) (xfHErrKind, bool) {
	for _, k := range xfHandlerErrs {
		if k.Name == name {
			return k, true
		}
	}
	return xfHErrKind{}, false
}

// SetFault installs (nil: removes) the backend fault and clears the account of stored writes.
func (m *xfMemFS) SetFault(f *xfHFault) error {
	m.mu.Lock()
	defer m.mu.Unlock()
	m.fault, m.faultErr, m.faultErr2, m.faultHit = nil, nil, nil, 0
	if f == nil {
		return nil
	}
	k, ok := xfHErrByName(f.Err)
	if !ok || (f.Op != "read" && f.Op != "write") {
		return fmt.Errorf("unknown handler fault %+v", *f)
	}
	var e2 error
	if f.Err2 != "" {
		k2, ok := xfHErrByName(f.Err2)
		if !ok || f.At2 <= f.At {
			return fmt.Errorf("unknown second handler fault %+v", *f)
		}
		e2 = k2.Err
	}
	c := *f
	m.fault, m.faultErr, m.faultErr2, m.applied = &c, k.Err, e2, nil
	return nil
}

// FaultHits is the number of handler calls that met the fault since SetFault.
func (m *xfMemFS) FaultHits() int { m.mu.Lock(); defer m.mu.Unlock(); return m.faultHit }

// xfFaultReached tells whether the transfer must meet the fault: some request of it touches bytes at or beyond At.
func xfFaultReached(cs xfCase) bool {
	ft := cs.HFault
	if ft == nil {
		return false
	}
	switch {
	case cs.API == "WriteTo":
		return ft.Op == "read" && (ft.Span <= 0 || cs.Off < ft.At+ft.Span) // it reads until the server says end of file
	case cs.IsRead():
		return ft.Op == "read" && ft.touches(cs.Off, cs.Len)
	}
	return ft.Op == "write" && ft.touches(cs.Off, cs.Len)
}

// xfC01FaultCheck is the oracle of a transfer whose handler fails at HFault.At (the caller has made sure that the
// fault is reached; the transfer is through a read-write or read-only open that succeeded).
func xfC01FaultCheck(cs xfCase, out xfOutcome, fail xfFailer) {
	ft := *cs.HFault
	kind, _ := xfHErrByName(ft.Err)
	S, o, L := int64(cs.FileLen), cs.Off, int64(cs.Len)
	initial := xfFilePat(cs.FileLen)
	got := fmt.Sprintf("(%d, %v)", out.N, out.Err)
	implicit := cs.API != "ReadAt" && cs.API != "WriteAt"
	site := "handler-fault/" + ft.Op + "/"
	if cs.IsRead() {
		// what can have been delivered: the bytes of the file below At, from the start offset on
		end := min(S, ft.At)
		avail := max(end-o, 0)
		if cs.API != "WriteTo" {
			avail = min(avail, L)
		}
		if !bytes.Equal(out.FileAfter, initial) {
			fail("file-changed", "a read changed the served file", xfShort(initial), xfShort(out.FileAfter))
		}
		if out.N < 0 || out.N > avail {
			fail(site+"count-beyond-delivered", fmt.Sprintf("the handler's backend delivers nothing at or beyond offset %d (%s), yet the count covers more than the %d bytes below it", ft.At, ft.Err, avail),
				fmt.Sprintf("n <= %d", avail), got)
			return
		}
		if want := xfSlice(initial, o, int(out.N)); !bytes.Equal(out.Data, want) {
			fail(site+"data", fmt.Sprintf("the n bytes delivered are not the file's bytes [off, off+n) (first difference at %d)", xfFirstDiff(out.Data, want)), xfShort(want), xfShort(out.Data))
		}
		if kind.EOF {
			// the handler says: the file ends at At. The transfer is that of a file of min(S, At) bytes.
			wantErr := error(nil)
			if cs.API != "WriteTo" && avail < L {
				wantErr = io.EOF
			}
			if out.N != avail || out.Err != wantErr {
				fail(site+"eof-value/count-error", fmt.Sprintf("the handler ends the file at offset %d with %s: the transfer must be that of a file of %d bytes", ft.At, ft.Err, end),
					fmt.Sprintf("(%d, %v)", avail, wantErr), got)
			}
		} else {
			// every byte at or beyond At is missing: no request for it was served
			switch {
			case out.Err == nil:
				fail(site+"nil-error-truncated", fmt.Sprintf("the handler's ReadAt failed with %s at offset %d of a %d-byte file, the transfer returned a nil error: a truncated result passes for a complete one", ft.Err, ft.At, S),
					"a non-nil error (the whole request was not transferred)", got)
			case out.Err == io.EOF:
				fail(site+"eof-before-end-of-file", fmt.Sprintf("the handler's ReadAt failed with %s at offset %d, the client reports io.EOF at offset %d of a %d-byte file: a backend failure passes for the end of the file", ft.Err, ft.At, o+out.N, S),
					"an error other than io.EOF", got)
			}
		}
		wantOff := int64(0)
		if implicit {
			wantOff = o + out.N
		}
		if out.OffErr != nil || out.OffAfter != wantOff {
			fail(site+"offset", "File offset after the failed read is not start + bytes delivered (ReadAt: unchanged)", wantOff, fmt.Sprintf("%d (%v)", out.OffAfter, out.OffErr))
		}
	} else {
		data := xfPat(cs.Seed, cs.Len)
		isRF := cs.API == "ReadFrom" || cs.API == "ReadFromWithConcurrency"
		prefix := xfAppliedPrefix(out.Applied, o, cs.Len) // what the handler stored, contiguously from the start offset
		if out.Err == nil {
			fail(site+"nil-error-truncated", fmt.Sprintf("the handler's WriteAt failed with %s at offset %d, the transfer of %d bytes at %d returned a nil error", ft.Err, ft.At, L, o),
				"a non-nil error (the whole request was not transferred)", got)
		}
		if isRF {
			if out.N != out.Consumed {
				fail(site+"count-vs-consumed", "ReadFrom's count is not the number of bytes consumed from the source", out.Consumed, got)
			}
		} else if out.N < 0 || out.N > prefix {
			fail(site+"count-beyond-stored", fmt.Sprintf("the count covers more than the %d bytes the handler stored contiguously from the start offset", prefix), fmt.Sprintf("n <= %d", prefix), got)
		}
		// the served file: the stored prefix holds the data, nothing outside [off, off+len) changed, nothing at or beyond At
		n := prefix
		want := xfOverwrite(initial, o, data[:n])
		upto := int(o + n)
		if n == 0 {
			upto = min(len(initial), int(o))
		}
		if len(out.FileAfter) < upto || !bytes.Equal(out.FileAfter[:upto], want[:upto]) {
			fail(site+"prefix-content", fmt.Sprintf("the bytes below the end of the stored prefix are not the data written (first difference at byte %d of %d)", xfFirstDiff(out.FileAfter, want[:upto]), upto),
				xfShort(want[:upto]), xfShort(out.FileAfter))
		}
		if implicit {
			if out.OffErr != nil || out.OffAfter < o || out.OffAfter > o+prefix {
				fail(site+"offset", "File offset after the failed write lies outside [start, start + bytes stored]", fmt.Sprintf("%d..%d", o, o+prefix), fmt.Sprintf("%d (%v)", out.OffAfter, out.OffErr))
			}
		} else if out.OffErr != nil || out.OffAfter != 0 {
			fail(site+"offset", "a failing WriteAt moved the File offset", 0, fmt.Sprintf("%d (%v)", out.OffAfter, out.OffErr))
		}
	}
	if out.FaultHits == 0 {
		fail("setup", "the handler fault was not met although the transfer reaches it (harness error)", nil, nil)
	}
	if out.CloseErr != nil {
		fail("close", "Close after the transfer failed", nil, out.CloseErr.Error())
	}
	if out.LeftOpen != 0 {
		fail("handle-left", "the server still holds a handle after Close", 0, out.LeftOpen)
	}
}

// xfFaultCases writes the handler-fault transfers of one job (server kind rs, option set cfg): every API variant with
// two or three geometries, the error value rotating through xfHandlerErrs (n is the job's number: it shifts the
// rotation), the fault offset drawn from the places where a chunk starts, ends or is cut, (n > 0, err) results
// alternating with (0, err), through a read-only / write-only open (served by Fileread / Filewrite) and a
// read-write one (served by OpenFile).
func xfFaultCases(rng *rand.Rand, spec xfSrvSpec, cfg xfCfg, variants []xfAPIVariant, n int, perVariant int) (out []xfCase) {
	mp := cfg.MP
	kc := min(cfg.Conc, 4)
	ki := n * 5
	for vi, v := range variants {
		reps := perVariant
		if v.API == "ReadAt" || v.API == "Read" || v.API == "WriteTo" {
			reps *= 3 // (three read-side calls against eleven write-side variants)
		}
		for rep := 0; rep < reps; rep++ {
			lens := []int{mp + 1, 2 * mp, 3*mp + 1, mp*kc + 1, 2*mp - 1, mp, 1, mp*kc + mp + 1, 3 * mp}
			L := lens[(n+vi+rep*2)%len(lens)]
			if rng.Intn(5) == 0 {
				L = 1 + rng.Intn(3*mp+1)
			}
			cs := xfCase{Srv: spec, Cfg: cfg, API: v.API, Src: v.Src, RFC: v.RFC, Seed: rng.Intn(251)}
			if cs.Src == "*" {
				cs.Src = "opaque"
			}
			o := []int64{0, 0, 1, int64(mp), int64(mp) + 1}[rng.Intn(5)]
			cs.Off = o
			read := v.API == "ReadAt" || v.API == "Read" || v.API == "WriteTo"
			var cand []int64
			plan := xfPlan(mp, o, L)
			for _, c := range plan {
				cand = append(cand, c.Off, c.Off+1, c.Off+int64(c.Len)-1)
			}
			end := o + int64(L)
			if read {
				switch rng.Intn(4) {
				case 0:
					cs.FileLen = int(end) + mp + 1
				case 1:
					cs.FileLen = max(int(end)-1, 1)
				default:
					cs.FileLen = int(end)
				}
				if v.API == "WriteTo" {
					cs.FileLen, cs.Len = int(end), 0
				} else {
					cs.Len = L
				}
				cand = append(cand, 0, int64(cs.FileLen)-1, int64(cs.FileLen), end, end+1)
			} else {
				cs.Len = L
				cs.FileLen = []int{0, int(end), int(o) + L/2, int(end) + 3}[rng.Intn(4)]
				cand = append(cand, end-1, end, end+int64(mp)) // (the last two: the fault lies beyond the transfer - a control)
			}
			at := cand[rng.Intn(len(cand))]
			if rng.Intn(6) == 0 {
				at = o + int64(rng.Intn(L+1))
			}
			if at < 0 {
				at = 0
			}
			if read && at > int64(cs.FileLen) {
				at = int64(cs.FileLen)
			}
			var kind xfHErrKind
			for {
				kind = xfHandlerErrs[ki%len(xfHandlerErrs)]
				ki++
				if !(read && kind.WriteOnly) {
					break
				}
			}
			op := "write"
			if read {
				op = "read"
			}
			cs.HFault = &xfHFault{Op: op, At: at, Err: kind.Name, Partial: (ki+rep)%2 == 0}
			if read && kind.EOF {
				cs.HFault.Partial = true
			}
			// which handler method serves the open
			if read {
				xfApplyOpen(&cs, []string{"rdonly", "rdwr", "rdwr+creat", "rdonly"}[(n+vi+rep)%4])
			} else {
				xfApplyOpen(&cs, []string{"wronly+creat", "rdwr+creat", "wronly", "rdwr"}[(n+vi+rep)%4])
			}
			out = append(out, cs)
		}
	}
	return out
}
