package main

// C14: a CLOSE that is pipelined behind reads and writes is executed only after every one of
// them has completed.

import (
	"bytes"
	"encoding/json"
	"fmt"
	"math/rand"
	"sort"
	"strings"

	"verifharness/lib"
	"verifharness/wire"
)

func init() { register("c14", checkC14) }

// c14Program: h handles, d reads/writes, every handle closed inside the pipeline.
// layout: tail (all closes at the end) | grouped (each handle: its requests, then its CLOSE) |
// mixed (requests of all handles shuffled, each CLOSE right after the last request of its handle).
//
// cmds: two programs in three also carry handle requests that are neither reads nor writes between the READ/WRITEs
// and the CLOSE of a handle — FSTAT, FSETSTAT (permissions; not on a read-only server, which refuses it) — and one
// handle in five is a directory handle whose requests are READDIRs. They all go through the command worker, in front
// of the CLOSE; none of them may close the object or cancel the context of its OPEN.
func c14Program(rng *rand.Rand, server string, opt c14Opt, h, d int, layout string) gProg {
	p := opt.prog(server)
	cmds := rng.Intn(3) != 0
	kinds := []string{"get", "put", "rw"}
	if opt.ReadOnly {
		kinds = []string{"get", "get", "get"} // a read-only server refuses every other open
	}
	files := map[string]string{"get": "f", "put": "g", "rw": "x", "dir": "d"}
	for i := 0; i < h; i++ {
		k := kinds[rng.Intn(3)]
		if cmds && rng.Intn(5) == 0 {
			k = "dir"
		}
		p.Handles = append(p.Handles, gHandle{Name: fmt.Sprintf("h%d", i), Kind: k, Path: fmt.Sprintf("%s%d", files[k], i)})
	}
	// distribute the d requests over the handles (every handle gets at least one when d >= h)
	owner := make([]int, d)
	for j := range owner {
		if j < h {
			owner[j] = j
		} else {
			owner[j] = rng.Intn(h)
		}
	}
	rng.Shuffle(d, func(a, b int) { owner[a], owner[b] = owner[b], owner[a] })
	nr, nw := map[int]int{}, map[int]int{}
	mk := func(hi int) gOp {
		hd := p.Handles[hi]
		if hd.Kind == "dir" {
			if rng.Intn(4) == 0 {
				return gOp{K: "fstat", H: hd.Name}
			}
			return gOp{K: "readdir", H: hd.Name}
		}
		if cmds {
			switch r := rng.Intn(8); {
			case r == 0:
				return gOp{K: "fstat", H: hd.Name}
			case r == 1 && !opt.ReadOnly:
				af := uint32(wire.APerm)
				if server == "rs" && rng.Intn(2) == 0 {
					af = 0
				}
				return gOp{K: "fsetstat", H: hd.Name, AF: af}
			}
		}
		read := hd.Kind == "get" || (hd.Kind == "rw" && rng.Intn(2) == 0)
		lens := []uint32{1, 64, 1000, 4096}
		ln := lens[rng.Intn(len(lens))]
		if read {
			k := nr[hi]
			nr[hi]++
			if rng.Intn(12) == 0 { // longer than a default server's longest DATA payload (objects have 100000 bytes or more)
				return gOp{K: "read", H: hd.Name, Off: int64(k) * 2111, Len: []uint32{32768, 32769, 40000}[rng.Intn(3)]}
			}
			return gOp{K: "read", H: hd.Name, Off: int64(k) * 2111, Len: ln % 2048} // stays below 65536 for 24 reads
		}
		k := nw[hi]
		nw[hi]++
		off := int64(k) * 4096
		if hd.Kind == "rw" {
			off += 70000
		}
		return gOp{K: "write", H: hd.Name, Off: off, Len: ln}
	}
	switch layout {
	case "tail":
		for _, hi := range owner {
			p.Ops = append(p.Ops, mk(hi))
		}
		for _, hi := range rng.Perm(h) {
			p.Ops = append(p.Ops, gOp{K: "close", H: p.Handles[hi].Name})
		}
	case "grouped":
		for hi := 0; hi < h; hi++ {
			for _, o := range owner {
				if o == hi {
					p.Ops = append(p.Ops, mk(hi))
				}
			}
			p.Ops = append(p.Ops, gOp{K: "close", H: p.Handles[hi].Name})
		}
	default: // mixed
		last := map[int]int{}
		for j, hi := range owner {
			last[hi] = j
		}
		closed := map[int]bool{}
		for j, hi := range owner {
			p.Ops = append(p.Ops, mk(hi))
			if last[hi] == j {
				p.Ops = append(p.Ops, gOp{K: "close", H: p.Handles[hi].Name})
				closed[hi] = true
			}
		}
		for hi := 0; hi < h; hi++ {
			if !closed[hi] {
				p.Ops = append(p.Ops, gOp{K: "close", H: p.Handles[hi].Name})
			}
		}
	}
	for i := range p.Ops {
		if p.Ops[i].K == "read" && p.Ops[i].Len == 0 {
			p.Ops[i].Len = 1
		}
		p.Ops[i].ID = uint32(100 + i)
	}
	return p
}

type c14Verdict struct {
	fails    []lib.Failure
	observed []int // request numbers in the order their calls returned (from the log)
	inflight int   // largest number of earlier reads/writes in flight at a Close entry
}

// c14Check evaluates the close barrier on the call log of a run. input is what failures carry for replay.
func c14Check(run *gRun, input any) c14Verdict {
	var v c14Verdict
	cs := run.Case
	p := cs.Prog
	srv := p.Server
	opts := " (server options: " + c14OptOf(p).text() + ")"
	fail := func(key, what string, exp, act any) {
		v.fails = append(v.fails, lib.Failure{Kind: "oracle", Key: key, What: what + opts, Input: input, Expected: exp, Actual: act})
	}
	for _, f := range gCheckCommon(run) {
		f.Input = input
		f.What += opts
		v.fails = append(v.fails, f)
	}
	if run.Fault != nil {
		return v
	}
	if run.GraceViol != "" {
		fail("close/entered-during-hold/"+srv, "Close of the object was entered while reads/writes of earlier requests were being held", "Close not entered", run.GraceViol)
	}
	byKey := map[string]gCall{}
	for _, c := range run.Calls[run.Setup:] {
		if _, dup := byKey[c.Key]; !dup {
			byKey[c.Key] = c
		}
	}
	keyOf := func(i int) string {
		if run.Routes[i].CloseKey != "" {
			return run.Routes[i].CloseKey
		}
		return run.Routes[i].Sim.Gate
	}
	type fin struct {
		seq int64
		req int
	}
	var fins []fin
	for i := range p.Ops {
		if keyOf(i) == "" { // answered by the server itself (a refusal)
			continue
		}
		c, ok := byKey[keyOf(i)]
		if !ok || c.Fin == 0 {
			fail("close/call-missing/"+srv, fmt.Sprintf("request %d (%s) never completed its call %s", i, p.Ops[i].text(), keyOf(i)), nil, nil)
			return v
		}
		fins = append(fins, fin{c.Fin, i})
	}
	sort.Slice(fins, func(a, b int) bool { return fins[a].seq < fins[b].seq })
	for _, f := range fins {
		v.observed = append(v.observed, f.req)
	}
	for ic, oc := range p.Ops {
		if oc.K != "close" {
			continue
		}
		C := byKey[keyOf(ic)]
		inflight := 0
		var late, running []string
		for j := 0; j < ic; j++ {
			if p.Ops[j].K == "close" || keyOf(j) == "" {
				continue
			}
			G := byKey[keyOf(j)]
			switch {
			case G.Start > C.Start:
				if len(late) < 20 {
					late = append(late, p.Ops[j].text())
				}
			case G.Fin > C.Start:
				inflight++
				if len(running) < 20 {
					running = append(running, p.Ops[j].text())
				}
			}
		}
		if inflight > v.inflight {
			v.inflight = inflight
		}
		if inflight > 0 {
			fail("close/entered-with-calls-in-flight/"+srv, fmt.Sprintf("when Close of the object of %s (CLOSE is request %d) was first entered, %d calls of earlier requests were still running", oc.H, ic, inflight), 0, running)
		}
		if len(late) > 0 {
			fail("close/call-started-after-close/"+srv, fmt.Sprintf("calls of requests that precede the CLOSE of %s (request %d) started after Close of the object had been entered", oc.H, ic), "none", late)
		}
	}
	// the object is closed by its CLOSE and by nothing else: between the set-up and the last reply of the pipeline it
	// is entered once per CLOSE request of the stream, and no call on the object finds the context of its OPEN cancelled
	wantCloses := map[string]int{}
	for _, rt := range run.Routes {
		if rt.CloseKey != "" {
			wantCloses[rt.CloseKey]++
		}
	}
	gotCloses := map[string]int{}
	for _, c := range run.Calls[run.Setup:] {
		if c.Free || c.Start > run.PipeEnd {
			continue
		}
		if c.Op == "Close" {
			gotCloses[c.Key]++
			if gotCloses[c.Key] == wantCloses[c.Key]+1 {
				fail("close/object-closed-by-another-request/"+srv, fmt.Sprintf("Close of the object was entered %d times while the pipeline ran; the stream holds %d CLOSE request(s) for it", gotCloses[c.Key], wantCloses[c.Key]), wantCloses[c.Key], c.Key)
			}
		}
		if c.CtxDone {
			fail("close/context-cancelled-before-close/"+srv, "the context of the OPEN request of a handle was already cancelled when "+c.Op+" ran on its object (it is cancelled when the handle is closed, after Close of the object)", "not cancelled", c.Key+" ("+c.Op+")")
			break
		}
	}
	// every request of the stream succeeds
	nfailed := 0
	for i, o := range p.Ops {
		f := run.Frames[i]
		ok := false
		switch o.K {
		case "read":
			ok = f.Typ == wire.Data
		case "fstat":
			ok = f.Typ == wire.Attrs
		case "readdir": // names, or the end of the listing
			ok = f.Typ == wire.Name || (f.Typ == wire.Status && gParseStatus(f).Code == wire.EOF)
		default:
			ok = f.Typ == wire.Status && gParseStatus(f).Code == wire.OK
		}
		if run.Routes[i].Denied { // refused by a read-only server (checked by the shared oracles)
			ok = true
		}
		if !ok {
			if nfailed++; nfailed <= 5 {
				fail("close/request-failed/"+srv, fmt.Sprintf("request %d (%s), sent before the CLOSE of its handle, did not succeed", i, o.text()), "success", gFrameText(f))
			}
		}
	}
	for _, h := range p.Handles {
		if h.Kind == "get" || h.Kind == "dir" {
			continue
		}
		want := gExpectedFinal(run, h)
		got := run.Final[h.Name]
		if !bytes.Equal(want, got) {
			fail("close/final-content/"+srv, "the object does not hold what the pipelined writes wrote", gDigest(want), gDigest(got))
		}
	}
	return v
}

// c14ReplayTrace feeds the observed completion order (every call, Close included, treated as held) to the simulator.
func c14ReplayTrace(run *gRun, observed []int) (trace string, handled []int, err error) {
	reqs := make([]simReq, len(run.Routes))
	for i, rt := range run.Routes {
		reqs[i] = rt.Sim
		if rt.CloseKey != "" {
			reqs[i].Gate = rt.CloseKey
		}
	}
	s := newSim(reqs)
	for k, i := range observed {
		if !s.isStarted(i) {
			lo := max(0, k-12)
			return "", nil, fmt.Errorf("call of request %d returned as number %d, but with the earlier returns (…%v) the pipeline cannot have started it (running: %v)", i, k, observed[lo:k], s.started())
		}
		s.finish(i)
	}
	return s.traceText(), s.handled, nil
}

func oidText(ix []int) string {
	if len(ix) == 0 {
		return "-"
	}
	var p []string
	for _, i := range ix {
		p = append(p, fmt.Sprint(i+1))
	}
	return strings.Join(p, ",")
}

func init() {
	gSummarisers["c14"] = func(raw json.RawMessage, modelOK bool, scratch string) gSummary {
		var job c14Job
		if err := json.Unmarshal(raw, &job); err != nil {
			return gSummary{Text: string(raw), Fails: []lib.Failure{{Kind: "tie", Key: "harness/job", What: err.Error()}}}
		}
		return c14Summarise(job, modelOK)
	}
}

// c14ModelMaxOps: schedules of pipelines up to this length are also replayed in the Lean model.
const c14ModelMaxOps = 300

// c14DepthBucket: the depths of c14Depths each have a bucket of their own, the values in between share one.
func c14DepthBucket(prefix string, n int) string {
	lo := 0
	for _, d := range c14AllDepths {
		if d == n {
			return fmt.Sprintf("%s=%05d", prefix, n)
		}
		if d < n && d > lo {
			lo = d
		}
	}
	hi := n
	for _, d := range c14AllDepths {
		if d > n && (hi == n || d < hi) {
			hi = d
		}
	}
	return fmt.Sprintf("%s=%05d<n<%05d", prefix, lo, hi)
}

var c14AllDepths = c14Depths(1 << 17)

func c14Summarise(job c14Job, modelOK bool) gSummary {
	if job.Fail != nil {
		return c14fSummarise(*job.Fail)
	}
	var s gSummary
	cs := job.gCase
	deep := job.Gen != nil
	if deep {
		if err := job.Gen.valid(); err != nil {
			return gSummary{Text: fmt.Sprint(job.input()), Fails: []lib.Failure{{Kind: "tie", Key: "harness/job", What: err.Error()}}}
		}
		cs.Prog, cs.Hold = job.Gen.expand()
		if cs.Mode != "gated" {
			cs.Hold = nil
		}
	}
	run := gExec(&cs)
	p := cs.Prog
	nrw := 0
	for _, o := range p.Ops {
		if o.K != "close" {
			nrw++
		}
	}
	hist := func(k string) { s.Hist = append(s.Hist, k) }
	if deep {
		s.Text = job.Gen.text() + fmt.Sprint(cs.Order, cs.Mode, cs.Seed, cs.EndInput)
		s.Nontrivial = nrw > 0
		total := 0
		for _, n := range job.Gen.Segs {
			hist(c14DepthBucket("deep/rw-requests-since-previous-close", n))
			total += n
			if len(job.Gen.Segs) > 1 {
				hist(c14DepthBucket("deep/rw-requests-since-start-at-close", total))
			}
		}
		if cs.Mode == "gated" {
			hist(fmt.Sprintf("deep/calls-held-before-each-close=%d", job.Gen.Held))
		}
		hist(fmt.Sprintf("deep/closes=%d", len(job.Gen.Segs)))
		if job.Gen.Cmd > 0 {
			hist(fmt.Sprintf("deep/fstat-or-fsetstat-behind-every-nth-read-write=%02d", job.Gen.Cmd))
		}
		hist("deep/server=" + p.Server)
	} else {
		s.Text = p.text() + fmt.Sprint(cs.Order, cs.Mode, cs.Seed, cs.EndInput)
		s.Nontrivial = true
		hist(fmt.Sprintf("rw-depth=%02d", nrw))
		for _, o := range p.Ops {
			hist("request=" + o.K)
		}
	}
	hist("server=" + p.Server)
	hist("options=" + p.Server + "/" + c14OptOf(p).text())
	hist(fmt.Sprintf("handles=%d", len(p.Handles)))
	hist("mode=" + cs.Mode + "/" + cs.Tag)
	for _, h := range p.Handles {
		hist("handle-kind=" + h.Kind)
	}
	if cs.EndInput > 0 && run.Fault == nil {
		// END OF STREAM as an event: what the pipeline looked like when the input was closed
		hist("end-of-stream/" + p.Server + "/mode=" + cs.Mode)
		var go_, held, pend int
		if n, _ := fmt.Sscanf(run.EndInfo, "gates-opened=%d calls-held=%d closes-pending=%d", &go_, &held, &pend); n == 3 {
			hist(fmt.Sprintf("end-of-stream/gated/calls-held-when-input-closed=%d", held))
			hist(fmt.Sprintf("end-of-stream/gated/closes-not-yet-answered-when-input-closed=%d", pend))
			hist(fmt.Sprintf("end-of-stream/gated/gates-opened-before=%02d", min(go_, 10)))
			if held > 0 && pend > 0 {
				hist("end-of-stream/gated/" + p.Server + "/input-closed-with-calls-held-and-a-close-behind-them")
			}
		}
	}
	if cs.HoldMs > 0 {
		switch {
		case run.HoldCut != "":
			hist(fmt.Sprintf("calls-before-close-held-for-ms=%05d/cut-short-by-soft-deadline", cs.HoldMs))
		case run.Fault == nil:
			hist(fmt.Sprintf("calls-before-close-held-for-ms=%05d/%s", cs.HoldMs, p.Server))
		}
	}
	v := c14Check(run, job.input())
	s.Fails = v.fails
	if run.Fault != nil || len(v.observed) != len(p.Ops) {
		return s
	}
	hist(fmt.Sprintf("max-earlier-calls-in-flight-at-close-entry=%d", v.inflight))
	if cs.Mode == "gated" && !deep && nrw >= 5 && nrw <= 10 && len(p.Handles) >= 2 {
		s.Sample = map[string]any{"program": p.text(), "order_in_which_gates_were_opened": cs.Order, "observed_completion_order_of_all_calls": v.observed, "model_trace": run.Trace}
	}
	if deep && cs.Mode == "gated" && nrw >= 255 && nrw <= 257 {
		s.Sample = map[string]any{"deep_pipeline": job.Gen, "requests_whose_calls_were_held": cs.Hold, "order_in_which_gates_were_opened": cs.Order}
	}
	// the schedule as a model trace
	trace := run.Trace
	if cs.Mode == "gated" && cs.Hold == nil {
		// the forced order must be what the log shows (Close calls return on their own, in between)
		if fmt.Sprint(v.observed) != fmt.Sprint(run.Handled) {
			s.Fails = append(s.Fails, lib.Failure{Kind: "oracle", Key: "close/completion-order-differs/" + p.Server, What: "calls returned in an order different from the one the pipeline allows for the gates opened",
				Input: job.input(), Expected: run.Handled, Actual: v.observed})
			return s
		}
	} else {
		// calls that were not held returned when they liked: the log must be a schedule the pipeline allows
		t, _, err := c14ReplayTrace(run, v.observed)
		if err != nil {
			s.Fails = append(s.Fails, lib.Failure{Kind: "oracle", Key: "close/impossible-completion-order/" + p.Server, What: err.Error(), Input: job.input(), Actual: c14Short(v.observed)})
			return s
		}
		trace = t
	}
	if modelOK && len(p.Ops) <= c14ModelMaxOps {
		s.Lines = []string{"c14.check " + c02Cfg + " " + trace, "c14.handled " + c02Cfg + " " + trace}
		s.Impl = []string{"ok", oidText(v.observed)}
	}
	return s
}

func c14Short(ix []int) any {
	if len(ix) <= 200 {
		return ix
	}
	return fmt.Sprintf("%d calls, the first 200: %v", len(ix), ix[:200])
}

func checkC14(c *lib.Ctx) {
	r := c.R
	r.Rule = "Small pipelines: d = 1…24 READ/WRITE requests on h = 1…4 handles (read-only, write-only and read-write opens; layouts: all CLOSEs at the end, handle by handle, shuffled; one read in twelve longer than 32768 bytes) followed by the CLOSEs without waiting for any reply, on both servers. Two programs in three also carry handle requests that are neither reads nor writes between the READ/WRITEs and the CLOSE of their handle: FSTAT, FSETSTAT (permissions; not on a read-only server) and, on directory handles (one handle in five), READDIR. Gated cases: every ReadAt/WriteAt (and every call of those other requests) is held; after the expected calls have started and a grace period of 25 ms (again after every completed CLOSE while calls are held) the harness asserts that no Close was entered that the pipeline cannot have reached, then lets the calls return in a chosen order (all feasible orders for d <= 4 (quick) / 6 (thorough), PRNG orders: uniform, fifo, lifo, earliest-held-longest). Unforced cases: nothing is held, every call (Close too) sleeps a PRNG time below 1.5 ms, or not at all. Duration: per server, a small pipeline (1…2 handles, 2…8 transfers and handle commands, every call held) and a deep one (3…300 transfers, the calls of the last 1…8 before the CLOSE held) in which — once every call the pipeline can start sits on its gate and the CLOSE waits behind them — the calls are kept there for 7 s (thorough: 7, 35 and 70 s; longer than any plausible timeout constant; a deliberate hold that is not charged to the hang budget and ends when the soft deadline of the run passes), no Close may be entered meanwhile, then the calls return in a chosen order and every other oracle applies; these cases run side by side with the rest. " +
		"Deep pipelines (generated, not written out): n READ/WRITE requests of 1…8 bytes between two CLOSEs for n = 0…20 and 2^k-1, 2^k, 2^k+1 (k = 5…10 quick, 5…16 thorough) and 767…769, 1535…1537, 3071…3073; one handle, or 2…4 handles closed one after the other with the boundary value as the count since the previous CLOSE or as the running total; gated: only the calls of the last 1…8 requests before each CLOSE are held (all earlier ones return on their own), grace period and chosen return order as above; unforced: sleep / free. Deep pipelines with an FSTAT / FSETSTAT behind every 1st, 2nd, 3rd, 5th or 17th READ/WRITE (10 quick / 150 thorough per server). " +
		"Server options: every case runs on a server started with one of the 24 (os-backed: ReadOnly x WithAllocator x WithMaxTxPacket absent/32768/65536 x WithServerWorkingDirectory, handles then opened by relative names) resp. 12 (request server: WithRSAllocator x WithRSMaxTxPacket x WithStartDirectory) option combinations, dealt from a shuffled deck per family so that every family of cases meets every combination (read-only servers: read-only opens only); the depths 256 and 512 (thorough: 255, 256, 257, 512 and 65536) are run gated under every combination. Schedules of pipelines of up to 300 requests are also replayed in the Lean pipeline model. " +
		"END OF STREAM as an event of the schedule: the client pipelines transfers and CLOSEs and ends its request stream (half-close) without waiting for a reply — gated: small pipelines (1…3 handles, up to 12, or 30…49, transfers and handle commands, every call held) and deep ones (last 1…8 calls before each CLOSE held), the input is closed as soon as the whole stream has been taken in (calls held, CLOSEs waiting behind them) or after a PRNG number of gates has been opened, a grace period of 25 ms follows (7 s, thorough 7/35/70 s, in one case per server) during which no Close may be entered, then the calls return in the chosen order; unforced: input closed right after the last byte (quick per server: 90 + 16 + 120 cases); every oracle applies as in any other case, and Serve must return. " +
		"FAILING handler calls (c14_fail.go): d = 1…24, 30, 37, 49 (unforced: 1…40) READ/WRITE requests on 1…3 handles, each handle closed behind them (CLOSEs at the end, or each right behind the last request of its handle) or — one handle in six — left to the sweep at the end of the session; a chosen subset of the ReadAt/WriteAt calls (none, one, about 8 %, 25 %, 50 %, all) returns an error — EOF, ENOSPC in a PathError, EDQUOT, EIO after half the bytes, io.ErrShortWrite, io.ErrUnexpectedEOF, os.ErrNotExist / ErrPermission / ErrClosed, the package's ErrSSHFxFailure / OpUnsupported / EOF, an error type of the handler's own, a wrapped error — or a short count without error; one request in twelve is of the kind its handle does not take (request server: refused by the server without a call; os-backed server: passed to the file, the kernel answers EBADF), one read in ten lies behind the end of the object. Request server: handles of the methods Get, Put, Open, and Put for a read-write OPEN when FilePut lacks OpenFile; handler objects with and without io.Closer and TransferError (four shapes). os-backed server: the opened file is wrapped, calls told to fail do not reach it. Every server option combination but ReadOnly, dealt from a deck. Gated: every call is held, the calls return in a chosen order (uniform, fifo, lifo, earliest-held-longest, calls that fail first — the others are then still on their gates —, calls that fail last); after the first step, after each of the first calls that fail and after the end of the input a grace period of 10 ms in which no Close may be entered; one case in four ends the request stream once it is taken in (or after a PRNG number of gates). When the calls that the pipeline must start next do not reach their gates within 0.9 s the forced schedule is given up (no verdict), every gate is opened and the case is judged on its log like the unforced ones (nothing held; calls that fail return within 0.2 ms, the others sleep up to 3 ms, or nothing sleeps). Oracles: every request that fits its handle is handed to the handler exactly once (a request that precedes the CLOSE and is answered without a call is a failure, whatever the reply says); Close of an object is entered exactly once — by its CLOSE, or by the sweep after the last reply for a handle the stream does not close —, never while calls of earlier requests on the handle are held, in flight, or yet to start; replies in order, each following the result of the call of its own request (DATA / status, code and message of the error returned), WriteAt is given the bytes of its request, os-backed: final file contents. These cases are not replayed in the Lean model. " +
		"Oracles on the global start/finish log: no Close entered while calls of earlier requests are held, 0 earlier reads/writes in flight at every Close entry, none starts later, between the set-up and the last reply the Close of an object is entered exactly as often as the stream holds CLOSE requests for it (no other request closes it), no call on an object of the request server finds the context of its OPEN request cancelled (handler objects record Request.Context() at open time), every request succeeds, final contents, the observed completion order is one the pipeline allows. non-trivial = at least one read/write precedes a CLOSE; distinct by (server, options, program or generator, order or sleep seed)"
	thorough := c.Tier == "thorough"
	c02Cfg = gCurCfg(c, "pipe", c02Cfg)
	modelOK := gProbeModel(c, "c14.check "+c02Cfg+" -")
	if !modelOK {
		r.Skip("model comparison skipped: driver ops `c14.check` / `c14.handled` (lean/Sftp/Driver/C02.lean) are not served by the driver binary given with --model")
	}
	describe := func(raw json.RawMessage) (string, any) {
		var job c14Job
		json.Unmarshal(raw, &job)
		if job.Fail != nil {
			return job.Fail.Server, job.input()
		}
		if job.Gen != nil {
			return job.Gen.Server, job.input()
		}
		return job.Prog.Server, job.input()
	}
	var jobs []json.RawMessage
	if c.Replay != "" {
		var in struct {
			c14Job
			Case *c14Job `json:"case"`
		}
		if err := lib.ReadReplay(c.Replay, &in); err != nil {
			r.Fail(lib.Failure{Kind: "tie", Key: "replay", What: err.Error()})
			return
		}
		job := in.c14Job
		if in.Case != nil {
			job = *in.Case
		}
		jobs = append(jobs, gJSON(job))
	} else {
		grace := 25
		styles := []string{"uniform", "fifo", "lifo", "first-last", "uniform", "uniform"}
		layouts := []string{"tail", "grouped", "mixed"}
		// DURATION. The gated cases below let the held calls go within milliseconds; a barrier that gives up after a
		// while is seen only when the transfers in front of a CLOSE take longer than that. These cases go first, so
		// that they run side by side with the rest of the batch (the wall cost of the family is that of its longest hold).
		jobs = append(jobs, c14LongHoldJobs(c.Rand, thorough, grace)...)
		// handler calls that FAIL while the others are held (c14_fail.go); drawn from a PRNG of their own, so that the
		// cases of the other families of a seed stay what they were
		frng := rand.New(rand.NewSource(c.Seed*7919 + 14))
		sampled := 0
		for _, fc := range c14fJobs(frng, thorough, 10) {
			fc := fc
			jobs = append(jobs, gJSON(c14Job{Fail: &fc}))
			if nf := strings.Count(fc.failText(), "→"); sampled < 2 && fc.Mode == "gated" && nf >= 1 && nf <= 3 && len(fc.Ops) >= 6 && len(fc.Ops) <= 11 {
				sampled++
				r.Sample(map[string]any{"pipeline_with_failing_handler_calls": fc.text()})
			}
		}
		for _, server := range []string{"rs", "os"} {
			// every (h, d)
			deck := newC14Deck(c.Rand)
			reps := 2
			if thorough {
				reps = 20
			}
			for h := 1; h <= 4; h++ {
				for d := 1; d <= 24; d++ {
					for _, layout := range layouts {
						for k := 0; k < reps; k++ {
							p := c14Program(c.Rand, server, deck.next(server), h, d, layout)
							jobs = append(jobs, gJSON(gCase{Prog: p, Mode: "gated", Order: c02RandomOrder(p, c.Rand, styles[(k+d+h)%len(styles)]), Grace: grace, Tag: layout}))
						}
					}
				}
			}
			// all orders of small pipelines
			deck = newC14Deck(c.Rand)
			maxD, progs := 4, 2
			if thorough {
				maxD, progs = 6, 4
			}
			for d := 2; d <= maxD; d++ {
				for h := 1; h <= 3; h++ {
					for _, layout := range layouts {
						for k := 0; k < progs; k++ {
							if d == 6 && k > 0 {
								continue
							}
							p := c14Program(c.Rand, server, deck.next(server), h, d, layout)
							ords, _ := c02Orders(p, 720)
							for _, o := range ords {
								jobs = append(jobs, gJSON(gCase{Prog: p, Mode: "gated", Order: o, Watch: true, Tag: "all-orders/" + layout}))
							}
						}
					}
				}
			}
			// relative speeds left to the scheduler, with random handler durations
			deck = newC14Deck(c.Rand)
			nSleep := 600
			if thorough {
				nSleep = 30000
			}
			for k := 0; k < nSleep; k++ {
				p := c14Program(c.Rand, server, deck.next(server), 1+c.Rand.Intn(4), 1+c.Rand.Intn(24), layouts[c.Rand.Intn(3)])
				mode := "sleep"
				if k%5 == 4 {
					mode = "free"
				}
				jobs = append(jobs, gJSON(gCase{Prog: p, Mode: mode, Seed: c.Rand.Int63(), Tag: "unforced"}))
			}
		}
		jobs = append(jobs, c14DeepJobs(c.Rand, thorough, grace)...)
		jobs = append(jobs, c14EndJobs(c.Rand, thorough, grace)...)
	}
	sums := gRunBatches(c, "c14", jobs, 2000, modelOK, describe)
	lines, impl := gMerge(r, sums, 3)
	if modelOK {
		c.Compare("c14", lines, impl)
	}
}

// c14LongHolds: how long (ms) the last transfers before a CLOSE are kept held — longer than any plausible timeout
// constant (seconds, half a minute, a minute).
func c14LongHolds(thorough bool) []int {
	if thorough {
		return []int{7000, 35000, 70000}
	}
	return []int{7000}
}

// c14LongHoldJobs: per server and hold length, (a) a small pipeline — one or two handles, 2…8 transfers (and handle
// commands), every call held, the CLOSEs at the end — and (b) a deep one in which the calls of the last 1…8 transfers
// before the CLOSE are held; the hold starts when every call the pipeline can start sits on its gate (the CLOSE is
// then waiting behind them), no Close of an object may be entered while it lasts; afterwards the calls return in a
// chosen order and the case is judged like every other.
func c14LongHoldJobs(rng *rand.Rand, thorough bool, grace int) []json.RawMessage {
	var jobs []json.RawMessage
	styles := []string{"uniform", "fifo", "lifo", "first-last"}
	deck := newC14Deck(rng)
	for _, ms := range c14LongHolds(thorough) {
		for _, server := range []string{"rs", "os"} {
			h := 1 + rng.Intn(2)
			p := c14Program(rng, server, deck.next(server), h, h+1+rng.Intn(8-h), "tail")
			jobs = append(jobs, gJSON(gCase{Prog: p, Mode: "gated", Order: c02RandomOrder(p, rng, styles[rng.Intn(len(styles))]), Grace: grace, HoldMs: ms, Tag: "long-hold"}))
			opt := deck.next(server)
			g := c14Gen{Server: server, Opt: opt, Kinds: c14Kinds(rng, opt, 1), Segs: []int{[]int{3, 9, 40, 300}[rng.Intn(4)]}, Held: 1 + rng.Intn(8), Seed: rng.Int63()}
			gp, hold := g.expand()
			jobs = append(jobs, gJSON(c14Job{gCase: gCase{Mode: "gated", Order: randomOrder(c14HeldReqs(gp, hold), rng, styles[rng.Intn(len(styles))]), Grace: grace, HoldMs: ms, Tag: "long-hold-deep"}, Gen: &g}))
			// the same duration spent AFTER THE END OF THE REQUEST STREAM (gCase.EndInput): a server that waits for its
			// workers only so long once the client has stopped sending
			h = 1 + rng.Intn(2)
			p = c14Program(rng, server, deck.next(server), h, h+1+rng.Intn(8-h), "tail")
			jobs = append(jobs, gJSON(gCase{Prog: p, Mode: "gated", Order: c02RandomOrder(p, rng, styles[rng.Intn(len(styles))]), Grace: grace, HoldMs: ms, EndInput: 1, Tag: "long-hold-after-end-of-stream"}))
		}
	}
	return jobs
}

// c14DeepJobs generates the deep pipelines of a run.
func c14DeepJobs(rng *rand.Rand, thorough bool, grace int) []json.RawMessage {
	var jobs []json.RawMessage
	styles := []string{"uniform", "fifo", "lifo", "first-last"}
	gated := func(g c14Gen, tag string) {
		p, hold := g.expand()
		order := randomOrder(c14HeldReqs(p, hold), rng, styles[rng.Intn(len(styles))])
		jobs = append(jobs, gJSON(c14Job{gCase: gCase{Mode: "gated", Order: order, Grace: grace, Tag: tag}, Gen: &g}))
	}
	unforced := func(g c14Gen, mode string) {
		g.Held = 0
		jobs = append(jobs, gJSON(c14Job{gCase: gCase{Mode: mode, Seed: rng.Int63(), Tag: "deep-unforced"}, Gen: &g}))
	}
	maxDepth, reps := 1025, 1
	if thorough {
		maxDepth, reps = 65537, 4
	}
	depths := c14Depths(maxDepth)
	bounds := []int{255, 256, 257, 511, 512, 513}
	if thorough {
		for _, d := range depths {
			if d > 513 {
				bounds = append(bounds, d)
			}
		}
	}
	for _, server := range []string{"rs", "os"} {
		// one handle, one CLOSE, every depth
		deck := newC14Deck(rng)
		for _, d := range depths {
			n := reps
			if d > 5000 {
				n = 2
			}
			for k := 0; k < n; k++ {
				opt := deck.next(server)
				gated(c14Gen{Server: server, Opt: opt, Kinds: c14Kinds(rng, opt, 1), Segs: []int{d}, Held: 1 + rng.Intn(8), Seed: rng.Int63()}, "deep-one-close")
			}
		}
		// several handles closed one after the other: the boundary value is the count since the previous CLOSE
		// (every segment a boundary value, or one of them with short ones around it) or the running total
		deck = newC14Deck(rng)
		nMulti := 16
		if thorough {
			nMulti = 200
		}
		for k := 0; k < nMulti; k++ {
			opt := deck.next(server)
			h := 2 + rng.Intn(3)
			b := bounds[rng.Intn(len(bounds))]
			var segs []int
			switch k % 4 {
			case 0: // running total
				segs = c14Split(rng, b, h)
			case 1: // every segment
				for i := 0; i < h; i++ {
					segs = append(segs, bounds[rng.Intn(6)])
				}
			default: // one segment, at a PRNG position
				for i := 0; i < h; i++ {
					segs = append(segs, rng.Intn(12))
				}
				segs[rng.Intn(h)] = b
			}
			h = len(segs)
			gated(c14Gen{Server: server, Opt: opt, Kinds: c14Kinds(rng, opt, h), Segs: segs, Spread: rng.Intn(2) == 0, Held: 1 + rng.Intn(8), Seed: rng.Int63()}, "deep-several-closes")
		}
		// every option combination at the depths where an 8-bit and (thorough) a 16-bit count come round
		all := []int{256, 512}
		if thorough {
			all = []int{255, 256, 257, 512, 65536}
		}
		for _, d := range all {
			for _, opt := range c14Opts(server) {
				gated(c14Gen{Server: server, Opt: opt, Kinds: c14Kinds(rng, opt, 1), Segs: []int{d}, Held: 1 + rng.Intn(8), Seed: rng.Int63()}, "deep-all-options")
			}
		}
		// handle requests that are neither reads nor writes (FSTAT, FSETSTAT) between the reads/writes of a deep pipeline
		deck = newC14Deck(rng)
		nCmd := 10
		if thorough {
			nCmd = 150
		}
		for k := 0; k < nCmd; k++ {
			opt := deck.next(server)
			d := []int{7, 20, 33, 64, 255, 256, 257, 513}[rng.Intn(8)]
			h := 1 + rng.Intn(3)
			segs := c14Split(rng, d, h)
			g := c14Gen{Server: server, Opt: opt, Kinds: c14Kinds(rng, opt, len(segs)), Segs: segs, Spread: rng.Intn(2) == 0, Held: 1 + rng.Intn(8), Seed: rng.Int63(), Cmd: []int{1, 2, 3, 5, 17}[rng.Intn(5)]}
			if k%3 == 2 {
				unforced(g, []string{"sleep", "free"}[rng.Intn(2)])
			} else {
				gated(g, "deep-handle-commands")
			}
		}
		// nothing held
		deck = newC14Deck(rng)
		for _, d := range depths {
			if d < 31 && !thorough {
				continue
			}
			n := reps
			if d > 5000 {
				n = 1
			}
			for k := 0; k < n; k++ {
				opt := deck.next(server)
				h := 1 + rng.Intn(2)
				mode := "sleep"
				if d > 1100 || rng.Intn(3) == 0 {
					mode = "free"
				}
				segs := c14Split(rng, d, h)
				unforced(c14Gen{Server: server, Opt: opt, Kinds: c14Kinds(rng, opt, len(segs)), Segs: segs, Spread: rng.Intn(2) == 0, Seed: rng.Int63()}, mode)
			}
		}
	}
	return jobs
}

// c14EndJobs: END OF STREAM as an event of the schedule (gCase.EndInput). The client pipelines its transfers and the
// CLOSEs and then ends its request stream without waiting for a single reply. Per server:
//   - small pipelines (1…3 handles, up to 12 transfers and handle commands, every call held, all layouts): the input is
//     closed at the earliest moment — the calls the pipeline could start sit on their gates, the CLOSEs wait behind them —
//     or (one case in three) after a PRNG number of gates has been opened;
//   - deep pipelines (only the calls of the last 1…8 requests before each CLOSE held);
//   - unforced: nothing held, the handlers sleep a PRNG time or not at all, the input is closed right after the last
//     byte of the stream.
//
// Oracles: no Close entered and no context cancelled while calls of earlier requests are held (grace period after the
// end of the input), every request succeeds and is answered, final contents, Serve returns.
func c14EndJobs(rng *rand.Rand, thorough bool, grace int) []json.RawMessage {
	var jobs []json.RawMessage
	styles := []string{"uniform", "fifo", "lifo", "first-last"}
	layouts := []string{"tail", "grouped", "mixed"}
	nSmall, nDeep, nFree := 90, 16, 120
	if thorough {
		nSmall, nDeep, nFree = 3000, 300, 6000
	}
	for _, server := range []string{"rs", "os"} {
		deck := newC14Deck(rng)
		for k := 0; k < nSmall; k++ {
			h := 1 + rng.Intn(3)
			d := h + rng.Intn(13-h)
			if k%6 == 5 { // more than the pipeline takes in at once: the end of the stream arrives after some gates were opened
				d = 30 + rng.Intn(20)
			}
			layout := layouts[k%3]
			p := c14Program(rng, server, deck.next(server), h, d, layout)
			order := c02RandomOrder(p, rng, styles[rng.Intn(len(styles))])
			end := 1
			if k%3 == 2 && len(order) > 0 {
				end = 1 + rng.Intn(len(order)+1)
			}
			jobs = append(jobs, gJSON(gCase{Prog: p, Mode: "gated", Order: order, Grace: grace, EndInput: end, Tag: "end-of-stream/" + layout}))
		}
		deck = newC14Deck(rng)
		for k := 0; k < nDeep; k++ {
			opt := deck.next(server)
			h := 1 + rng.Intn(3)
			var segs []int
			for i := 0; i < h; i++ {
				segs = append(segs, []int{1, 3, 9, 40, 300, 1025}[rng.Intn(6)])
			}
			g := c14Gen{Server: server, Opt: opt, Kinds: c14Kinds(rng, opt, h), Segs: segs, Spread: rng.Intn(2) == 0, Held: 1 + rng.Intn(8), Seed: rng.Int63()}
			gp, hold := g.expand()
			order := randomOrder(c14HeldReqs(gp, hold), rng, styles[rng.Intn(len(styles))])
			end := 1
			if k%2 == 1 && len(order) > 0 {
				end = 1 + rng.Intn(len(order)+1)
			}
			jobs = append(jobs, gJSON(c14Job{gCase: gCase{Mode: "gated", Order: order, Grace: grace, EndInput: end, Tag: "end-of-stream/deep"}, Gen: &g}))
		}
		deck = newC14Deck(rng)
		for k := 0; k < nFree; k++ {
			p := c14Program(rng, server, deck.next(server), 1+rng.Intn(4), 1+rng.Intn(24), layouts[rng.Intn(3)])
			mode := "sleep"
			if k%5 == 4 {
				mode = "free"
			}
			jobs = append(jobs, gJSON(gCase{Prog: p, Mode: mode, Seed: rng.Int63(), EndInput: 1, Tag: "end-of-stream/unforced"}))
		}
	}
	return jobs
}
