package main

// C15, the "alias" family: ONE file reached through SEVERAL NAMES, and every kind of single-packet observation of it.
//
// The histories of c15.go open all their handles under the file's own name on a handler that has one file and no
// names at all.  The property speaks of "one or several handles of the same file" and of "size queries": what a handle
// designates is decided when it is opened, and a server that keeps a NAME behind a handle (the request server does:
// FSTAT and FSETSTAT are served by name) can answer a later request on the handle from another object than the one its
// reads and writes go to.  Here the file lives in a name space — the package's own InMemHandler behind the request
// server, a registered scratch directory behind the os-backed server — next to a symbolic link with absolute text, one
// with relative text, a chain of links, a link inside a sub-directory, a hard link, a second regular file of another
// size and a link to that; handles are opened through the own name, every link, the hard link, uncleaned spellings
// (/d/../f, /./f, //f) and spellings relative to the server's start/working directory.  The goroutines issue, besides
// single-packet ReadAt/WriteAt within the extent, every single-packet operation that observes or (re)states the size:
//
//	File.Stat (FSTAT), File.Seek(0, io.SeekEnd) (FSTAT), Client.Stat(name) (STAT), Client.Lstat(name) (LSTAT; only names
//	whose last component is no symbolic link), File.Truncate(size of the file) (FSETSTAT), Client.Truncate(name, size of
//	the file) (SETSTAT).
//
// Sequential specification (Lean: Sftp.C15.apply): a size query returns the length of THE file, whatever handle or name
// carried it; a truncation to the current size is the identity.  Every store step is stamped inside one critical
// section (the handler calls of InMemHandler run inside it; the os-backed server's open files are wrapped); the history
// of reads, writes and size queries — all four kinds of size query as the model's `size` operation — is decided by the
// proved checker checkStamped.  The truncations are the identity of the sequential file and are left out of the line
// given to the checker (the model has no such operation; removing identity steps neither creates nor destroys a
// linearisation); what they do to the file is observed by the reads and size queries after them and by the quiescent
// observations that end every history: File.Stat through every handle and a read of the whole file through every
// readable handle, after all goroutines have returned, also validated by the checker as part of the same history.
// STAT/LSTAT/SETSTAT by name on the os-backed server reach no hook (package os is called with the name): those
// operations get their stamp from the harness (the clock tick right after the call instant) — sound because a size
// query commutes with every operation of these histories (the size never changes).  The same stamp is used for a size
// query through a handle that the server answered without the instrumented step (histogram bucket
// alias/size-query-answered-without-an-instrumented-store-step): how a server obtains the size is its own business,
// what it reports is judged.
//
// Go-side oracles on top: every completed operation is served by exactly one store step of its class and there is no
// step without an operation; every size query describes a regular file (the model's file has no type: the type of the
// one file never changes either); a truncation step carries the size that was sent.

import (
	"fmt"
	"io"
	"io/fs"
	"os"
	"path/filepath"
	"sort"
	"strings"
	"sync"
	"time"

	"github.com/pkg/sftp"

	"verifharness/lib"
)

type c15AliasCfg struct {
	Alias  bool   `json:"alias"`  // distinguishes the replay input from a c15Cfg / c15HammerCfg
	Server string `json:"server"` // rs (InMemHandler) | os (scratch directory)
	Alloc  bool   `json:"allocator"`
	// request server only: the FileLister does not implement LstatFileLister (LSTAT is then served as STAT)
	NoLstat bool `json:"handler_without_lstat,omitempty"`
	// "" = option not given (rs: "/"; os: no working directory, no relative names); "root" = the directory of the
	// file; "sub" = its sub-directory d (WithStartDirectory / WithServerWorkingDirectory)
	StartDir string `json:"start_directory,omitempty"`
	// per handle: the name it is opened through (c15AliasNames) and its open mode r | w | rw
	Names      []string `json:"handle_names"`
	Kinds      []string `json:"handle_kinds"`
	Goroutines int      `json:"goroutines"`
	OpsEach    int      `json:"ops_each"`
	FileSize   int      `json:"file_size"`
	Seed       int64    `json:"seed"`
}

// the names of the one file
var c15AliasNames = []string{"own", "symlink-abs", "symlink-rel", "symlink-chain", "symlink-in-dir", "hardlink", "dotdot", "dot", "slashes", "relative", "relative-symlink"}

// c15AliasIsLink: the last component of the name is a symbolic link
func c15AliasIsLink(name string) bool { return strings.Contains(name, "symlink") }

// c15AliasPath spells name for a server whose file is base+"/f" ("" for the request server).
func c15AliasPath(base, startDir, name string) (string, bool) {
	switch name {
	case "own":
		return base + "/f", true
	case "symlink-abs":
		return base + "/la", true
	case "symlink-rel":
		return base + "/ls", true
	case "symlink-chain":
		return base + "/lc", true
	case "symlink-in-dir":
		return base + "/d/up", true
	case "hardlink":
		return base + "/hl", true
	case "dotdot":
		return base + "/d/../f", true
	case "dot":
		return base + "/./f", true
	case "slashes":
		return base + "//f", true
	case "relative":
		switch {
		case startDir == "sub":
			return "../f", true
		case startDir == "root" || base == "":
			return "f", true
		}
	case "relative-symlink":
		switch {
		case startDir == "sub":
			return "up", true
		case startDir == "root" || base == "":
			return "ls", true
		}
	}
	return "", false
}

// ---- the stamped name space of the request server: InMemHandler inside the store's critical section ----

type c15NS struct {
	in sftp.Handlers
	s  *c15Store
}

type c15NSFile struct {
	r io.ReaderAt
	w io.WriterAt
	s *c15Store
}

func (f c15NSFile) ReadAt(b []byte, off int64) (int, error) {
	if f.r == nil {
		return 0, os.ErrInvalid
	}
	f.s.mu.Lock()
	defer f.s.mu.Unlock()
	st := f.s.clk.tick()
	n, err := f.r.ReadAt(b, off)
	f.s.log = append(f.s.log, c15StoreEv{kind: 'r', stamp: st, off: off, data: append([]byte(nil), b[:max(n, 0)]...)})
	return n, err
}

func (f c15NSFile) WriteAt(b []byte, off int64) (int, error) {
	if f.w == nil {
		return 0, os.ErrInvalid
	}
	f.s.mu.Lock()
	defer f.s.mu.Unlock()
	st := f.s.clk.tick()
	n, err := f.w.WriteAt(b, off)
	f.s.log = append(f.s.log, c15StoreEv{kind: 'w', stamp: st, off: off, data: append([]byte(nil), b[:max(n, 0)]...)})
	return n, err
}

func (h *c15NS) Fileread(r *sftp.Request) (io.ReaderAt, error) {
	f, err := h.in.FileGet.Fileread(r)
	if err != nil {
		return nil, err
	}
	return c15NSFile{r: f, s: h.s}, nil
}

func (h *c15NS) Filewrite(r *sftp.Request) (io.WriterAt, error) {
	f, err := h.in.FilePut.Filewrite(r)
	if err != nil {
		return nil, err
	}
	return c15NSFile{w: f, s: h.s}, nil
}

func (h *c15NS) OpenFile(r *sftp.Request) (sftp.WriterAtReaderAt, error) {
	f, err := h.in.FilePut.(sftp.OpenFileWriter).OpenFile(r)
	if err != nil {
		return nil, err
	}
	return c15NSFile{r: f, w: f, s: h.s}, nil
}

func (h *c15NS) Filecmd(r *sftp.Request) error {
	if r.Method == "Setstat" && r.AttrFlags().Size {
		h.s.mu.Lock()
		defer h.s.mu.Unlock()
		st := h.s.clk.tick()
		err := h.in.FileCmd.Filecmd(r)
		if err == nil {
			h.s.log = append(h.s.log, c15StoreEv{kind: 't', stamp: st, size: int64(r.Attributes().Size)})
		}
		return err
	}
	return h.in.FileCmd.Filecmd(r)
}

// c15FrozenInfo: the attributes as they were inside the critical section
type c15FrozenInfo struct {
	name string
	size int64
	mode os.FileMode
	mod  time.Time
	sys  any
}

func (f c15FrozenInfo) Name() string       { return f.name }
func (f c15FrozenInfo) Size() int64        { return f.size }
func (f c15FrozenInfo) Mode() os.FileMode  { return f.mode }
func (f c15FrozenInfo) ModTime() time.Time { return f.mod }
func (f c15FrozenInfo) IsDir() bool        { return f.mode.IsDir() }
func (f c15FrozenInfo) Sys() any           { return f.sys }

func (h *c15NS) stat(call func() (sftp.ListerAt, error)) (sftp.ListerAt, error) {
	h.s.mu.Lock()
	defer h.s.mu.Unlock()
	st := h.s.clk.tick()
	l, err := call()
	if err != nil {
		return nil, err
	}
	fis := make([]os.FileInfo, 1)
	n, err := l.ListAt(fis, 0)
	if c, ok := l.(io.Closer); ok {
		c.Close()
	}
	if n == 0 {
		if err == nil || err == io.EOF {
			err = os.ErrNotExist
		}
		return nil, err
	}
	fi := c15FrozenInfo{fis[0].Name(), fis[0].Size(), fis[0].Mode(), fis[0].ModTime(), fis[0].Sys()}
	h.s.log = append(h.s.log, c15StoreEv{kind: 's', stamp: st, size: fi.size})
	return c15One{fi}, nil
}

func (h *c15NS) Filelist(r *sftp.Request) (sftp.ListerAt, error) {
	if r.Method != "Stat" {
		return h.in.FileList.Filelist(r)
	}
	return h.stat(func() (sftp.ListerAt, error) { return h.in.FileList.Filelist(r) })
}

// c15NSL is the name space with LstatFileLister (what InMemHandler is)
type c15NSL struct{ *c15NS }

func (h c15NSL) Lstat(r *sftp.Request) (sftp.ListerAt, error) {
	return h.stat(func() (sftp.ListerAt, error) { return h.in.FileList.(sftp.LstatFileLister).Lstat(r) })
}

// ---- the os-backed server's open file inside the store's critical section ----

type c15AFile struct {
	sftp.VerifFile
	s *c15Store
}

func (f c15AFile) ReadAt(b []byte, off int64) (int, error) {
	f.s.mu.Lock()
	defer f.s.mu.Unlock()
	st := f.s.clk.tick()
	n, err := f.VerifFile.ReadAt(b, off)
	f.s.log = append(f.s.log, c15StoreEv{kind: 'r', stamp: st, off: off, data: append([]byte(nil), b[:max(n, 0)]...)})
	return n, err
}

func (f c15AFile) WriteAt(b []byte, off int64) (int, error) {
	f.s.mu.Lock()
	defer f.s.mu.Unlock()
	st := f.s.clk.tick()
	n, err := f.VerifFile.WriteAt(b, off)
	f.s.log = append(f.s.log, c15StoreEv{kind: 'w', stamp: st, off: off, data: append([]byte(nil), b[:max(n, 0)]...)})
	return n, err
}

func (f c15AFile) Stat() (fs.FileInfo, error) {
	f.s.mu.Lock()
	defer f.s.mu.Unlock()
	st := f.s.clk.tick()
	fi, err := f.VerifFile.Stat()
	if err == nil {
		f.s.log = append(f.s.log, c15StoreEv{kind: 's', stamp: st, size: fi.Size()})
	}
	return fi, err
}

func (f c15AFile) Truncate(n int64) error {
	f.s.mu.Lock()
	defer f.s.mu.Unlock()
	st := f.s.clk.tick()
	err := f.VerifFile.Truncate(n)
	if err == nil {
		f.s.log = append(f.s.log, c15StoreEv{kind: 't', stamp: st, size: n})
	}
	return err
}

// ---- one operation of an alias history ----

// kinds: r ReadAt, w WriteAt, s File.Stat, e File.Seek(0, SeekEnd), p Client.Stat(name), l Client.Lstat(name),
// t File.Truncate(size of the file), u Client.Truncate(name, size of the file)
type c15AOp struct {
	c15Op
	API    string `json:"api"`
	Handle int    `json:"handle"`         // -1: by name
	Name   string `json:"name"`           // the name of the handle / of the request
	Mode   string `json:"mode,omitempty"` // size queries: the file mode reported
	// the stamp was given by the harness (requests by name to the os-backed server reach no hook)
	HarnessStamp bool `json:"harness_stamp,omitempty"`
	Quiescent    bool `json:"quiescent,omitempty"` // issued after all goroutines had returned
	notRegular   bool
	// size queries: an instant right after the call, used as the stamp when the server answered without a store step
	// of the instrumented kind (a size query commutes with every operation of these histories)
	spare int64
}

var c15AAPI = map[byte]string{'r': "ReadAt", 'w': "WriteAt", 's': "File.Stat", 'e': "File.Seek-End", 'p': "Client.Stat", 'l': "Client.Lstat", 't': "File.Truncate", 'u': "Client.Truncate"}

// c15AClass: the class of store step that serves an operation
func c15AClass(kind byte) byte {
	switch kind {
	case 's', 'e', 'p', 'l':
		return 's'
	case 't', 'u':
		return 't'
	}
	return kind
}

// c15ANameClass: the part of a name that goes into a failure key
func c15ANameClass(name string) string {
	switch {
	case c15AliasIsLink(name):
		return "symlink"
	case name == "hardlink":
		return "hardlink"
	case name == "own":
		return "own-name"
	}
	return "other-spelling"
}

// c15AliasRun executes one alias history.
func c15AliasRun(cfg c15AliasCfg) (init []byte, ops []c15AOp, problem string) {
	class := "c15/alias/" + cfg.Server
	rnd := newRand(cfg.Seed)
	clk := &c15Clock{}
	init = make([]byte, cfg.FileSize)
	for i := range init {
		init[i] = byte(0xA0 + i%16)
	}
	decoy := make([]byte, cfg.FileSize+7)
	for i := range decoy {
		decoy[i] = byte(0x30 + i%10)
	}
	store := &c15Store{clk: clk}
	var pair *vhPair
	var err error
	base := ""
	if cfg.Server == "rs" {
		var so []sftp.RequestServerOption
		if cfg.Alloc {
			so = append(so, sftp.WithRSAllocator())
		}
		switch cfg.StartDir {
		case "root":
			so = append(so, sftp.WithStartDirectory("/"))
		case "sub":
			so = append(so, sftp.WithStartDirectory("/d"))
		}
		ns := &c15NS{in: sftp.InMemHandler(), s: store}
		hs := sftp.Handlers{FileGet: ns, FilePut: ns, FileCmd: ns, FileList: c15NSL{ns}}
		if cfg.NoLstat {
			hs.FileList = ns
		}
		pair, err = vhStartRS(hs, nil, so...)
	} else {
		dir, e := lib.MkScratch("vh-c15a-")
		if e != nil {
			return nil, nil, "harness: " + e.Error()
		}
		defer os.RemoveAll(dir)
		base = dir
		steps := []error{
			os.WriteFile(filepath.Join(dir, "f"), init, 0o600),
			os.WriteFile(filepath.Join(dir, "g"), decoy, 0o600),
			os.Mkdir(filepath.Join(dir, "d"), 0o700),
			os.Symlink(filepath.Join(dir, "f"), filepath.Join(dir, "la")),
			os.Symlink("f", filepath.Join(dir, "ls")),
			os.Symlink("ls", filepath.Join(dir, "lc")),
			os.Symlink("../f", filepath.Join(dir, "d", "up")),
			os.Symlink("g", filepath.Join(dir, "lg")),
			os.Link(filepath.Join(dir, "f"), filepath.Join(dir, "hl")),
		}
		for _, e := range steps {
			if e != nil {
				return nil, nil, "harness: " + e.Error()
			}
		}
		var so []sftp.ServerOption
		if cfg.Alloc {
			so = append(so, sftp.WithAllocator())
		}
		switch cfg.StartDir {
		case "root":
			so = append(so, sftp.WithServerWorkingDirectory(dir))
		case "sub":
			so = append(so, sftp.WithServerWorkingDirectory(filepath.Join(dir, "d")))
		}
		pair, err = vhStartOS(nil, so...)
	}
	if err != nil {
		return nil, nil, "harness: start: " + err.Error()
	}
	defer pair.Close()
	cl := pair.Client
	if cfg.Server == "rs" {
		// the name space is built through the server itself
		var serr error
		ok := lib.Within(class, 20*time.Second, func() {
			put := func(name string, content []byte) error {
				f, err := cl.OpenFile(name, os.O_WRONLY|os.O_CREATE)
				if err != nil {
					return err
				}
				if _, err := f.WriteAt(content, 0); err != nil {
					return err
				}
				return f.Close()
			}
			for _, step := range []func() error{
				func() error { return put("/f", init) },
				func() error { return put("/g", decoy) },
				func() error { return cl.Mkdir("/d") },
				func() error { return cl.Symlink("/f", "/la") },
				func() error { return cl.Symlink("f", "/ls") },
				func() error { return cl.Symlink("ls", "/lc") },
				func() error { return cl.Symlink("../f", "/d/up") },
				func() error { return cl.Symlink("g", "/lg") },
				func() error { return cl.Link("/f", "/hl") },
			} {
				if serr = step(); serr != nil {
					return
				}
			}
		})
		if !ok {
			return nil, nil, "hang: building the name space did not finish within 20 s"
		}
		if serr != nil {
			return nil, nil, "harness: name space: " + serr.Error()
		}
	}
	spell := func(name string) string {
		p, ok := c15AliasPath(base, cfg.StartDir, name)
		if !ok {
			p, _ = c15AliasPath(base, cfg.StartDir, "own")
		}
		return p
	}
	var usable []string // names this configuration can spell
	for _, n := range c15AliasNames {
		if _, ok := c15AliasPath(base, cfg.StartDir, n); ok {
			usable = append(usable, n)
		}
	}
	var files []*sftp.File
	var canRead, canWrite []int
	for i, name := range cfg.Names {
		kind := "rw"
		if i < len(cfg.Kinds) {
			kind = cfg.Kinds[i]
		}
		flag := map[string]int{"r": os.O_RDONLY, "w": os.O_WRONLY, "rw": os.O_RDWR}[kind]
		var f *sftp.File
		var err error
		if !lib.Within(class, 20*time.Second, func() { f, err = cl.OpenFile(spell(name), flag) }) {
			return nil, nil, "hang: OpenFile did not return within 20 s"
		}
		if err != nil {
			return init, nil, fmt.Sprintf("open-failed: OpenFile of the file through its name %s (%s) failed: %v", name, kind, err)
		}
		files = append(files, f)
		if kind != "w" {
			canRead = append(canRead, i)
		}
		if kind != "r" {
			canWrite = append(canWrite, i)
		}
	}
	if cfg.Server == "os" {
		for i := 1; i <= len(files); i++ {
			if !sftp.VerifSwapFile(pair.OS, fmt.Sprint(i), func(f sftp.VerifFile) sftp.VerifFile { return c15AFile{f, store} }) {
				return nil, nil, fmt.Sprintf("harness: handle %d not in the server's table", i)
			}
		}
	}
	store.mu.Lock()
	store.log = nil // building the name space and opening are not operations of the history
	store.mu.Unlock()

	type plan struct {
		kind byte
		off  int64
		n    int
		data []byte
		h    int
		name string
	}
	var statNames, lstatNames []string
	for _, n := range usable {
		statNames = append(statNames, n)
		if !c15AliasIsLink(n) {
			lstatNames = append(lstatNames, n)
		}
	}
	usedRead := map[[2]int]bool{}
	plans := make([][]plan, cfg.Goroutines)
	opid := 0
	for g := range plans {
		for k := 0; k < cfg.OpsEach; k++ {
			opid++
			var p plan
			p.h = -1
			x := rnd.Intn(20)
			if x < 5 && len(canWrite) == 0 {
				x = 5 + rnd.Intn(15)
			}
			if x >= 5 && x < 11 && len(canRead) == 0 {
				x = 11 + rnd.Intn(9)
			}
			if x == 18 && len(canWrite) == 0 {
				x = 19
			}
			switch {
			case x < 5:
				p.kind = 'w'
				p.h = canWrite[rnd.Intn(len(canWrite))]
				p.n = 2 + rnd.Intn(10)
				p.off = int64(rnd.Intn(cfg.FileSize - p.n + 1))
				p.data = make([]byte, p.n)
				p.data[0], p.data[1] = byte(opid>>8), byte(opid) // unique
				for i := 2; i < p.n; i++ {
					p.data[i] = byte(rnd.Intn(256))
				}
			case x < 11:
				p.kind = 'r'
				p.h = canRead[rnd.Intn(len(canRead))]
				for tries := 0; ; tries++ {
					p.n = 1 + rnd.Intn(16)
					p.off = int64(rnd.Intn(cfg.FileSize - p.n + 1))
					if !usedRead[[2]int{int(p.off), p.n}] || tries > 50 {
						break
					}
				}
				if usedRead[[2]int{int(p.off), p.n}] {
					p.kind = 's'
				}
				usedRead[[2]int{int(p.off), p.n}] = true
			case x < 14:
				p.kind = 's'
				p.h = rnd.Intn(len(files))
			case x < 16:
				p.kind = 'e'
				p.h = rnd.Intn(len(files))
			case x < 17:
				p.kind = 'p'
				p.name = statNames[rnd.Intn(len(statNames))]
			case x < 18:
				p.kind = 'l'
				p.name = lstatNames[rnd.Intn(len(lstatNames))]
			case x < 19:
				p.kind = 't'
				p.h = canWrite[rnd.Intn(len(canWrite))]
			default:
				p.kind = 'u'
				p.name = statNames[rnd.Intn(len(statNames))]
			}
			if p.h >= 0 {
				p.name = cfg.Names[p.h]
			}
			plans[g] = append(plans[g], p)
		}
	}
	size := int64(cfg.FileSize)
	do := func(p plan) c15AOp {
		op := c15AOp{c15Op: c15Op{Kind: p.kind, K: string(p.kind), Off: p.off, Len: p.n}, API: c15AAPI[p.kind], Handle: p.h, Name: p.name}
		var f *sftp.File
		if p.h >= 0 {
			f = files[p.h]
		}
		byName := p.h < 0
		info := func(fi os.FileInfo, err error) {
			if err != nil {
				op.Err = err.Error()
				return
			}
			op.Size, op.Mode, op.notRegular = fi.Size(), fi.Mode().String(), !fi.Mode().IsRegular()
		}
		op.Call = clk.tick()
		if byName && cfg.Server == "os" {
			op.Stamp, op.HarnessStamp = clk.tick(), true
		} else if c15AClass(p.kind) == 's' {
			op.spare = clk.tick()
		}
		switch p.kind {
		case 'w':
			_, err := f.WriteAt(p.data, p.off)
			op.Ret = clk.tick()
			op.Data = p.data
			if err != nil {
				op.Err = err.Error()
			}
		case 'r':
			b := make([]byte, p.n)
			n, err := f.ReadAt(b, p.off)
			op.Ret = clk.tick()
			op.Data = b[:max(n, 0)]
			if err != nil && !(err == io.EOF && n == p.n) {
				op.Err = err.Error()
			}
		case 's':
			fi, err := f.Stat()
			op.Ret = clk.tick()
			info(fi, err)
		case 'e':
			n, err := f.Seek(0, io.SeekEnd)
			op.Ret = clk.tick()
			op.Size = n
			if err != nil {
				op.Err = err.Error()
			}
		case 'p':
			fi, err := cl.Stat(spell(p.name))
			op.Ret = clk.tick()
			info(fi, err)
		case 'l':
			fi, err := cl.Lstat(spell(p.name))
			op.Ret = clk.tick()
			info(fi, err)
		case 't':
			err := f.Truncate(size)
			op.Ret = clk.tick()
			op.Size = size
			if err != nil {
				op.Err = err.Error()
			}
		case 'u':
			err := cl.Truncate(spell(p.name), size)
			op.Ret = clk.tick()
			op.Size = size
			if err != nil {
				op.Err = err.Error()
			}
		}
		return op
	}
	var mu sync.Mutex
	var wg sync.WaitGroup
	for g := range plans {
		wg.Add(1)
		go func(g int) {
			defer wg.Done()
			for _, p := range plans[g] {
				op := do(p)
				mu.Lock()
				ops = append(ops, op)
				mu.Unlock()
			}
		}(g)
	}
	done := make(chan struct{})
	go func() { wg.Wait(); close(done) }()
	if _, ok := lib.WaitHang(class, 30*time.Second, done); !ok {
		return init, nil, "hang: concurrent operations did not finish within 30 s"
	}
	// quiescent observations: the size through every handle, the whole file through every readable handle
	qdone := make(chan struct{})
	go func() {
		defer close(qdone)
		for h := range files {
			op := do(plan{kind: 's', h: h, name: cfg.Names[h]})
			op.Quiescent = true
			mu.Lock()
			ops = append(ops, op)
			mu.Unlock()
		}
		for _, h := range canRead {
			op := do(plan{kind: 'r', h: h, name: cfg.Names[h], off: 0, n: cfg.FileSize})
			op.Quiescent = true
			mu.Lock()
			ops = append(ops, op)
			mu.Unlock()
		}
	}()
	if _, ok := lib.WaitHang(class, 30*time.Second, qdone); !ok {
		return init, nil, "hang: the observations after the history did not finish within 30 s"
	}
	mu.Lock()
	defer mu.Unlock()
	store.mu.Lock()
	log := append([]c15StoreEv(nil), store.log...)
	store.mu.Unlock()
	sort.SliceStable(ops, func(i, j int) bool { return ops[i].Ret < ops[j].Ret })
	used := make([]bool, len(log))
	for i := range ops {
		op := &ops[i]
		op.DataHex = lib.Hex(op.Data)
		if op.Err != "" {
			return init, ops, fmt.Sprintf("operation-failed/%s/%s: %s through the name %s (off=%d len=%d) failed: %s", op.API, c15ANameClass(op.Name), op.API, op.Name, op.Off, op.Len, op.Err)
		}
		if op.HarnessStamp {
			continue
		}
		found := -1
		cls := c15AClass(op.Kind)
		for j, ev := range log {
			if used[j] || ev.kind != cls || ev.stamp <= op.Call || ev.stamp >= op.Ret {
				continue
			}
			switch cls {
			case 'w':
				if ev.off == op.Off && string(ev.data) == string(op.Data) {
					found = j
				}
			case 'r':
				if ev.off == op.Off && (len(ev.data) == op.Len || op.Quiescent) {
					found = j
				}
			default:
				// earliest-deadline-first matching of steps to intervals (ops are in order of return)
				if found < 0 || ev.stamp < log[found].stamp {
					found = j
				}
			}
			if found >= 0 && (cls == 'r' || cls == 'w') {
				break
			}
		}
		if found < 0 && cls == 's' && op.spare > 0 {
			op.Stamp, op.HarnessStamp = op.spare, true
			continue
		}
		if found < 0 {
			return init, ops, fmt.Sprintf("unmatched-operation/%s: no store step found for %s through the name %s off=%d len=%d (call %d, ret %d)", op.API, op.API, op.Name, op.Off, op.Len, op.Call, op.Ret)
		}
		used[found] = true
		op.Stamp = log[found].stamp
		if cls == 't' && log[found].size != size {
			return init, ops, fmt.Sprintf("truncate-size/%s: %s to %d bytes reached the store as a truncation to %d bytes", op.API, op.API, size, log[found].size)
		}
	}
	var extra []string
	for j, ev := range log {
		if !used[j] {
			extra = append(extra, fmt.Sprintf("%c off=%d len=%d size=%d stamp=%d", ev.kind, ev.off, len(ev.data), ev.size, ev.stamp))
		}
	}
	if len(extra) > 0 {
		n := len(extra)
		if n > 6 {
			extra = extra[:6]
		}
		return init, ops, fmt.Sprintf("extra-store-steps: %d completed operations reached the backing store as %d steps; %d steps belong to no operation: [%s]",
			len(ops), len(log), n, strings.Join(extra, "; "))
	}
	return init, ops, ""
}

// c15AliasLine: the history for the proved checker — all size queries as `s`, truncations to the current size (the
// identity) left out; idx maps positions of the line to positions in ops.
func c15AliasLine(init []byte, ops []c15AOp) (line string, idx []int) {
	var conv []c15Op
	for i, op := range ops {
		o := op.c15Op
		switch c15AClass(op.Kind) {
		case 't':
			continue
		case 's':
			o.Kind = 's'
		}
		conv = append(conv, o)
		idx = append(idx, i)
	}
	return c15Line(init, conv), idx
}

// c15AliasCfgs: the alias histories of a run.
func c15AliasCfgs(c *lib.Ctx) []c15AliasCfg {
	n := 484 // 4 × the 121 ordered pairs of names
	if c.Tier == "thorough" {
		n = 5000
	}
	var out []c15AliasCfg
	for i := 0; i < n; i++ {
		cfg := c15AliasCfg{Alias: true, Server: []string{"rs", "os"}[i%2], Alloc: (i/2)%2 == 1,
			StartDir:   []string{"", "root", "sub"}[(i/4)%3],
			Goroutines: 2 + c.Rand.Intn(7), OpsEach: 4 + c.Rand.Intn(16), FileSize: 48 + c.Rand.Intn(64), Seed: c.Rand.Int63()}
		cfg.NoLstat = cfg.Server == "rs" && (i/12)%4 == 3
		base := ""
		if cfg.Server == "os" {
			base = "/x"
		}
		var usable []string
		for _, nm := range c15AliasNames {
			if _, ok := c15AliasPath(base, cfg.StartDir, nm); ok {
				usable = append(usable, nm)
			}
		}
		nh := 2 + c.Rand.Intn(3)
		// the first two handles: every ordered pair of names comes round (also twice the same name)
		pairNo := (i / 2) % (len(usable) * len(usable))
		cfg.Names = []string{usable[pairNo%len(usable)], usable[pairNo/len(usable)]}
		for len(cfg.Names) < nh {
			cfg.Names = append(cfg.Names, usable[c.Rand.Intn(len(usable))])
		}
		for h := 0; h < nh; h++ {
			cfg.Kinds = append(cfg.Kinds, []string{"rw", "rw", "r", "w"}[c.Rand.Intn(4)])
		}
		reads, writes := false, false
		for _, k := range cfg.Kinds {
			reads = reads || k != "w"
			writes = writes || k != "r"
		}
		if !reads {
			cfg.Kinds[c.Rand.Intn(nh)] = "rw"
		}
		if !writes {
			cfg.Kinds[c.Rand.Intn(nh)] = "rw"
		}
		out = append(out, cfg)
	}
	return out
}

// c15Aliases runs the alias histories and folds their outcomes into the result.
func c15Aliases(c *lib.Ctx, cfgs []c15AliasCfg) {
	r := c.R
	type kept struct {
		cfg c15AliasCfg
		ops []c15AOp
		idx []int
	}
	var lines []string
	var keep []kept
	var tRun time.Duration
	ran := 0
	for _, cfg := range cfgs {
		if c.Stop("c15/alias/" + cfg.Server) {
			continue
		}
		ran++
		tr := time.Now()
		init, ops, problem := c15AliasRun(cfg)
		tRun += time.Since(tr)
		line, idx := c15AliasLine(init, ops)
		overlap := false
		for i := range ops {
			for j := range ops {
				if i != j && ops[i].Kind == 'w' && ops[i].Call < ops[j].Ret && ops[j].Call < ops[i].Ret {
					overlap = true
				}
			}
		}
		distinct := map[string]bool{}
		for _, nm := range cfg.Names {
			distinct[nm] = true
			r.Hist("alias/handle-name=" + nm)
		}
		r.Case("alias "+fmt.Sprint(cfg.Names, cfg.Kinds, cfg.StartDir, cfg.NoLstat)+" "+line, overlap && len(distinct) >= 2)
		r.Hist(fmt.Sprintf("alias/%s-alloc=%v", cfg.Server, cfg.Alloc))
		if cfg.StartDir == "" {
			r.Hist("alias/start-directory=not-given")
		} else {
			r.Hist("alias/start-directory=" + cfg.StartDir)
		}
		if cfg.Server == "rs" {
			r.Hist(fmt.Sprintf("alias/rs-handler-lstat=%v", !cfg.NoLstat))
		}
		r.Hist(fmt.Sprintf("alias/distinct-names-of-handles=%d", len(distinct)))
		for _, op := range ops {
			if !op.Quiescent {
				r.Hist("alias/op=" + op.API + "/" + c15ANameClass(op.Name))
			}
			if op.HarnessStamp && op.spare > 0 {
				r.Hist("alias/size-query-answered-without-an-instrumented-store-step/" + op.API)
			}
		}
		if problem != "" {
			head := strings.SplitN(problem, ":", 2)[0]
			if strings.HasPrefix(head, "harness") {
				r.Fail(lib.Failure{Kind: "tie", Key: "harness/alias", What: problem, Input: cfg})
			} else {
				r.Fail(lib.Failure{Kind: "oracle", Key: "alias-history/" + head, What: problem, Input: cfg})
			}
			continue
		}
		// the one file is a regular file, through every handle and name
		for _, op := range ops {
			if op.notRegular {
				r.Fail(lib.Failure{Kind: "oracle", Key: "alias-history/size-query-not-the-regular-file/" + op.API + "/" + c15ANameClass(op.Name),
					What: fmt.Sprintf("%s through the name %s of the file (handle %d) describes an object of mode %s and size %d; the file the handles read and write is a regular file of %d bytes",
						op.API, op.Name, op.Handle, op.Mode, op.Size, cfg.FileSize),
					Input: cfg, Expected: fmt.Sprintf("regular file, size %d", cfg.FileSize), Actual: fmt.Sprintf("mode %s, size %d", op.Mode, op.Size)})
				break
			}
		}
		if len(r.Samples) < 5 {
			short := ops
			if len(short) > 8 {
				short = short[:8]
			}
			r.Sample(map[string]any{"alias": cfg, "first_ops": short})
		}
		lines = append(lines, line)
		keep = append(keep, kept{cfg, ops, idx})
	}
	if len(lines) == 0 {
		return
	}
	t1 := time.Now()
	out, err := c15Model(c, lines)
	if err != nil {
		r.Fail(lib.Failure{Kind: "tie", Key: "c15/model-driver", What: err.Error()})
		return
	}
	for i, o := range out {
		if o == "ok" {
			continue
		}
		k := keep[i]
		key, what := "alias-history/not-linearizable", "stamped history rejected by the proved checker: "+o
		var at int
		if p := strings.LastIndex(o, "@"); p >= 0 {
			if _, err := fmt.Sscanf(o[p+1:], "%d", &at); err == nil && at >= 0 && at < len(k.idx) {
				op := k.ops[k.idx[at]]
				key += "/" + op.API + "/" + c15ANameClass(op.Name)
				switch c15AClass(op.Kind) {
				case 's':
					what += fmt.Sprintf(": %s through the name %s (handle %d; call %d, store step %d, return %d) reported size %d%s; at that step the file had %d bytes", op.API, op.Name, op.Handle, op.Call, op.Stamp, op.Ret, op.Size, map[bool]string{true: " (mode " + op.Mode + ")"}[op.Mode != ""], k.cfg.FileSize)
				default:
					what += fmt.Sprintf(": %s through the name %s (handle %d; call %d, store step %d, return %d) off=%d len=%d data=%s is not what the sequential file gives at that step", op.API, op.Name, op.Handle, op.Call, op.Stamp, op.Ret, op.Off, op.Len, op.DataHex)
				}
			}
		}
		r.Fail(lib.Failure{Kind: "oracle", Key: key, What: what, Input: k.cfg, Actual: c15Short(lines[i])})
	}
	r.Note("alias family: running %d histories took %.1f s, validating %d stamped traces with the proved checker %.1f s", ran, tRun.Seconds(), len(lines), time.Since(t1).Seconds())
}
