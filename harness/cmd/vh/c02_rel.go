package main

// C02, ARGUMENT RELATIONS: "for every well-formed request packet a server receives it emits exactly one response
// packet …" is quantified over request programs "valid or failing".  What a handler does with a request depends not
// only on its kind but on how its arguments RELATE to each other and to the state of the session: the two paths of
// a RENAME / posix-rename / SYMLINK / hardlink may be the same string, the same object in two spellings (relative and
// absolute, "./a", "a/", "dir/../a", through a symbolic link), one inside the other, both missing; a path may be the
// one an open handle refers to, a directory where a file is expected, the empty string; a READ or WRITE may have
// length zero or an offset past every size; a SETSTAT may carry no attribute at all; a handle may be of the other
// kind, closed, closed twice, never issued, empty.  Such requests take the rare branches of the dispatch functions
// (early exits, shortcuts, "nothing to do"), and every one of those branches still owes the client its one reply.
//
// A relation case is a program of such requests, run un-gated against a fresh server of either kind — the
// os-backed Server on a tree of its own inside the scratch area of the run (behind the containment guard of
// peers.StartOS; every path of a program lies below that tree, every link text is relative and stays below it),
// the RequestServer on sftp.InMemHandler with the same tree — with or without a working / start directory, with
// the allocator on or off, written in one piece or frame by frame, never waiting for a reply.  Behind the program
// go a REALPATH, a STAT, the CLOSE of every handle of the session (each one a barrier of the packet manager) and
// an LSTAT.  Judged: one reply per request, in arrival order, with the request's id, of a type legal for the
// request (its success type or an error STATUS; success is not predicted); nothing more is written; Serve
// returns when the input ends.  A program that fails is re-run reduced to the request whose reply is at fault;
// when that reproduces, the reduced program is the replay input.

import (
	"fmt"
	"math/rand"
	"os"
	"path/filepath"
	"strings"
	"time"

	"github.com/pkg/sftp"

	"verifharness/lib"
	"verifharness/peers"
	"verifharness/wire"
)

type c02RelOp struct {
	K    string `json:"k"`
	A    string `json:"a,omitempty"` // path (two-path requests: old path / text of the link); "@…" = sent absolute
	B    string `json:"b,omitempty"` // new path / path of the link
	H    string `json:"h,omitempty"` // handle of the session by name (c02RelHandles), "stale", "bogus", "none", "long"
	Off  uint64 `json:"off,omitempty"`
	Len  uint32 `json:"len,omitempty"`
	PF   uint32 `json:"pflags,omitempty"`
	AF   uint32 `json:"attr_flags,omitempty"`
	Size uint64 `json:"size,omitempty"`
	Rel  string `json:"relation,omitempty"` // what the arguments have to do with each other (for the histogram and the report)
	ID   uint32 `json:"id"`
}

type c02Rel struct {
	Server  string     `json:"server"`
	Alloc   bool       `json:"alloc,omitempty"`
	WorkDir bool       `json:"workdir,omitempty"`
	Send    string     `json:"send,omitempty"` // "" = the whole program in one write; "frames" = one write per request
	Tag     string     `json:"tag,omitempty"`
	Ops     []c02RelOp `json:"ops"`
}

func (o c02RelOp) text() string {
	s := o.K
	switch {
	case o.H != "":
		s += "(" + o.H
		switch o.K {
		case "read":
			s += fmt.Sprintf(",%d,%d", o.Off, o.Len)
		case "write":
			s += fmt.Sprintf(",%d,%d", o.Off, o.Len)
		case "fsetstat":
			s += fmt.Sprintf(",flags=%#x,size=%d", o.AF, o.Size)
		}
		s += ")"
	case c02RelTwoPath(o.K):
		s += "(" + c02RelShort(o.A) + "," + c02RelShort(o.B) + ")"
	case o.K == "extunknown":
	default:
		s += "(" + c02RelShort(o.A)
		if o.K == "open" {
			s += fmt.Sprintf(",pflags=%#x", o.PF)
		}
		if o.K == "setstat" {
			s += fmt.Sprintf(",flags=%#x,size=%d", o.AF, o.Size)
		}
		s += ")"
	}
	return s
}

func c02RelShort(p string) string {
	if len(p) > 40 {
		return fmt.Sprintf("%s…[%d bytes]", p[:8], len(p))
	}
	return fmt.Sprintf("%q", p)
}

func (rl c02Rel) text() string {
	var t []string
	for _, o := range rl.Ops {
		t = append(t, o.text())
	}
	return fmt.Sprintf("relations %s alloc=%v workdir=%v send=%s ids=%s: %s", rl.Server, rl.Alloc, rl.WorkDir, map[string]string{"": "one-write", "frames": "frame-by-frame"}[rl.Send], c02RelIDShape(rl.Ops), strings.Join(t, " "))
}

func c02RelIDShape(ops []c02RelOp) string {
	if len(ops) < 2 {
		return "one"
	}
	same, asc, desc := true, true, true
	for i := 1; i < len(ops); i++ {
		same = same && ops[i].ID == ops[0].ID
		asc = asc && ops[i].ID == ops[i-1].ID+1
		desc = desc && ops[i].ID+1 == ops[i-1].ID
	}
	switch {
	case same:
		return "same"
	case asc:
		return "seq"
	case desc:
		return "desc"
	}
	return "rand"
}

func c02RelTwoPath(k string) bool {
	return k == "rename" || k == "posixrename" || k == "symlink" || k == "hardlink"
}

// ---- the tree and the handles of a session ----

const c02RelLong = 256 // bytes of a name no file system takes

var c02RelLongName = strings.Repeat("n", c02RelLong)

type c02RelNode struct {
	Path string
	Kind string // "dir", "file", "link"
	Size int
	Text string
}

// c02RelTree: every kind of object a path can name. The texts of the links are relative and lead nowhere but into
// the tree, wherever a RENAME of the program may move them.
var c02RelTree = []c02RelNode{
	{Path: "a", Kind: "file", Size: 5000},
	{Path: "b", Kind: "file", Size: 100},
	{Path: "c", Kind: "file", Size: 0},
	{Path: "dir", Kind: "dir"},
	{Path: "dir/f", Kind: "file", Size: 300},
	{Path: "dir/sub", Kind: "dir"},
	{Path: "dir/sub/g", Kind: "file", Size: 10},
	{Path: "empty", Kind: "dir"},
	{Path: "lnk", Kind: "link", Text: "a"},
	{Path: "dlnk", Kind: "link", Text: "dir"},
	{Path: "dang", Kind: "link", Text: "nope"},
	{Path: "loop", Kind: "link", Text: "loop"},
}

type c02RelHandle struct {
	Name, Path string
	PF         uint32 // 0: OPENDIR
	Closed     bool
}

// c02RelHandles are opened (and their HANDLE replies read) before the program is sent.
var c02RelHandles = []c02RelHandle{
	{Name: "hr", Path: "a", PF: wire.FRead},
	{Name: "hw", Path: "b", PF: wire.FWrite},
	{Name: "hx", Path: "dir/f", PF: wire.FRead | wire.FWrite},
	{Name: "ha", Path: "c", PF: wire.FWrite | wire.FAppend},
	{Name: "hl", Path: "lnk", PF: wire.FRead},
	{Name: "hd", Path: "dir"},
	{Name: "he", Path: "empty"},
	{Name: "stale", Path: "a", PF: wire.FRead, Closed: true},
}

// objects a path argument is drawn from, with what they are
var c02RelObjects = [][2]string{
	{"a", "file-with-an-open-read-handle"}, {"b", "file-with-an-open-write-handle"}, {"c", "empty-file-with-an-open-append-handle"},
	{"dir", "directory-with-an-open-handle"}, {"dir/f", "file-inside-the-open-directory"}, {"dir/sub", "subdirectory"}, {"dir/sub/g", "file-two-levels-down"},
	{"empty", "empty-directory-with-an-open-handle"}, {"lnk", "symlink-to-the-open-file"}, {"dlnk", "symlink-to-the-directory"}, {"dang", "dangling-symlink"},
	{"loop", "symlink-to-itself"}, {"nope", "missing"}, {"nope/x", "missing-parent"}, {"a/x", "below-a-file"}, {"dlnk/f", "file-through-a-symlink"},
	{".", "the-root-of-the-tree"}, {"", "empty-string"}, {c02RelLongName, "name-of-256-bytes"},
}

// c02RelSpell writes the object o in one of its spellings (v < 0: drawn).
func c02RelSpell(rng *rand.Rand, o string, v int) string {
	if o == "" || len(o) > 200 {
		return o
	}
	if v < 0 {
		v = rng.Intn(12)
	}
	if o == "." {
		return []string{".", "@", "./", "@/", "dir/..", "@dir/..", "./.", "empty/../", ".", "@", ".", "@"}[v%12]
	}
	switch v % 12 {
	case 1:
		return "./" + o
	case 2:
		return o + "/"
	case 3:
		return o + "/."
	case 4:
		return "dir/../" + o
	case 5:
		if i := strings.IndexByte(o, '/'); i >= 0 {
			return o[:i] + "/" + o[i:]
		}
		return ".//" + o
	case 6, 7:
		return "@" + o
	case 8:
		return "@" + o + "/"
	case 9:
		return "@empty/../" + o
	}
	return o
}

const c02RelSpellings = 10 // the distinct ones of c02RelSpell: 0 … 9

// ---- generators ----

type c02RelGen struct {
	rng    *rand.Rand
	server string
	fresh  int
}

func (g *c02RelGen) newName() string {
	g.fresh++
	return fmt.Sprintf("new%d", g.fresh)
}

func (g *c02RelGen) sp(o string) string {
	if g.rng.Intn(2) == 0 {
		return o
	}
	return c02RelSpell(g.rng, o, -1)
}

var c02RelTwoKinds = []string{"rename", "posixrename", "symlink", "hardlink"}

var c02RelRelations = []string{
	"same-string", "same-object-relative-and-absolute", "same-object-two-spellings", "same-object-through-a-symlink",
	"new-inside-old", "old-inside-new", "through-a-file", "file-onto-file", "file-onto-directory", "directory-onto-file",
	"directory-onto-empty-directory", "directory-onto-non-empty-directory", "missing-source", "both-missing", "fresh-target", "target-parent-missing",
	"empty-string", "symlink-as-source", "root-of-the-tree", "name-too-long",
}

func (g *c02RelGen) pick(xs ...string) string { return xs[g.rng.Intn(len(xs))] }

// pair draws the two paths of a two-path request that stand in the relation rel.
func (g *c02RelGen) pair(rel string) (string, string) {
	existing := []string{"a", "b", "c", "dir", "dir/f", "dir/sub", "dir/sub/g", "empty", "lnk", "dlnk", "dang", "loop"}
	switch rel {
	case "same-string":
		s := c02RelSpell(g.rng, g.pick("a", "a", "b", "dir", "dir/f", "empty", "lnk", "dang", "nope", "."), -1)
		return s, s
	case "same-object-relative-and-absolute":
		o := g.pick("a", "a", "b", "dir", "dir/f", "empty", "lnk", "nope")
		if g.rng.Intn(2) == 0 {
			return o, "@" + o
		}
		return "@" + o, o
	case "same-object-two-spellings":
		o := g.pick("a", "a", "b", "dir", "dir/sub", "dir/f", "empty", "dlnk", "nope")
		v := g.rng.Intn(c02RelSpellings)
		w := (v + 1 + g.rng.Intn(c02RelSpellings-1)) % c02RelSpellings
		return c02RelSpell(g.rng, o, v), c02RelSpell(g.rng, o, w)
	case "same-object-through-a-symlink":
		p := [][2]string{{"a", "lnk"}, {"lnk", "a"}, {"dir", "dlnk"}, {"dlnk", "dir"}, {"dlnk/f", "dir/f"}, {"dir/f", "dlnk/f"}, {"dlnk/sub", "dir/sub"}}[g.rng.Intn(7)]
		return g.sp(p[0]), g.sp(p[1])
	case "new-inside-old":
		p := [][2]string{{"dir", "dir/sub/new"}, {"dir", "dir/new"}, {"empty", "empty/new"}, {"dir/sub", "dir/sub/g/new"}, {"dir", "dlnk/new"}, {".", "new"}}[g.rng.Intn(6)]
		return g.sp(p[0]), g.sp(p[1])
	case "old-inside-new":
		p := [][2]string{{"dir/sub", "dir"}, {"dir/f", "dir"}, {"dir/sub/g", "dir"}, {"dir/sub/g", "dir/sub"}, {"a", "."}}[g.rng.Intn(5)]
		return g.sp(p[0]), g.sp(p[1])
	case "through-a-file":
		p := [][2]string{{"a", "a/x"}, {"a/x", "a"}, {"b", "a/x"}, {"a/x", "a/y"}}[g.rng.Intn(4)]
		return g.sp(p[0]), g.sp(p[1])
	case "file-onto-file":
		p := [][2]string{{"a", "b"}, {"b", "a"}, {"b", "c"}, {"dir/f", "a"}, {"a", "dir/sub/g"}, {"lnk", "b"}}[g.rng.Intn(6)]
		return g.sp(p[0]), g.sp(p[1])
	case "file-onto-directory":
		return g.sp(g.pick("a", "b", "dir/f", "lnk")), g.sp(g.pick("dir", "empty", "dir/sub", "dlnk"))
	case "directory-onto-file":
		return g.sp(g.pick("dir", "empty", "dir/sub")), g.sp(g.pick("a", "c", "dir/f", "lnk", "dang"))
	case "directory-onto-empty-directory":
		return g.sp(g.pick("dir", "dir/sub")), g.sp("empty")
	case "directory-onto-non-empty-directory":
		return g.sp(g.pick("empty", "dir/sub")), g.sp(g.pick("dir", "dlnk"))
	case "missing-source":
		return g.sp(g.pick("nope", "nope/x", "a/x")), g.sp(g.pick("a", "dir", g.newName(), "empty"))
	case "both-missing":
		return g.sp(g.pick("nope", "nope/x")), g.sp(g.pick("nope", "nope/x", "nope/y", g.newName()))
	case "fresh-target":
		return g.sp(existing[g.rng.Intn(len(existing))]), g.sp(g.newName())
	case "target-parent-missing":
		return g.sp(g.pick("a", "dir", "lnk")), g.sp(g.pick("nope/x", "nope/x/y", "a/x"))
	case "empty-string":
		p := [][2]string{{"", "a"}, {"a", ""}, {"", ""}, {"", "nope"}, {"dir", ""}}[g.rng.Intn(5)]
		return p[0], p[1]
	case "symlink-as-source":
		s := g.pick("lnk", "dlnk", "dang", "loop")
		return g.sp(s), g.sp(g.pick(g.newName(), s, "a", "empty"))
	case "root-of-the-tree":
		p := [][2]string{{".", "new"}, {"a", "."}, {".", "."}, {"@", "@"}, {"dir", "@"}, {"@", "dir/new"}}[g.rng.Intn(6)]
		return p[0], p[1]
	case "name-too-long":
		p := [][2]string{{"a", c02RelLongName}, {c02RelLongName, "a"}, {c02RelLongName, c02RelLongName}, {"dir", "dir/" + c02RelLongName}}[g.rng.Intn(4)]
		return p[0], p[1]
	}
	panic("c02RelGen.pair: " + rel)
}

func (g *c02RelGen) twoPath(kind, rel string) c02RelOp {
	a, b := g.pair(rel)
	if kind == "symlink" && strings.HasPrefix(a, "@") && g.rng.Intn(2) == 0 {
		a = a[1:] // the text of a link: mostly relative
	}
	return c02RelOp{K: kind, A: a, B: b, Rel: rel}
}

// single-path kinds; "open/…" are OPENs with the pflags that decide what an OPEN does
var c02RelOneKinds = []string{"stat", "lstat", "opendir", "readlink", "realpath", "statvfs", "remove", "rmdir", "mkdir",
	"setstat/no-attributes", "setstat/size-0", "setstat/size", "setstat/perm", "setstat/times", "setstat/owner", "setstat/all",
	"open/read", "open/write", "open/read-write", "open/creat", "open/creat-excl", "open/trunc", "open/append", "open/no-flags"}

func (g *c02RelGen) onePath(kind string, obj [2]string, spelling int) c02RelOp {
	o := c02RelOp{A: c02RelSpell(g.rng, obj[0], spelling), Rel: obj[1]}
	k, v, _ := strings.Cut(kind, "/")
	o.K = k
	switch k {
	case "setstat":
		o.AF, o.Size = c02RelAttr(g.rng, v)
	case "open":
		o.PF = map[string]uint32{"read": wire.FRead, "write": wire.FWrite, "read-write": wire.FRead | wire.FWrite, "creat": wire.FWrite | wire.FCreat,
			"creat-excl": wire.FWrite | wire.FCreat | wire.FExcl, "trunc": wire.FWrite | wire.FCreat | wire.FTrunc, "append": wire.FWrite | wire.FAppend, "no-flags": 0}[v]
	}
	return o
}

func c02RelAttr(rng *rand.Rand, v string) (flags uint32, size uint64) {
	switch v {
	case "size-0":
		return wire.ASize, 0
	case "size":
		return wire.ASize, []uint64{1, 100, 5000, 70000}[rng.Intn(4)]
	case "perm":
		return wire.APerm, 0
	case "times":
		return wire.ATime, 0
	case "owner":
		return wire.AUIDGID, 0
	case "all":
		return wire.ASize | wire.APerm | wire.ATime | wire.AUIDGID, 5000
	}
	return 0, 0
}

var c02RelHandleNames = []string{"hr", "hw", "hx", "ha", "hl", "hd", "he", "stale", "bogus", "none", "long"}

func c02RelHandleClass(h string) string {
	switch h {
	case "hr":
		return "read-handle"
	case "hw":
		return "write-handle"
	case "hx":
		return "read-write-handle"
	case "ha":
		return "append-handle-of-an-empty-file"
	case "hl":
		return "read-handle-opened-through-a-symlink"
	case "hd":
		return "directory-handle"
	case "he":
		return "handle-of-an-empty-directory"
	case "stale":
		return "closed-handle"
	case "bogus":
		return "never-issued-handle"
	case "none":
		return "empty-handle-string"
	case "long":
		return "handle-string-of-300-bytes"
	}
	return h
}

// c02RelHandleOps: every handle request with the argument values at the edges of what it can be given. Offsets
// whose int64 form is negative and offsets far beyond a megabyte go to the os-backed server only (the kernel
// refuses them; sftp.InMemHandler, which is not what is judged here, would index or grow a slice with them).
func (g *c02RelGen) handleOps(h string) []c02RelOp {
	cl := c02RelHandleClass(h)
	mk := func(k, arg string, o c02RelOp) c02RelOp {
		o.K, o.H, o.Rel = k, h, cl
		if arg != "" {
			o.Rel += "/" + arg
		}
		return o
	}
	out := []c02RelOp{
		mk("read", "length-0", c02RelOp{Off: 0, Len: 0}),
		mk("read", "length-0-at-the-end", c02RelOp{Off: 5000, Len: 0}),
		mk("read", "first-byte", c02RelOp{Off: 0, Len: 1}),
		mk("read", "at-the-end", c02RelOp{Off: 5000, Len: 1}),
		mk("read", "across-the-end", c02RelOp{Off: 4990, Len: 100}),
		mk("read", "beyond-the-end", c02RelOp{Off: 1 << 20, Len: 5}),
		mk("read", "longer-than-max-tx", c02RelOp{Off: 0, Len: 40000}),
		mk("read", "offset-2^63-1", c02RelOp{Off: 1<<63 - 1, Len: 1}),
		mk("read", "offset-2^63", c02RelOp{Off: 1 << 63, Len: 1}),
		mk("read", "offset-2^64-1-length-0", c02RelOp{Off: 1<<64 - 1, Len: 0}),
		mk("write", "length-0", c02RelOp{Off: 0, Len: 0}),
		mk("write", "length-0-beyond-the-end", c02RelOp{Off: 70000, Len: 0}),
		mk("write", "one-byte", c02RelOp{Off: 0, Len: 1}),
		mk("write", "at-the-end", c02RelOp{Off: 5000, Len: 100}),
		mk("write", "beyond-the-end", c02RelOp{Off: 1 << 20, Len: 1}),
		mk("fstat", "", c02RelOp{}),
		mk("readdir", "", c02RelOp{}),
		mk("fsync", "", c02RelOp{}),
		mk("close", "", c02RelOp{}),
	}
	if g.server == "os" {
		out = append(out,
			mk("write", "offset-2^63-1", c02RelOp{Off: 1<<63 - 1, Len: 1}),
			mk("write", "offset-2^63", c02RelOp{Off: 1 << 63, Len: 1}),
			mk("write", "offset-2^64-1-length-0", c02RelOp{Off: 1<<64 - 1, Len: 0}))
	}
	for _, v := range []string{"no-attributes", "size-0", "size", "perm", "times", "owner", "all"} {
		af, sz := c02RelAttr(g.rng, v)
		out = append(out, mk("fsetstat", v, c02RelOp{AF: af, Size: sz}))
	}
	return out
}

// c02RelSequences are hand-written programs in which the relation is between a request and the ones before it.
func c02RelSequences() [][]c02RelOp {
	rd := func(h string, off uint64, n uint32) c02RelOp { return c02RelOp{K: "read", H: h, Off: off, Len: n} }
	wr := func(h string, off uint64, n uint32) c02RelOp { return c02RelOp{K: "write", H: h, Off: off, Len: n} }
	hop := func(k, h string) c02RelOp { return c02RelOp{K: k, H: h} }
	p1 := func(k, a string) c02RelOp { return c02RelOp{K: k, A: a} }
	p2 := func(k, a, b string) c02RelOp { return c02RelOp{K: k, A: a, B: b} }
	open := func(a string, pf uint32) c02RelOp { return c02RelOp{K: "open", A: a, PF: pf} }
	sets := func(a string, af uint32, size uint64) c02RelOp {
		return c02RelOp{K: "setstat", A: a, AF: af, Size: size}
	}
	seqs := [][]c02RelOp{
		// the file of an open handle goes away, the handle is used, closed, closed again, used again
		{p1("remove", "a"), rd("hr", 0, 10), hop("fstat", "hr"), hop("close", "hr"), hop("close", "hr"), rd("hr", 0, 10), p1("stat", "a")},
		// the directory of an open handle goes away
		{p1("rmdir", "empty"), hop("readdir", "he"), hop("fstat", "he"), hop("close", "he"), hop("readdir", "he"), p1("rmdir", "empty")},
		// there and back again, a handle open on the object all the time
		{p2("rename", "a", "z"), hop("fstat", "hr"), rd("hr", 0, 1), p2("rename", "z", "a"), p2("rename", "z", "a"), p2("rename", "a", "a")},
		{p2("posixrename", "b", "a"), wr("hw", 0, 10), rd("hr", 0, 10), p2("posixrename", "b", "a"), p2("posixrename", "a", "a"), p2("posixrename", "a", "@a")},
		// the same directory made twice, removed twice; REMOVE of a directory, RMDIR of a file
		{p1("mkdir", "new"), p1("mkdir", "new"), p1("mkdir", "new/"), p1("rmdir", "new"), p1("rmdir", "new"), p1("mkdir", "dir"), p1("remove", "dir"), p1("remove", "empty"), p1("rmdir", "a"), p1("mkdir", "a")},
		// the wrong kind of handle for the request; READDIR until the end and after it
		{hop("readdir", "hr"), rd("hd", 0, 10), wr("hd", 0, 1), wr("hr", 0, 1), rd("hw", 0, 1), hop("readdir", "hd"), hop("readdir", "hd"), hop("readdir", "hd"), hop("readdir", "he"), hop("readdir", "he")},
		// the file of an open handle is truncated under it
		{open("a", wire.FWrite|wire.FTrunc), rd("hr", 0, 10), sets("a", wire.ASize, 0), rd("hr", 0, 0), rd("hr", 0, 1), sets("a", wire.ASize, 100), rd("hr", 50, 100)},
		// SETSTAT / FSETSTAT that change nothing
		{sets("a", 0, 0), sets("dir", 0, 0), sets("nope", 0, 0), sets("", 0, 0), {K: "fsetstat", H: "hr"}, {K: "fsetstat", H: "hd"}, {K: "fsetstat", H: "stale"}, {K: "fsetstat", H: "none"}},
		// nothing to read, nothing to write
		{rd("hr", 0, 0), wr("hw", 0, 0), rd("ha", 0, 0), wr("ha", 0, 0), rd("hd", 0, 0), wr("hd", 0, 0), rd("stale", 0, 0), wr("stale", 0, 0), rd("none", 0, 0), wr("bogus", 0, 0)},
		// links: onto themselves, onto their targets, in a circle
		{p2("symlink", "a", "a"), p2("symlink", "s1", "s1"), p2("symlink", "s3", "s2"), p2("symlink", "s2", "s3"), p1("stat", "s2"), p1("readlink", "s1"), p1("readlink", "a"), p2("hardlink", "a", "a"), p2("hardlink", "a", "lnk"), p2("hardlink", "dir", "dir")},
		// OPEN of what is open already, in every mode; exclusive creation of what exists
		{open("a", wire.FRead), open("a", wire.FWrite|wire.FAppend), open("b", wire.FWrite|wire.FCreat|wire.FExcl), open("dir", wire.FRead), open("dir", wire.FWrite), p1("opendir", "a"), p1("opendir", "dir"), p1("opendir", "dir/"), open("", wire.FRead), p1("opendir", "")},
		// a request on every closed handle, then the same CLOSE again
		{hop("close", "hw"), hop("close", "hd"), wr("hw", 0, 1), hop("readdir", "hd"), hop("close", "hw"), hop("close", "hd"), hop("close", "none"), hop("close", "bogus"), hop("close", "stale"), hop("close", "long")},
		// the tree root and the paths around it
		{p1("stat", "."), p1("rmdir", "."), p1("remove", "."), p1("mkdir", "."), p2("rename", ".", "."), p1("opendir", "."), p1("realpath", "."), p1("realpath", ""), p1("readlink", "."), sets(".", 0, 0)},
		// one request alone in the stream for each of the two-path kinds on the same string
		{p2("rename", "a", "a")}, {p2("posixrename", "a", "a")}, {p2("symlink", "a", "a")}, {p2("hardlink", "a", "a")},
		{p2("rename", "nope", "nope")}, {p2("rename", "dir", "dir")}, {p2("rename", "a", "@a")}, {p2("rename", "a", "./a")}, {p2("rename", "dir", "dir/")}, {p2("rename", "dir", "dir/sub/new")},
	}
	for _, s := range seqs {
		for i := range s {
			if s[i].Rel == "" {
				s[i].Rel = "sequence"
			}
		}
	}
	return seqs
}

func c02RelAssignIDs(ops []c02RelOp, rng *rand.Rand, style string) {
	seen := map[uint32]bool{}
	for i := range ops {
		switch style {
		case "same":
			ops[i].ID = 7
		case "rand":
			for {
				id := rng.Uint32()
				if !seen[id] && id < 0xF0000000 {
					seen[id] = true
					ops[i].ID = id
					break
				}
			}
		case "desc":
			ops[i].ID = uint32(1000 - i)
		default:
			ops[i].ID = uint32(i + 1)
		}
	}
}

// c02RelJobs draws the relation cases of one server. Systematic part: every (two-path kind, relation) `reps` times,
// every (single-path kind, object) once in a drawn spelling (allSpellings: in every spelling), every (handle
// request, handle, edge value), shuffled and cut into programs of 2…8 requests; the hand-written sequences under
// every option pair; then nRandom programs of 1…14 requests drawn from all of these.
func c02RelJobs(rng *rand.Rand, server string, reps int, allSpellings bool, nRandom int) []c02Rel {
	g := &c02RelGen{rng: rng, server: server}
	var pool []c02RelOp
	for r := 0; r < reps; r++ {
		for _, k := range c02RelTwoKinds {
			for _, rel := range c02RelRelations {
				pool = append(pool, g.twoPath(k, rel))
			}
		}
	}
	for _, k := range c02RelOneKinds {
		for _, obj := range c02RelObjects {
			if allSpellings {
				for v := 0; v < c02RelSpellings; v++ {
					pool = append(pool, g.onePath(k, obj, v))
				}
			} else {
				pool = append(pool, g.onePath(k, obj, -1))
			}
		}
	}
	for _, h := range c02RelHandleNames {
		pool = append(pool, g.handleOps(h)...)
	}
	pool = append(pool, c02RelOp{K: "extunknown", Rel: "unknown-extension"})
	styles := []string{"seq", "rand", "desc", "same"}
	var out []c02Rel
	n := 0
	deal := func(ops []c02RelOp, tag string, workDir bool) {
		ops = append([]c02RelOp(nil), ops...)
		c02RelAssignIDs(ops, rng, styles[n%4])
		out = append(out, c02Rel{Server: server, Alloc: n&1 != 0, WorkDir: workDir, Send: []string{"", "", "frames"}[n%3], Tag: tag, Ops: ops})
		n++
	}
	// under both settings of the working directory: what is "the same path" depends on it
	for _, wd := range []bool{false, true} {
		p := append([]c02RelOp(nil), pool...)
		rng.Shuffle(len(p), func(a, b int) { p[a], p[b] = p[b], p[a] })
		for len(p) > 0 {
			k := min(len(p), 2+rng.Intn(7))
			deal(p[:k], "every-kind-and-relation", wd)
			p = p[k:]
		}
	}
	for _, s := range c02RelSequences() {
		for j := 0; j < 4; j++ {
			n = n&^1 | j&1
			deal(s, "sequence", j&2 != 0)
		}
	}
	seqs := c02RelSequences()
	for k := 0; k < nRandom; k++ {
		var ops []c02RelOp
		for len(ops) < 1+rng.Intn(14) {
			switch r := rng.Intn(10); {
			case r < 3:
				ops = append(ops, g.twoPath(c02RelTwoKinds[rng.Intn(4)], c02RelRelations[rng.Intn(len(c02RelRelations))]))
			case r < 4:
				s := seqs[rng.Intn(len(seqs))]
				i := rng.Intn(len(s))
				ops = append(ops, s[i:min(len(s), i+1+rng.Intn(3))]...)
			default:
				ops = append(ops, pool[rng.Intn(len(pool))])
			}
		}
		deal(ops, "drawn", rng.Intn(2) == 0)
	}
	return out
}

// ---- running one case ----

func c02RelSuccessType(k string) byte {
	switch k {
	case "open":
		return wire.Handle
	}
	return gSuccessType(k) // "extunknown", "fsync" and the two-path kinds: STATUS
}

// render gives the form in which the path p of a program goes over the wire.
func (rl c02Rel) render(root, p string) string {
	switch {
	case p == "":
		return ""
	case p == "@":
		return root
	case strings.HasPrefix(p, "@"):
		return root + "/" + p[1:]
	case rl.WorkDir:
		return p
	}
	return root + "/" + p
}

func (rl c02Rel) frame(o c02RelOp, root string, handles map[string]string) []byte {
	h := handles[o.H]
	a, b := rl.render(root, o.A), rl.render(root, o.B)
	attrs := func() []byte {
		return wire.St{Flags: o.AF, Size: o.Size, UID: 0, GID: 0, Perm: 0o755, Atime: 1_000_000_000, Mtime: 1_000_000_000}.Block()
	}
	switch o.K {
	case "read":
		return wire.Req(wire.Read, o.ID, wire.B{}.Str(h).U64(o.Off).U32(o.Len))
	case "write":
		return wire.Req(wire.Write, o.ID, wire.B{}.Str(h).U64(o.Off).Bytes([]byte(strings.Repeat("w", int(o.Len)))))
	case "close":
		return wire.Req(wire.Close, o.ID, wire.B{}.Str(h))
	case "fstat":
		return wire.Req(wire.Fstat, o.ID, wire.B{}.Str(h))
	case "readdir":
		return wire.Req(wire.Readdir, o.ID, wire.B{}.Str(h))
	case "fsetstat":
		return wire.Req(wire.Fsetstat, o.ID, wire.B{}.Str(h).Raw(attrs()))
	case "fsync":
		return wire.Req(wire.Extended, o.ID, wire.B{}.Str("fsync@openssh.com").Str(h))
	case "stat":
		return wire.Req(wire.Stat, o.ID, wire.B{}.Str(a))
	case "lstat":
		return wire.Req(wire.Lstat, o.ID, wire.B{}.Str(a))
	case "opendir":
		return wire.Req(wire.Opendir, o.ID, wire.B{}.Str(a))
	case "open":
		return wire.Req(wire.Open, o.ID, wire.B{}.Str(a).U32(o.PF).U32(0))
	case "remove":
		return wire.Req(wire.Remove, o.ID, wire.B{}.Str(a))
	case "rmdir":
		return wire.Req(wire.Rmdir, o.ID, wire.B{}.Str(a))
	case "realpath":
		return wire.Req(wire.Realpath, o.ID, wire.B{}.Str(a))
	case "readlink":
		return wire.Req(wire.Readlink, o.ID, wire.B{}.Str(a))
	case "setstat":
		return wire.Req(wire.Setstat, o.ID, wire.B{}.Str(a).Raw(attrs()))
	case "mkdir":
		return wire.Req(wire.Mkdir, o.ID, wire.B{}.Str(a).U32(0))
	case "rename":
		return wire.Req(wire.Rename, o.ID, wire.B{}.Str(a).Str(b))
	case "symlink":
		// the text of the link goes as it is written (relative), unless the program asks for the absolute form
		t := o.A
		if strings.HasPrefix(t, "@") {
			t = a
		}
		return wire.Req(wire.Symlink, o.ID, wire.B{}.Str(t).Str(b))
	case "statvfs":
		return wire.Req(wire.Extended, o.ID, wire.B{}.Str("statvfs@openssh.com").Str(a))
	case "posixrename":
		return wire.Req(wire.Extended, o.ID, wire.B{}.Str("posix-rename@openssh.com").Str(a).Str(b))
	case "hardlink":
		return wire.Req(wire.Extended, o.ID, wire.B{}.Str("hardlink@openssh.com").Str(a).Str(b))
	case "extunknown":
		return wire.Req(wire.Extended, o.ID, wire.B{}.Str("bogus@example.com").Str("x"))
	}
	return nil
}

// c02RelClass is the hang class of the relation cases of a server: a request that is never answered stops the
// remaining relation cases of that server once the hang budget is used up, not the other cases of C02.
func c02RelClass(server string) string { return "c02/relations/" + server }

func c02RelRun(rl c02Rel, job c02Job, scratch string) gSummary {
	if lib.Stop(c02RelClass(rl.Server)) {
		return gSummary{NotRun: true}
	}
	s, at := c02RelRunOnce(rl, job, scratch, false)
	if len(s.Fails) == 0 || at < 0 || at >= len(rl.Ops) || len(rl.Ops) == 1 || s.Fails[0].Kind != "oracle" {
		return s
	}
	// reduce: the request at fault alone (with the same options); failing that, the program up to it
	for _, ops := range [][]c02RelOp{{rl.Ops[at]}, rl.Ops[:at+1]} {
		if len(ops) == len(rl.Ops) {
			break
		}
		small := rl
		small.Ops = ops
		small.Tag = rl.Tag + "/reduced"
		sj := c02Job{Rel: &small}
		if t, _ := c02RelRunOnce(small, sj, scratch, true); len(t.Fails) > 0 && t.Fails[0].Key == s.Fails[0].Key {
			f := t.Fails[0]
			f.What += fmt.Sprintf(" (reduced from a program of %d requests)", len(rl.Ops))
			s.Fails = []lib.Failure{f}
			return s
		}
	}
	return s
}

// c02RelRunOnce runs the case; at is the index of the request at fault (-1: none, or not one of the program).
// again: the run is the reduced form of a case that has failed under the full deadline already; a reply is
// given 5 s.
func c02RelRunOnce(rl c02Rel, job c02Job, scratch string, again bool) (s gSummary, at int) {
	s = gSummary{Text: rl.text(), Nontrivial: true}
	at = -1
	hist := func(k string) { s.Hist = append(s.Hist, k) }
	srvName := rl.Server
	k := lib.NewCase(c02RelClass(srvName))
	deadline := func() time.Duration {
		if again {
			return min(gDeadlineNow(), 5*time.Second)
		}
		return gDeadlineNow()
	}
	var replies []string
	fail := func(kind, key, what string, exp, act any) {
		s.Fails = append(s.Fails, lib.Failure{Kind: kind, Key: key, What: what, Input: job, Expected: exp,
			Actual: map[string]any{"seen": act, "replies_so_far": replies}})
	}
	hist("server=" + srvName)
	hist("mode=relations/" + srvName + "/" + rl.Tag)
	hist("config=" + srvName + "/" + c02SrvCfg{Alloc: rl.Alloc}.text())
	hist("relations/options=" + srvName + fmt.Sprintf("/workdir=%v/alloc=%v/%s", rl.WorkDir, rl.Alloc, map[string]string{"": "one-write", "frames": "frame-by-frame"}[rl.Send]))
	hist(fmt.Sprintf("relations/depth=%02d", len(rl.Ops)))

	// ---- the server and its tree ----
	root := "/w"
	var srv *peers.Srv
	if srvName == "os" {
		top := filepath.Join(scratch, "rel")
		os.RemoveAll(top)
		root = filepath.Join(top, "w")
		defer os.RemoveAll(top)
		if err := os.MkdirAll(root, 0o755); err != nil {
			fail("tie", "harness/tree", err.Error(), nil, nil)
			return
		}
		for _, nd := range c02RelTree {
			var err error
			p := filepath.Join(root, nd.Path)
			switch nd.Kind {
			case "dir":
				err = os.Mkdir(p, 0o755)
			case "file":
				err = os.WriteFile(p, gContent("rel/"+nd.Path, 0, nd.Size), 0o644)
			case "link":
				err = os.Symlink(nd.Text, p)
			}
			if err != nil {
				fail("tie", "harness/tree", err.Error(), nil, nil)
				return
			}
		}
		if ok, why := lib.InScratch("", root); !ok {
			fail("tie", "harness/tree", "the tree of the case is not inside the scratch area: "+why, nil, nil)
			return
		}
		var opts []sftp.ServerOption
		if rl.Alloc {
			opts = append(opts, sftp.WithAllocator())
		}
		if rl.WorkDir {
			opts = append(opts, sftp.WithServerWorkingDirectory(root))
		}
		var err error
		if srv, err = peers.StartOS(opts...); err != nil {
			fail("tie", "harness/server-start", err.Error(), nil, nil)
			return
		}
	} else {
		var opts []sftp.RequestServerOption
		if rl.Alloc {
			opts = append(opts, sftp.WithRSAllocator())
		}
		if rl.WorkDir {
			opts = append(opts, sftp.WithStartDirectory(root))
		}
		srv = peers.StartRS(sftp.InMemHandler(), opts...)
	}
	defer func() {
		srv.CloseInput()
		d := gDeadline
		if k.Hung() > 0 { // a server that has stopped answering is not waited for once more
			d = time.Second
		}
		hCleanupSrv(srv, k.Class(), d)
	}()
	if v, err := hHandshake(srv, k); err != nil || v.Typ != wire.Version {
		fail("tie", "harness/handshake", fmt.Sprint(err, v.Typ), nil, nil)
		return
	}
	sid := uint32(0xE0000000)
	call := func(typ byte, body []byte) (wire.Pkt, error) {
		sid++
		p, err := hCall(srv, k, wire.Req(typ, sid, body))
		if err == nil && p.ID() != sid {
			err = fmt.Errorf("reply carries id %d, request %d", p.ID(), sid)
		}
		return p, err
	}
	okStatus := func(p wire.Pkt, err error) bool {
		return err == nil && p.Typ == wire.Status && gParseStatus(p).Code == wire.OK
	}
	handleOf := func(p wire.Pkt, err error) (string, bool) {
		if err != nil || p.Typ != wire.Handle || len(p.Body) < 8 {
			return "", false
		}
		d := wire.D{B: p.Body[4:]}
		return d.Str(), true
	}
	setupFail := func(what string) {
		fail("tie", "harness/relations-setup", "setting up the session: "+what, nil, nil)
	}
	abs := func(p string) string { return root + "/" + p }
	if srvName == "rs" {
		if !okStatus(call(wire.Mkdir, wire.B{}.Str(root).U32(0))) {
			setupFail("MKDIR " + root)
			return
		}
		for _, nd := range c02RelTree {
			switch nd.Kind {
			case "dir":
				if !okStatus(call(wire.Mkdir, wire.B{}.Str(abs(nd.Path)).U32(0))) {
					setupFail("MKDIR " + nd.Path)
					return
				}
			case "file":
				h, ok := handleOf(call(wire.Open, wire.B{}.Str(abs(nd.Path)).U32(wire.FWrite|wire.FCreat|wire.FTrunc).U32(0)))
				if !ok {
					setupFail("creating " + nd.Path)
					return
				}
				if nd.Size > 0 && !okStatus(call(wire.Write, wire.B{}.Str(h).U64(0).Bytes(gContent("rel/"+nd.Path, 0, nd.Size)))) {
					setupFail("filling " + nd.Path)
					return
				}
				if !okStatus(call(wire.Close, wire.B{}.Str(h))) {
					setupFail("closing " + nd.Path)
					return
				}
			case "link":
				if !okStatus(call(wire.Symlink, wire.B{}.Str(nd.Text).Str(abs(nd.Path)))) {
					setupFail("SYMLINK " + nd.Path)
					return
				}
			}
		}
	}
	handles := map[string]string{"bogus": "bogus", "none": "", "long": strings.Repeat("h", 300)}
	var toClose []string
	for _, hd := range c02RelHandles {
		var h string
		var ok bool
		if hd.PF == 0 {
			h, ok = handleOf(call(wire.Opendir, wire.B{}.Str(abs(hd.Path))))
		} else {
			h, ok = handleOf(call(wire.Open, wire.B{}.Str(abs(hd.Path)).U32(hd.PF).U32(0)))
		}
		if !ok {
			setupFail("opening " + hd.Name + " on " + hd.Path)
			return
		}
		handles[hd.Name] = h
		if hd.Closed {
			if !okStatus(call(wire.Close, wire.B{}.Str(h))) {
				setupFail("closing " + hd.Name)
				return
			}
		} else {
			toClose = append(toClose, hd.Name)
		}
	}

	// ---- the program, and behind it: REALPATH, STAT, the CLOSE of every handle (each a barrier), LSTAT ----
	all := append([]c02RelOp(nil), rl.Ops...)
	tid := uint32(0xF1000000)
	trail := func(o c02RelOp) {
		tid++
		o.ID, o.Rel = tid, "behind-the-program"
		all = append(all, o)
	}
	trail(c02RelOp{K: "realpath", A: "@a"})
	trail(c02RelOp{K: "stat", A: "@"})
	for _, h := range toClose {
		trail(c02RelOp{K: "close", H: h})
	}
	trail(c02RelOp{K: "lstat", A: "@"})
	var frames [][]byte
	var stream []byte
	for i, o := range all {
		fr := rl.frame(o, root, handles)
		if fr == nil {
			fail("tie", "harness/job", "unknown request kind "+o.K, nil, nil)
			return
		}
		frames = append(frames, fr)
		stream = append(stream, fr...)
		if i < len(rl.Ops) {
			if cl, arg, ok := strings.Cut(o.Rel, "/"); ok && o.H != "" { // handle requests: (kind, handle) and (kind, edge value)
				hist("relation=" + o.K + "/" + cl)
				hist("relation=" + o.K + "/" + arg)
			} else {
				hist("relation=" + o.K + "/" + o.Rel)
			}
			hist("relations/request=" + srvName + "/" + o.K)
		}
	}
	if ok, why := srv.Contained(stream); !ok { // (never: every path lies below the tree)
		hist(lib.NotRunBucket)
		s.Nontrivial = false
		s.Sample = map[string]any{"not_run": rl.text(), "why": why}
		return
	}
	sendErr := make(chan error, 1)
	go func() {
		if rl.Send == "frames" {
			for _, fr := range frames {
				if err := srv.Send(fr); err != nil {
					sendErr <- err
					return
				}
			}
			sendErr <- nil
			return
		}
		sendErr <- srv.Send(stream)
	}()
	where := func(i int) string {
		if i < len(rl.Ops) {
			return fmt.Sprintf("request %d of %d of the program, %s [%s]", i+1, len(rl.Ops), all[i].text(), all[i].Rel)
		}
		return fmt.Sprintf("%s behind the program of %d requests", all[i].text(), len(rl.Ops))
	}
	for i, o := range all {
		f, err := hRecv(srv, k, deadline())
		if err != nil {
			if !again {
				gDeadlineHits.Add(1)
			}
			at = i
			fail("oracle", "count/missing-response/"+srvName+"/"+o.K, fmt.Sprintf("%s was never answered (%d replies of %d arrived; every later reply is withheld with it): %v", where(i), i, len(all), err),
				"one reply per request", nil)
			return
		}
		replies = append(replies, gFrameText(f))
		if f.ID() != o.ID {
			at = i
			fail("oracle", "order/id-mismatch/"+srvName, fmt.Sprintf("reply %d does not carry the id of request %d: %s", i+1, i+1, where(i)), o.ID, gFrameText(f))
			return
		}
		succ := c02RelSuccessType(o.K)
		isOK := f.Typ == wire.Status && gParseStatus(f).Code == wire.OK
		if !(f.Typ == succ || f.Typ == wire.Status) || (succ != wire.Status && isOK) {
			at = i
			fail("oracle", fmt.Sprintf("legal-type/%s/%s->%s", srvName, o.K, gTypeName(f.Typ)), where(i)+" answered with "+gFrameText(f), gTypeName(succ)+" or an error STATUS", gFrameText(f))
			return
		}
		if i < len(rl.Ops) {
			t := gTypeName(f.Typ)
			if f.Typ == wire.Status {
				t += fmt.Sprintf("/code=%d", gParseStatus(f).Code)
			}
			hist("relations/reply=" + srvName + "/" + o.K + "->" + t)
		}
	}
	if err, ok := lib.WaitCase(k, gDeadline, sendErr); !ok || err != nil {
		fail("oracle", "input/send-blocked/"+srvName, fmt.Sprintf("the server did not take in the program although it answered it: %v", err), nil, nil)
		return
	}
	srv.CloseInput()
	if _, ok := hWaitSrv(srv, k, gDeadline); !ok {
		fail("oracle", "shutdown/serve-did-not-return/"+srvName, "Serve still running 20 s after the end of the input, every request answered", nil, nil)
		return
	}
	if extra := srv.Drain(200 * time.Millisecond); len(extra) > 0 {
		var ex []string
		for _, f := range extra {
			ex = append(ex, gFrameText(f))
		}
		fail("oracle", "count/extra-response/"+srvName, "the server wrote more replies than it received requests", len(all), ex)
		return
	}
	if len(rl.Ops) <= 4 {
		s.Sample = map[string]any{"relations": rl.text(), "replies": replies[:len(rl.Ops)]}
	}
	return
}
