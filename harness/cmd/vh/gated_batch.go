package main

// Batches of schedule-controlled cases run in child processes (`vh child gated <prop> <in> <out>`):
// a panic in a goroutine of the package under test kills the process it runs in, so the parent
// only ever sees summaries — or a dead child, which it then narrows down to single cases and
// reports as an observation.

import (
	"bytes"
	"encoding/json"
	"fmt"
	"os"
	"os/exec"
	"os/signal"
	"path/filepath"
	"strings"
	"sync"
	"sync/atomic"
	"syscall"
	"time"

	"verifharness/lib"
)

func init() { children["gated"] = gatedChild }

// gSummary is what a child reports for one case.
type gSummary struct {
	Text       string        `json:"t"`
	Nontrivial bool          `json:"n"`
	Hist       []string      `json:"h,omitempty"`
	Fails      []lib.Failure `json:"f,omitempty"`
	Sample     any           `json:"s,omitempty"`
	Lines      []string      `json:"ml,omitempty"` // model driver lines …
	Impl       []string      `json:"mi,omitempty"` // … and what the implementation showed (exact-match comparison)
	Wants      []c18Want     `json:"mw,omitempty"` // C18: fields to compare for each of Lines
	NotRun     bool          `json:"nr,omitempty"` // not run: the run's time budgets forbid its class (lib/budget.go)
}

type gBatchIn struct {
	Prop    string            `json:"prop"`
	ModelOK bool              `json:"model_ok"`
	Workers int               `json:"workers"`
	Jobs    []json.RawMessage `json:"jobs"`
}

// gSummarisers turn one job (JSON) into a summary; they run in the child. scratch is a private directory.
var gSummarisers = map[string]func(job json.RawMessage, modelOK bool, scratch string) gSummary{}

// deadlines: a healthy case needs milliseconds; once several cases have run into the 20 s deadline the tree is
// broken in a systematic way and the remaining cases get a short one.
var gDeadlineHits atomic.Int32
var gQuiesceHits atomic.Int32
var gPageHits atomic.Int32 // runs in which a page was found given back too early (gExec)

func gDeadlineNow() time.Duration {
	switch n := gDeadlineHits.Load(); {
	case n >= 12:
		return 500 * time.Millisecond
	case n >= 4:
		return 2 * time.Second
	}
	return gDeadline
}

// gWait is the deadline for the next wait of case k: the shorter of the process-local rule above and what the run's
// hang budget allows (lib/budget.go: the full 20 s while the budget lasts and the case has not hung yet).
func gWait(k *lib.Case) time.Duration { return min(gDeadlineNow(), k.Wait(gDeadline)) }

// gChildProp is the property whose jobs this child process runs ("gated" in the parent); with the server kind it
// is the hang class of a case.
var gChildProp = "gated"

func gClass(prop, server string) string { return prop + "/" + server }

// gJobClass finds the hang class of a job without knowing its type: every gated job carries its program's server kind.
func gJobClass(prop string, job json.RawMessage) string {
	server := "rs"
	if bytes.Contains(job, []byte(`"server":"os"`)) {
		server = "os"
	}
	return gClass(prop, server)
}

func gatedChild(args []string) {
	if len(args) != 3 {
		os.Exit(2)
	}
	b, err := os.ReadFile(args[1])
	if err != nil {
		fmt.Fprintln(os.Stderr, err)
		os.Exit(2)
	}
	var in gBatchIn
	if err := json.Unmarshal(b, &in); err != nil {
		fmt.Fprintln(os.Stderr, err)
		os.Exit(2)
	}
	f := gSummarisers[args[0]]
	if f == nil {
		os.Exit(2)
	}
	gChildProp = args[0]
	top, err := lib.MkScratch("vh-gated-child-")
	if err != nil {
		fmt.Fprintln(os.Stderr, err)
		os.Exit(2)
	}
	defer os.RemoveAll(top)
	out := make([]gSummary, len(in.Jobs))
	finished := make([]bool, len(in.Jobs))
	var outMu sync.Mutex
	// told to stop (the parent was told to stop): report the summaries made so far, the rest as not run
	sigs := make(chan os.Signal, 1)
	signal.Notify(sigs, syscall.SIGTERM)
	go func() {
		<-sigs
		outMu.Lock()
		part := make([]gSummary, len(out))
		for i := range out {
			if finished[i] {
				part[i] = out[i]
			} else {
				part[i] = gSummary{NotRun: true}
			}
		}
		if ob, err := json.Marshal(part); err == nil {
			os.WriteFile(args[2], ob, 0o644)
		}
		os.RemoveAll(top)
		os.Exit(0)
	}()
	var wg sync.WaitGroup
	ch := make(chan int)
	if in.Workers <= 0 {
		in.Workers = 8
	}
	for w := 0; w < in.Workers; w++ {
		wg.Add(1)
		scratch := filepath.Join(top, fmt.Sprintf("w%d", w))
		go func() {
			defer wg.Done()
			for i := range ch {
				var s gSummary
				if lib.Stop(gJobClass(args[0], in.Jobs[i])) {
					s = gSummary{NotRun: true}
				} else {
					s = f(in.Jobs[i], in.ModelOK, scratch)
				}
				outMu.Lock()
				out[i], finished[i] = s, true
				outMu.Unlock()
			}
		}()
	}
	for i := range in.Jobs {
		ch <- i
	}
	close(ch)
	wg.Wait()
	ob, err := json.Marshal(out)
	if err == nil {
		err = os.WriteFile(args[2], ob, 0o644)
	}
	os.RemoveAll(top)
	lib.FlushBudget()
	if err != nil {
		fmt.Fprintln(os.Stderr, err)
		os.Exit(2)
	}
	os.Exit(0)
}

type gChildResult struct {
	sums     []gSummary
	timedOut bool // stopped after its time limit: the unfinished jobs are marked NotRun
	ok       bool
	exit     string
	stderr   string
}

func gRunChild(dir, prop string, in gBatchIn, tag string, timeout time.Duration, onInterrupt func([]gSummary)) gChildResult {
	inF := filepath.Join(dir, tag+".in.json")
	outF := filepath.Join(dir, tag+".out.json")
	defer os.Remove(inF)
	defer os.Remove(outF)
	b, _ := json.Marshal(in)
	if err := os.WriteFile(inF, b, 0o644); err != nil {
		return gChildResult{exit: err.Error()}
	}
	cmd := exec.Command(os.Args[0], "child", "gated", prop, inF, outF)
	cmd.Env = append(os.Environ(), "GOTRACEBACK=single", "GOMEMLIMIT=8GiB")
	var se bytes.Buffer
	cmd.Stderr = &se
	if err := cmd.Start(); err != nil {
		return gChildResult{exit: err.Error()}
	}
	done := make(chan error, 1)
	waited := make(chan struct{})
	go func() { done <- cmd.Wait(); close(waited) }()
	defer lib.KeepAlive()() // the child is bounded by `timeout`
	if onInterrupt != nil {
		// this process is told to stop: the child is told first, and what it has summarised so far is handed over
		defer lib.OnInterrupt(func() {
			cmd.Process.Signal(syscall.SIGTERM)
			select {
			case <-waited:
			case <-time.After(8 * time.Second):
				cmd.Process.Kill()
			}
			var sums []gSummary
			if ob, err := os.ReadFile(outF); err == nil && gUnmarshalExact(ob, &sums) == nil {
				onInterrupt(sums)
			}
		})()
	}
	res := gChildResult{exit: "0"}
	select {
	case err := <-done:
		if err != nil {
			res.exit = err.Error()
		}
	case <-time.After(timeout):
		// ask first: the child then reports what it has summarised so far (the rest as not run) and exits normally
		lib.SpendHang(prop, timeout)
		cmd.Process.Signal(syscall.SIGTERM)
		select {
		case err := <-done:
			res.timedOut = true
			if err != nil {
				res.exit = err.Error()
			}
		case <-time.After(8 * time.Second):
			cmd.Process.Kill()
			<-done
			res.exit = fmt.Sprintf("killed after %v", timeout)
		}
	}
	lines := strings.Split(se.String(), "\n")
	if len(lines) > 16 {
		lines = lines[:16]
	}
	res.stderr = strings.Join(lines, "\n")
	if res.exit != "0" {
		return res
	}
	ob, err := os.ReadFile(outF)
	if err != nil {
		res.exit = "no result file: " + err.Error()
		return res
	}
	if err := gUnmarshalExact(ob, &res.sums); err != nil || len(res.sums) != len(in.Jobs) {
		res.exit = fmt.Sprintf("bad result file: %v (%d summaries for %d jobs)", err, len(res.sums), len(in.Jobs))
		return res
	}
	res.ok = true
	return res
}

// gRunBatches runs all jobs and returns one summary per job, in order. A batch whose child dies is re-run job by job;
// a job whose own child dies is reported as a crash observation.
func gRunBatches(c *lib.Ctx, prop string, jobs []json.RawMessage, batch int, modelOK bool, describe func(json.RawMessage) (server string, input any)) []gSummary {
	dir, err := lib.MkScratch("vh-gated-parent-")
	if err != nil {
		c.R.Fail(lib.Failure{Kind: "tie", Key: "harness/tmpdir", What: err.Error()})
		return nil
	}
	defer os.RemoveAll(dir)
	out := make([]gSummary, 0, len(jobs))
	for lo := 0; lo < len(jobs); lo += batch {
		hi := min(lo+batch, len(jobs))
		// a child stops scheduling jobs by itself when the soft deadline passes; the kill is the backstop behind that
		perBatch := max(time.Minute, min(10*time.Minute, lib.Remaining()+time.Minute))
		res := gRunChild(dir, prop, gBatchIn{Prop: prop, ModelOK: modelOK, Workers: 12, Jobs: jobs[lo:hi]}, fmt.Sprintf("b%d", lo), perBatch, func(part []gSummary) {
			gMerge(c.R, out, 4) // (interrupted: what the earlier batches and this one have found goes into the result as it is)
			gMerge(c.R, part, 4)
		})
		if res.ok {
			out = append(out, res.sums...)
			if res.timedOut {
				cut := 0
				for _, s := range res.sums {
					if s.NotRun {
						cut++
					}
				}
				c.R.Note("the process running cases %d…%d was stopped after its time limit of %v: %d cases of the batch not run", lo, hi-1, perBatch, cut)
				c.R.MarkIncomplete("a batch of cases hit its time limit: %d cases not run", cut)
			}
			continue
		}
		// the child died: attribute
		single := make([]gChildResult, hi-lo)
		var wg sync.WaitGroup
		sem := make(chan struct{}, 6)
		for i := lo; i < hi; i++ {
			wg.Add(1)
			sem <- struct{}{}
			go func(i int) {
				defer wg.Done()
				defer func() { <-sem }()
				tmo := 2 * time.Minute
				if lib.HangExhausted() || lib.Expired() {
					tmo = 45 * time.Second // the child's own deadlines are short by now
				}
				single[i-lo] = gRunChild(dir, prop, gBatchIn{Prop: prop, ModelOK: modelOK, Workers: 1, Jobs: jobs[i : i+1]}, fmt.Sprintf("s%d", i), tmo, nil)
			}(i)
		}
		wg.Wait()
		attributed := false
		for i := lo; i < hi; i++ {
			s := single[i-lo]
			if s.ok {
				out = append(out, s.sums[0])
				continue
			}
			attributed = true
			server, input := describe(jobs[i])
			what := "the process running this case died"
			for _, l := range strings.Split(s.stderr, "\n") {
				if strings.HasPrefix(l, "panic:") || strings.HasPrefix(l, "fatal error:") {
					what += ": " + l
					break
				}
			}
			out = append(out, gSummary{Text: string(jobs[i]), Nontrivial: true, Hist: []string{"child-died"},
				Fails: []lib.Failure{{Kind: "oracle", Key: "crash/" + server, What: what, Input: input, Expected: "the server answers every request", Actual: map[string]any{"exit": s.exit, "stderr": s.stderr}}}})
		}
		if !attributed {
			c.R.Fail(lib.Failure{Kind: "oracle", Key: "crash/unattributed", What: "a process running a batch of cases died, but every case of the batch passes when run in a process of its own",
				Input: map[string]any{"property": prop, "jobs": fmt.Sprintf("%d…%d", lo, hi-1)}, Actual: map[string]any{"exit": res.exit, "stderr": res.stderr}})
		}
	}
	return out
}

// gMerge folds the summaries into the result and returns the model lines for exact comparison.
func gMerge(r *lib.Result, sums []gSummary, maxSamples int) (lines, impl []string) {
	for _, s := range sums {
		if s.NotRun {
			continue
		}
		r.Case(s.Text, s.Nontrivial)
		for _, h := range s.Hist {
			r.Hist(h)
		}
		for _, f := range s.Fails {
			r.Fail(f)
		}
		if s.Sample != nil && len(r.Samples) < maxSamples {
			r.Sample(s.Sample)
		}
		if len(s.Wants) == 0 {
			lines = append(lines, s.Lines...)
			impl = append(impl, s.Impl...)
		}
	}
	return
}

// gUnmarshalExact is json.Unmarshal that keeps the numbers inside untyped members (the replay inputs and samples of
// the summaries) as they are written: a 63-bit generator seed read as a float64 comes out rounded, and the replay
// file would then describe another case.
func gUnmarshalExact(b []byte, v any) error {
	d := json.NewDecoder(bytes.NewReader(b))
	d.UseNumber()
	return d.Decode(v)
}

func gJSON(v any) json.RawMessage {
	b, err := json.Marshal(v)
	if err != nil {
		panic(err)
	}
	return b
}
