package main

// C13 — failures that come from the HANDLER of a request server.
//
// The scripted peer fails whole requests with a status of the harness's choosing. A real server in front of a failing
// backend does more: the handler's ReadAt / WriteAt returns (n, err) with n > 0 as well as (0, err), with every kind of
// error value, and it is the SERVER that turns this into DATA / STATUS replies - through `fileget` for a handle opened
// read-only (served by Fileread), `fileputget` for a read-write one (OpenFile), `fileput` for a write-only one
// (Filewrite). What arrives at the client then meets the same reducers, and C13 says the same about the outcome:
//
//	an error, and it is the one belonging to the LOWEST failing offset: a second fault further out (every request that
//	starts at or beyond At2 fails with another error value) tells it from any later one;
//	the count names a prefix that moved: the chunks wholly below the fault (they were all served) up to, at most, the
//	bytes below the fault; the bytes delivered are the file's, the bytes stored are the data's;
//	io.EOF only where the file ends (the handler value io.EOF says: it ends at At; every other value is a failure,
//	also when it comes with n > 0 bytes);
//	a short count never comes with a nil error;
//	Read / Write / ReadFrom / WriteTo leave the offset at the end of the intact prefix; ReadFrom's count is what the
//	source handed out.
//
// A third of the faults cover a few bytes only (Span: a bad sector; the requests beyond it are served, so a reducer that
// drops the failing chunk's outcome goes on with good data).
//
// The transfers are those of xfFaultCases (xfer_fault.go: every API variant, fault offset at the start / second byte /
// last byte of a chunk, 0, size-1, size, end of the transfer; (n > 0, err) alternating with (0, err); 29 error
// values), restricted to the ones that reach the fault, half of them with the second fault.

import (
	"bytes"
	"fmt"
	"io"
	"math/rand"

	"github.com/pkg/sftp"
)

// xfC13FaultCases: the handler-fault transfers of one job, with a second fault on every other one.
func xfC13FaultCases(rng *rand.Rand, spec xfSrvSpec, cfg xfCfg, variants []xfAPIVariant, n, perVariant int) (out []xfCase) {
	mp := int64(cfg.MP)
	for i, cs := range xfFaultCases(rng, spec, cfg, variants, n, perVariant) {
		if !xfFaultReached(cs) {
			continue // (the controls are C01's)
		}
		k1, _ := xfHErrByName(cs.HFault.Err)
		// (WriteTo does not take a short DATA reply for the end of the file - it has not been told that the file is a
		// regular one - and reads on: with the handler value io.EOF at At and a failure further out it may end with either)
		if ft := cs.HFault; (i+n)%2 == 0 && !(cs.API == "WriteTo" && k1.EOF) {
			// the second fault: from the start of the next chunk but one / the next chunk after the one that holds At
			first := cs.Off
			if ft.At > cs.Off {
				first = cs.Off + (ft.At-cs.Off)/mp*mp
			}
			ft.At2 = first + mp*int64(1+rng.Intn(2))
			for j := 0; ; j++ {
				k2 := xfHandlerErrs[(i*7+n+j)%len(xfHandlerErrs)]
				c1, m1 := sftp.VerifStatusFromError(k1.Err)
				c2, m2 := sftp.VerifStatusFromError(k2.Err)
				if k2.EOF || (k2.WriteOnly && ft.Op == "read") || (c1 == c2 && (m1 == m2 || c1 <= 3)) { // (the client turns the codes 1, 2, 3 into io.EOF, os.ErrNotExist, os.ErrPermission whatever the message)
					continue
				}
				ft.Err2 = k2.Name
				break
			}
		}
		if (i+n)%3 == 0 && !k1.EOF && cs.HFault.At >= cs.Off {
			// only a few bytes are out of reach: what lies beyond them is served
			cs.HFault.Span = []int64{1, 2, mp, 1}[(i/3+n)%4]
		}
		out = append(out, cs)
	}
	return out
}

// xfC13FaultCheck judges a transfer whose handler fails at HFault.At (and, with Err2, from At2 on).
func xfC13FaultCheck(cs xfCase, out xfOutcome, fail xfFailer) {
	switch {
	case out.SetupErr != nil:
		fail("setup", "could not set the case up: "+out.SetupErr.Error(), nil, nil)
		return
	case out.Hang:
		fail("hang", "the call (or Seek/Close after it) did not return within 20 s", "return", "hang")
		return
	case out.Panic != nil:
		fail("panic", "the call panicked", "no panic", fmt.Sprint(out.Panic))
		return
	case out.OpenErr != nil:
		fail("open/"+cs.Mode().Name, "opening the served file failed", "<nil>", out.OpenErr.Error())
		return
	}
	ft := *cs.HFault
	kind, _ := xfHErrByName(ft.Err)
	mp, S, o, L := int64(cs.Cfg.MP), int64(cs.FileLen), cs.Off, int64(cs.Len)
	initial := xfFilePat(cs.FileLen)
	got := fmt.Sprintf("(%d, %v)", out.N, out.Err)
	implicit := cs.API != "ReadAt" && cs.API != "WriteAt"
	site := "handler-fault/" + ft.Op + "/"
	// the chunk that meets the fault first starts here; everything below it was served
	lo := int64(0)
	if ft.At > o {
		lo = (ft.At - o) / mp * mp
	}
	code, msg := sftp.VerifStatusFromError(kind.Err)
	want := xfFail{Code: code, Msg: msg}
	wantText := fmt.Sprintf("status %d %q (what the server makes of the handler's %s at the lowest failing offset)", code, msg, ft.Err)
	if cs.IsRead() {
		end := min(S, ft.At)
		avail := max(end-o, 0)
		if cs.API != "WriteTo" {
			avail = min(avail, L)
		}
		lo = min(lo, avail)
		if !bytes.Equal(out.FileAfter, initial) {
			fail("file-changed", "a read changed the served file", xfShort(initial), xfShort(out.FileAfter))
		}
		wantOff := int64(0)
		if kind.EOF {
			// the handler says: the file ends at At. The transfer is that of a file of min(S, At) bytes, whatever fails further out.
			wantErr := error(nil)
			if cs.API != "WriteTo" && avail < L {
				wantErr = io.EOF
			}
			if out.N != avail || out.Err != wantErr {
				key := "eof-value/count-error"
				switch {
				case out.Err != nil && out.Err != io.EOF:
					key = "wrong-error"
				case out.Err == nil && wantErr != nil:
					key = "short-count-nil-error"
				}
				fail(site+key, fmt.Sprintf("the handler ends the file at offset %d with %s: the transfer must be that of a file of %d bytes (the lowest event decides)", ft.At, ft.Err, end),
					fmt.Sprintf("(%d, %v)", avail, wantErr), got)
			}
		} else {
			switch {
			case out.Err == nil:
				fail(site+"nil-error", fmt.Sprintf("the handler's ReadAt failed with %s at offset %d of a %d-byte file, the transfer returned a nil error (a short count must not come with one)", ft.Err, ft.At, S), wantText, got)
			case out.Err == io.EOF:
				fail(site+"eof-not-at-end", fmt.Sprintf("the handler's ReadAt failed with %s at offset %d, the client reports io.EOF at offset %d of a %d-byte file", ft.Err, ft.At, o+out.N, S), wantText, got)
			case !xfErrIs(out.Err, want):
				fail(site+"wrong-error", "the error is not the one belonging to the lowest failing offset", wantText, got)
			}
			if out.N < lo || out.N > avail {
				fail(site+"count", fmt.Sprintf("the count is not a prefix that moved: the chunks wholly below the fault at %d hold %d bytes, %d bytes lie below it", ft.At, lo, avail),
					fmt.Sprintf("%d <= n <= %d", lo, avail), got)
			}
		}
		if n := out.N; n >= 0 && n <= int64(len(initial))+1 {
			if w := xfSlice(initial, o, int(n)); !bytes.Equal(out.Data, w) {
				fail(site+"data", fmt.Sprintf("the n bytes delivered are not the file's bytes [off, off+n) (first difference at %d)", xfFirstDiff(out.Data, w)), xfShort(w), xfShort(out.Data))
			}
		}
		if implicit {
			wantOff = o + out.N
		}
		if out.OffErr != nil || out.OffAfter != wantOff {
			fail(site+"offset", "File offset after the failed read is not start + bytes delivered (ReadAt: unchanged)", wantOff, fmt.Sprintf("%d (%v)", out.OffAfter, out.OffErr))
		}
	} else {
		data := xfPat(cs.Seed, cs.Len)
		isRF := cs.API == "ReadFrom" || cs.API == "ReadFromWithConcurrency"
		lo = min(lo, L)
		prefix := xfAppliedPrefix(out.Applied, o, cs.Len) // what the handler stored, contiguously from the start offset
		switch {
		case out.Err == nil:
			fail(site+"nil-error", fmt.Sprintf("the handler's WriteAt failed with %s at offset %d, the transfer of %d bytes at %d returned a nil error", ft.Err, ft.At, L, o), wantText, got)
		case !xfErrIs(out.Err, want):
			fail(site+"wrong-error", "the error is not the one belonging to the lowest failing offset", wantText, got)
		}
		if prefix < lo {
			fail(site+"prefix", "the chunks wholly below the fault were not all stored", fmt.Sprintf(">= %d bytes from offset %d", lo, o), prefix)
		}
		if isRF {
			if out.N != out.Consumed {
				fail(site+"count-vs-consumed", "ReadFrom's count is not the number of bytes consumed from the source", out.Consumed, got)
			}
		} else if out.N != lo {
			fail(site+"count", "the count is not the length of the prefix below the lowest failing offset (the request that met the fault was refused as a whole)", lo, got)
		}
		w := xfOverwrite(initial, o, data[:lo])
		upto := int(o + lo)
		if lo == 0 {
			upto = min(len(initial), int(o))
		}
		if len(out.FileAfter) < upto || !bytes.Equal(out.FileAfter[:upto], w[:upto]) {
			fail(site+"prefix-content", fmt.Sprintf("the bytes below off+n are not all in the served file (first difference at byte %d of %d)", xfFirstDiff(out.FileAfter, w[:upto]), upto),
				xfShort(w[:upto]), xfShort(out.FileAfter))
		}
		if cs.Path() != "concurrent" {
			for _, c := range out.Applied {
				if c.Off > o+lo {
					fail(site+"wrote-beyond-failure", "a sequential write path sent a chunk beyond the first failing one", fmt.Sprintf("no write beyond offset %d", o+lo), fmt.Sprintf("%d:%d", c.Off, c.Len))
					break
				}
			}
		}
		wantOff := int64(0)
		if implicit {
			wantOff = o + lo
		}
		if out.OffErr != nil || out.OffAfter != wantOff {
			what := "File offset after the failed write is not the end of the intact prefix"
			if !implicit {
				what = "a failing WriteAt moved the File offset"
			}
			fail(site+"offset", what, wantOff, fmt.Sprintf("%d (%v)", out.OffAfter, out.OffErr))
		}
	}
	if out.FaultHits == 0 {
		fail("setup", "the handler fault was not met although the transfer reaches it (harness error)", nil, nil)
	}
	if out.CloseErr != nil {
		fail("close", "Close after the transfer failed", nil, out.CloseErr.Error())
	}
	if out.LeftOpen != 0 {
		fail("handle-left", "the server still holds a handle after Close", 0, out.LeftOpen)
	}
}
