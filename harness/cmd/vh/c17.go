package main

import (
	"fmt"
	"os"

	"github.com/pkg/sftp"

	"verifharness/lib"
)

func init() { register("c17", checkC17) }

// C17: exhaustive correspondence of the three mode conversions over their whole
// domains, against the Lean interpreter of the regenerated switch tables.
func checkC17(c *lib.Ctx) {
	r := c.R
	if c.Replay != "" && c17Replay(c) {
		return
	}
	r.Rule = "exhaustive: all 65536 wire mode words through toFileMode; all 28672 os.FileMode values (7 types x 3 special x 9 permission bits) through fromFileMode, toChmodPerm and the round trip; a case is non-trivial when its type nibble is not regular or a special bit is set"
	r.Exhaustive = true
	var lines, impl []string
	for m := 0; m < 65536; m++ {
		fm := sftp.VerifToFileMode(uint32(m))
		lines = append(lines, fmt.Sprintf("c17.tofm %d", m))
		impl = append(impl, fmt.Sprint(uint32(fm)))
		nontriv := m&0xF000 != 0x8000 || m&0xE00 != 0
		r.Case(lines[len(lines)-1], nontriv)
		r.Hist(fmt.Sprintf("wire-type-%x", m>>12))
		// direct oracle: round trip on representable types
		switch m & 0xF000 {
		case 0x1000, 0x2000, 0x4000, 0x6000, 0x8000, 0xA000, 0xC000:
			if back := sftp.VerifFromFileMode(fm); back != uint32(m) {
				r.Fail(lib.Failure{Kind: "oracle", Key: fmt.Sprintf("wire-roundtrip/type-%x", m>>12), What: "fromFileMode(toFileMode(m)) != m",
					Input: map[string]any{"wire_mode": m}, Expected: m, Actual: back})
			}
		}
		if m == 0o044751 || m == 0o120777 || m == 0o010644 {
			r.Sample(map[string]any{"op": "toFileMode", "wire": fmt.Sprintf("%#o", m), "os": fm.String()})
		}
	}
	types := []os.FileMode{0, os.ModeDir, os.ModeSymlink, os.ModeNamedPipe, os.ModeSocket, os.ModeDevice, os.ModeDevice | os.ModeCharDevice}
	for i := 0; i < 7*4096; i++ {
		low := i % 4096
		fm := types[i/4096] | os.FileMode(low&0o777)
		if low&0o4000 != 0 {
			fm |= os.ModeSetuid
		}
		if low&0o2000 != 0 {
			fm |= os.ModeSetgid
		}
		if low&0o1000 != 0 {
			fm |= os.ModeSticky
		}
		lines = append(lines, fmt.Sprintf("c17.osmode %d", i))
		impl = append(impl, fmt.Sprint(uint32(fm)))
		w := sftp.VerifFromFileMode(fm)
		lines = append(lines, fmt.Sprintf("c17.fromfm %d", uint32(fm)))
		impl = append(impl, fmt.Sprint(w))
		lines = append(lines, fmt.Sprintf("c17.chmod %d", uint32(fm)))
		impl = append(impl, fmt.Sprint(sftp.VerifToChmodPerm(fm)))
		r.Case(fmt.Sprintf("os %d", i), i >= 4096 || low&0o7000 != 0)
		r.Hist("os-type-" + fm.Type().String())
		if back := sftp.VerifToFileMode(w); back != fm {
			r.Fail(lib.Failure{Kind: "oracle", Key: "os-roundtrip/" + fm.Type().String(), What: "toFileMode(fromFileMode(fm)) != fm",
				Input: map[string]any{"os_mode": uint32(fm), "text": fm.String()}, Expected: uint32(fm), Actual: uint32(back)})
		}
		if want := uint32(low); sftp.VerifToChmodPerm(fm) != want {
			r.Fail(lib.Failure{Kind: "oracle", Key: "chmod/" + fm.Type().String(), What: "toChmodPerm(fm) is not perm|setuid|setgid|sticky in POSIX form",
				Input: map[string]any{"os_mode": uint32(fm), "text": fm.String()}, Expected: want, Actual: sftp.VerifToChmodPerm(fm)})
		}
		if i == 3*4096+0o1644 {
			r.Sample(map[string]any{"op": "fromFileMode", "os": fm.String(), "wire": fmt.Sprintf("%#o", w)})
		}
	}
	c.Compare("c17", lines, impl)
	r.Exhaustive = true
	checkC17Files(c)
	checkC17Listings(c)
	checkC17Boundaries(c)
	checkC17Pairs(c, nil)
}
