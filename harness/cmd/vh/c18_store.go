package main

// C18, two more families of sessions (run by the scenario machinery of c18_sess.go, each without and with the
// allocator, everything the servers send compared byte for byte):
//
//   - FRAME-LIMITS: well-formed requests whose frame is exactly N bytes long, N at and around the size limits of the
//     receive path — the longest frame a server takes (maxMsgLength, 256 KiB, which is also the size of an allocator
//     page) minus / plus the sizes of the header fields of a request (1, 4, 5, 8, 9, 13, the 21…25 bytes in front of
//     the data of a WRITE, the longest handle, 256), plus a dense PRNG sample of the bytes in between, plus whole
//     multiples — as a WRITE whose data fills the frame (into the middle of a file; as the single first chunk of an
//     empty one; refused by a read-only server), as a REALPATH / READLINK whose path fills it, and as a short request
//     followed by trailing bytes; on the request server (instrumented handlers and the package's InMemHandler) and on
//     the os-backed server. With the allocator a frame is received into a page of fixed size, without it into a
//     buffer made for it: whatever the limit is, both servers must draw it at the same byte and answer the same on
//     either side of it.
//
//   - STORED-DATA: what is written EARLY is read back LATE. A session makes one to three files (first chunk at
//     offset 0 of an empty file, several chunks one after the other or pipelined, a longer chunk over a shorter one,
//     a hole first, truncation and a new first chunk), leaves them open or closes them, then sends 0…40 requests of
//     every kind and of frame lengths from 10 bytes to tens of kilobytes (WRITEs to another file, READs, STAT / LSTAT
//     of short and long names, REALPATH of 30…20000 bytes, MKDIR, RENAME, SETSTAT with extended pairs, SYMLINK, OPEN /
//     CLOSE of other files, OPENDIR / READDIR, unknown extensions), one after the other or in bursts of 2…6 — every
//     one of them is received into a page that held an earlier request — and only then reads the files back: through
//     the handle they were written through, through a newly opened one, whole and in pieces, with FSTAT / STAT of
//     their size; some sessions append and go round once more. On the request server the handler is the package's own
//     sftp.InMemHandler(), which KEEPS what it is given to write; on the os-backed server the scratch tree. Nothing is
//     predicted: the replies (the DATA of the late READs among them) must not depend on the allocator.

import (
	"encoding/binary"
	"fmt"
	"math/rand"
	"sort"
	"strings"

	"verifharness/wire"
)

// c18OpenKinds: the requests that open something, and the kind of handle they give.
var c18OpenKinds = map[string]string{"open": "get", "openrw": "rw", "openw": "put", "opennew": "rw", "openrwc": "rw", "opendir": "dir"}

// c18OpenFlags: the OPENs that gOp.frame does not know: opennew = read + write, created or emptied; openrwc = read +
// write, created where missing, contents kept.
var c18OpenFlags = map[string]uint32{
	"opennew": wire.FRead | wire.FWrite | wire.FCreat | wire.FTrunc,
	"openrwc": wire.FRead | wire.FWrite | wire.FCreat,
}

const c18FitMax = 1<<20 + 64 // frames longer than this are not sent whole (the raw frames of c18_sess.go announce them)

// c18FitFrame returns request o as a well-formed frame whose length word says exactly n (mk makes the frame of a
// request): a WRITE carries as many data bytes as that takes, a REALPATH / READLINK a path that long, every other
// request is followed by the missing bytes. ok = false: the request cannot be that short (or n is out of range).
func c18FitFrame(o gOp, n int, mk func(gOp) []byte) (fr []byte, ok bool) {
	if n < 5 || n > c18FitMax {
		return nil, false
	}
	switch o.K {
	case "write":
		o.Len = 0
		need := n + 4 - len(mk(o))
		if need < 0 {
			return nil, false
		}
		o.Len = uint32(need)
		fr = mk(o)
	case "realpath", "readlink":
		o.Pad = 1 << 16
		pad := int(o.Pad) + n + 4 - len(mk(o))
		if pad <= 0 {
			return nil, false
		}
		o.Pad = uint32(pad)
		fr = mk(o)
	default:
		fr = append([]byte(nil), mk(o)...)
		need := n + 4 - len(fr)
		if need < 0 {
			return nil, false
		}
		for i := 0; i < need; i++ {
			fr = append(fr, byte(0x5A+i*11))
		}
		binary.BigEndian.PutUint32(fr, uint32(len(fr)-4))
	}
	return fr, len(fr) == n+4
}

// ---- comparing replies that carry times ----

// c18MaskTimes returns the reply stream with the access and modification times of every attribute block (ATTRS
// replies, entries of NAME replies) and the date column of every long name overwritten: the sessions of the
// stored-data and frame-limits families ask for the attributes of files they have just made or written.
func c18MaskTimes(raw []byte) []byte {
	out := append([]byte(nil), raw...)
	u32 := func(b []byte, at int) (int, bool) {
		if at < 0 || at+4 > len(b) {
			return 0, false
		}
		return int(binary.BigEndian.Uint32(b[at:])), true
	}
	// attr masks the block at b[at:] and returns the offset behind it (-1: it does not decode)
	attr := func(b []byte, at int) int {
		fl, ok := u32(b, at)
		if !ok {
			return -1
		}
		at += 4
		if uint32(fl)&wire.ASize != 0 {
			at += 8
		}
		if uint32(fl)&wire.AUIDGID != 0 {
			at += 8
		}
		if uint32(fl)&wire.APerm != 0 {
			at += 4
		}
		if uint32(fl)&wire.ATime != 0 {
			if at+8 > len(b) {
				return -1
			}
			for i := 0; i < 8; i++ {
				b[at+i] = 0
			}
			at += 8
		}
		if uint32(fl)&wire.AExt != 0 {
			n, ok := u32(b, at)
			if !ok {
				return -1
			}
			at += 4
			for i := 0; i < 2*n; i++ {
				l, ok := u32(b, at)
				if !ok || at+4+l > len(b) {
					return -1
				}
				at += 4 + l
			}
		}
		if at > len(b) {
			return -1
		}
		return at
	}
	for pos := 0; pos+5 <= len(out); {
		n := int(binary.BigEndian.Uint32(out[pos:]))
		if n == 0 || pos+4+n > len(out) {
			break
		}
		body := out[pos+5 : pos+4+n]
		switch out[pos+4] {
		case wire.Attrs:
			attr(body, 4)
		case wire.Name:
			cnt, ok := u32(body, 4)
			at := 8
			for i := 0; ok && i < cnt && at >= 0; i++ {
				ln, ok1 := u32(body, at)
				if !ok1 || at+4+ln > len(body) {
					break
				}
				name := body[at+4 : at+4+ln]
				at += 4 + ln
				ll, ok2 := u32(body, at)
				if !ok2 || at+4+ll > len(body) {
					break
				}
				long := body[at+4 : at+4+ll]
				at += 4 + ll
				// "… size Mon _2 hh:mm name" resp. "… size Mon _2  yyyy name": the twelve bytes in front of " name"
				if k := len(long) - len(name) - 1; k >= 12 && long[k] == ' ' && string(long[k+1:]) == string(name) {
					for j := k - 12; j < k; j++ {
						long[j] = 'T'
					}
				}
				at = attr(body, at)
			}
		}
		pos += 4 + n
	}
	return out
}

// ---- family frame-limits ----

const c18MaxFrame = 262144 // maxMsgLength: the longest frame the servers take; the size of an allocator page

// c18LimitDeltas: frame lengths, as distances from the limit, that every tier runs: the sizes of the fields a request
// starts with (type 1, id 4, length words 4, offset 8; 5 = type + id, 9, 13 = the bytes in front of a path or handle,
// 21…25 = the bytes in front of the data of a WRITE with a handle of 1…4 characters, 255…257 and 277…283 = the same with
// the longest handle), one page less / more, multiples.
var c18LimitDeltas = []int{-32768, -4096, -1000, -283, -282, -281, -277, -257, -256, -255, -26, -25, -24, -23, -22, -21, -14, -13, -12, -9, -8, -5, -4, -3, -2, -1, 0,
	1, 2, 3, 4, 5, 8, 9, 12, 13, 14, 17, 21, 22, 23, 24, 25, 26, 27, 30, 64, 100, 128, 255, 256, 257, 276, 277, 278, 280, 281, 282, 283, 300, 512, 1000, 1024, 4095, 4096, 4097,
	32768, 65536, 262143, 262144, 262145, 786432}

// c18LimitHandles: what a session of the family opens. The InMemHandler starts out empty: its files are made by the OPENs.
func c18LimitHandles(server string, ro bool) []gHandle {
	if server == "mem" {
		return []gHandle{{Name: "w0", Kind: "new", Path: "g0"}, {Name: "x0", Kind: "new", Path: "x0"}, {Name: "r0", Kind: "new", Path: "f0"}, {Name: "r1", Kind: "new", Path: "f1"}}
	}
	return c18MalHandles(ro)
}

// c18LimitTargets: the requests that are sent with a frame of a chosen length.
func c18LimitTargets(server string, ro bool) []gOp {
	switch {
	case ro: // the WRITE is refused before its handle is looked at; its frame is taken in all the same
		return []gOp{{K: "write", H: "r1", Off: 70000}, {K: "realpath", P: "sd/../s1"}, {K: "read", H: "r0", Off: 1234, Len: 100}}
	case server == "mem":
		return []gOp{{K: "write", H: "x0", Off: 70000}, {K: "write", H: "w0", Off: 0}, {K: "realpath", P: "sd/../s1"}}
	}
	return []gOp{{K: "write", H: "x0", Off: 70000}, {K: "write", H: "w0", Off: 0}, {K: "realpath", P: "sd/../s1"}, {K: "readlink", P: "lnk"},
		{K: "extunknown"}, {K: "read", H: "r0", Off: 1234, Len: 100}, {K: "fstat", H: "r0"}}
}

// c18LimitScn: primers (so that the pages hold recognisable bytes), then the frames of the chosen lengths, each
// followed — where the server goes on — by requests that show what was done with it, then the end.
func c18LimitScn(rng *rand.Rand, server string, opt c02Opt, t gOp, lens []int) c18Scn {
	scn := c18Scn{Server: server, Sess: [][]gHandle{c18LimitHandles(server, opt.ReadOnly)}, MaskTimes: true}
	c18ScnOptApply(&scn, opt)
	id := uint32(0)
	nid := func() uint32 { id++; return id }
	scn.Steps = append(scn.Steps, c18Step{Do: "open"})
	scn.Steps = append(scn.Steps, c18Primers(rng, opt.ReadOnly, &id)...)
	for k, n := range lens {
		o := t
		o.ID = nid()
		if o.K == "write" {
			o.Off += int64(k) * 300000
		}
		scn.Steps = append(scn.Steps, c18Step{Do: "probe", Ops: []gOp{o}, Mut: &c18Mut{Kind: "fit", N: n}})
		after := []gOp{{K: "read", H: "r0", Off: 500000 + int64(k)*777, Len: 100, ID: nid()}}
		if o.K == "write" && !opt.ReadOnly {
			tail := max(o.Off+int64(n)-1100, 0)
			after = append(after, gOp{K: "read", H: o.H, Off: max(o.Off-10, 0), Len: 2000, ID: nid()}, gOp{K: "read", H: o.H, Off: tail, Len: 2000, ID: nid()}, gOp{K: "fstat", H: o.H, ID: nid()})
		}
		scn.Steps = append(scn.Steps, c18Step{Do: "send", Ops: after})
	}
	scn.Steps = append(scn.Steps, c18Step{Do: "end"})
	return scn
}

// c18LimitJobs: quick: for the WRITE into a file every length of c18LimitDeltas (request server over the instrumented
// handlers; a PRNG third of them on the os-backed server and over the InMemHandler) and a PRNG sample of 24 (8) of the
// lengths limit−40 … limit+320; for each of the other requests and for the read-only os-backed server limit−1, limit,
// limit+1, a PRNG eighth of the listed lengths and one of the dense range; every second session sends a frame of a
// length the servers take (limit − 0…40, or a smaller one) first. thorough: every listed length and every length
// limit−40 … limit+320 (the other requests: every third of these), under every option combination.
func c18LimitJobs(rng *rand.Rand, thorough bool) []c18Stream {
	var out []c18Stream
	for _, server := range []string{"mem", "rs", "os"} { // (the sessions that take longest first: the InMemHandler sleeps a microsecond per byte written)
		opts := c18Opts(server)
		if server == "mem" { // (its start directory would have to be made before the session's files are opened)
			opts = []c02Opt{{}}
		}
		turn := 0
		for _, ro := range []bool{false, true} {
			if ro && server != "os" {
				continue
			}
			var sel []c02Opt // the option combinations of this kind of server
			for _, o := range opts {
				if o.ReadOnly == ro {
					sel = append(sel, o)
				}
			}
			for ti, t := range c18LimitTargets(server, ro) {
				main := ti == 0 && !ro
				ds := []int{-1, 0, 1}
				for _, d := range c18LimitDeltas {
					switch {
					case thorough, main && (server == "rs" || rng.Intn(3) == 0), rng.Intn(8) == 0:
						ds = append(ds, d)
					}
				}
				dense := 1
				switch {
				case thorough:
					dense = 0
					for d := -40; d <= 320; d++ {
						if main || (d+ti)%3 == 0 {
							ds = append(ds, d)
						}
					}
				case main && server == "rs":
					dense = 24
				case main:
					dense = 8
				}
				for k := 0; k < dense; k++ {
					ds = append(ds, -40+rng.Intn(361))
				}
				sort.Ints(ds)
				for i, d := range ds {
					if i > 0 && d == ds[i-1] {
						continue
					}
					lens := []int{c18MaxFrame + d}
					if rng.Intn(2) == 0 && server != "mem" { // (the InMemHandler sleeps a microsecond per byte it is given to write)
						first := c18MaxFrame - rng.Intn(41)
						if rng.Intn(3) == 0 {
							first = []int{40, 300, 32768 + 25, 65536 + 25, 131072}[rng.Intn(5)]
						}
						lens = []int{first, c18MaxFrame + d}
					}
					turn++
					for j, o := range sel {
						if !thorough && j != turn%len(sel) {
							continue
						}
						scn := c18LimitScn(rng, server, o, t, lens)
						out = append(out, c18Stream{Fam: "frame-limits", Scn: &scn})
					}
				}
			}
		}
	}
	return out
}

// ---- family stored-data ----

type c18StoFile struct {
	path     string
	h        string // the name of the handle it is open under ("": closed)
	canRead  bool
	canWrite bool
	size     int64 // how far it has been written (nothing is predicted from it: it only places the later requests)
}

type c18StoGen struct {
	rng    *rand.Rand
	server string
	id     uint32
	n      int // counter for names
	steps  []c18Step
	early  []*c18StoFile
	noise  *c18StoFile
	others []string // handles of other files opened on the way, to be closed later
	bursts bool
}

func (g *c18StoGen) nid() uint32 { g.id++; return g.id }
func (g *c18StoGen) name(p string) string {
	g.n++
	return fmt.Sprintf("%s%d", p, g.n)
}

func (g *c18StoGen) send(tag string, ops ...gOp) {
	for i := range ops {
		ops[i].ID = g.nid()
	}
	g.steps = append(g.steps, c18Step{Do: "send", Ops: ops, Tag: tag})
}

// sendSome sends ops one after the other (each reply awaited) or, in a session of bursts, in one piece.
func (g *c18StoGen) sendSome(tag string, piped bool, ops ...gOp) {
	if piped {
		g.send(tag, ops...)
		return
	}
	for _, o := range ops {
		g.send(tag, o)
	}
}

func (g *c18StoGen) pick(xs ...int) int { return xs[g.rng.Intn(len(xs))] }

func (g *c18StoGen) open(tag string, f *c18StoFile, kind string) {
	f.h = g.name("h")
	f.canRead, f.canWrite = kind != "openw", kind != "open"
	g.send(tag, gOp{K: kind, P: f.path, H: f.h})
	if kind == "opennew" || kind == "openw" {
		f.size = 0
	}
}

func (g *c18StoGen) close(tag string, f *c18StoFile) {
	g.send(tag, gOp{K: "close", H: f.h})
	f.h = ""
}

func (g *c18StoGen) write(f *c18StoFile, off int64, ln int) gOp {
	f.size = max(f.size, off+int64(ln))
	return gOp{K: "write", H: f.h, Off: off, Len: uint32(ln)}
}

// c18StoLens: lengths of the chunks written early: around the number of bytes in front of the data of a WRITE (the
// shortest later frame that reaches them), small, a few kilobytes, seldom a whole packet and more.
func (g *c18StoGen) earlyLen() int {
	switch g.rng.Intn(12) {
	case 0:
		return g.pick(20000, 32768, 65536)
	case 1, 2:
		return g.pick(4096, 5000, 8192)
	}
	return g.pick(1, 2, 7, 20, 24, 25, 26, 27, 28, 32, 64, 100, 240, 255, 256, 257, 1000, 1024, 1500)
}

// earlyFile makes one file and writes it in one of the shapes; returns its description for the histogram.
func (g *c18StoGen) earlyFile() string {
	f := &c18StoFile{}
	kind := []string{"opennew", "opennew", "openw", "openrwc"}[g.rng.Intn(4)]
	switch g.rng.Intn(3) {
	case 0:
		f.path = g.name("g") // os-backed: there already, empty
	case 1:
		f.path = g.name("ow") // made by the OPEN
	default:
		f.path = g.name("g")
		if g.server == "os" && kind == "openrwc" && g.rng.Intn(2) == 0 {
			f.path = g.name("x") // os-backed: there already with 131072 bytes, which stay
			f.size = 131072
		}
	}
	g.early = append(g.early, f)
	g.open("early", f, kind)
	shape := []string{"single-chunk-at-0", "single-chunk-at-0", "chunks-in-turn", "chunks-pipelined", "longer-chunk-over-shorter", "hole-then-chunk-at-0", "truncated-then-chunk-at-0"}[g.rng.Intn(7)]
	l := g.earlyLen()
	switch shape {
	case "single-chunk-at-0":
		g.send("early", g.write(f, 0, l))
	case "chunks-in-turn", "chunks-pipelined":
		l = min(l, 8192)
		var ops []gOp
		for k, n := 0, 2+g.rng.Intn(4); k < n; k++ {
			ops = append(ops, g.write(f, int64(k*l), l))
		}
		g.sendSome("early", shape == "chunks-pipelined", ops...)
	case "longer-chunk-over-shorter":
		g.send("early", g.write(f, 0, l))
		g.send("early", g.write(f, 0, l+1+g.rng.Intn(2*l+40)))
	case "hole-then-chunk-at-0":
		off := int64(g.pick(1, 30, 1000, 5000))
		g.send("early", g.write(f, off, min(l, 4096)))
		g.send("early", g.write(f, 0, g.pick(int(off), int(off)+min(l, 4096), int(off)+min(l, 4096)+1+g.rng.Intn(300), 1+g.rng.Intn(int(off)))))
	case "truncated-then-chunk-at-0":
		g.send("early", g.write(f, 0, l))
		cut := uint64(g.rng.Intn(l + 1))
		if g.rng.Intn(2) == 0 {
			cut = 0
		}
		if g.rng.Intn(2) == 0 {
			g.send("early", gOp{K: "fsetstat", H: f.h, AF: wire.ASize, At: &gAttr{Size: cut}})
		} else {
			g.send("early", gOp{K: "setstat", P: f.path, AF: wire.ASize, At: &gAttr{Size: cut}})
		}
		f.size = int64(cut)
		g.send("early", g.write(f, 0, int(cut)+1+g.rng.Intn(2000)))
	}
	if g.rng.Intn(2) == 0 {
		g.close("early", f)
	}
	return shape + "/" + kind
}

type c18StoCand struct {
	op   gOp
	keys []string // the objects it touches
	mod  bool     // it changes them
	solo bool     // sent alone
}

// between draws one request of the traffic between writing and reading back.
func (g *c18StoGen) between(i int) c18StoCand {
	r := g.rng
	long := func(pre string) string { return pre + strings.Repeat("n", g.pick(1, 20, 60, 150, 200)) }
	for {
		switch r.Intn(20) {
		case 0, 1, 2, 3:
			ln := g.pick(1, 26, 30, 200, 1000, 5000)
			if r.Intn(12) == 0 {
				ln = 30000
			}
			off := g.noise.size + int64(r.Intn(3))*100
			return c18StoCand{op: g.write(g.noise, off, ln), keys: []string{fmt.Sprintf("noise@%d", off)}, mod: true}
		case 4:
			if g.noise.size == 0 {
				continue
			}
			return c18StoCand{op: gOp{K: "read", H: g.noise.h, Off: r.Int63n(g.noise.size), Len: uint32(g.pick(1, 100, 4096, 32768))}, keys: []string{"noise"}}
		case 5:
			if g.server != "os" {
				continue
			}
			return c18StoCand{op: gOp{K: "read", H: "r0", Off: r.Int63n(590000), Len: uint32(g.pick(1, 100, 4096, 32768))}, keys: []string{"f0"}}
		case 6, 7:
			p := []string{"s0", "sd", "lnk", fmt.Sprintf("missing%d", i), long(g.name("st") + "-")}[r.Intn(5)]
			return c18StoCand{op: gOp{K: []string{"stat", "lstat"}[r.Intn(2)], P: p}, keys: []string{p}}
		case 8, 9:
			return c18StoCand{op: gOp{K: "realpath", P: "s0", Pad: uint32(g.pick(30, 120, 600, 3000, 3000, 20000))}, keys: nil}
		case 10:
			p := []string{"lnk", fmt.Sprintf("missing%d", i)}[r.Intn(2)]
			return c18StoCand{op: gOp{K: "readlink", P: p}, keys: []string{p}}
		case 11:
			p := g.name("mk")
			o := gOp{K: "mkdir", P: p}
			if r.Intn(2) == 0 {
				o.AF, o.At = c18RandAttr(r, wire.APerm|wire.ATime|wire.AExt, false)
			}
			return c18StoCand{op: o, keys: []string{p}, mod: true}
		case 12:
			p := g.name("rn")
			return c18StoCand{op: gOp{K: "rename", P: p, P2: long(p + ".to-")}, keys: []string{p}, mod: true}
		case 13:
			p := g.name("ss")
			af, at := c18RandAttr(r, wire.APerm|wire.ATime|wire.AExt|wire.ASize, false)
			return c18StoCand{op: gOp{K: "setstat", P: p, AF: af, At: at}, keys: []string{p}, mod: true}
		case 14:
			return c18StoCand{op: gOp{K: "extunknown"}}
		case 15:
			p := g.name("sl")
			return c18StoCand{op: gOp{K: "symlink", P: "s0", P2: p}, keys: []string{p}, mod: true}
		case 16:
			if len(g.others) >= 3 || r.Intn(2) == 0 && len(g.others) > 0 {
				h := g.others[0]
				g.others = g.others[1:]
				return c18StoCand{op: gOp{K: "close", H: h}, keys: []string{h}, mod: true}
			}
			p, h := g.name("ow"), g.name("h")
			g.others = append(g.others, h)
			return c18StoCand{op: gOp{K: []string{"openw", "opennew"}[r.Intn(2)], P: p, H: h}, keys: []string{p, h}, mod: true, solo: true}
		case 17:
			return c18StoCand{op: gOp{K: "fstat", H: g.noise.h}, keys: []string{"noise"}}
		case 18:
			p := g.name("rm")
			return c18StoCand{op: gOp{K: "remove", P: p}, keys: []string{p}, mod: true}
		default:
			return c18StoCand{op: gOp{K: "opendir"}, solo: true} // stands for OPENDIR, READDIR …, CLOSE (listing)
		}
	}
}

// listing: OPENDIR, READDIR until the end, CLOSE, one after the other. InMemHandler: the root, which holds what the
// session has made (names and SIZES of the early files among them); os-backed: a directory nobody changes.
func (g *c18StoGen) listing(tag string) {
	dir := "sd"
	if g.server == "mem" {
		dir = "."
	}
	h := g.name("d")
	g.send(tag, gOp{K: "opendir", P: dir, H: h})
	g.send(tag, gOp{K: "readdir", H: h})
	g.send(tag, gOp{K: "readdir", H: h})
	g.send(tag, gOp{K: "close", H: h})
}

// traffic sends n requests between the writing and the reading back.
func (g *c18StoGen) traffic(n int) {
	var burst []c18StoCand
	flush := func() {
		if len(burst) == 0 {
			return
		}
		var ops []gOp
		for _, c := range burst {
			ops = append(ops, c.op)
		}
		g.send("between", ops...)
		burst = nil
	}
	want := 1
	for i := 0; i < n; i++ {
		c := g.between(i)
		if c.op.K == "opendir" {
			flush()
			g.listing("between")
			continue
		}
		clash := false
		for _, b := range burst {
			for _, k := range c.keys {
				for _, k2 := range b.keys {
					root := func(s string) string { return strings.SplitN(s, "@", 2)[0] }
					if k == k2 || (root(k) == root(k2) && (k == root(k) || k2 == root(k2))) {
						clash = clash || c.mod || b.mod
					}
				}
			}
		}
		if clash || c.solo {
			flush()
		}
		burst = append(burst, c)
		if c.solo || len(burst) >= want {
			flush()
			want = 1
			if g.bursts {
				want = 1 + g.rng.Intn(6)
			}
		}
	}
	flush()
}

// late reads one early file back.
func (g *c18StoGen) late(f *c18StoFile) string {
	how := "through-the-handle-it-was-written-through"
	via := f
	if f.h == "" || !f.canRead || g.rng.Intn(3) == 0 {
		how = "through-a-new-handle"
		via = &c18StoFile{path: f.path, size: f.size}
		g.open("late", via, "open")
	}
	var ops []gOp
	switch g.rng.Intn(3) {
	case 0: // whole, and past its end
		ops = append(ops, gOp{K: "read", H: via.h, Off: 0, Len: uint32(f.size + 100)})
	case 1: // in pieces
		c := max(1, int(f.size)/(1+g.rng.Intn(4)))
		for off := int64(0); off <= f.size && len(ops) < 12; off += int64(c) {
			ops = append(ops, gOp{K: "read", H: via.h, Off: off, Len: uint32(c)})
		}
	default: // its beginning, its end, whole
		ops = append(ops, gOp{K: "read", H: via.h, Off: 0, Len: uint32(min(f.size, 300) + 1)}, gOp{K: "read", H: via.h, Off: max(f.size-200, 0), Len: 400},
			gOp{K: "read", H: via.h, Off: 0, Len: uint32(f.size + 1)})
	}
	ops = append(ops, gOp{K: "fstat", H: via.h})
	g.sendSome("late", g.bursts && g.rng.Intn(2) == 0, ops...)
	if g.rng.Intn(2) == 0 {
		g.send("late", gOp{K: []string{"stat", "lstat"}[g.rng.Intn(2)], P: f.path})
	}
	if via != f {
		g.close("late", via)
	}
	return how
}

// c18StoreScn generates one session of the family.
func c18StoreScn(rng *rand.Rand, server string, opt c02Opt, maxTx uint32) c18Scn {
	scn := c18Scn{Server: server, MaxTx: maxTx, MaskTimes: true, Sess: [][]gHandle{nil}}
	c18ScnOptApply(&scn, opt)
	if server == "os" {
		scn.Sess[0] = []gHandle{{Name: "r0", Kind: "get", Path: "f0"}}
	}
	g := &c18StoGen{rng: rng, server: server, bursts: rng.Intn(2) == 0}
	g.steps = append(g.steps, c18Step{Do: "open"})
	if server == "mem" { // the InMemHandler starts out with its root alone: the start directory and the objects the traffic asks for are made first
		if opt.WorkDir {
			g.send("early", gOp{K: "mkdir", P: "."})
		}
		s0 := &c18StoFile{path: "s0"}
		g.send("early", gOp{K: "mkdir", P: "sd"})
		g.open("early", s0, "opennew")
		g.send("early", g.write(s0, 0, 100))
		g.close("early", s0)
		g.send("early", gOp{K: "symlink", P: "s0", P2: "lnk"})
	}
	g.noise = &c18StoFile{path: g.name("g")}
	if rng.Intn(2) == 0 { // the file the traffic in between writes to: opened before or after the early files
		g.open("early", g.noise, "opennew")
	}
	for k := 1 + rng.Intn(3); k > 0; k-- {
		g.earlyFile()
	}
	if g.noise.h == "" {
		g.open("early", g.noise, "opennew")
	}
	n := []int{0, 1, 2, 2, 3, 3, 4, 5, 6, 8, 10, 12, 16, 24, 40}[rng.Intn(15)]
	g.traffic(n)
	order := rng.Perm(len(g.early))
	for _, i := range order {
		g.late(g.early[i])
	}
	if rng.Intn(3) == 0 { // once more: more is written behind what is there, more traffic, read back again
		for _, f := range g.early {
			if rng.Intn(2) == 0 {
				continue
			}
			if f.h == "" || !f.canWrite {
				if f.h != "" {
					g.close("early", f)
				}
				g.open("early", f, "openrwc")
			}
			l := g.earlyLen()
			g.send("early", g.write(f, f.size, min(l, 8192)))
		}
		g.traffic(1 + rng.Intn(10))
		for _, i := range rng.Perm(len(g.early)) {
			g.late(g.early[i])
		}
		if g.rng.Intn(2) == 0 {
			g.listing("late")
		}
	}
	g.steps = append(g.steps, c18Step{Do: "end"})
	scn.Steps = g.steps
	return scn
}

func c18StoreJobs(rng *rand.Rand, server string, thorough bool) []c18Stream {
	var out []c18Stream
	n := map[string]int{"mem": 170, "os": 110}[server]
	if thorough {
		n *= 15
	}
	opts := []c02Opt{{}, {WorkDir: true}}
	for k := 0; k < n; k++ {
		scn := c18StoreScn(rng, server, opts[k%2], []uint32{0, 0, 0, 65536}[rng.Intn(4)])
		out = append(out, c18Stream{Fam: "stored-data", Scn: &scn})
	}
	return out
}

// c18StoreHist: what a scenario of the two families explores.
func c18StoreHist(fam string, scn c18Scn) []string {
	var out []string
	bucket := func(n int) string {
		for _, b := range []int{0, 1, 2, 4, 8, 16, 32, 64} {
			if n <= b {
				return fmt.Sprintf("<=%02d", b)
			}
		}
		return ">64"
	}
	bytesBucket := func(n int) string {
		for _, b := range []int{16, 32, 64, 128, 512, 2048, 8192, 32768, 131072, 262144} {
			if n <= b {
				return fmt.Sprintf("<=%06d", b)
			}
		}
		return ">262144"
	}
	switch fam {
	case "frame-limits":
		for _, st := range scn.Steps {
			if st.Do == "probe" && st.Mut != nil && st.Mut.Kind == "fit" {
				what := st.Ops[0].K
				if st.Ops[0].K == "write" {
					what += map[bool]string{true: "-first-chunk-of-empty-file", false: "-into-file"}[st.Ops[0].Off%300000 == 0]
				}
				if scn.ReadOnly {
					what += "-refused(read-only)"
				}
				out = append(out, fmt.Sprintf("frame-length=limit%+07d", st.Mut.N-c18MaxFrame), "frame-of-chosen-length="+scn.Server+"/"+what)
				side := "at-or-below-limit"
				if st.Mut.N > c18MaxFrame {
					side = "above-limit"
				}
				out = append(out, "frame-of-chosen-length="+scn.Server+"/"+side)
			}
		}
	case "stored-data":
		between, piped, early := 0, false, 0
		for _, st := range scn.Steps {
			if st.Do != "send" {
				continue
			}
			switch st.Tag {
			case "between":
				between += len(st.Ops)
				piped = piped || len(st.Ops) > 1
				for _, o := range st.Ops {
					out = append(out, "stored-data/request-in-between="+o.K)
					n := 13 + len(o.P) + len(o.P2) + int(o.Len)*map[bool]int{true: 1, false: 0}[o.K == "write"] + int(o.Pad)
					out = append(out, "stored-data/frame-bytes-in-between"+bytesBucket(n))
				}
			case "early":
				for _, o := range st.Ops {
					if o.K == "write" {
						early++
						out = append(out, "stored-data/early-chunk-bytes"+bytesBucket(int(o.Len)), fmt.Sprintf("stored-data/early-chunk-at-offset-0=%v", o.Off == 0))
					}
				}
			case "late":
				for _, o := range st.Ops {
					if o.K == "read" {
						out = append(out, "stored-data/late-read")
					}
				}
			}
		}
		out = append(out, "stored-data/requests-in-between"+bucket(between), fmt.Sprintf("stored-data/in-between-pipelined=%v", piped), "stored-data/early-chunks"+bucket(early))
	}
	return out
}
