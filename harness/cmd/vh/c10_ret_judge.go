package main

import (
	"bytes"
	"crypto/sha256"
	"errors"
	"fmt"
	"io"
	"strings"

	"github.com/pkg/sftp"

	"verifharness/wire"
)

// c10rOut is a client-visible reply in a vocabulary shared by the raw leg and the Client leg.
type c10rOut struct {
	Kind     string      `json:"kind"`             // handle data names attrs name1 vfs status | problem
	Status   string      `json:"status,omitempty"` // ok eof notexist permission failure status:<n>; in expectations also sets "a|b" and "nonok"
	Msg      string      `json:"msg,omitempty"`
	DataLen  int         `json:"data_len,omitempty"`
	DataHead string      `json:"data_head,omitempty"`
	DataSHA  string      `json:"data_sha,omitempty"`
	Ents     []c10rEnt   `json:"ents,omitempty"`
	Str      string      `json:"str,omitempty"` // hex
	VFS      *[11]uint64 `json:"vfs,omitempty"`
	Problem  string      `json:"problem,omitempty"`
	data     []byte
	handle   string
}

func c10rData(b []byte) c10rOut {
	o := c10rOut{Kind: "data", DataLen: len(b), data: b}
	o.DataHead = fmt.Sprintf("%x", b[:min(len(b), 16)])
	s := sha256.Sum256(b)
	o.DataSHA = fmt.Sprintf("%x", s[:6])
	return o
}

func c10rStatusName(code uint32) string {
	switch code {
	case 0:
		return "ok"
	case 1:
		return "eof"
	case 2:
		return "notexist"
	case 3:
		return "permission"
	case 4:
		return "failure"
	}
	return fmt.Sprintf("status:%d", code)
}

func c10rEntOfSt(name string, a wire.St) c10rEnt {
	e := c10rEnt{Name: lib10Hex(name)}
	if a.Flags&wire.ASize != 0 {
		e.Size = a.Size
	}
	if a.Flags&wire.APerm != 0 {
		e.Mode = a.Perm
	}
	if a.Flags&wire.ATime != 0 {
		e.Mtime = a.Mtime
	}
	if a.Flags&wire.AUIDGID != 0 {
		e.HasID, e.UID, e.GID = true, a.UID, a.GID
	}
	e.Ext = a.Ext
	return e
}

// c10rDecode reads a reply frame strictly: every length word must agree with the bytes that follow.
func c10rDecode(p wire.Pkt, id uint32) c10rOut {
	d := &wire.D{B: p.Body}
	bad := func(f string, a ...any) c10rOut {
		return c10rOut{Kind: "problem", Problem: fmt.Sprintf("reply type %d: ", p.Typ) + fmt.Sprintf(f, a...)}
	}
	if got := d.U32(); d.Err != nil || got != id {
		return bad("request id %d, expected %d", got, id)
	}
	var o c10rOut
	switch p.Typ {
	case wire.Status:
		code := d.U32()
		msg := d.Str()
		d.Str()
		o = c10rOut{Kind: "status", Status: c10rStatusName(code), Msg: msg}
	case wire.Handle:
		o = c10rOut{Kind: "handle", handle: d.Str()}
	case wire.Data:
		l := d.U32()
		if d.Err == nil && uint64(l) != uint64(len(d.B)) {
			return bad("DATA announces %d bytes but %d bytes follow", l, len(d.B))
		}
		o = c10rData(append([]byte(nil), d.B...))
		d.B = nil
	case wire.Name:
		n := d.U32()
		o = c10rOut{Kind: "names"}
		for i := uint32(0); i < n && d.Err == nil; i++ {
			name := d.Str()
			d.Str()
			a := d.St()
			o.Ents = append(o.Ents, c10rEntOfSt(name, a))
		}
	case wire.Attrs:
		a := d.St()
		o = c10rOut{Kind: "attrs", Ents: []c10rEnt{c10rEntOfSt("", a)}}
	case wire.ExtendedReply:
		var v [11]uint64
		for i := range v {
			v[i] = d.U64()
		}
		o = c10rOut{Kind: "vfs", VFS: &v}
	default:
		return bad("unexpected reply type")
	}
	if d.Err != nil {
		return bad("truncated (%v)", d.Err)
	}
	if len(d.B) != 0 {
		return bad("%d trailing bytes", len(d.B))
	}
	return o
}

func c10rEntEq(want, got c10rEnt, withName bool) bool {
	if withName && want.Name != got.Name {
		return false
	}
	if want.Size != got.Size || want.Mode != got.Mode || want.Mtime != got.Mtime {
		return false
	}
	if want.HasID && (!got.HasID || want.UID != got.UID || want.GID != got.GID) {
		return false
	}
	if len(want.Ext) > 0 {
		if len(want.Ext) != len(got.Ext) {
			return false
		}
		for i := range want.Ext {
			if want.Ext[i] != got.Ext[i] {
				return false
			}
		}
	}
	return true
}

func c10rStatusIn(set, got string) bool {
	if set == "nonok" {
		return got != "ok" && got != ""
	}
	for _, s := range strings.Split(set, "|") {
		if s == got {
			return true
		}
	}
	return false
}

func c10rMatch(want, got c10rOut) bool {
	if want.Kind == "name1" && got.Kind == "names" { // on the wire a link / real-path text is a NAME reply with exactly one entry
		return len(got.Ents) == 1 && got.Ents[0].Name == want.Str
	}
	if want.Kind == "status" && (got.Kind == "data" || got.Kind == "names") && got.Status != "" {
		// composite results of Client.ReadAt / Client.ReadDir: nothing delivered, and the condition
		if got.DataLen != 0 || len(got.Ents) != 0 {
			return false
		}
		got.Kind = "status"
	}
	if want.Kind != got.Kind {
		return false
	}
	switch want.Kind {
	case "status":
		if !c10rStatusIn(want.Status, got.Status) {
			return false
		}
		if got.Status == "failure" && want.Msg != "" && !strings.Contains(got.Msg, want.Msg) {
			return false
		}
	case "data":
		return bytes.Equal(want.data, got.data)
	case "names":
		if len(want.Ents) != len(got.Ents) {
			return false
		}
		for i := range want.Ents {
			if !c10rEntEq(want.Ents[i], got.Ents[i], true) {
				return false
			}
		}
	case "attrs":
		return len(got.Ents) == 1 && c10rEntEq(want.Ents[0], got.Ents[0], false)
	case "name1":
		return want.Str == got.Str
	case "vfs":
		return got.VFS != nil && *want.VFS == *got.VFS
	}
	return true
}

func c10rStatusOf(term string) c10rOut {
	err, kind := c10rErr(term)
	o := c10rOut{Kind: "status", Status: kind}
	if c10KindHas(kind, "failure") && err != nil {
		o.Msg = err.Error()
	}
	return o
}

// c10rRule: what the client must see for a handler-object call that returned (n items = payload, term).
// nil error: the items. Bare io.EOF together with items: the items (io.ReaderAt allows n > 0 with io.EOF; the
// end-of-file condition is reported by the next call). End of file without items: EOF. Any other error: that error,
// in kind. For an error that merely WRAPS end-of-file and comes with items, both readings are accepted.
func c10rRule(n int, term string, payload c10rOut) []c10rOut {
	err, _ := c10rErr(term)
	st := c10rStatusOf(term)
	switch {
	case err == nil:
		return []c10rOut{payload}
	case term == "EOF":
		if n > 0 {
			return []c10rOut{payload}
		}
		return []c10rOut{st}
	case errors.Is(err, io.EOF):
		if n > 0 {
			return []c10rOut{payload, st}
		}
		return []c10rOut{st}
	}
	return []c10rOut{st}
}

type c10rSlot struct {
	kind   string // Get Put Open List
	path   string // the cleaned path the handler saw at open
	handle string
	file   *sftp.File
}

type c10rProblem struct {
	Aspect   string `json:"aspect"` // call | reply
	What     string `json:"what"`
	Expected any    `json:"expected,omitempty"`
	Actual   any    `json:"actual,omitempty"`
}

type c10rEnv struct {
	cfg  c10rCfg
	via  string
	base string // cleaned start directory
}

func (e *c10rEnv) clean(p string) string { return sftp.VerifCleanPathWithBase(e.base, p) }

func c10rOpenMethod(pflags uint32, ofw bool) (method, fn string) {
	w := pflags&(wire.FWrite|wire.FAppend|wire.FCreat|wire.FTrunc) != 0
	r := pflags&wire.FRead != 0
	switch {
	case w && r && ofw:
		return "Open", "OpenFile"
	case w:
		return "Put", "Filewrite"
	case r:
		return "Get", "Fileread"
	}
	return "", ""
}

var c10rHandlerFns = map[string]bool{"Fileread": true, "Filewrite": true, "OpenFile": true, "Filecmd": true, "PosixRename": true, "StatVFS": true, "Filelist": true, "Lstat": true, "Readlink": true, "RealPath": true}
var c10rObjectFns = map[string]bool{"ReadAt": true, "WriteAt": true, "ListAt": true}

// c10rJudge compares one step's observations with the property. slot is the state of the step's handle slot
// BEFORE the step (nil: no such open handle).
func c10rJudge(env *c10rEnv, st c10rStep, slot *c10rSlot, calls []c10rCall, got c10rOut, gotN int) (probs []c10rProblem, ambiguous bool) {
	var hc, oc, cc []c10rCall
	for _, c := range calls {
		switch {
		case c10rHandlerFns[c.Fn]:
			hc = append(hc, c)
		case c10rObjectFns[c.Fn]:
			oc = append(oc, c)
		case c.Fn == "Close":
			cc = append(cc, c)
		}
	}
	raw := env.via == "raw"
	callProb := func(f string, a ...any) {
		probs = append(probs, c10rProblem{Aspect: "call", What: fmt.Sprintf(f, a...), Actual: calls})
	}
	// wantH: exactly one handler-interface call fn with the given request picture ("" = don't care)
	wantH := func(fn, method, fp, tg string) bool {
		if len(hc) != 1 || hc[0].Fn != fn {
			callProb("expected exactly one handler call %s (Method %q), saw %d handler calls", fn, method, len(hc))
			return false
		}
		c := hc[0]
		if fn == "Readlink" || fn == "RealPath" {
			if c.Arg != lib10Hex(fp) {
				callProb("%s was given %q, expected %q", fn, lib10UnHex(c.Arg), fp)
				return false
			}
			return true
		}
		if c.Method != method || c.Filepath != lib10Hex(fp) || c.Target != lib10Hex(tg) {
			callProb("%s saw Method=%q Filepath=%q Target=%q, expected Method=%q Filepath=%q Target=%q", fn, c.Method, lib10UnHex(c.Filepath), lib10UnHex(c.Target), method, fp, tg)
			return false
		}
		return true
	}
	noH := func() {
		if len(hc) != 0 {
			callProb("expected no handler call, saw %d", len(hc))
		}
	}
	wantO := func(fn string, n int) bool {
		k := 0
		for _, c := range oc {
			if c.Fn == fn {
				k++
			}
		}
		if len(oc) != k || (raw && k != n) || (!raw && ((n == 0) != (k == 0))) {
			callProb("expected %d call(s) of %s on the handler's object, saw %d (%d object calls in all)", n, fn, k, len(oc))
			return false
		}
		return true
	}
	var alts []c10rOut
	reply := func() {
		for _, a := range alts {
			if c10rMatch(a, got) {
				return
			}
		}
		probs = append(probs, c10rProblem{Aspect: "reply", What: "the client-visible reply is not what the handler returned", Expected: alts, Actual: got})
	}
	status := func(s string) c10rOut { return c10rOut{Kind: "status", Status: s} }
	hterm := st.HRet.Err
	herr, _ := c10rErr(hterm)
	p, p2 := lib10UnHex(st.P), lib10UnHex(st.P2)

	// stat-like replies from a one-slot lister
	statLike := func(payloadOf func(e c10rEnt) c10rOut) {
		if herr != nil {
			wantO("ListAt", 0)
			alts = []c10rOut{c10rStatusOf(hterm)}
			return
		}
		if !wantO("ListAt", 1) {
			return
		}
		c := oc[0]
		cerr, _ := c10rErr(c.Err)
		switch {
		case cerr != nil && !errors.Is(cerr, io.EOF):
			alts = []c10rOut{c10rStatusOf(c.Err)}
		case c.N == 0:
			// no entry and no error other than end-of-file: "no such file", or the end-of-file the lister gave
			alts = []c10rOut{status("notexist|eof")}
		default:
			alts = c10rRule(1, c.Err, payloadOf(c.Ents[0]))
		}
	}
	attrsOf := func(e c10rEnt) c10rOut { return c10rOut{Kind: "attrs", Ents: []c10rEnt{e}} }
	nameOf := func(e c10rEnt) c10rOut { return c10rOut{Kind: "name1", Str: e.Name} }

	switch st.Op {
	case "open":
		m, fn := c10rOpenMethod(st.Pflags, env.cfg.OpenFW)
		if m == "" {
			noH()
			alts = []c10rOut{status("nonok")}
			break
		}
		if wantH(fn, m, env.clean(p), "") {
			if hc[0].Flags != st.Pflags || hc[0].Attrs != st.Attrs {
				callProb("%s saw Flags=%#x Attrs=%s, the client sent pflags=%#x attribute bytes=%s", fn, hc[0].Flags, hc[0].Attrs, st.Pflags, st.Attrs)
			}
		}
		if herr != nil {
			alts = []c10rOut{c10rStatusOf(hterm)}
		} else {
			alts = []c10rOut{{Kind: "handle"}}
		}
	case "opendir":
		wantH("Filelist", "List", env.clean(p), "")
		if herr != nil {
			alts = []c10rOut{c10rStatusOf(hterm)}
		} else {
			alts = []c10rOut{{Kind: "handle"}}
		}
	case "read":
		noH()
		if slot == nil || (slot.kind != "Get" && slot.kind != "Open") {
			wantO("ReadAt", 0)
			alts = []c10rOut{status("nonok")}
			break
		}
		if !wantO("ReadAt", 1) {
			return
		}
		c := oc[0]
		if c.Off != int64(st.Off) || c.Len > int(st.Len) || (st.Len <= 32768 && c.Len != int(st.Len)) {
			callProb("ReadAt was given a %d-byte buffer at offset %d, the client asked for %d bytes at offset %d", c.Len, c.Off, st.Len, st.Off)
		}
		first := c10rRule(c.N, c.Err, c10rData(c.data))
		if raw {
			alts = first
			break
		}
		// Client.ReadAt asks again until its buffer is full or a status arrives; the follow-up calls return (0, io.EOF)
		for _, a := range first {
			if a.Kind == "data" {
				w := c10rData(a.data)
				w.Status = "eof"
				if len(a.data) == int(st.Len) {
					w.Status = "ok"
				}
				alts = append(alts, w)
			} else {
				w := c10rData(nil)
				w.Status, w.Msg = a.Status, a.Msg
				alts = append(alts, w)
			}
		}
		for _, a := range alts {
			if bytes.Equal(a.data, got.data) && c10rStatusIn(a.Status, got.Status) && (got.Status != "failure" || strings.Contains(got.Msg, a.Msg)) {
				return
			}
		}
		probs = append(probs, c10rProblem{Aspect: "reply", What: "Client.ReadAt did not deliver the bytes and the condition the handler returned", Expected: alts, Actual: got})
		return
	case "write":
		noH()
		if slot == nil || (slot.kind != "Put" && slot.kind != "Open") {
			wantO("WriteAt", 0)
			alts = []c10rOut{status("nonok")}
			break
		}
		if !wantO("WriteAt", 1) {
			return
		}
		c := oc[0]
		sent := make([]byte, st.Len)
		c10rPattern(sent, int64(st.Off), st.Salt)
		if c.Off != int64(st.Off) || !bytes.Equal(c.data, sent) {
			callProb("WriteAt was given %d bytes at offset %d that are not the %d bytes at offset %d the client sent", c.Len, c.Off, st.Len, st.Off)
		}
		cerr, _ := c10rErr(c.Err)
		if cerr == nil && c.N < c.Len {
			alts = []c10rOut{status("ok|failure")} // a short count without an error breaks io.WriterAt's contract
		} else {
			alts = []c10rOut{c10rStatusOf(c.Err)}
		}
	case "readdir":
		noH()
		if slot == nil || slot.kind != "List" {
			wantO("ListAt", 0)
			alts = []c10rOut{status("nonok")}
			break
		}
		if !wantO("ListAt", 1) {
			return
		}
		c := oc[0]
		alts = c10rRule(c.N, c.Err, c10rOut{Kind: "names", Ents: c.Ents})
	case "listdir": // Client.ReadDir: OPENDIR, READDIR until a status, CLOSE
		if !wantH("Filelist", "List", env.clean(p), "") {
			return
		}
		if herr != nil {
			alts = []c10rOut{c10rStatusOf(hterm)}
			break
		}
		var ents []c10rEnt
		var fin *c10rOut
		for _, c := range oc {
			a := c10rRule(c.N, c.Err, c10rOut{Kind: "names", Ents: c.Ents})
			if len(a) > 1 {
				return nil, true
			}
			if a[0].Kind == "status" {
				fin = &a[0]
				break
			}
			ents = append(ents, c.Ents...)
		}
		if fin == nil {
			callProb("Client.ReadDir returned although no ListAt call ended the listing")
			return
		}
		w := c10rOut{Kind: "names", Ents: ents, Status: fin.Status, Msg: fin.Msg}
		if w.Status == "eof" {
			w.Status = "ok"
		}
		ok := len(got.Ents) == len(w.Ents) && c10rStatusIn(w.Status, got.Status) && (got.Status != "failure" || strings.Contains(got.Msg, w.Msg))
		for i := 0; ok && i < len(w.Ents); i++ {
			ok = c10rEntEq(w.Ents[i], got.Ents[i], true)
		}
		if !ok {
			probs = append(probs, c10rProblem{Aspect: "reply", What: "Client.ReadDir did not return the entries and the condition the lister returned", Expected: w, Actual: got})
		}
		return
	case "stat":
		if wantH("Filelist", "Stat", env.clean(p), "") {
			statLike(attrsOf)
		}
	case "lstat":
		fn, m := "Filelist", "Stat"
		if env.cfg.Lstat {
			fn, m = "Lstat", "Lstat"
		}
		if wantH(fn, m, env.clean(p), "") {
			statLike(attrsOf)
		}
	case "fstat":
		if slot == nil {
			noH()
			alts = []c10rOut{status("nonok")}
			break
		}
		if wantH("Filelist", "Stat", slot.path, "") {
			statLike(attrsOf)
		}
	case "readlink":
		if env.cfg.Readlink {
			if wantH("Readlink", "", env.clean(p), "") {
				wantO("ListAt", 0)
				if herr != nil {
					alts = []c10rOut{c10rStatusOf(hterm)}
				} else {
					alts = []c10rOut{{Kind: "name1", Str: st.HRet.Str}}
				}
			}
		} else if wantH("Filelist", "Readlink", env.clean(p), "") {
			statLike(nameOf)
		}
	case "realpath":
		switch env.cfg.RealPath {
		case 0:
			noH()
			alts = []c10rOut{{Kind: "name1", Str: lib10Hex(env.clean(p))}}
		case 1:
			if wantH("RealPath", "", p, "") {
				if herr != nil {
					alts = []c10rOut{c10rStatusOf(hterm)}
				} else {
					alts = []c10rOut{{Kind: "name1", Str: st.HRet.Str}}
				}
			}
		case 2:
			if wantH("RealPath", "", p, "") {
				alts = []c10rOut{{Kind: "name1", Str: st.HRet.Str}}
			}
		}
	case "statvfs":
		if !env.cfg.StatVFS {
			noH()
			alts = []c10rOut{status("status:8")}
			break
		}
		if wantH("StatVFS", "StatVFS", env.clean(p), "") {
			if herr != nil {
				alts = []c10rOut{c10rStatusOf(hterm)}
			} else {
				v := c10rVFS(st.HRet.Salt)
				alts = []c10rOut{{Kind: "vfs", VFS: &v}}
			}
		}
	case "posixrename":
		fn, m := "Filecmd", "Rename"
		if env.cfg.PosixRename {
			fn, m = "PosixRename", "PosixRename"
		}
		wantH(fn, m, env.clean(p), env.clean(p2))
		alts = []c10rOut{c10rStatusOf(hterm)}
	case "rename", "link":
		wantH("Filecmd", map[string]string{"rename": "Rename", "link": "Link"}[st.Op], env.clean(p), env.clean(p2))
		alts = []c10rOut{c10rStatusOf(hterm)}
	case "symlink": // Filepath = the target text verbatim, Target = the cleaned link path
		wantH("Filecmd", "Symlink", p, env.clean(p2))
		alts = []c10rOut{c10rStatusOf(hterm)}
	case "mkdir", "rmdir", "remove":
		wantH("Filecmd", map[string]string{"mkdir": "Mkdir", "rmdir": "Rmdir", "remove": "Remove"}[st.Op], env.clean(p), "")
		alts = []c10rOut{c10rStatusOf(hterm)}
	case "setstat":
		if wantH("Filecmd", "Setstat", env.clean(p), "") && (hc[0].Flags != st.AFlags || hc[0].Attrs != st.Attrs) {
			callProb("Filecmd(Setstat) saw Flags=%#x Attrs=%s, the client sent flags=%#x attribute bytes=%s", hc[0].Flags, hc[0].Attrs, st.AFlags, st.Attrs)
		}
		alts = []c10rOut{c10rStatusOf(hterm)}
	case "fsetstat":
		if slot == nil {
			noH()
			alts = []c10rOut{status("nonok")}
			break
		}
		if wantH("Filecmd", "Setstat", slot.path, "") && (hc[0].Flags != st.AFlags || hc[0].Attrs != st.Attrs) {
			callProb("Filecmd(Setstat) for FSETSTAT saw Flags=%#x Attrs=%s, the client sent flags=%#x attribute bytes=%s", hc[0].Flags, hc[0].Attrs, st.AFlags, st.Attrs)
		}
		alts = []c10rOut{c10rStatusOf(hterm)}
	case "close":
		noH()
		if slot == nil {
			alts = []c10rOut{status("nonok")}
			break
		}
		if env.cfg.Obj&1 != 0 {
			if len(cc) != 1 {
				callProb("expected exactly one Close() of the handler's object, saw %d", len(cc))
			}
			alts = []c10rOut{c10rStatusOf(st.CRet.Err)}
		} else {
			alts = []c10rOut{status("ok")}
		}
	default:
		probs = append(probs, c10rProblem{Aspect: "call", What: "harness: unknown op " + st.Op})
		return
	}
	if alts != nil {
		reply()
	}
	return
}
