package main

// Generator, twin-tree builder and tree-shape classifier for the C05 differential (see c05.go).

import (
	"errors"
	"io"
	"math/rand"
	"os"
	"path"
	"path/filepath"
	"sort"
	"strconv"
	"strings"
	"syscall"
	"time"
	"verifharness/lib"
)

var c05Names = []string{"a", "b", "c", "d"}

// c05Ent is one entry of a seed tree description (applied in order to both trees).
type c05Ent struct {
	P    string `json:"p"`              // path relative to the tree root
	K    string `json:"k"`              // dir | file | sym | hard | fill | sock | fifo | chr | blk (special files: mknod, device number 0:0)
	Data string `json:"data,omitempty"` // file content
	Mode uint32 `json:"mode,omitempty"` // os.FileMode bits (perm + setuid/setgid/sticky): dir, file and special files
	T    string `json:"t,omitempty"`    // sym: link text (relative to the root when TAbs); hard: source path
	TAbs bool   `json:"tabs,omitempty"` // sym: the link text is <root>/<T>
	// attributes the entry ALREADY has on disk before the first operation (applied with package os to both trees
	// after everything was created and aged); nil = what c05Age gives
	MT   *int64 `json:"mt,omitempty"`   // modification time, unix seconds
	AT   *int64 `json:"at,omitempty"`   // access time, unix seconds (mt when only mt is given)
	Size int64  `json:"size,omitempty"` // file: extended to this size as a sparse file (after Data was written)
	UID  *int64 `json:"uid,omitempty"`  // owner (Lchown); nil = unchanged
	GID  *int64 `json:"gid,omitempty"`
	// fill: P is a directory that is created and filled with N entries whose names are L bytes long (see c05FillName)
	N int `json:"n,omitempty"`
	L int `json:"l,omitempty"`
}

// c05Op is one generated operation. Paths are relative to the tree root; the path mode decides
// whether the client sees them as "<rootA>/<p>" (abs), verbatim (rel, server working directory) or as a path
// relative to the directory the PROCESS is in (cwd, server without a working directory; see c05_cwd.go).
// K "chdir" (path mode cwd only) is not a client operation: the process directory used for the following
// operations becomes the directory P names, in either tree.
type c05Op struct {
	K    string `json:"k"`
	P    string `json:"p,omitempty"`    // path (symlink: link TEXT; link/rename: old name; glob: pattern)
	Q    string `json:"q,omitempty"`    // second path (symlink: link location; link/rename: new name)
	TAbs bool   `json:"tabs,omitempty"` // symlink: link text is <root>/<P>; text "/…" is used verbatim
	Flag int    `json:"flag,omitempty"` // openfile flags
	Mode uint32 `json:"mode,omitempty"` // chmod: os.FileMode bits
	N    int64  `json:"n,omitempty"`    // truncate: size; chtimes: mtime seconds
	NS   int64  `json:"ns,omitempty"`   // chtimes: nanoseconds handed to the client (dropped by the protocol)
	A    *int64 `json:"a,omitempty"`    // chtimes: atime seconds when it differs from the mtime (nil: the same as N)
	UID  *int64 `json:"uid,omitempty"`  // chown: owner (nil: the uid of this process; -1: leave unchanged)
	GID  *int64 `json:"gid,omitempty"`  // chown: group
	Ctx  string `json:"ctx,omitempty"`  // readdirctx: live | cancelled | cancel-soon
	Data string `json:"data,omitempty"` // create/openfile: bytes written after a successful open for writing
}

type c05Input struct {
	Mode string   `json:"mode"`           // abs | rel | cwd
	Cons string   `json:"cons,omitempty"` // cwd: where the process was when the server was constructed: root (of tree A) | elsewhere (a third copy of the tree)
	Tree []c05Ent `json:"tree"`
	Ops  []c05Op  `json:"ops"`
}

var c05Old = time.Unix(1_000_000_000, 0)

// c05Join is plain concatenation: the kernel (not path.Clean) interprets the result, exactly as it
// would interpret rel with the process sitting in root.
func c05Join(root, rel string) string { return root + "/" + rel }

// c05LinkText is the text of a symbolic link whose description is t: relative texts as they are; an absolute text
// ("/nonexistent-vh-c05/x": a link that leads nowhere) is placed INSIDE the scratch directory root lies in — the
// same text for both twin trees, which share that directory — so that no link of a tree points outside the
// scratch area, whatever a server under test makes of it.
func c05LinkText(root, t string) string {
	if !strings.HasPrefix(t, "/") {
		return t
	}
	if sr := lib.ScratchRootOf(filepath.Clean(root)); sr != "" {
		return sr + t
	}
	return filepath.Dir(root) + t
}

// c05SpecialKinds are the entry kinds that are neither directories, regular files nor links: unix sockets, fifos,
// character and block devices.  They are created with mknod(2) — a socket node made so is the same kind of inode a
// bind(2) leaves behind — and the device nodes carry the device number 0:0, which no driver answers to: opening one
// fails (ENXIO, or EACCES on a nodev mount) and reaches nothing outside the scratch file system.
var c05SpecialKinds = map[string]uint32{"sock": syscall.S_IFSOCK, "fifo": syscall.S_IFIFO, "chr": syscall.S_IFCHR, "blk": syscall.S_IFBLK}

var c05SpecialOrder = []string{"sock", "fifo", "chr", "blk"}

const c05SpecialMask = os.ModeSocket | os.ModeNamedPipe | os.ModeDevice | os.ModeCharDevice

func c05IsSpecial(e c05Ent) bool { _, ok := c05SpecialKinds[e.K]; return ok }

// c05Build applies a seed tree description under root (which must exist and be empty) and ages
// every non-symlink entry, so that "recent" modification times are those the operations produce.
// Attributes an entry is to have ALREADY (owner, times) are applied last, with package os, to whatever exists.
func c05Build(root string, tree []c05Ent) {
	for _, e := range tree {
		p := c05Join(root, e.P)
		switch e.K {
		case "dir":
			if os.Mkdir(p, 0o755) == nil {
				os.Chmod(p, os.FileMode(e.Mode))
			}
		case "file":
			if f, err := os.OpenFile(p, os.O_WRONLY|os.O_CREATE|os.O_EXCL, 0o644); err == nil {
				f.WriteString(e.Data)
				if e.Size > int64(len(e.Data)) {
					f.Truncate(e.Size) // sparse
				}
				f.Close()
				os.Chmod(p, os.FileMode(e.Mode))
			}
		case "sym":
			t := c05LinkText(root, e.T)
			if e.TAbs {
				t = c05Join(root, e.T)
			}
			os.Symlink(t, p)
		case "hard":
			os.Link(c05Join(root, e.T), p)
		case "sock", "fifo", "chr", "blk":
			if syscall.Mknod(p, c05SpecialKinds[e.K]|0o600, 0) == nil {
				os.Chmod(p, os.FileMode(e.Mode))
			}
		case "fill":
			c05Fill(p, e.N, e.L)
		}
	}
	c05Age(root)
	for _, e := range tree {
		p := c05Join(root, e.P)
		if e.UID != nil || e.GID != nil {
			u, g := int64(-1), int64(-1)
			if e.UID != nil {
				u = *e.UID
			}
			if e.GID != nil {
				g = *e.GID
			}
			if os.Lchown(p, int(u), int(g)) == nil && (e.K == "dir" || e.K == "file" || c05IsSpecial(e)) {
				os.Chmod(p, os.FileMode(e.Mode)) // the kernel drops setuid/setgid on a change of owner
			}
		}
	}
	for _, e := range tree {
		if (e.MT != nil || e.AT != nil) && e.K != "sym" {
			m, a := c05Old, c05Old
			if e.MT != nil {
				m, a = time.Unix(*e.MT, 0), time.Unix(*e.MT, 0)
			}
			if e.AT != nil {
				a = time.Unix(*e.AT, 0)
			}
			os.Chtimes(c05Join(root, e.P), a, m)
		}
	}
}

// c05FillName is the name of entry i of a filled directory: the number in base 36, padded with 'n' to l bytes
// (at most 255). With l = 1 the first 36 names are one byte long, the others as short as the number allows.
func c05FillName(i, l int) string {
	s := strconv.FormatInt(int64(i), 36)
	if l > 255 {
		l = 255
	}
	if len(s) < l {
		s += "_" + strings.Repeat("n", l-len(s)-1)
	}
	return s
}

// c05Fill creates dir and n entries in it: empty files mostly; entry i is an empty directory when i%16 == 3, a
// directory holding one file when i%16 == 11, a symbolic link to entry 0 (relative text) when i%16 == 7, a file
// with a few bytes when i%16 == 5.
func c05Fill(dir string, n, l int) {
	if n > 20000 {
		n = 20000
	}
	if os.Mkdir(dir, 0o755) != nil {
		return
	}
	for i := 0; i < n; i++ {
		p := dir + "/" + c05FillName(i, l)
		switch i % 16 {
		case 3:
			os.Mkdir(p, 0o755)
		case 11:
			if os.Mkdir(p, 0o755) == nil {
				os.WriteFile(p+"/f", []byte("x"), 0o644)
			}
		case 7:
			os.Symlink(c05FillName(0, l), p)
		case 5:
			os.WriteFile(p, []byte("data"), 0o644)
		default:
			if f, err := os.OpenFile(p, os.O_WRONLY|os.O_CREATE|os.O_EXCL, 0o644); err == nil {
				f.Close()
			}
		}
	}
}

func c05Age(root string) {
	filepath.Walk(root, func(p string, fi os.FileInfo, err error) error {
		if err == nil && fi.Mode()&os.ModeSymlink == 0 {
			os.Chtimes(p, c05Old, c05Old)
		}
		return nil
	})
}

const c05BigFile = 1 << 20 // files larger than this are read (hashed, copied) as sparse files

// c05SparseBlocks calls fn for every 4 KiB block of f that is not all zeros, looking only at the regions the file
// system reports as data (SEEK_DATA / SEEK_HOLE); the result does not depend on how the file system laid the file out.
func c05SparseBlocks(f *os.File, size int64, fn func(off int64, blk []byte)) error {
	const seekData, seekHole = 3, 4
	fd := int(f.Fd())
	buf := make([]byte, 64<<10)
	for off := int64(0); off < size; {
		d, err := syscall.Seek(fd, off, seekData)
		if err != nil {
			if errors.Is(err, syscall.ENXIO) {
				return nil // nothing but a hole up to the end
			}
			return err
		}
		e, err := syscall.Seek(fd, d, seekHole)
		if err != nil {
			return err
		}
		d &^= 4095
		for pos := d; pos < e; {
			n, err := f.ReadAt(buf[:min(int64(len(buf)), e-pos)], pos)
			for b := 0; b < n; b += 4096 {
				blk := buf[b:min(b+4096, n)]
				zero := true
				for _, x := range blk {
					if x != 0 {
						zero = false
						break
					}
				}
				if !zero {
					fn(pos+int64(b), blk)
				}
			}
			pos += int64(n)
			if err != nil {
				if err == io.EOF {
					break
				}
				return err
			}
			if n == 0 {
				break
			}
		}
		off = e
	}
	return nil
}

func c05CopyFile(src, dst string, size int64) error {
	if size <= c05BigFile {
		b, err := os.ReadFile(src)
		if err != nil {
			return err
		}
		return os.WriteFile(dst, b, 0o600)
	}
	in, err := os.Open(src)
	if err != nil {
		return err
	}
	defer in.Close()
	out, err := os.OpenFile(dst, os.O_WRONLY|os.O_CREATE|os.O_TRUNC, 0o600)
	if err != nil {
		return err
	}
	defer out.Close()
	if err := out.Truncate(size); err != nil {
		return err
	}
	var werr error
	err = c05SparseBlocks(in, size, func(off int64, blk []byte) {
		if _, e := out.WriteAt(blk, off); e != nil && werr == nil {
			werr = e
		}
	})
	if err == nil {
		err = werr
	}
	return err
}

func c05Atime(fi os.FileInfo) time.Time {
	if st, ok := fi.Sys().(*syscall.Stat_t); ok {
		return time.Unix(st.Atim.Sec, st.Atim.Nsec)
	}
	return fi.ModTime()
}

// c05Clone makes dst (a directory that is emptied first) an exact copy of src: kinds, modes, owners, contents (large
// files as sparse files), link texts (absolute texts under src are re-based), hard-link groups, special files (kind and
// device number), access and modification times.
func c05Clone(src, dst string) error {
	ents, _ := os.ReadDir(dst)
	for _, e := range ents {
		if err := os.RemoveAll(filepath.Join(dst, e.Name())); err != nil {
			return err
		}
	}
	type dirFix struct {
		p  string
		fi os.FileInfo
	}
	var dirs []dirFix
	inodes := map[uint64]string{}
	var firstErr error
	note := func(err error) {
		if err != nil && firstErr == nil {
			firstErr = err
		}
	}
	own := func(q string, fi os.FileInfo) {
		if st, ok := fi.Sys().(*syscall.Stat_t); ok && (st.Uid != uint32(os.Getuid()) || st.Gid != uint32(os.Getgid())) {
			note(os.Lchown(q, int(st.Uid), int(st.Gid)))
		}
	}
	filepath.Walk(src, func(p string, fi os.FileInfo, err error) error {
		if err != nil {
			note(err)
			return nil
		}
		rel, _ := filepath.Rel(src, p)
		q := filepath.Join(dst, rel)
		switch {
		case fi.IsDir():
			if rel != "." {
				note(os.Mkdir(q, 0o755))
			}
			dirs = append(dirs, dirFix{q, fi})
		case fi.Mode()&os.ModeSymlink != 0:
			st := fi.Sys().(*syscall.Stat_t)
			if first, ok := inodes[st.Ino]; ok { // a hard link to a symbolic link
				note(os.Link(first, q))
				return nil
			}
			inodes[st.Ino] = q
			t, err := os.Readlink(p)
			note(err)
			if t == src || strings.HasPrefix(t, src+"/") {
				t = dst + t[len(src):]
			}
			note(os.Symlink(t, q))
			own(q, fi)
		case fi.Mode().IsRegular():
			st := fi.Sys().(*syscall.Stat_t)
			if first, ok := inodes[st.Ino]; ok {
				note(os.Link(first, q))
				return nil
			}
			inodes[st.Ino] = q
			note(c05CopyFile(p, q, fi.Size()))
			own(q, fi)
			note(os.Chmod(q, fi.Mode()))
			note(os.Chtimes(q, c05Atime(fi), fi.ModTime()))
		default: // socket, fifo, device node
			st := fi.Sys().(*syscall.Stat_t)
			if first, ok := inodes[st.Ino]; ok {
				note(os.Link(first, q))
				return nil
			}
			inodes[st.Ino] = q
			note(syscall.Mknod(q, st.Mode&syscall.S_IFMT|0o600, int(st.Rdev)))
			own(q, fi)
			note(os.Chmod(q, fi.Mode()))
			note(os.Chtimes(q, c05Atime(fi), fi.ModTime()))
		}
		return nil
	})
	for i := len(dirs) - 1; i >= 0; i-- {
		own(dirs[i].p, dirs[i].fi)
		note(os.Chmod(dirs[i].p, dirs[i].fi.Mode()))
		note(os.Chtimes(dirs[i].p, c05Atime(dirs[i].fi), dirs[i].fi.ModTime()))
	}
	return firstErr
}

// ---------------------------------------------------------------------------------------------
// shapes: what the path of an operation meets in the tree (classified on tree B before the step)

// c05Shape walks rel component by component with Lstat. It returns the shape name and whether a
// symbolic link is met anywhere on the way (including the last component).
func c05Shape(root, rel string) (shape string, viaLink bool) {
	comps := strings.Split(path.Clean(rel), "/")
	cur := root
	for i, comp := range comps {
		if comp == "." || comp == ".." {
			cur = cur + "/" + comp
			continue
		}
		next := cur + "/" + comp
		fi, err := os.Lstat(next)
		last := i == len(comps)-1
		if err != nil {
			if errors.Is(err, syscall.ENOTDIR) {
				return "file-where-dir-expected", viaLink
			}
			if errors.Is(err, syscall.ELOOP) {
				return "symlink-loop-on-the-way", true
			}
			if last {
				return "missing-leaf", viaLink
			}
			return "missing-parent", viaLink
		}
		isLink := fi.Mode()&os.ModeSymlink != 0
		if isLink {
			viaLink = true
		}
		if !last {
			switch {
			case isLink:
				st, err := os.Stat(next)
				switch {
				case errors.Is(err, syscall.ELOOP):
					return "through-symlink-loop", true
				case err != nil:
					return "through-dangling-symlink", true
				case !st.IsDir():
					return "file-where-dir-expected-via-symlink", true
				}
			case fi.Mode()&c05SpecialMask != 0:
				return "special-file-where-dir-expected", viaLink
			case !fi.IsDir():
				return "file-where-dir-expected", viaLink
			}
			cur = next
			continue
		}
		switch {
		case isLink:
			st, err := os.Stat(next)
			switch {
			case errors.Is(err, syscall.ELOOP):
				return "symlink-loop", true
			case err != nil:
				return "dangling-symlink", true
			case st.IsDir():
				return "dir-symlink", true
			case st.Mode()&c05SpecialMask != 0:
				return "special-file-symlink", true
			default:
				return "file-symlink", true
			}
		case fi.IsDir():
			l, _ := os.ReadDir(next)
			if len(l) == 0 {
				shape = "empty-dir"
			} else {
				shape = "non-empty-dir"
			}
		case fi.Mode()&os.ModeSocket != 0:
			shape = "socket"
		case fi.Mode()&os.ModeNamedPipe != 0:
			shape = "fifo"
		case fi.Mode()&os.ModeCharDevice != 0:
			shape = "char-device"
		case fi.Mode()&os.ModeDevice != 0:
			shape = "block-device"
		default:
			if st, ok := fi.Sys().(*syscall.Stat_t); ok && st.Nlink > 1 {
				shape = "hardlinked-file"
			} else {
				shape = "file"
			}
		}
		return shape, viaLink
	}
	return "root", viaLink
}

// ---------------------------------------------------------------------------------------------
// generator

type c05Gen struct {
	rng   *rand.Rand
	rootB string
	pmode string // abs | rel | cwd: the path mode of the sequence (decides which spellings of a path are generated)
	plain bool   // the operation being generated gets canonical spellings only (see spell)
}

type c05Entry struct {
	rel  string
	mode os.FileMode
}

func (g *c05Gen) entries() []c05Entry {
	var out []c05Entry
	filepath.Walk(g.rootB, func(p string, fi os.FileInfo, err error) error {
		if err != nil || p == g.rootB {
			return nil
		}
		rel, _ := filepath.Rel(g.rootB, p)
		out = append(out, c05Entry{rel, fi.Mode()})
		return nil
	})
	sort.Slice(out, func(i, j int) bool { return out[i].rel < out[j].rel })
	return out
}

func (g *c05Gen) name() string { return c05Names[g.rng.Intn(len(c05Names))] }

// plainPath returns a path of one to three names, biased towards what exists in tree B now:
// an entry itself, a (possibly missing) child of an entry of any kind, a grandchild (missing parent),
// or a fresh random path.
func (g *c05Gen) plainPath(ents []c05Entry) string {
	var p string
	x := g.rng.Intn(100)
	switch {
	case x < 30 && len(ents) > 0:
		p = ents[g.rng.Intn(len(ents))].rel
	case x < 55 && len(ents) > 0:
		p = ents[g.rng.Intn(len(ents))].rel + "/" + g.name()
	case x < 63 && len(ents) > 0:
		p = ents[g.rng.Intn(len(ents))].rel + "/" + g.name() + "/" + g.name()
	case x < 78:
		p = g.name()
	default:
		n := 1 + g.rng.Intn(3)
		parts := make([]string, n)
		for i := range parts {
			parts[i] = g.name()
		}
		p = strings.Join(parts, "/")
	}
	comps := strings.Split(p, "/")
	if len(comps) > 3 {
		comps = comps[:3]
	}
	return strings.Join(comps, "/")
}

// pick returns an entry of the wanted kind when there is one (kind: "dir", "file", "sym", "dirsym", "dangling",
// "nonempty", "special" = socket / fifo / device node).
func (g *c05Gen) pick(ents []c05Entry, kind string) (string, bool) {
	var c []string
	for _, e := range ents {
		ok := false
		switch kind {
		case "dir":
			ok = e.mode.IsDir()
		case "file":
			ok = e.mode.IsRegular()
		case "sym":
			ok = e.mode&os.ModeSymlink != 0
		case "dirsym", "dangling":
			if e.mode&os.ModeSymlink != 0 {
				st, err := os.Stat(c05Join(g.rootB, e.rel))
				if kind == "dirsym" {
					ok = err == nil && st.IsDir()
				} else {
					ok = err != nil
				}
			}
		case "special":
			ok = e.mode&c05SpecialMask != 0
		case "nonempty":
			if e.mode.IsDir() {
				l, _ := os.ReadDir(c05Join(g.rootB, e.rel))
				ok = len(l) > 0
			}
		}
		if ok {
			c = append(c, e.rel)
		}
	}
	if len(c) == 0 {
		return "", false
	}
	return c[g.rng.Intn(len(c))], true
}

// path returns an operation path (see spell for the spellings).
func (g *c05Gen) path(ents []c05Entry) string {
	p := g.plainPath(ents)
	// bias towards the interesting kinds
	switch x := g.rng.Intn(100); {
	case x < 6:
		if q, ok := g.pick(ents, "dirsym"); ok {
			p = q
			if g.rng.Intn(2) == 0 {
				p += "/" + g.name()
			}
		}
	case x < 11:
		if q, ok := g.pick(ents, "dangling"); ok {
			p = q
			if g.rng.Intn(4) == 0 {
				p += "/" + g.name()
			}
		}
	case x < 15:
		if q, ok := g.pick(ents, "nonempty"); ok {
			p = q
		}
	case x < 19:
		if q, ok := g.pick(ents, "file"); ok {
			p = q + "/" + g.name()
		}
	case x < 27: // a socket, fifo or device node itself, or (one time in four) used as a directory
		if q, ok := g.pick(ents, "special"); ok {
			p = q
			if g.rng.Intn(4) == 0 {
				p += "/" + g.name()
			}
		}
	}
	return g.spell(p, ents)
}

// c05NonCanonAll: VERIF_C05_NONCANON=1 generates non-canonical spellings everywhere (see spell).
func c05NonCanonAll() bool { return os.Getenv("VERIF_C05_NONCANON") == "1" }

// spell returns p as it is or, some of the time, in a NON-CANONICAL spelling: trailing slash, "." and ".."
// segments (".." also after a symbolic link to a directory, where lexical cleaning and the kernel disagree),
// doubled slashes.
//
//   - ABSOLUTE paths without a server working directory (path mode abs): generated by default, one path in eight.
//     The server hands such a path to the kernel as written, so every operation must behave like package os on
//     the same spelling.
//   - paths relative to the PROCESS directory, server without a working directory (path mode cwd): the same — the
//     kernel gets the relative path as the client wrote it, exactly as it gets it from package os in that directory.
//   - working-directory-relative paths (path mode rel): only with VERIF_C05_NONCANON=1.  The unchanged server
//     path.Join's them onto the working directory, which cleans them lexically — a difference the package's own
//     tests pin down (TestServer_toLocalPath) and DESIGN.md lists; see classify, key workdir/path-cleaned-lexically.
//   - RemoveAll and Walk (g.plain): only with VERIF_C05_NONCANON=1 in either mode.  os.RemoveAll normalises its
//     argument itself (strips trailing slashes, refuses a final "."), Client.RemoveAll does not: listed in DESIGN.md
//     as an observation outside the property's quantifier (keys removeall/non-canonical-path, …/trailing-slash).
//     Client.Walk and filepath.Walk both Join the root with the names they list — lexically, so below "link/.." both
//     walk the wrong directory — and differ only in where the FileInfo of a step comes from (listing / lstat).
//
// Operations whose spelled path leaves the twin tree are not run (c05Run.escapes).
func (g *c05Gen) spell(p string, ents []c05Entry) string {
	all := c05NonCanonAll()
	prob := 0
	switch {
	case g.plain && !all:
	case g.pmode == "abs" || g.pmode == "cwd":
		prob = 12
	case all:
		prob = 5
	}
	if prob == 0 || g.rng.Intn(100) >= prob {
		return p
	}
	slashAt := func(with string) string { // replaces one "/" of p by with
		var at []int
		for i := 1; i < len(p); i++ {
			if p[i] == '/' {
				at = append(at, i)
			}
		}
		if len(at) == 0 {
			return p + with
		}
		i := at[g.rng.Intn(len(at))]
		return p[:i] + with + p[i+1:]
	}
	switch g.rng.Intn(11) {
	case 0:
		return p + "/"
	case 1:
		return "./" + p
	case 2: // "x/../p": x anything — a directory, a file, a missing name, a symbolic link
		return g.name() + "/../" + p
	case 3:
		return slashAt("//")
	case 4:
		return p + "/."
	case 5: // ".." after a symbolic link to a directory: the parent of the link's TARGET
		if q, ok := g.pick(ents, "dirsym"); ok {
			return q + "/../" + g.name()
		}
		return g.name() + "/../" + p
	case 6:
		if q, ok := g.pick(ents, "dirsym"); ok {
			return q + "/.."
		}
		return p + "/."
	case 7:
		return slashAt("/./")
	case 8: // "e/../base(e)" over an existing entry of any kind
		if len(ents) > 0 {
			e := ents[g.rng.Intn(len(ents))].rel
			return e + "/../" + path.Base(e)
		}
		return p + "/"
	case 9: // trailing slash on a symbolic link (to a directory, to a file, dangling, looping)
		if q, ok := g.pick(ents, "sym"); ok {
			return q + "/"
		}
		return p + "/"
	default: // trailing slash on something that is not a directory
		if q, ok := g.pick(ents, []string{"file", "special"}[g.rng.Intn(2)]); ok {
			return q + "/"
		}
		return p + "/"
	}
}

// fresh returns a path that most probably does not exist but whose parent does: a directory (or the root,
// or a symbolic link to a directory) plus a name. Creating operations use it so that they succeed often enough.
func (g *c05Gen) fresh(ents []c05Entry) string {
	var parents []string
	for _, e := range ents {
		if strings.Count(e.rel, "/") >= 2 {
			continue
		}
		if st, err := os.Stat(c05Join(g.rootB, e.rel)); err == nil && st.IsDir() {
			parents = append(parents, e.rel)
		}
	}
	if len(parents) == 0 || g.rng.Intn(3) == 0 {
		return g.name()
	}
	return parents[g.rng.Intn(len(parents))] + "/" + g.name()
}

// existing returns an entry of the given kind, or any path when there is none.
func (g *c05Gen) existing(ents []c05Entry, kind string) string {
	if q, ok := g.pick(ents, kind); ok {
		return q
	}
	return g.path(ents)
}

// target returns a symbolic-link text.
func (g *c05Gen) target(ents []c05Entry) (text string, abs bool) {
	x := g.rng.Intn(100)
	switch {
	case x < 22:
		if q, ok := g.pick(ents, "dir"); ok {
			return q, g.rng.Intn(2) == 0
		}
		return g.name(), false
	case x < 50:
		return g.plainPath(ents), false
	case x < 60:
		return "../" + g.name(), false
	case x < 85:
		return g.plainPath(ents), true
	case x < 90:
		return "/nonexistent-vh-c05/" + g.name(), false
	default:
		return g.name(), false // often the link's own name: a loop
	}
}

var c05GlobPatterns = []string{"*", "a*", "*/*", "[ab]", "?", "a/*", "*/a", "b/*/*", "[a-c]/?", "a", "a/b", "*/*/*"}

var c05OpWeights = []struct {
	k string
	w int
}{
	{"mkdir", 8}, {"mkdirall", 5}, {"create", 6}, {"openfile", 8}, {"remove", 5}, {"rmdir", 4}, {"removeall", 4},
	{"rename", 6}, {"posixrename", 4}, {"link", 5}, {"symlink", 10}, {"readlink", 4}, {"stat", 6}, {"lstat", 5},
	{"chmod", 5}, {"chtimes", 4}, {"truncate", 4}, {"readdir", 5}, {"glob", 4}, {"walk", 3}, {"realpath", 3},
	{"statvfs", 2}, {"chown", 3}, {"readdirctx", 3}, {"getwd", 1},
}

func (g *c05Gen) data() string {
	n := g.rng.Intn(13)
	b := make([]byte, n)
	for i := range b {
		b[i] = byte('a' + g.rng.Intn(26))
	}
	return string(b)
}

func (g *c05Gen) mode() uint32 {
	perms := []os.FileMode{0, 0o400, 0o600, 0o644, 0o755, 0o777, 0o111, 0o700, 0o070, 0o007, 0o444, 0o666}
	m := perms[g.rng.Intn(len(perms))]
	if g.rng.Intn(3) == 0 {
		m = os.FileMode(g.rng.Intn(0o1000))
	}
	if g.rng.Intn(4) == 0 {
		m |= os.ModeSetuid
	}
	if g.rng.Intn(4) == 0 {
		m |= os.ModeSetgid
	}
	if g.rng.Intn(4) == 0 {
		m |= os.ModeSticky
	}
	return uint32(m)
}

// next generates one operation from the current state of tree B.
func (g *c05Gen) next() c05Op {
	ents := g.entries()
	if g.pmode == "cwd" && g.rng.Intn(100) < 7 { // the process moves: into a directory, through a link to one, back to the root
		op := c05Op{K: "chdir", P: "."}
		switch x := g.rng.Intn(10); {
		case x < 2:
		case x < 6:
			op.P = g.existing(ents, "dir")
		case x < 8:
			op.P = g.existing(ents, "dirsym")
		default:
			op.P = g.plainPath(ents)
		}
		return op
	}
	total := 0
	for _, w := range c05OpWeights {
		total += w.w
	}
	x := g.rng.Intn(total)
	k := ""
	for _, w := range c05OpWeights {
		if x < w.w {
			k = w.k
			break
		}
		x -= w.w
	}
	op := c05Op{K: k}
	readRoot := func() string { // reading operations sometimes name the root itself
		if g.rng.Intn(8) == 0 {
			return "."
		}
		return g.path(ents)
	}
	switch k {
	case "mkdir", "mkdirall", "remove", "rmdir", "removeall":
		g.plain = k == "removeall"
		op.P = g.path(ents)
		g.plain = false
		if k == "mkdir" && g.rng.Intn(100) < 45 {
			op.P = g.fresh(ents)
		}
		if k == "removeall" && g.rng.Intn(3) == 0 {
			if q, ok := g.pick(ents, "sym"); ok {
				op.P = q
			}
		}
	case "create":
		op.P = g.path(ents)
		op.Data = g.data()
	case "openfile":
		op.P = g.path(ents)
		op.Flag = []int{os.O_RDONLY, os.O_WRONLY, os.O_RDWR}[g.rng.Intn(3)]
		if g.rng.Intn(100) < 60 {
			op.Flag |= os.O_CREATE
		}
		if g.rng.Intn(100) < 35 {
			op.Flag |= os.O_TRUNC
		}
		if g.rng.Intn(100) < 25 {
			op.Flag |= os.O_EXCL
		}
		if g.rng.Intn(100) < 15 {
			op.Flag |= os.O_APPEND
		}
		op.Data = g.data()
	case "rename", "posixrename", "link":
		op.P = g.path(ents)
		op.Q = g.path(ents)
		if k == "link" && g.rng.Intn(100) < 55 {
			op.P = g.existing(ents, []string{"file", "file", "sym"}[g.rng.Intn(3)])
		}
		if k != "link" && g.rng.Intn(100) < 45 && len(ents) > 0 {
			op.P = ents[g.rng.Intn(len(ents))].rel
		}
		if g.rng.Intn(100) < 45 {
			op.Q = g.fresh(ents)
		}
	case "symlink":
		op.P, op.TAbs = g.target(ents)
		op.Q = g.path(ents)
		if g.rng.Intn(100) < 55 {
			op.Q = g.fresh(ents)
		}
	case "readlink":
		op.P = g.path(ents)
		if g.rng.Intn(2) == 0 {
			if q, ok := g.pick(ents, "sym"); ok {
				op.P = q
			}
		}
	case "getwd":
	case "stat", "lstat", "readdir", "readdirctx", "walk", "realpath", "statvfs":
		g.plain = k == "walk"
		op.P = readRoot()
		g.plain = false
		if k == "walk" && g.rng.Intn(3) == 0 {
			op.P = "."
		}
		if k == "readdirctx" {
			op.Ctx = []string{"live", "live", "cancelled", "cancel-soon"}[g.rng.Intn(4)]
			if g.rng.Intn(2) == 0 {
				op.P = g.existing(ents, "dir")
			}
		}
	case "chmod":
		op.P = g.path(ents)
		op.Mode = g.mode()
	case "chtimes":
		op.P = g.path(ents)
		if g.rng.Intn(100) < 50 && len(ents) > 0 {
			op.P = ents[g.rng.Intn(len(ents))].rel
		}
		op.N = c05GenTime(g.rng)
		if g.rng.Intn(2) == 0 {
			op.NS = g.rng.Int63n(1_000_000_000)
		}
		if g.rng.Intn(2) == 0 { // atime != mtime
			a := c05GenTime(g.rng)
			op.A = &a
		}
	case "truncate":
		op.P = g.path(ents)
		if g.rng.Intn(100) < 40 {
			op.P = g.existing(ents, "file")
		}
		op.N = g.rng.Int63n(21)
		if g.rng.Intn(100) < 15 {
			op.N = c05BoundSizes[g.rng.Intn(len(c05BoundSizes))]
		}
	case "glob":
		op.P = c05GlobPatterns[g.rng.Intn(len(c05GlobPatterns))]
		if g.rng.Intn(4) != 0 { // pattern syntax as a dimension of its own: c05_globpat.go
			op.P = c05GenGlobPattern(g.rng, ents, g.pmode != "rel")
		}
	case "chown":
		op.P = g.path(ents)
		if g.rng.Intn(100) < 50 && len(ents) > 0 {
			op.P = ents[g.rng.Intn(len(ents))].rel
		}
		if g.rng.Intn(100) < 70 { // otherwise: the ids of this process
			u, gid := c05GenID(g.rng), c05GenID(g.rng)
			op.UID, op.GID = &u, &gid
		}
	}
	return op
}

// seedTree draws a small random tree description: directories, files (one in four with an unusual mode),
// relative / absolute / dangling / looping symbolic links, hard links, and special files (unix sockets, fifos,
// character and block device nodes), nesting <= 3.
func c05SeedTree(rng *rand.Rand) []c05Ent {
	n := rng.Intn(11)
	var tree []c05Ent
	used := map[string]bool{}
	dirs := []string{""}
	var files, all []string
	name := func() string { return c05Names[rng.Intn(len(c05Names))] }
	for i := 0; i < n; i++ {
		parent := dirs[rng.Intn(len(dirs))]
		p := name()
		if parent != "" {
			p = parent + "/" + p
		}
		if used[p] {
			continue
		}
		depth := strings.Count(p, "/") + 1
		e := c05Ent{P: p}
		switch x := rng.Intn(114); {
		case x >= 100: // a unix socket, a fifo, a character or a block device node (one entry in eight)
			e.K = c05SpecialOrder[rng.Intn(len(c05SpecialOrder))]
			e.Mode = uint32([]os.FileMode{0o644, 0o600, 0o755, 0o666, 0, 0o660 | os.ModeSetgid}[rng.Intn(6)])
			files = append(files, p) // may get hard links like a regular file
		case x < 35 && depth < 3:
			e.K = "dir"
			e.Mode = uint32([]os.FileMode{0o755, 0o755, 0o700, 0o777 | os.ModeSticky, 0o555}[rng.Intn(5)])
			dirs = append(dirs, p)
		case x < 70:
			e.K = "file"
			e.Mode = uint32([]os.FileMode{0o644, 0o644, 0o600, 0o755, 0o444, 0o755 | os.ModeSetuid}[rng.Intn(6)])
			nb := rng.Intn(10)
			e.Data = strings.Repeat("x", nb)
			files = append(files, p)
		case x < 90:
			e.K = "sym"
			switch y := rng.Intn(10); {
			case y < 5 && len(all) > 0:
				e.T = all[rng.Intn(len(all))]
				e.TAbs = true
			case y < 7:
				e.T = name()
			case y < 8:
				e.T = "../" + name()
			case y < 9:
				e.T = path.Base(p) // loop
			default:
				e.T = "/nonexistent-vh-c05/" + name()
			}
		default:
			if len(files) == 0 {
				continue
			}
			e.K = "hard"
			e.T = files[rng.Intn(len(files))]
		}
		// attributes the entry already has before the first operation: boundary times, owners, a sparse size
		if e.K == "dir" || e.K == "file" || c05IsSpecial(e) {
			if rng.Intn(100) < 20 {
				m := c05GenTime(rng)
				e.MT = &m
				if rng.Intn(2) == 0 {
					a := c05GenTime(rng)
					e.AT = &a
				}
			}
			if rng.Intn(100) < 12 {
				u, g := c05GenID(rng), c05GenID(rng)
				if u >= 0 {
					e.UID = &u
				}
				if g >= 0 {
					e.GID = &g
				}
			}
			if e.K == "file" && rng.Intn(100) < 8 {
				e.Size = c05BoundSizes[1+rng.Intn(len(c05BoundSizes)-1)]
			}
		}
		used[p] = true
		all = append(all, p)
		tree = append(tree, e)
	}
	return tree
}
