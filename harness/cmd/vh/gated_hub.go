package main

// Gate hub shared by C02, C14 and C18: every instrumented handler / file method
// announces its start, optionally blocks on a harness-owned gate, does its work
// and announces its end.  Starts and ends carry one global sequence number, so
// the harness can (a) wait for an exact set of calls to be blocked, (b) let them
// return in an order of its own choosing and (c) evaluate ordering conditions
// ("no read was in flight when Close was entered") on the log afterwards.

import (
	"context"
	"fmt"
	"sort"
	"strings"
	"sync"
	"time"
	"unsafe"
	"verifharness/lib"
)

type gCall struct {
	Key   string // base key, "#n" appended for numbered calls
	Op    string // method that was really called: ReadAt, WriteAt, ListAt, Close, Stat, …
	Obj   string
	Off   int64
	Len   int
	Start int64
	Fin   int64 // 0 while the call is running
	// result, filled at the end of the call
	N      int
	ErrNil bool
	Err    string
	Data   []byte // copy of the bytes handed back (reads) / received (writes); for listings the joined names; for commands and opens what the handler was shown (gSeen)
	// CtxDone (request server, calls on an opened object): the context of the request that opened the object was
	// found cancelled when the call ran (for a held call: when it was let go).
	CtxDone bool
	Free    bool // logged only: neither held nor accounted for (gFreeCall)

	gated    bool
	released bool
	gate     chan struct{}
	bufLo    uintptr
	bufHi    uintptr
}

type gHub struct {
	kase     *lib.Case // hang account of the case this hub belongs to (nil: unclassified)
	mu       sync.Mutex
	seq      int64
	calls    []*gCall
	byKey    map[string][]*gCall
	counters map[string]int
	hold     bool                                  // gates closed (gated mode)
	sleep    func(key string, n int) time.Duration // free mode: artificial handler duration
	notify   chan struct{}
	pass     []string // calls whose key starts with one of these are logged but never held
	problems []string // invariant violations seen inside handlers (aliasing buffers)
	// only, when not nil, restricts holding to the calls with these keys: every other call is logged and runs freely
	// (deep pipelines in which only the last few calls before a CLOSE are held).
	only map[string]bool
	// never: calls of these methods (Op) are logged but never held (the modifying methods of the files of a
	// read-only server: no request may reach them, and one that does must not stall the case).
	never map[string]bool
	// free, when not nil: calls it accepts are logged but never held (and marked Free).
	free func(op, obj string) bool
	// indexes over calls, so that pipelines of 10^5 calls do not cost a scan of the whole log per call
	live   []*gCall // calls that have not returned yet (log order)
	gates  []*gCall // calls that were held on entry (log order)
	closes []*gCall // Close calls (log order)
}

func newHub(hold bool) *gHub {
	return &gHub{byKey: map[string][]*gCall{}, counters: map[string]int{}, hold: hold, notify: make(chan struct{})}
}

func (h *gHub) broadcast() {
	close(h.notify)
	h.notify = make(chan struct{})
}

// enter registers the start of a call. numbered calls get "#<k>" (k-th call with that base key, from 0).
// gate=false marks calls that are logged but never held (Close).
func (h *gHub) enter(op, obj, base string, numbered bool, off int64, buf []byte, gate bool) *gCall {
	h.mu.Lock()
	key := base
	if numbered {
		key = fmt.Sprintf("%s#%d", base, h.counters[base])
		h.counters[base]++
	}
	c := &gCall{Key: key, Op: op, Obj: obj, Off: off, Len: len(buf), gate: make(chan struct{})}
	if cap(buf) > 0 && len(buf) > 0 {
		c.bufLo = uintptr(unsafe.Pointer(unsafe.SliceData(buf)))
		c.bufHi = c.bufLo + uintptr(len(buf))
		for _, o := range h.live {
			if o.Fin == 0 && o.bufHi > o.bufLo && c.bufLo < o.bufHi && o.bufLo < c.bufHi {
				h.problems = append(h.problems, fmt.Sprintf("buffer of %s (%s) overlaps the buffer of the still running %s (%s)", c.Key, c.Op, o.Key, o.Op))
			}
		}
	}
	h.seq++
	c.Start = h.seq
	c.gated = gate && h.hold
	for _, pf := range h.pass {
		if strings.HasPrefix(key, pf) {
			c.gated = false
		}
	}
	if h.only != nil && !h.only[key] {
		c.gated = false
	}
	if h.never[op] {
		c.gated = false
	}
	if h.free != nil && h.free(op, obj) {
		c.gated, c.Free = false, true
	}
	h.calls = append(h.calls, c)
	h.live = append(h.live, c)
	if c.gated {
		h.gates = append(h.gates, c)
	}
	if op == "Close" {
		h.closes = append(h.closes, c)
	}
	h.byKey[key] = append(h.byKey[key], c)
	var d time.Duration
	if h.sleep != nil {
		d = h.sleep(key, len(h.calls))
	}
	h.broadcast()
	h.mu.Unlock()
	if c.gated {
		<-c.gate
	} else if d > 0 {
		time.Sleep(d)
	}
	return c
}

func (h *gHub) leave(c *gCall, n int, err error, data []byte) {
	cp := append([]byte(nil), data...)
	h.mu.Lock()
	c.N, c.ErrNil, c.Data = n, err == nil, cp
	if err != nil {
		c.Err = err.Error()
	}
	h.seq++
	c.Fin = h.seq
	for i, o := range h.live {
		if o == c {
			h.live = append(h.live[:i], h.live[i+1:]...)
			break
		}
	}
	h.broadcast()
	h.mu.Unlock()
}

// ctxState records on call c whether ctx (the context of the request that opened c's object) is cancelled by now.
func (h *gHub) ctxState(c *gCall, ctx context.Context) {
	if gCtxDone(ctx) {
		h.mu.Lock()
		c.CtxDone = true
		h.mu.Unlock()
	}
}

// blocked returns the keys of the calls that sit on a closed gate.
func (h *gHub) blockedLocked() []string {
	var out []string
	for _, c := range h.gates {
		if c.gated && !c.released && c.Fin == 0 {
			out = append(out, c.Key)
		}
	}
	sort.Strings(out)
	return out
}

func (h *gHub) wait(deadline time.Duration, pred func() (done bool, err error)) error {
	t := time.NewTimer(deadline)
	defer t.Stop()
	for {
		h.mu.Lock()
		done, err := pred()
		ch := h.notify
		h.mu.Unlock()
		if err != nil || done {
			return err
		}
		select {
		case <-ch:
		case <-t.C:
			if deadline >= time.Second {
				gDeadlineHits.Add(1)
				h.kase.Spend(deadline)
			}
			h.mu.Lock()
			_, err := pred()
			b := h.blockedLocked()
			h.mu.Unlock()
			if err != nil {
				return err
			}
			return fmt.Errorf("deadline of %v passed; calls blocked on gates now: [%s]", deadline, strings.Join(b, " "))
		}
	}
}

// holdFor keeps whatever sits on a gate there for d — a deliberate hold, not a hang deadline: nothing is charged to the
// hang budget. It returns at once with the error of abort (called with the hub locked) when that reports one, and with
// cut = true when the soft deadline of the run passes during a hold of a second or more.
func (h *gHub) holdFor(d time.Duration, abort func() error) (held time.Duration, cut bool, err error) {
	t0 := time.Now()
	for {
		h.mu.Lock()
		if abort != nil {
			err = abort()
		}
		ch := h.notify
		h.mu.Unlock()
		held = time.Since(t0)
		if err != nil || held >= d {
			return held, false, err
		}
		if d >= time.Second {
			lib.Touch()
			if lib.Expired() {
				return held, true, nil
			}
		}
		select {
		case <-ch:
		case <-time.After(min(d-held, 250*time.Millisecond)):
		}
	}
}

// waitBlocked waits until exactly the calls named by want sit on their gates. A blocked call outside want is an
// immediate error (calls only ever get added until the harness opens a gate).
func (h *gHub) waitBlocked(want []string, deadline time.Duration) error {
	return h.waitBlockedUnless(want, deadline, nil)
}

// waitBlockedUnless is waitBlocked that gives up as soon as abort (called with the hub locked) returns an error.
func (h *gHub) waitBlockedUnless(want []string, deadline time.Duration, abort func() error) error {
	w := map[string]bool{}
	for _, k := range want {
		w[k] = true
	}
	return h.wait(deadline, func() (bool, error) {
		if abort != nil {
			if err := abort(); err != nil {
				return false, err
			}
		}
		b := h.blockedLocked()
		for _, k := range b {
			if !w[k] {
				return false, fmt.Errorf("unexpected call %s is running (expected blocked set [%s], have [%s])", k, strings.Join(sortedCopy(want), " "), strings.Join(b, " "))
			}
		}
		return len(b) == len(w), nil
	})
}

// release opens the gate of the blocked call named key and waits until the call has returned.
func (h *gHub) release(key string, deadline time.Duration) error {
	h.mu.Lock()
	var c *gCall
	for _, x := range h.byKey[key] {
		if x.gated && !x.released && x.Fin == 0 {
			c = x
			break
		}
	}
	if c == nil {
		h.mu.Unlock()
		return fmt.Errorf("no blocked call %s to release", key)
	}
	c.released = true
	close(c.gate)
	h.mu.Unlock()
	return h.wait(deadline, func() (bool, error) { return c.Fin != 0, nil })
}

// releaseAll opens every gate, now and for calls still to come (used on error paths so that the server can drain).
func (h *gHub) releaseAll() {
	h.mu.Lock()
	h.hold = false
	for _, c := range h.gates {
		if c.gated && !c.released && c.Fin == 0 {
			c.released = true
			close(c.gate)
		}
	}
	h.mu.Unlock()
}

// snapshot returns a copy of the log.
func (h *gHub) snapshot() ([]gCall, []string) {
	h.mu.Lock()
	defer h.mu.Unlock()
	out := make([]gCall, len(h.calls))
	for i, c := range h.calls {
		out[i] = *c
		out[i].gate = nil
	}
	return out, append([]string(nil), h.problems...)
}

func sortedCopy(s []string) []string {
	c := append([]string(nil), s...)
	sort.Strings(c)
	return c
}
