package main

// C03, scenario family "close": the framing of the client→server stream while the connection is being torn down.
//
// "Each request reaches the wire as one contiguous, well-framed packet" must also hold for the request that is being
// sent at the moment somebody ends the session: another goroutine calls Client.Close, the peer ends its output (EOF on
// the client's read side), the read side fails, or a reply is one the receive loop gives up on (unknown id, absurd
// length) — every one of them makes the package close the transport's write half from a goroutine that is not the
// sender.  Requests with a payload (WRITE, SETSTAT, FSETSTAT, and whatever else the package hands to the transport in
// several pieces) are several Write calls; a Close between them — or during one of them, on a transport that then
// delivers part of it (io.Pipe does) — leaves a torn frame on the wire.
//
// The client's outgoing half here is a recording, gated io.WriteCloser (c03Gate): it accepts every Write in two halves,
// knows from the bytes alone where frames start and end, and can HOLD the Write call that is at a chosen position of a
// chosen frame (the first frame of a given packet type after arming):
//
//	start-entry   the call that starts the frame has been entered, nothing of it is on the wire
//	start-half    half of that call's bytes are on the wire
//	start-full    all of that call's bytes are on the wire, the call has not returned
//	cont-entry    a further call for the same frame has been entered (between "header" and "payload")
//	cont-half     half of that call's bytes are on the wire
//	end-full      the call that completes the frame has all its bytes on the wire and has not returned
//	after         nothing is held: the session is ended when the frame is complete and its Write has returned
//	none          nothing is held and nothing is targeted: several callers send as fast as they can over a transport that
//	              yields inside every Write; the session is ended once a PRNG number of frames is on the wire
//
// While the call is held, the chosen party ends the session; the driver waits until the transport's Close has been
// entered or a grace period has passed (a sender-serialised Close cannot come before the release), then releases the
// call.  How a request is split into Write calls is not assumed anywhere: a hold point that the package's way of
// writing a packet never reaches (cont-* for a packet written in one piece) degrades to "after" and is counted as such.
//
// Oracles (direct, on the transport):
//   - everything that reached the wire before the transport was closed splits into whole frames, no tail;
//   - the transport's Close is never entered while a Write call is in progress, no Write call is entered while a Close
//     call or another Write call is in progress (the transport need not be safe for that);
//   - every frame decodes strictly as a request, and as one some caller issued (attributes and payload included).
// A Write call entered after Close at a frame boundary is legal (the request is refused as a whole) and only counted.

import (
	"bytes"
	"encoding/binary"
	"errors"
	"fmt"
	"io"
	"math/rand"
	"os"
	"runtime"
	"sort"
	"strings"
	"sync"
	"time"

	"github.com/pkg/sftp"

	"verifharness/lib"
	"verifharness/wire"
)

var c03TypName = map[byte]string{wire.Init: "INIT", wire.Open: "OPEN", wire.Close: "CLOSE", wire.Read: "READ", wire.Write: "WRITE", wire.Lstat: "LSTAT",
	wire.Fstat: "FSTAT", wire.Setstat: "SETSTAT", wire.Fsetstat: "FSETSTAT", wire.Opendir: "OPENDIR", wire.Readdir: "READDIR", wire.Remove: "REMOVE",
	wire.Mkdir: "MKDIR", wire.Rmdir: "RMDIR", wire.Realpath: "REALPATH", wire.Stat: "STAT", wire.Rename: "RENAME", wire.Readlink: "READLINK",
	wire.Symlink: "SYMLINK", wire.Extended: "EXTENDED"}

func c03Typ(t byte) string {
	if s, ok := c03TypName[t]; ok {
		return s
	}
	return fmt.Sprintf("type-%d", t)
}

// ---------- the gated, recording transport (client → server) ----------

type c03GFrame struct {
	idx int
	pkt wire.Pkt
}

type c03Gate struct {
	mu      sync.Mutex
	wire    []byte // every byte that reached the wire, in order
	fb      int    // wire[:fb] is whole frames; wire[fb:] is the frame in progress
	nFrames int
	yield   bool // reschedule between the two halves of every Write
	slowCl  bool // Close takes a moment (a Write racing with it is seen entering during the Close)

	closed           bool
	closeOff         int // bytes of an incomplete frame on the wire when Close was first entered
	closeCalls       int
	nWrites          int
	inWrite, inClose int
	overlaps         []string
	writesAfterClose int
	contAfterClose   int // … of them would have continued a frame begun before the Close

	armed     bool
	wantTyp   byte
	hold      string
	targetIdx int
	fired     bool
	heldAt    string
	held      chan struct{} // closed when a Write call is being held
	release   chan struct{} // closed by the driver
	entered   chan struct{} // closed when Close is first entered
	tdone     chan struct{} // closed when the target frame is complete and the Write call that completed it has returned
	tdoneOnce sync.Once
	frames    chan c03GFrame
	dropped   int
	waiters   []c03FrameWaiter
}

type c03FrameWaiter struct {
	n  int
	ch chan struct{}
}

func newC03Gate(yield, slowClose bool) *c03Gate {
	return &c03Gate{yield: yield, slowCl: slowClose, targetIdx: -1, held: make(chan struct{}), release: make(chan struct{}),
		entered: make(chan struct{}), tdone: make(chan struct{}), frames: make(chan c03GFrame, 1<<15)}
}

// arm: hold the Write call that reaches position `hold` of the first frame of type typ that starts from now on.
func (g *c03Gate) arm(typ byte, hold string) {
	g.mu.Lock()
	g.armed, g.wantTyp, g.hold = true, typ, hold
	g.mu.Unlock()
}

func (g *c03Gate) target() int {
	g.mu.Lock()
	defer g.mu.Unlock()
	return g.targetIdx
}

// whenFrames returns a channel that is closed once n whole frames are on the wire.
func (g *c03Gate) whenFrames(n int) <-chan struct{} {
	g.mu.Lock()
	defer g.mu.Unlock()
	ch := make(chan struct{})
	if g.nFrames >= n {
		close(ch)
	} else {
		g.waiters = append(g.waiters, c03FrameWaiter{n, ch})
	}
	return ch
}

// where describes the frame in progress (mu held).
func (g *c03Gate) where() string {
	off := len(g.wire) - g.fb
	if off == 0 {
		return fmt.Sprintf("at a frame boundary (%d whole frames on the wire)", g.nFrames)
	}
	if off < 5 {
		return fmt.Sprintf("%d bytes into the length/type field of frame %d", off, g.nFrames)
	}
	return fmt.Sprintf("%d of %d bytes of frame %d (%s) on the wire", off, 4+int(binary.BigEndian.Uint32(g.wire[g.fb:])), g.nFrames, c03Typ(g.wire[g.fb+4]))
}

// accept puts b on the wire unless the transport is closed (mu held).
func (g *c03Gate) accept(b []byte) bool {
	if g.closed {
		return false
	}
	g.wire = append(g.wire, b...)
	for len(g.wire)-g.fb >= 4 {
		n := int(binary.BigEndian.Uint32(g.wire[g.fb:]))
		if n == 0 || n > 1<<24 || len(g.wire)-g.fb < 4+n {
			break
		}
		f := c03GFrame{g.nFrames, wire.Pkt{Typ: g.wire[g.fb+4], Body: append([]byte(nil), g.wire[g.fb+5:g.fb+4+n]...)}}
		select {
		case g.frames <- f:
		default:
			g.dropped++
		}
		g.fb += 4 + n
		g.nFrames++
	}
	if g.armed && g.targetIdx < 0 && len(g.wire)-g.fb >= 5 && g.wire[g.fb+4] == g.wantTyp {
		g.targetIdx = g.nFrames // a frame whose type byte did not come with its first Write call
	}
	rest := g.waiters[:0]
	for _, w := range g.waiters {
		if g.nFrames >= w.n {
			close(w.ch)
		} else {
			rest = append(rest, w)
		}
	}
	g.waiters = rest
	return true
}

// gate holds the calling Write at position name if that is the armed one (mu held; released while waiting).
func (g *c03Gate) gate(name string, isTarget bool, callLen, accepted int) {
	if !g.armed || g.fired || g.hold != name || !isTarget {
		return
	}
	g.fired = true
	g.heldAt = fmt.Sprintf("%s: a Write call of %d bytes with %d of them accepted, %s", name, callLen, accepted, g.where())
	close(g.held)
	g.mu.Unlock()
	<-g.release
	g.mu.Lock()
}

func (g *c03Gate) Write(p []byte) (int, error) {
	g.mu.Lock()
	g.nWrites++
	if g.inClose > 0 {
		g.overlaps = append(g.overlaps, fmt.Sprintf("a Write call of %d bytes was entered while a Close call was in progress, %s", len(p), g.where()))
	}
	if g.inWrite > 0 {
		g.overlaps = append(g.overlaps, fmt.Sprintf("a Write call of %d bytes was entered while another Write call was in progress, %s", len(p), g.where()))
	}
	if g.closed {
		g.writesAfterClose++
		if len(g.wire) > g.fb {
			g.contAfterClose++
		}
		g.mu.Unlock()
		return 0, io.ErrClosedPipe
	}
	g.inWrite++
	idx0, off0 := g.nFrames, len(g.wire)-g.fb
	if g.armed && g.targetIdx < 0 && off0 == 0 && len(p) >= 5 && p[4] == g.wantTyp {
		g.targetIdx = idx0
	}
	pos := "start"
	if off0 > 0 {
		pos = "cont"
	}
	isT := func() bool { return g.targetIdx >= 0 && g.targetIdx == idx0 }
	leave := func(n int, err error) (int, error) {
		g.inWrite--
		done := g.targetIdx >= 0 && g.nFrames > g.targetIdx
		g.mu.Unlock()
		if done {
			g.tdoneOnce.Do(func() { close(g.tdone) })
		}
		return n, err
	}
	g.gate(pos+"-entry", isT(), len(p), 0)
	n1 := len(p) / 2
	if !g.accept(p[:n1]) {
		return leave(0, io.ErrClosedPipe)
	}
	g.gate(pos+"-half", isT(), len(p), n1)
	if g.yield {
		g.mu.Unlock()
		if g.nWrites%3 == 0 {
			time.Sleep(40 * time.Microsecond) // a peer that takes the bytes in its own time
		} else {
			runtime.Gosched()
		}
		g.mu.Lock()
	}
	if !g.accept(p[n1:]) {
		return leave(n1, io.ErrClosedPipe)
	}
	g.gate(pos+"-full", isT(), len(p), len(p))
	g.gate("end-full", isT() && g.nFrames > idx0, len(p), len(p))
	if g.yield {
		g.mu.Unlock()
		runtime.Gosched()
		g.mu.Lock()
	}
	return leave(len(p), nil)
}

func (g *c03Gate) Close() error {
	g.mu.Lock()
	g.closeCalls++
	if g.inWrite > 0 {
		g.overlaps = append(g.overlaps, fmt.Sprintf("Close (call %d) was entered while a Write call was in progress on another goroutine, %s", g.closeCalls, g.where()))
	}
	if !g.closed {
		g.closed = true
		g.closeOff = len(g.wire) - g.fb
		close(g.entered)
		close(g.frames)
	}
	g.inClose++
	g.mu.Unlock()
	if g.slowCl {
		runtime.Gosched()
		time.Sleep(30 * time.Microsecond)
	}
	g.mu.Lock()
	g.inClose--
	g.mu.Unlock()
	return nil
}

// c03Reader is the client's incoming half: an ioPipe whose end can be an error instead of EOF.
type c03Reader struct {
	p   *ioPipe
	mu  sync.Mutex
	err error
}

func (r *c03Reader) Read(b []byte) (int, error) {
	n, err := r.p.Read(b)
	if err == io.EOF {
		r.mu.Lock()
		if r.err != nil {
			err = r.err
		}
		r.mu.Unlock()
	}
	return n, err
}

func (r *c03Reader) fail(err error) {
	r.mu.Lock()
	r.err = err
	r.mu.Unlock()
	r.p.Close()
}

// ---------- the operations ----------

// c03CloseCanon is c03Canon with the attribute block of OPEN / SETSTAT / FSETSTAT written out.
func c03CloseCanon(q cliReq) string {
	a := q.Attrs
	at := fmt.Sprintf("flags=%#x size=%d uid=%d gid=%d perm=%#o atime=%d mtime=%d ext=%d", a.Flags, a.Size, a.UID, a.GID, a.Perm, a.Atime, a.Mtime, len(a.Ext))
	switch q.Typ {
	case wire.Open:
		return fmt.Sprintf("open %s %d %s", q.Path, q.Pflags, at)
	case wire.Setstat:
		return fmt.Sprintf("setstat %s %s", q.Path, at)
	case wire.Fsetstat:
		return fmt.Sprintf("fsetstat %s %s", q.Handle, at)
	case wire.Remove, wire.Rmdir:
		return fmt.Sprintf("t%d %s", q.Typ, q.Path)
	}
	return c03Canon(q)
}

func c03At(a wire.St) string {
	return fmt.Sprintf("flags=%#x size=%d uid=%d gid=%d perm=%#o atime=%d mtime=%d ext=%d", a.Flags, a.Size, a.UID, a.GID, a.Perm, a.Atime, a.Mtime, len(a.Ext))
}

type c03CloseEnv struct {
	client *sftp.Client
	f      *sftp.File // handle "h:<name>"
	h      string
	mp     int
	size   int
	k      uint64
	issue  func(...string)
}

func c03WriteChunks(h string, off uint64, n, mp int) []string {
	var out []string
	for done := 0; done < n; done += mp {
		out = append(out, fmt.Sprintf("write %s %d %d payload-ok=true", h, off+uint64(done), min(mp, n-done)))
	}
	return out
}

type c03CloseOp struct {
	Name string
	Typ  byte // the packet type whose first frame is the target
	Run  func(e *c03CloseEnv) error
}

// c03CloseOps: every client API that sends a request with an attribute block or a data payload, and a few that do not.
var c03CloseOps = []c03CloseOp{
	{"writeat", wire.Write, func(e *c03CloseEnv) error {
		off := e.k * c03Stride
		e.issue(c03WriteChunks(e.h, off, e.size, e.mp)...)
		_, err := e.f.WriteAt(cliPatternBytes(e.h, off, e.size), int64(off))
		return err
	}},
	{"write", wire.Write, func(e *c03CloseEnv) error {
		off := e.k * c03Stride
		if _, err := e.f.Seek(int64(off), io.SeekStart); err != nil {
			return err
		}
		e.issue(c03WriteChunks(e.h, off, e.size, e.mp)...)
		_, err := e.f.Write(cliPatternBytes(e.h, off, e.size))
		return err
	}},
	{"readfrom", wire.Write, func(e *c03CloseEnv) error {
		off, n := e.k*c03Stride, 2*e.mp+3
		if _, err := e.f.Seek(int64(off), io.SeekStart); err != nil {
			return err
		}
		e.issue(c03WriteChunks(e.h, off, n, e.mp)...)
		_, err := e.f.ReadFrom(cliSrc{bytes.NewReader(cliPatternBytes(e.h, off, n))})
		return err
	}},
	{"readfromconc", wire.Write, func(e *c03CloseEnv) error {
		off, n := e.k*c03Stride, 3*e.mp+1
		if _, err := e.f.Seek(int64(off), io.SeekStart); err != nil {
			return err
		}
		e.issue(c03WriteChunks(e.h, off, n, e.mp)...)
		_, err := e.f.ReadFromWithConcurrency(bytes.NewReader(cliPatternBytes(e.h, off, n)), 3)
		return err
	}},
	{"writeat-conc", wire.Write, func(e *c03CloseEnv) error { // the client is created with UseConcurrentWrites
		off, n := e.k*c03Stride, 3*e.mp
		e.issue(c03WriteChunks(e.h, off, n, e.mp)...)
		_, err := e.f.WriteAt(cliPatternBytes(e.h, off, n), int64(off))
		return err
	}},
	{"chmod", wire.Setstat, func(e *c03CloseEnv) error {
		p := fmt.Sprintf("cm%d", e.k)
		e.issue("setstat " + p + " " + c03At(wire.St{Flags: wire.APerm, Perm: 0o640}))
		return e.client.Chmod(p, 0o640)
	}},
	{"chown", wire.Setstat, func(e *c03CloseEnv) error {
		p := fmt.Sprintf("co%d", e.k)
		e.issue("setstat " + p + " " + c03At(wire.St{Flags: wire.AUIDGID, UID: 11, GID: 22}))
		return e.client.Chown(p, 11, 22)
	}},
	{"chtimes", wire.Setstat, func(e *c03CloseEnv) error {
		p := fmt.Sprintf("ct%d", e.k)
		e.issue("setstat " + p + " " + c03At(wire.St{Flags: wire.ATime, Atime: 1000, Mtime: 2000}))
		return e.client.Chtimes(p, time.Unix(1000, 0), time.Unix(2000, 0))
	}},
	{"truncate", wire.Setstat, func(e *c03CloseEnv) error {
		p := fmt.Sprintf("tr%d", e.k)
		e.issue("setstat " + p + " " + c03At(wire.St{Flags: wire.ASize, Size: 12345 + e.k}))
		return e.client.Truncate(p, int64(12345+e.k))
	}},
	{"fchmod", wire.Fsetstat, func(e *c03CloseEnv) error {
		e.issue("fsetstat " + e.h + " " + c03At(wire.St{Flags: wire.APerm, Perm: 0o604}))
		return e.f.Chmod(0o604)
	}},
	{"fchown", wire.Fsetstat, func(e *c03CloseEnv) error {
		e.issue("fsetstat " + e.h + " " + c03At(wire.St{Flags: wire.AUIDGID, UID: 33, GID: 44}))
		return e.f.Chown(33, 44)
	}},
	{"ftruncate", wire.Fsetstat, func(e *c03CloseEnv) error {
		e.issue("fsetstat " + e.h + " " + c03At(wire.St{Flags: wire.ASize, Size: 777 + e.k}))
		return e.f.Truncate(int64(777 + e.k))
	}},
	{"open", wire.Open, func(e *c03CloseEnv) error {
		p := fmt.Sprintf("op%d", e.k)
		e.issue(fmt.Sprintf("open %s %d %s", p, wire.FRead, c03At(wire.St{})))
		_, err := e.client.Open(p)
		return err
	}},
	{"create", wire.Open, func(e *c03CloseEnv) error {
		p := fmt.Sprintf("cr%d", e.k)
		e.issue(fmt.Sprintf("open %s %d %s", p, wire.FRead|wire.FWrite|wire.FCreat|wire.FTrunc, c03At(wire.St{})))
		_, err := e.client.Create(p)
		return err
	}},
	{"openfile", wire.Open, func(e *c03CloseEnv) error {
		p := fmt.Sprintf("of%d", e.k)
		e.issue(fmt.Sprintf("open %s %d %s", p, wire.FWrite|wire.FAppend|wire.FCreat|wire.FExcl, c03At(wire.St{})))
		_, err := e.client.OpenFile(p, os.O_WRONLY|os.O_APPEND|os.O_CREATE|os.O_EXCL)
		return err
	}},
	// requests without attribute block or payload
	{"stat", wire.Stat, func(e *c03CloseEnv) error {
		e.issue(fmt.Sprintf("t%d p%d", wire.Stat, e.k))
		_, err := e.client.Stat(fmt.Sprintf("p%d", e.k))
		return err
	}},
	{"readat", wire.Read, func(e *c03CloseEnv) error {
		off := e.k * c03Stride
		e.issue(fmt.Sprintf("read %s %d %d", e.h, off, e.size))
		_, err := e.f.ReadAt(make([]byte, e.size), int64(off))
		return err
	}},
	{"mkdir", wire.Mkdir, func(e *c03CloseEnv) error {
		e.issue(fmt.Sprintf("t%d m%d", wire.Mkdir, 2*e.k))
		return e.client.Mkdir(fmt.Sprintf("m%d", 2*e.k))
	}},
	{"rename", wire.Rename, func(e *c03CloseEnv) error {
		e.issue(fmt.Sprintf("rename a%d b%d", e.k, e.k))
		return e.client.Rename(fmt.Sprintf("a%d", e.k), fmt.Sprintf("b%d", e.k))
	}},
	{"posixrename", wire.Extended, func(e *c03CloseEnv) error {
		e.issue(fmt.Sprintf("ext posix-rename@openssh.com a%d ", e.k))
		return e.client.PosixRename(fmt.Sprintf("a%d", e.k), fmt.Sprintf("b%d", e.k))
	}},
	{"fstat", wire.Fstat, func(e *c03CloseEnv) error {
		e.issue(fmt.Sprintf("t%d %s", wire.Fstat, e.h))
		_, err := e.f.Stat()
		return err
	}},
	{"fclose", wire.Close, func(e *c03CloseEnv) error {
		e.issue(fmt.Sprintf("t%d %s", wire.Close, e.h))
		return e.f.Close()
	}},
}

func c03CloseOpByName(name string) *c03CloseOp {
	for i := range c03CloseOps {
		if c03CloseOps[i].Name == name {
			return &c03CloseOps[i]
		}
	}
	return nil
}

var (
	c03CloseHolds   = []string{"start-entry", "start-half", "start-full", "cont-entry", "cont-half", "end-full", "after"}
	c03CloseClosers = []string{"client-close", "peer-eof", "read-error", "unknown-id", "long-frame", "both"}
)

// c03CloseReply: STATUS OK for the requests the main family's peer does not know.
func c03CloseReply(srv *c03Server, q cliReq) []byte {
	switch q.Typ {
	case wire.Setstat, wire.Fsetstat, wire.Remove, wire.Rmdir, wire.Symlink, wire.Mkdir, wire.Rename:
		return wire.StatusFrame(q.ID, wire.OK, "")
	case wire.Extended:
		if q.Ext != "statvfs@openssh.com" {
			return wire.StatusFrame(q.ID, wire.OK, "")
		}
	}
	return srv.reply(q)
}

// c03CloseObs is what one run of the family observed (for the histogram and the samples).
type c03CloseObs struct {
	Packet           string `json:"packet,omitempty"` // type of the targeted frame
	Reached          bool   `json:"hold_reached"`
	HeldAt           string `json:"held_at,omitempty"`
	ClosedWhileHeld  bool   `json:"closed_while_held,omitempty"`
	Frames           int    `json:"frames"`
	WireLen          int    `json:"wire_len"`
	Writes           int    `json:"write_calls"`
	WritesAfterClose int    `json:"write_calls_after_close"`
	CloseCalls       int    `json:"close_calls"`
	Outstanding      int    `json:"outstanding_at_close"` // whole requests on the wire and unanswered when the session was ended
	TargetErr        string `json:"target_result,omitempty"`
}

func c03RunClose(cs c03Case) (res c03Res) {
	res.Batches = map[string]int{}
	res.OpHist = map[string]int{}
	obs := &c03CloseObs{}
	res.CloseObs = obs
	var fmu sync.Mutex
	fail := func(key, what string, act any) {
		fmu.Lock()
		res.Fails = append(res.Fails, c20Fail{key, what, act})
		fmu.Unlock()
	}
	k := cliCase.Load()
	hang := func(what string) {
		fail("hang/close-family/"+what, what+" did not happen within the hang deadline ("+cs.Closer+" ended the session)", cliDescribe(cliGoroutines2()))
		res.ExitNow = true
	}
	var op *c03CloseOp
	if cs.Hold != "none" {
		if op = c03CloseOpByName(cs.Op); op == nil {
			fail("tie/case", "unknown operation "+cs.Op, nil)
			return
		}
		obs.Packet = c03Typ(op.Typ)
	}
	mp := cs.MaxPacket
	if mp <= 0 {
		mp = 1 << 15
	}
	opts := []sftp.ClientOption{sftp.MaxPacketUnchecked(mp)}
	if cs.ConcW || cs.Op == "writeat-conc" {
		opts = append(opts, sftp.UseConcurrentWrites(true))
	}

	g := newC03Gate(cs.Yield, cs.SlowClose)
	s2c := newIOPipe(1 << 20)
	rd := &c03Reader{p: s2c}
	srv := &c03Server{dirReads: map[string]int{}}

	// ---- the peer: answers every whole request from its content (not the target when it is to stay outstanding) ----
	var pmu sync.Mutex
	var onWire []string
	answered, arrived := 0, 0
	quietPeer := false
	peerDone := make(chan struct{})
	go func() {
		defer close(peerDone)
		for f := range g.frames {
			if f.idx == 0 {
				if f.pkt.Typ != wire.Init {
					fail("framing/first-frame", fmt.Sprintf("the first frame is a %s, not INIT", c03Typ(f.pkt.Typ)), nil)
				}
				s2c.Write(cliVersion())
				continue
			}
			q, derr := cliDecodeReq(f.pkt)
			if derr != nil {
				fail("framing/undecodable-request", fmt.Sprintf("frame %d of the client→server stream does not decode as a request: %v", f.idx, derr), lib.Hex(append([]byte{f.pkt.Typ}, f.pkt.Body[:min(len(f.pkt.Body), 64)]...)))
				continue
			}
			pmu.Lock()
			onWire = append(onWire, c03CloseCanon(q))
			arrived++
			silent := quietPeer || (cs.Silent && f.idx == g.target())
			if !silent {
				answered++
			}
			pmu.Unlock()
			if !silent {
				s2c.Write(c03CloseReply(srv, q))
			}
		}
	}()
	shutdown := func() {
		s2c.Close()
		g.mu.Lock()
		if !g.closed { // (a hang: the package never closed the transport) let the peer goroutine end
			g.closed = true
			close(g.frames)
			close(g.entered)
		}
		g.mu.Unlock()
	}

	type cres struct {
		c   *sftp.Client
		err error
	}
	cch := make(chan cres, 1)
	go func() {
		c, err := sftp.NewClientPipe(rd, g, opts...)
		cch <- cres{c, err}
	}()
	cr, ok := lib.WaitCase(k, cliDeadline, cch)
	if !ok || cr.err != nil {
		fail("tie/new-client", fmt.Sprint("NewClientPipe: ", cr.err, " (returned: ", ok, ")"), nil)
		res.ExitNow = true
		shutdown()
		return
	}
	client := cr.c

	var imu sync.Mutex
	var issued []string
	issue := func(s ...string) {
		imu.Lock()
		issued = append(issued, s...)
		imu.Unlock()
	}
	// ---- setup: the target's file and one file per bystander ----
	var tf *sftp.File
	own := make([]*sftp.File, cs.Callers)
	var serr error
	if !cliWithin(cliDeadline, func() {
		issue(fmt.Sprintf("open tf %d %s", wire.FRead|wire.FWrite, c03At(wire.St{})))
		tf, serr = client.OpenFile("tf", os.O_RDWR)
		for c := 0; c < cs.Callers && serr == nil; c++ {
			issue(fmt.Sprintf("open own%d %d %s", c, wire.FRead|wire.FWrite, c03At(wire.St{})))
			own[c], serr = client.OpenFile(fmt.Sprintf("own%d", c), os.O_RDWR)
		}
	}) || serr != nil {
		fail("error/setup-open", fmt.Sprint("opening the files failed although every OPEN was answered with a handle: ", serr), nil)
		res.ExitNow = true
		shutdown()
		return
	}
	g.mu.Lock()
	base := g.nFrames
	g.mu.Unlock()
	if op != nil && cs.Hold != "after" {
		g.arm(op.Typ, cs.Hold)
	} else if op != nil {
		g.arm(op.Typ, "") // the target is identified (it may stay unanswered), nothing is held
	}

	// ---- the callers ----
	stop := make(chan struct{})
	var wg sync.WaitGroup
	for c := 0; c < cs.Callers; c++ {
		wg.Add(1)
		go func(c int) {
			defer wg.Done()
			brng := rand.New(rand.NewSource(cs.Seed + int64(c+1)*7919))
			h := fmt.Sprintf("h:own%d", c)
			for i := 0; ; i++ {
				select {
				case <-stop:
					return
				default:
				}
				kk := uint64((c+1)*100000 + i + 1)
				off := kk * c03Stride
				var err error
				switch brng.Intn(6) {
				case 0:
					issue(fmt.Sprintf("t%d p%d", wire.Stat, kk))
					_, err = client.Stat(fmt.Sprintf("p%d", kk))
				case 1, 2:
					n := 1 + brng.Intn(mp)
					issue(c03WriteChunks(h, off, n, mp)...)
					_, err = own[c].WriteAt(cliPatternBytes(h, off, n), int64(off))
				case 3:
					p := fmt.Sprintf("bm%d", kk)
					issue("setstat " + p + " " + c03At(wire.St{Flags: wire.APerm, Perm: 0o600}))
					err = client.Chmod(p, 0o600)
				case 4:
					issue("fsetstat " + h + " " + c03At(wire.St{Flags: wire.ASize, Size: kk}))
					err = own[c].Truncate(int64(kk))
				case 5:
					n := 1 + brng.Intn(min(mp, 1024))
					issue(fmt.Sprintf("read %s %d %d", h, off, n))
					_, err = own[c].ReadAt(make([]byte, n), int64(off))
				}
				if err != nil {
					return // the session is over (or the call was refused): nothing to check here, C04 does
				}
			}
		}(c)
	}
	callerDone := make(chan struct{})
	if op != nil {
		go func() {
			defer close(callerDone)
			e := &c03CloseEnv{client: client, f: tf, h: "h:tf", mp: mp, size: max(1, min(cs.Size, mp)), k: 1, issue: issue}
			obs.TargetErr = cliErrStr(op.Run(e))
		}()
	}

	// ---- wait for the moment ----
	var moment <-chan struct{}
	if op == nil {
		moment = g.whenFrames(base + max(1, cs.K))
	}
	select {
	case <-g.held:
	case <-g.tdone:
	case <-callerDone:
	case <-moment:
	case <-k.After(cliDeadline):
		k.Fired()
		hang("the request reaching the wire")
		close(g.release)
		shutdown()
		return
	}
	select {
	case <-g.held:
		obs.Reached = true
	default:
	}
	pmu.Lock()
	obs.Outstanding = arrived - answered
	if op == nil && cs.Silent {
		quietPeer = true // the storm's callers end up waiting for replies that never come
	}
	pmu.Unlock()

	// ---- end the session ----
	closeRet := make(chan struct{})
	clientClose := func() {
		go func() { client.Close(); close(closeRet) }()
	}
	selfClosed := false
	switch cs.Closer {
	case "client-close":
		selfClosed = true
		clientClose()
	case "peer-eof":
		s2c.Close()
	case "read-error":
		rd.fail(errors.New("c03: the transport's read side failed"))
	case "unknown-id":
		s2c.Write(wire.StatusFrame(0x7ffffff0, wire.OK, ""))
	case "long-frame":
		s2c.Write([]byte{0x7f, 0xff, 0xff, 0xff, wire.Status, 0, 0, 0, 1})
	case "both":
		selfClosed = true
		clientClose()
		s2c.Close()
	default:
		fail("tie/case", "unknown closer "+cs.Closer, nil)
	}
	if obs.Reached {
		grace := time.Duration(max(cs.GraceMs, 1)) * time.Millisecond
		t := time.NewTimer(grace)
		select {
		case <-g.entered:
			obs.ClosedWhileHeld = true
		case <-t.C:
		}
		t.Stop()
		close(g.release)
	}
	select {
	case <-g.entered:
	case <-k.After(cliDeadline):
		k.Fired()
		hang("the transport's Close")
		shutdown()
		return
	}
	close(stop)
	s2c.Close() // the peer has seen the end of its input and goes away
	if !selfClosed {
		clientClose()
	}
	if op != nil {
		if _, ok := lib.WaitCase(k, cliDeadline, callerDone); !ok {
			hang("the return of " + cs.Op)
			shutdown()
			return
		}
	}
	if !cliWithin(cliDeadline, wg.Wait) {
		hang("the return of the other callers")
		shutdown()
		return
	}
	if _, ok := lib.WaitCase(k, cliDeadline, closeRet); !ok {
		fail("close-hang", "Client.Close did not return within the hang deadline", cliDescribe(cliGoroutines2()))
		res.ExitNow = true
		shutdown()
		return
	}
	if _, ok := lib.WaitCase(k, cliDeadline, peerDone); !ok {
		fail("tie/peer", "scripted peer did not finish", nil)
		res.ExitNow = true
		return
	}

	// ---- the oracles ----
	g.mu.Lock()
	raw := append([]byte(nil), g.wire...)
	overlaps := append([]string(nil), g.overlaps...)
	obs.HeldAt, obs.Frames, obs.WireLen, obs.Writes, obs.WritesAfterClose, obs.CloseCalls = g.heldAt, g.nFrames, len(g.wire), g.nWrites, g.writesAfterClose, g.closeCalls
	contAfter, dropped := g.contAfterClose, g.dropped
	g.mu.Unlock()
	if dropped > 0 {
		fail("tie/frame-queue", fmt.Sprintf("%d frames were not handed to the peer", dropped), nil)
	}
	frames, tail := wire.Split(raw)
	if len(tail) != 0 {
		what := fmt.Sprintf("%d stray bytes", len(tail))
		if len(tail) >= 5 {
			what = fmt.Sprintf("%d of the %d bytes of a %s request", len(tail), 4+int(binary.BigEndian.Uint32(tail)), c03Typ(tail[4]))
		}
		fail("framing/torn-by-close", fmt.Sprintf("the client→server stream ends inside a frame: %s were on the wire when the transport was closed (session ended by %s), the rest never followed (%d whole frames before it; %d Write calls arrived after the Close, %d of them for the rest of a frame)",
			what, cs.Closer, len(frames), obs.WritesAfterClose, contAfter),
			map[string]any{"held_at": obs.HeldAt, "close_entered_while_held": obs.ClosedWhileHeld, "tail_head": lib.Hex(tail[:min(len(tail), 48)]), "result_of_the_call": obs.TargetErr})
	}
	if len(overlaps) > 0 {
		fail("transport/close-overlaps-write", fmt.Sprintf("the transport's Write and Close calls are not serialised: %s (%d such overlaps; session ended by %s)", overlaps[0], len(overlaps), cs.Closer),
			map[string]any{"overlaps": head(overlaps, 6), "held_at": obs.HeldAt})
	}
	pmu.Lock()
	a := append([]string(nil), onWire...)
	pmu.Unlock()
	if len(a) != len(frames)-1 && len(res.Fails) == 0 {
		fail("framing/count", fmt.Sprintf("peer received %d requests, stream holds %d frames after INIT", len(a), len(frames)-1), nil)
	}
	imu.Lock()
	b := append([]string(nil), issued...)
	imu.Unlock()
	sort.Strings(a)
	sort.Strings(b)
	if onlyWire, _ := diffMultiset(a, b); len(onlyWire) > 0 {
		fail("framing/requests-differ", "requests on the wire that no caller issued (attribute blocks and payloads included)", map[string]any{"only_on_wire": head(onlyWire, 8)})
	}
	res.Requests = len(a)
	return
}

// ---------- the cases ----------

var c03ClosePackets = []struct {
	Typ string
	Ops []string
}{
	{"WRITE", []string{"writeat", "write", "readfrom", "readfromconc", "writeat-conc"}},
	{"SETSTAT", []string{"chmod", "chown", "chtimes", "truncate"}},
	{"FSETSTAT", []string{"fchmod", "fchown", "ftruncate"}},
	{"OPEN", []string{"open", "create", "openfile"}},
	{"one-piece", []string{"stat", "readat", "mkdir", "rename", "posixrename", "fstat", "fclose"}},
}

func c03CloseCases(rnd *rand.Rand, thorough bool) []c03Case {
	var out []c03Case
	grace := 30
	mk := func(opName, hold, closer string) c03Case {
		cs := c03Case{Kind: "close", Mode: "close", Op: opName, Hold: hold, Closer: closer, Seed: rnd.Int63(), GraceMs: grace,
			Callers: []int{0, 0, 2, 5}[rnd.Intn(4)], Silent: rnd.Intn(3) != 0, SlowClose: rnd.Intn(2) == 0, Yield: rnd.Intn(4) == 0,
			MaxPacket: []int{1 << 15, 1024, 64}[rnd.Intn(3)]}
		cs.Size = []int{1, 2, 27, 1000, cs.MaxPacket}[rnd.Intn(5)]
		if opName == "readfrom" || opName == "readfromconc" || opName == "writeat-conc" {
			cs.MaxPacket = []int{1024, 64}[rnd.Intn(2)]
		}
		return cs
	}
	if thorough {
		// every API × hold point × closer, four times (bystanders, silence, sizes PRNG)
		for rep := 0; rep < 4; rep++ {
			for _, p := range c03ClosePackets {
				for _, o := range p.Ops {
					for _, h := range c03CloseHolds {
						for _, cl := range c03CloseClosers {
							out = append(out, mk(o, h, cl))
						}
					}
				}
			}
		}
	} else {
		// every packet kind × hold point × closer; the API that sends the packet is dealt in rotation
		n := 0
		for _, p := range c03ClosePackets {
			for _, h := range c03CloseHolds {
				for _, cl := range c03CloseClosers {
					n++
					out = append(out, mk(p.Ops[n%len(p.Ops)], h, cl))
				}
			}
		}
	}
	// nothing held: 3…12 callers over a transport that yields inside every Write; the session ends after K frames
	storms := 36
	if thorough {
		storms = 1500
	}
	for i := 0; i < storms; i++ {
		cs := c03Case{Kind: "close", Mode: "close", Hold: "none", Closer: c03CloseClosers[i%len(c03CloseClosers)], Seed: rnd.Int63(), Callers: 3 + rnd.Intn(10),
			K: 1 + rnd.Intn(60), Yield: true, SlowClose: rnd.Intn(2) == 0, Silent: rnd.Intn(4) == 0, MaxPacket: []int{1 << 15, 1024, 64}[rnd.Intn(3)]}
		out = append(out, cs)
	}
	return out
}

// c03CloseTally puts one run of the family into the result.
func c03CloseTally(r *lib.Result, cs c03Case, res c03Res) {
	o := res.CloseObs
	if o == nil {
		o = &c03CloseObs{}
	}
	nontrivial := o.Reached || o.Outstanding > 0 || cs.Hold == "none"
	canon := fmt.Sprintf("close op=%s hold=%s closer=%s callers=%d silent=%v slowclose=%v yield=%v mp=%d size=%d k=%d seed=%d", cs.Op, cs.Hold, cs.Closer, cs.Callers, cs.Silent, cs.SlowClose, cs.Yield, cs.MaxPacket, cs.Size, cs.K, cs.Seed)
	r.Case(canon, nontrivial)
	r.Hist("close/closer/" + cs.Closer)
	r.Hist("close/hold/" + cs.Hold)
	if cs.Hold == "none" {
		r.Hist(fmt.Sprintf("close/storm/callers/%02d", cs.Callers))
		r.Hist(fmt.Sprintf("close/storm/frames-before-the-end/%02d", min(o.Frames, 99)/10*10))
	} else {
		r.Hist("close/api/" + cs.Op)
		r.Hist("close/packet/" + o.Packet)
		switch {
		case o.Reached:
			r.Hist("close/hold-point/" + cs.Hold + "/write-call-held")
		case cs.Hold == "after":
			r.Hist("close/hold-point/after/frame-complete")
		default:
			r.Hist("close/hold-point/" + cs.Hold + "/not-reached(" + o.Packet + "-written-in-one-piece):ended-after-the-frame")
		}
		r.Hist(fmt.Sprintf("close/bystanders/%d", cs.Callers))
		r.Hist(fmt.Sprintf("close/target-unanswered/%v", cs.Silent))
		res := o.TargetErr
		if i := strings.IndexByte(res, ':'); i > 0 {
			res = res[:i]
		}
		r.Hist("close/result-of-the-call/" + res)
	}
	r.Hist(fmt.Sprintf("close/write-calls-after-close/%s", map[bool]string{true: "some", false: "none"}[o.WritesAfterClose > 0]))
	r.Hist(fmt.Sprintf("close/close-calls-on-the-transport/%d", min(o.CloseCalls, 3)))
	for _, f := range res.Fails {
		kind := "oracle"
		if strings.HasPrefix(f.Key, "tie/") {
			kind = "tie"
		}
		r.Hist("close/violations/" + f.Key + "/hold=" + cs.Hold + "/closer=" + cs.Closer) // (empty on a tree that keeps the property)
		r.Fail(lib.Failure{Kind: kind, Key: f.Key, What: f.What, Input: cs, Actual: f.Act})
	}
}
