package main

import (
	"encoding/json"
	"fmt"
	"math/rand"
	"runtime"
	"time"

	"verifharness/lib"
	"verifharness/wire"
)

const c10rRule_ = "(d) what handlers RETURN: scripted handlers behind a real RequestServer, every optional interface present/absent (OpenFileWriter, LstatFileLister, RealPathFileLister incl. legacy, ReadlinkFileLister, NameLookupFileLister, PosixRenameFileCmder, StatVFSFileCmder; io.Closer / TransferError on returned objects), allocator on/off, max-tx-packet, start directory: per step one request (raw wire peer with a strict decoder, and the real Client) and the reply must be exactly what the handler was seen to return: DATA = the n bytes of ReadAt (n<len with nil / io.EOF / wrapped EOF / other errors, n=0, reads longer than max-tx-packet), STATUS kind of WriteAt / Filecmd / Close errors, NAME = the ListAt batch, ATTRS of one-slot listers holding 0/1/2 entries, link / real-path text, statvfs numbers; all 64 open-flag words x OpenFileWriter; error-product: EVERY term of the product (wrappers bare / *os.PathError / *os.LinkError / *os.SyscallError / %w / custom Unwrap / errors.Join / two wrappers) x (io.EOF, io.ErrUnexpectedEOF, os.ErrNotExist, os.ErrPermission, os.ErrExist, os.ErrClosed, ErrSSHFx 1..8, *StatusError 2..8, 13 errno values, errors.New, custom types) returned from EVERY return site (Fileread / Filewrite / OpenFile / Filelist at open; ReadAt, WriteAt, ListAt mid-transfer; Filelist and Lstat per method and their one-slot ListAt with 0/1 entries; Readlink and RealPath listers; StatVFS; PosixRename; Filecmd per method incl. Fsetstat; Close of each object kind), with all optional interfaces and with none, raw and through the Client, expected kind by the ERROR RULE; random multi-handle sessions; non-trivial = a short count, an error, or a read above 32768"

func c10rS(s string) string { return lib10Hex(s) }

var c10rRepErrs = []string{"", "EOF", "W(EOF)", "X", "NX", "P(E13)", "F5", "F1", "P(EOF)", "S(F8)"}

// c10rSystematic enumerates the scenario families.
func c10rSystematic(thorough bool) []c10rScn {
	var out []c10rScn
	// the families below vary the server configuration with the single-wrapper part of the error product in the
	// quick tier and with all of it in the thorough tier; family R8 takes the whole product to every return site
	level := 1
	if thorough {
		level = 2
	}
	terms := c10rTerms(level)
	add := func(name, via string, cfg c10rCfg, steps []c10rStep) {
		if via == "client" {
			var keep []c10rStep
			for _, s := range steps {
				if c10rClientOK(s) {
					keep = append(keep, s)
				}
			}
			steps = keep
		}
		// chunk long step lists so that scenarios run in parallel and replays stay short (the opening steps are repeated)
		const chunk = 120
		var head []c10rStep
		for len(steps) > 0 && (steps[0].Op == "open" || steps[0].Op == "opendir") {
			head = append(head, steps[0])
			steps = steps[1:]
		}
		for first := true; first || len(steps) > 0; first = false {
			n := min(chunk, len(steps))
			out = append(out, c10rScn{Sect: "ret", Via: via, Cfg: cfg, Name: name, Steps: append(append([]c10rStep(nil), head...), steps[:n]...)})
			steps = steps[n:]
		}
	}
	both := func(name string, cfg c10rCfg, steps []c10rStep) {
		add(name, "raw", cfg, steps)
		add(name, "client", cfg, steps)
	}
	allIf := c10rCfg{OpenFW: true, Lstat: true, RealPath: 1, Readlink: true, PosixRename: true, StatVFS: true}

	// R1: every open-flag word x OpenFileWriter x what the open handler returns; the handle is then used as each kind
	for _, ofw := range []bool{false, true} {
		for _, term := range []string{"", "X", "NX"} {
			var raws, clis []c10rStep
			for pf := uint32(0); pf < 64; pf++ {
				s := []c10rStep{
					{Op: "open", Slot: 1, P: c10rS(fmt.Sprintf("o/../f%d", pf)), Pflags: pf, HRet: c10rRet{Err: term}},
					{Op: "read", Slot: 1, Off: 3, Len: 9, ORet: []c10rRet{{N: "half", Err: "EOF", Salt: int(pf)}}},
					{Op: "write", Slot: 1, Off: 5, Len: 6, Salt: int(pf), ORet: []c10rRet{{}}},
					{Op: "fstat", Slot: 1, ORet: []c10rRet{{Count: 1, Salt: int(pf)}}},
					{Op: "close", Slot: 1},
				}
				raws = append(raws, s...)
				clis = append(clis, s...)
			}
			cfg := c10rCfg{OpenFW: ofw, Obj: 1}
			for i := 0; i < len(raws); i += 40 {
				add("open-table", "raw", cfg, raws[i:min(i+40, len(raws))])
				add("open-table", "client", cfg, clis[i:min(i+40, len(clis))])
			}
		}
	}

	// R2: ReadAt returns, per handle kind x allocator x max-tx-packet x request length
	lens := []uint32{0, 1, 7, 4096, 32767, 32768, 32769, 65536, 262144, 300000, 0xFFFFFFFF}
	offs := []uint64{0, 1, 1 << 31, 1<<40 + 3}
	type kindT struct {
		name string
		pf   uint32
		ofw  bool
	}
	kinds := []kindT{{"Get", 1, true}, {"Open", 3, true}, {"Open", 1 | 8 | 16, true}, {"Put(rw,no-OpenFileWriter)", 3, false}, {"Put", 2, true}}
	type srvT struct {
		alloc bool
		maxTx uint32
	}
	srvs := []srvT{{false, 0}, {true, 0}, {false, 65536}, {true, 300000}}
	if thorough {
		srvs = append(srvs, srvT{true, 65536}, srvT{false, 300000}, srvT{false, 1 << 20})
	}
	for _, k := range kinds {
		for _, sv := range srvs {
			for obj := 0; obj < 4; obj += 3 {
				cfg := c10rCfg{OpenFW: k.ofw, Alloc: sv.alloc, MaxTx: sv.maxTx, Obj: obj}
				steps := []c10rStep{{Op: "open", Slot: 1, P: c10rS("/r"), Pflags: k.pf}}
				salt := 0
				for _, l := range lens {
					for _, n := range []string{"full", "allbut1", "half", "one", "zero"} {
						for _, e := range c10rRepErrs {
							if l > 65536 && !thorough && (e == "F5" || e == "P(E13)" || e == "F1" || e == "S(F8)") {
								continue
							}
							salt++
							steps = append(steps, c10rStep{Op: "read", Slot: 1, Off: offs[salt%len(offs)], Len: l, ORet: []c10rRet{{N: n, Err: e, Salt: salt}}})
						}
					}
				}
				add("read-returns/"+k.name, "raw", cfg, steps)
				// the Client leg: one READ per ReadAt call needs len <= the client's packet size
				ccfg := cfg
				ccfg.CliMaxPkt = 65536
				var cs []c10rStep
				for _, s := range steps {
					if s.Op != "read" || s.Len <= 65536 {
						cs = append(cs, s)
					}
				}
				add("read-returns/"+k.name, "client", ccfg, cs)
			}
		}
		// every error term x every count
		steps := []c10rStep{{Op: "open", Slot: 1, P: c10rS("r2"), Pflags: k.pf}}
		for i, e := range terms {
			for _, n := range []string{"full", "half", "zero"} {
				steps = append(steps, c10rStep{Op: "read", Slot: 1, Off: uint64(i), Len: 7, ORet: []c10rRet{{N: n, Err: e, Salt: i}}})
			}
		}
		both("read-errors/"+k.name, c10rCfg{OpenFW: k.ofw}, steps)
	}

	// R3: WriteAt returns
	for _, k := range []kindT{{"Put", 2, true}, {"Put", 2 | 8 | 16, false}, {"Put(rw,no-OpenFileWriter)", 3, false}, {"Open", 3, true}, {"Open", 1 | 4, true}, {"Get", 1, true}} {
		for _, alloc := range []bool{false, true} {
			steps := []c10rStep{{Op: "open", Slot: 1, P: c10rS("w"), Pflags: k.pf}}
			salt := 0
			for _, l := range []uint32{0, 1, 7, 32768, 40000} {
				for _, n := range []string{"full", "allbut1", "zero"} {
					es := c10rRepErrs
					if l == 7 {
						es = append([]string{""}, terms...)
					}
					for _, e := range es {
						salt++
						steps = append(steps, c10rStep{Op: "write", Slot: 1, Off: offs[salt%len(offs)], Len: l, Salt: salt, ORet: []c10rRet{{N: n, Err: e}}})
					}
				}
			}
			cfg := c10rCfg{OpenFW: k.ofw, Alloc: alloc, Obj: 2, CliMaxPkt: 65536}
			both("write-returns/"+k.name, cfg, steps)
		}
	}

	// R4: ListAt batches of a directory handle
	for _, cfg := range []c10rCfg{{}, {NameLookup: true, Obj: 1}, {Lstat: true, RealPath: 1, Readlink: true, NameLookup: true, Obj: 3, Start: "/home/u"}} {
		steps := []c10rStep{{Op: "opendir", Slot: 2, P: c10rS("d//x/..")}}
		var cl []c10rStep
		salt := 0
		for _, cnt := range []int{0, 1, 2, 99, 100, 101, 250} {
			for _, e := range append([]string{"E2", "L(PERM)", "S(E1)"}, c10rRepErrs...) {
				for info := 0; info < 4; info++ {
					if info > 0 && cnt > 2 && !thorough {
						continue
					}
					salt++
					steps = append(steps, c10rStep{Op: "readdir", Slot: 2, ORet: []c10rRet{{Count: cnt, Err: e, Salt: salt, Info: info, Names: salt % 3}}})
					names := []int{0, 2}[salt%2]
					first := c10rRet{Count: cnt, Err: e, Salt: salt, Info: info, Names: names}
					cl = append(cl,
						c10rStep{Op: "listdir", P: c10rS("d"), ORet: []c10rRet{first}},
						c10rStep{Op: "listdir", P: c10rS("d"), ORet: []c10rRet{{Count: 3, Salt: salt + 1000, Names: names}, {Count: 0}, first}})
				}
			}
		}
		for i, e := range terms {
			steps = append(steps, c10rStep{Op: "opendir", Slot: 3, P: c10rS("d2"), HRet: c10rRet{Err: e}},
				c10rStep{Op: "readdir", Slot: 2, ORet: []c10rRet{{Count: 0, Err: e, Salt: i}}},
				c10rStep{Op: "readdir", Slot: 2, ORet: []c10rRet{{Count: 2, Err: e, Salt: i, Names: i % 3}}})
			cl = append(cl, c10rStep{Op: "listdir", P: c10rS("d2"), HRet: c10rRet{Err: e}},
				c10rStep{Op: "listdir", P: c10rS("d3"), ORet: []c10rRet{{Count: 0, Err: e, Salt: i}}},
				c10rStep{Op: "listdir", P: c10rS("d3"), ORet: []c10rRet{{Count: 2, Salt: i, Names: 2 * (i % 2)}, {Count: 0, Err: e}}})
		}
		steps = append(steps, c10rStep{Op: "read", Slot: 2, Len: 4}, c10rStep{Op: "write", Slot: 2, Len: 4}, c10rStep{Op: "close", Slot: 2, CRet: c10rRet{Err: "X"}}, c10rStep{Op: "readdir", Slot: 2})
		add("listat-returns", "raw", cfg, steps)
		add("listat-returns", "client", cfg, cl)
	}

	// R5: one-slot listers (Stat, Lstat, Fstat, Readlink without ReadlinkFileLister) holding 0 / 1 / 2 entries
	for _, cfg := range []c10rCfg{{}, {Lstat: true}, {Readlink: true, OpenFW: true, Obj: 1}, {Lstat: true, Readlink: true, Start: "rel/start", Obj: 3}} {
		steps := []c10rStep{
			{Op: "open", Slot: 1, P: c10rS("s/get"), Pflags: 1}, {Op: "open", Slot: 2, P: c10rS("/s/put/"), Pflags: 2 | 8},
			{Op: "open", Slot: 3, P: c10rS("./s/rw"), Pflags: 3}, {Op: "opendir", Slot: 4, P: c10rS("s/dir")}}
		salt := 0
		for _, op := range []string{"stat", "lstat", "readlink", "fstat"} {
			for _, cnt := range []int{0, 1, 2} {
				for _, e := range append([]string{""}, terms...) {
					salt++
					st := c10rStep{Op: op, P: c10rS(fmt.Sprintf("q%d/./n", salt%5)), Slot: 1 + salt%4, HRet: c10rRet{Str: c10rS(fmt.Sprintf("../t\xff %d", salt))},
						ORet: []c10rRet{{Count: cnt, Err: e, Salt: salt, Info: salt % 4, Names: 1}}}
					if op == "readlink" && cfg.Readlink {
						st.HRet.Err = e
					}
					steps = append(steps, st)
				}
			}
			for _, e := range terms { // the handler itself refuses
				if op == "readlink" && cfg.Readlink {
					continue
				}
				steps = append(steps, c10rStep{Op: op, P: c10rS("refused"), Slot: 1 + salt%4, HRet: c10rRet{Err: e}})
			}
		}
		both("stat-like", cfg, steps)
	}

	// R6: commands, real-path, statvfs, posix-rename, link text
	strs := []string{"/abs/x", "rel", "", "..", "a/../../b", "\xff\xfe", "sp ace", "//double//"}
	for _, cfg := range []c10rCfg{{}, allIf, {RealPath: 2, Start: "/home/u"}, {RealPath: 1, PosixRename: true, Start: "/x/../y/"}, {StatVFS: true, Readlink: true, RealPath: 2}} {
		var steps []c10rStep
		for i, e := range append([]string{""}, terms...) {
			s := strs[i%len(strs)]
			t := strs[(i/2+3)%len(strs)]
			steps = append(steps,
				c10rStep{Op: "realpath", P: c10rS(s), HRet: c10rRet{Err: e, Str: c10rS(t)}},
				c10rStep{Op: "readlink", P: c10rS(s), HRet: c10rRet{Err: e, Str: c10rS(t)}, ORet: []c10rRet{{Count: 1, Salt: i, Names: 1}}},
				c10rStep{Op: "statvfs", P: c10rS(s), HRet: c10rRet{Err: e, Salt: i}},
				c10rStep{Op: "posixrename", P: c10rS(s), P2: c10rS(t), HRet: c10rRet{Err: e}},
				c10rStep{Op: "rename", P: c10rS(s), P2: c10rS(t), HRet: c10rRet{Err: e}},
				c10rStep{Op: "link", P: c10rS(s), P2: c10rS(t), HRet: c10rRet{Err: e}},
				c10rStep{Op: "symlink", P: c10rS(t), P2: c10rS(s), HRet: c10rRet{Err: e}},
				c10rStep{Op: "mkdir", P: c10rS(s), HRet: c10rRet{Err: e}},
				c10rStep{Op: "rmdir", P: c10rS(s), HRet: c10rRet{Err: e}},
				c10rStep{Op: "remove", P: c10rS(s), HRet: c10rRet{Err: e}},
				c10rStep{Op: "setstat", P: c10rS(s), AFlags: wire.APerm, Attrs: fmt.Sprintf("%08x", 0o600+i%8), HRet: c10rRet{Err: e}},
				c10rStep{Op: "setstat", P: c10rS(s), AFlags: wire.ASize, Attrs: fmt.Sprintf("%016x", 1<<33+i), HRet: c10rRet{Err: e}},
				c10rStep{Op: "setstat", P: c10rS(s), AFlags: wire.ASize | wire.AUIDGID | wire.APerm | wire.ATime, Attrs: fmt.Sprintf("%016x%08x%08x%08x%08x%08x", i, 1, 2, 0o644, 3, 4), HRet: c10rRet{Err: e}},
				c10rStep{Op: "setstat", P: c10rS(s), HRet: c10rRet{Err: e}},
			)
		}
		both("commands", cfg, steps)
	}

	// R7: FSETSTAT and CLOSE on every handle kind, Close() errors of objects that are io.Closers
	for _, obj := range []int{0, 1, 3} {
		cfg := c10rCfg{OpenFW: true, Obj: obj}
		var steps []c10rStep
		for i, e := range append([]string{""}, terms...) {
			for j, k := range []c10rStep{{Op: "open", Pflags: 1}, {Op: "open", Pflags: 2}, {Op: "open", Pflags: 3}, {Op: "opendir"}} {
				k.Slot, k.P = 1, c10rS(fmt.Sprintf("h%d/%d", i, j))
				steps = append(steps, k,
					c10rStep{Op: "fsetstat", Slot: 1, AFlags: wire.APerm, Attrs: fmt.Sprintf("%08x", 0o640), HRet: c10rRet{Err: e}},
					c10rStep{Op: "fsetstat", Slot: 1, AFlags: wire.ASize, Attrs: fmt.Sprintf("%016x", 77+i), HRet: c10rRet{Err: e}},
					c10rStep{Op: "close", Slot: 1, CRet: c10rRet{Err: e}},
					c10rStep{Op: "close", Slot: 1})
			}
		}
		for i := 0; i < len(steps); i += 100 {
			both("close-fsetstat", cfg, steps[i:min(i+100, len(steps))])
		}
	}

	// R8: the whole product wrapper x inner error, returned from EVERY place a handler or a handler-returned object
	// can return an error: Fileread / Filewrite / OpenFile, Filelist(List) at open; ReadAt, WriteAt, ListAt on open
	// handles; Filelist / Lstat and their one-slot ListAt per method (Stat, Lstat, Readlink, Fstat); Readlink and
	// RealPath listers; StatVFS; PosixRename; Filecmd per method; Close() of every kind of object.
	// Twice: all optional interfaces present, and none (the fallbacks Lstat->Stat, PosixRename->Rename,
	// Readlink through Filelist, read-write open through Filewrite).
	all := c10rTerms(2)
	for _, cfg := range []c10rCfg{{OpenFW: true, Lstat: true, RealPath: 1, Readlink: true, PosixRename: true, StatVFS: true, Obj: 3}, {Obj: 1}} {
		list := all
		head := []c10rStep{
			{Op: "open", Slot: 1, P: c10rS("p/get"), Pflags: 1}, {Op: "open", Slot: 2, P: c10rS("/p/put"), Pflags: 2 | 8 | 16},
			{Op: "open", Slot: 3, P: c10rS("p/rw"), Pflags: 3}, {Op: "opendir", Slot: 4, P: c10rS("p/dir")}}
		const perScn = 3
		for i := 0; i < len(list); i += perScn {
			steps := append([]c10rStep(nil), head...)
			for j := i; j < min(i+perScn, len(list)); j++ {
				e := list[j]
				er := c10rRet{Err: e}
				one := func(cnt int) []c10rRet { return []c10rRet{{Count: cnt, Err: e, Salt: j, Info: j % 4, Names: 1}} }
				str := c10rS(fmt.Sprintf("../t %d", j))
				steps = append(steps,
					// at open
					c10rStep{Op: "open", Slot: 5, P: c10rS("o/r"), Pflags: 1, HRet: er},
					c10rStep{Op: "open", Slot: 5, P: c10rS("o/w"), Pflags: 2 | 8, HRet: er},
					c10rStep{Op: "open", Slot: 5, P: c10rS("o/rw"), Pflags: 3, HRet: er},
					c10rStep{Op: "open", Slot: 5, P: c10rS("o/a"), Pflags: 1 | 4, HRet: er},
					c10rStep{Op: "opendir", Slot: 5, P: c10rS("o/d"), HRet: er},
					// mid-transfer
					c10rStep{Op: "read", Slot: 1, Off: uint64(j), Len: 9, ORet: []c10rRet{{N: "zero", Err: e}}},
					c10rStep{Op: "read", Slot: 3, Off: uint64(j) << 20, Len: 11, ORet: []c10rRet{{N: "half", Err: e, Salt: j}}},
					c10rStep{Op: "write", Slot: 2, Off: uint64(j), Len: 7, Salt: j, ORet: []c10rRet{{N: "zero", Err: e}}},
					c10rStep{Op: "write", Slot: 3, Off: 3, Len: 5, Salt: j, ORet: []c10rRet{{N: "allbut1", Err: e}}},
					c10rStep{Op: "readdir", Slot: 4, ORet: []c10rRet{{Count: 0, Err: e}}},
					c10rStep{Op: "readdir", Slot: 4, ORet: []c10rRet{{Count: 2, Err: e, Salt: j}}},
					c10rStep{Op: "listdir", P: c10rS("ld"), HRet: er},
					c10rStep{Op: "listdir", P: c10rS("ld"), ORet: []c10rRet{{Count: 2, Salt: j}, {Count: 0, Err: e}}},
					// one-slot listers, per method
					c10rStep{Op: "stat", P: c10rS("s"), HRet: er},
					c10rStep{Op: "stat", P: c10rS("s"), ORet: one(1)},
					c10rStep{Op: "stat", P: c10rS("s"), ORet: one(0)},
					c10rStep{Op: "lstat", P: c10rS("s"), HRet: er},
					c10rStep{Op: "lstat", P: c10rS("s"), ORet: one(j % 2)},
					c10rStep{Op: "fstat", Slot: 1 + j%4, HRet: er},
					c10rStep{Op: "fstat", Slot: 1 + (j+1)%4, ORet: one((j + 1) % 2)},
					c10rStep{Op: "readlink", P: c10rS("l"), HRet: c10rRet{Err: e, Str: str}, ORet: one(1)},
					c10rStep{Op: "readlink", P: c10rS("l"), HRet: c10rRet{Str: str}, ORet: one(j % 2)},
					// the other handler interfaces
					c10rStep{Op: "realpath", P: c10rS("rp"), HRet: c10rRet{Err: e, Str: str}},
					c10rStep{Op: "statvfs", P: c10rS("v"), HRet: c10rRet{Err: e, Salt: j}},
					c10rStep{Op: "posixrename", P: c10rS("a"), P2: c10rS("b"), HRet: er},
					// Filecmd per method
					c10rStep{Op: "rename", P: c10rS("a"), P2: c10rS("b"), HRet: er},
					c10rStep{Op: "link", P: c10rS("a"), P2: c10rS("b"), HRet: er},
					c10rStep{Op: "symlink", P: c10rS("../t"), P2: c10rS("b"), HRet: er},
					c10rStep{Op: "mkdir", P: c10rS("a"), HRet: er},
					c10rStep{Op: "rmdir", P: c10rS("a"), HRet: er},
					c10rStep{Op: "remove", P: c10rS("a"), HRet: er},
					c10rStep{Op: "setstat", P: c10rS("a"), AFlags: wire.APerm, Attrs: fmt.Sprintf("%08x", 0o600+j%8), HRet: er},
					c10rStep{Op: "fsetstat", Slot: 1 + j%4, AFlags: wire.ASize, Attrs: fmt.Sprintf("%016x", 100+j), HRet: er},
				)
				// Close() of each kind of object
				opener := []c10rStep{{Op: "open", Pflags: 1}, {Op: "open", Pflags: 2 | 8}, {Op: "open", Pflags: 3}, {Op: "opendir"}}[j%4]
				opener.Slot, opener.P = 6, c10rS("c/x")
				steps = append(steps, opener, c10rStep{Op: "close", Slot: 6, CRet: er})
			}
			var rawSteps []c10rStep
			for _, st := range steps {
				if st.Op != "listdir" { // Client.ReadDir is a composite of OPENDIR / READDIR / CLOSE
					rawSteps = append(rawSteps, st)
				}
			}
			add("error-product", "raw", cfg, rawSteps)
			add("error-product", "client", cfg, steps)
		}
	}
	return out
}

// c10rRandom: multi-handle sessions with random configuration and returns.
func c10rRandom(rng *rand.Rand, n int) []c10rScn {
	terms := c10rTerms(2)
	var out []c10rScn
	pick := func(l []string) string { return l[rng.Intn(len(l))] }
	term := func() string {
		switch rng.Intn(4) {
		case 0:
			return pick(terms)
		case 1:
			return pick(c10rRepErrs)
		}
		return ""
	}
	paths := []string{"a", "/a/b", "", ".", "..", "x/../y", "//z//", "\xffq", "long/" + fmt.Sprint(rng.Int63())}
	for i := 0; i < n; i++ {
		cfg := c10rCfg{OpenFW: rng.Intn(3) > 0, Lstat: rng.Intn(2) == 0, RealPath: rng.Intn(3), Readlink: rng.Intn(2) == 0, PosixRename: rng.Intn(2) == 0,
			StatVFS: rng.Intn(2) == 0, Obj: rng.Intn(4), Alloc: rng.Intn(2) == 0, CliMaxPkt: 65536}
		cfg.MaxTx = []uint32{0, 0, 40000, 65536, 262144, 300000}[rng.Intn(6)]
		cfg.Start = []string{"", "", "/", "/srv/data", "rel", "/a/../b/"}[rng.Intn(6)]
		via := []string{"raw", "client"}[i%2]
		var steps []c10rStep
		open := map[int]bool{}
		for j := 0; j < 30; j++ {
			slot := 1 + rng.Intn(4)
			var st c10rStep
			switch k := rng.Intn(20); {
			case k < 3 || len(open) == 0 && k < 8:
				st = c10rStep{Op: "open", Slot: slot, P: c10rS(pick(paths)), Pflags: []uint32{1, 2, 3, 3, 3, 1 | 8, 2 | 8 | 16, 3 | 8, 1 | 2 | 4, 26, 58, 35}[rng.Intn(12)], HRet: c10rRet{Err: []string{"", "", "", "", "X", "NX"}[rng.Intn(6)]}}
				open[slot] = true
			case k == 3 && via == "raw":
				st = c10rStep{Op: "opendir", Slot: slot, P: c10rS(pick(paths))}
				open[slot] = true
			case k < 10:
				l := []uint32{0, 1, 5, 100, 4096, 32768, 32769, 50000, 65536, 100000, 300000}[rng.Intn(11)]
				if via == "client" {
					l = min(l, 65536)
				}
				st = c10rStep{Op: "read", Slot: slot, Off: uint64(rng.Intn(1 << 20)), Len: l, ORet: []c10rRet{{N: pick([]string{"full", "full", "allbut1", "half", "one", "zero"}), Err: term(), Salt: rng.Intn(1000)}}}
			case k < 13:
				st = c10rStep{Op: "write", Slot: slot, Off: uint64(rng.Intn(1 << 20)), Len: []uint32{0, 1, 9, 5000, 32768, 60000}[rng.Intn(6)], Salt: rng.Intn(1000), ORet: []c10rRet{{N: pick([]string{"full", "full", "half", "zero"}), Err: term()}}}
			case k == 13:
				st = c10rStep{Op: "readdir", Slot: slot, ORet: []c10rRet{{Count: []int{0, 1, 3, 100, 130}[rng.Intn(5)], Err: term(), Salt: rng.Intn(1000), Info: rng.Intn(4), Names: rng.Intn(3)}}}
			case k == 14:
				st = c10rStep{Op: "fstat", Slot: slot, HRet: c10rRet{Err: []string{"", "", "PERM"}[rng.Intn(3)]}, ORet: []c10rRet{{Count: rng.Intn(3), Err: term(), Salt: rng.Intn(1000), Info: rng.Intn(4)}}}
			case k == 15:
				st = c10rStep{Op: "close", Slot: slot, CRet: c10rRet{Err: term()}}
				delete(open, slot)
			case k == 16:
				st = c10rStep{Op: pick([]string{"stat", "lstat", "readlink"}), P: c10rS(pick(paths)), HRet: c10rRet{Str: c10rS(pick(paths))}, ORet: []c10rRet{{Count: rng.Intn(3), Err: term(), Salt: rng.Intn(1000), Info: rng.Intn(4), Names: 1}}}
				if st.Op == "readlink" && cfg.Readlink {
					st.HRet.Err = term()
				}
			case k == 17:
				st = c10rStep{Op: pick([]string{"realpath", "statvfs", "posixrename", "rename", "link", "symlink", "mkdir", "rmdir", "remove"}), P: c10rS(pick(paths)), P2: c10rS(pick(paths)), HRet: c10rRet{Err: term(), Str: c10rS(pick(paths)), Salt: rng.Intn(1000)}}
			case k == 18:
				st = c10rStep{Op: pick([]string{"setstat", "fsetstat"}), Slot: slot, P: c10rS(pick(paths)), AFlags: wire.APerm, Attrs: fmt.Sprintf("%08x", rng.Intn(0o1000)), HRet: c10rRet{Err: term()}}
			default:
				st = c10rStep{Op: "listdir", P: c10rS(pick(paths)), HRet: c10rRet{Err: []string{"", "", "", "E13"}[rng.Intn(4)]}, ORet: []c10rRet{{Count: rng.Intn(4), Salt: rng.Intn(1000), Names: 2 * rng.Intn(2)}, {Count: []int{0, 2, 100, 120}[rng.Intn(4)], Err: pick([]string{"", "EOF", "X", "PERM", "F8"}), Salt: rng.Intn(1000), Info: rng.Intn(4)}}}
				if via == "raw" {
					continue
				}
			}
			if via == "client" && !c10rClientOK(st) {
				continue
			}
			steps = append(steps, st)
		}
		out = append(out, c10rScn{Sect: "ret", Via: via, Cfg: cfg, Name: "random", Steps: steps})
	}
	return out
}

// checkC10Ret runs section (d). With a replay input of this section only that scenario is run.
func checkC10Ret(c *lib.Ctx, only *c10rScn) {
	r := c.R
	var scns []c10rScn
	if only != nil {
		scns = []c10rScn{*only}
	} else {
		thorough := c.Tier == "thorough"
		scns = c10rSystematic(thorough)
		n := 1500
		if thorough {
			n = 60000
		}
		scns = append(scns, c10rRandom(c.Rand, n)...)
	}
	raws := make([]json.RawMessage, len(scns))
	for i, s := range scns {
		raws[i], _ = json.Marshal(s)
	}
	workers := max(2, min(runtime.NumCPU(), 16))
	results, deaths, err := cliRunPoolC("c10ret", nil, raws, workers, 120*time.Second, nil, func(i int) string { return "c10ret/" + scns[i].Via })
	if err != nil {
		r.Fail(lib.Failure{Kind: "tie", Key: "ret/child", What: "cannot run child processes: " + err.Error()})
		return
	}
	ambig := 0
	// dies: does this scenario kill a fresh child?
	dies := func(s c10rScn) bool {
		b, _ := json.Marshal(s)
		_, ds, err := cliRunPool("c10ret", nil, []json.RawMessage{b}, 1, 120*time.Second, nil)
		return err == nil && ds[0] != nil && ds[0] != cliNotRun
	}
	minimised := map[string]int{}
	for i, s := range scns {
		if deaths[i] == cliNotRun {
			continue
		}
		if d := deaths[i]; d != nil {
			if minimised[d.Why+d.Site] < 3 && only == nil && len(s.Steps) > 2 && d.Why != "timeout" && !lib.Stopped("c10ret/"+s.Via) {
				// shortest dying prefix (bisection), then only the step that opened the handle + the last step
				minimised[d.Why+d.Site]++
				lo, hi := 1, len(s.Steps) // invariant: prefix of length hi dies
				for lo < hi {
					mid := (lo + hi) / 2
					if dies(c10rPrefix(s, mid-1)) {
						hi = mid
					} else {
						lo = mid + 1
					}
				}
				if pre := c10rPrefix(s, hi-1); hi == len(s.Steps) || dies(pre) {
					s = pre
					if small := c10rSmall(s, hi-1); len(small.Steps) < len(s.Steps) && dies(small) {
						s = small
					}
				}
			}
			key := "ret/server-died/" + d.Why
			if d.Site != "" {
				key += "/" + d.Site
			}
			r.Fail(lib.Failure{Kind: "oracle", Key: key, What: fmt.Sprintf("the process running the request server died (%s) in %s: %s", d.Why, d.Site, d.Head), Input: s, Expected: "every request is answered", Actual: d})
			continue
		}
		if results[i] == nil {
			r.Fail(lib.Failure{Kind: "tie", Key: "ret/no-result", What: "no result for scenario", Input: s})
			continue
		}
		var res c10rRes
		if err := json.Unmarshal(results[i], &res); err != nil {
			r.Fail(lib.Failure{Kind: "tie", Key: "ret/bad-result", What: err.Error(), Input: s})
			continue
		}
		if res.Tie != "" {
			r.Fail(lib.Failure{Kind: "tie", Key: "ret/setup", What: res.Tie, Input: s})
			continue
		}
		for _, t := range res.Cases {
			if t[0] == '!' {
				r.Case(t[1:], true)
			} else {
				r.Case(t, false)
			}
		}
		for k, v := range res.Hist {
			r.HistAdd(k, v)
		}
		r.HistAdd("ret-scenarios/"+s.Via+"/"+s.Name, 1)
		ambig += res.Ambig
		for _, f := range res.Fails {
			r.Fail(lib.Failure{Kind: "oracle", Key: f.Key, What: f.What + " [" + s.Via + ", " + s.Name + "]", Input: f.Min, Expected: f.Expected, Actual: f.Actual})
		}
		for _, sm := range res.Samples {
			if len(r.Samples) < 10 {
				r.Sample(sm)
			}
		}
	}
	if ambig > 0 {
		r.Note("ret: %d Client.ReadDir cases with a wrapped end-of-file next to entries were not judged (both readings allowed)", ambig)
	}
}
