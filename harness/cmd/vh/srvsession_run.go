package main

// Shared by C07 and C11: a real server (either kind) over in-memory pipes with full control
// of both directions (ssStartTr: as one connection whose Close ends both, as two independent
// streams of which Close ends the server's output only, or with the whole input in a
// bytes.Reader), counting in-memory handlers for the request server, an independent
// strict request parser ("judge"), a reply/handle tracker, and fd / goroutine scans.

import (
	"bytes"
	"context"
	"crypto/sha256"
	"encoding/binary"
	"errors"
	"fmt"
	"io"
	"os"
	"path"
	"path/filepath"
	"regexp"
	"runtime"
	"sort"
	"strconv"
	"strings"
	"sync"
	"sync/atomic"
	"syscall"
	"time"
	"verifharness/peers"

	"github.com/pkg/sftp"

	"verifharness/wire"
)

// ---------- findings ----------

type ssFinding struct {
	Key      string `json:"key"`
	What     string `json:"what"`
	Expected string `json:"expected,omitempty"`
	Actual   string `json:"actual,omitempty"`
}

// ---------- transport ----------

type ssRWC struct {
	io.Reader
	io.Writer
	close func()
}

func (r ssRWC) Close() error { r.close(); return nil }

type ssSrv struct {
	cfg      ssCfg
	toSrv    *io.PipeWriter
	c2sR     *io.PipeReader
	fromSrv  *io.PipeReader
	s2cW     *io.PipeWriter
	frames   chan wire.Pkt
	done     chan struct{}
	serveErr error
	fs       *cntFS
	dbg      *ssDbgBuf // os + cfg.Debug: what the server wrote to its debug stream
	OS       *sftp.Server
	RS       *sftp.RequestServer
	// hung is closed when the server calls Close on the transport it was given (it hangs up)
	hung     chan struct{}
	hungOnce sync.Once
	// stall: while non-nil the read loop takes no further frame from the server's output
	stallMu sync.Mutex
	stallCh chan struct{}
	// taken counts the bytes the server has read from its input ("" and "split" transports); takenAt, when set,
	// is closed once the count reaches takenWant
	taken     atomic.Int64
	takenMu   sync.Mutex
	takenWant int64
	takenAt   chan struct{}
}

// ssCountR is the server's input with the bytes it has taken counted.
type ssCountR struct {
	r io.Reader
	s *ssSrv
}

func (c ssCountR) Read(p []byte) (int, error) {
	n, err := c.r.Read(p)
	if n > 0 {
		t := c.s.taken.Add(int64(n))
		c.s.takenMu.Lock()
		if c.s.takenAt != nil && t >= c.s.takenWant {
			close(c.s.takenAt)
			c.s.takenAt = nil
		}
		c.s.takenMu.Unlock()
	}
	return n, err
}

// TakenAt returns a channel that is closed once the server has read n bytes of its input in all.
func (s *ssSrv) TakenAt(n int64) <-chan struct{} {
	ch := make(chan struct{})
	s.takenMu.Lock()
	defer s.takenMu.Unlock()
	if s.taken.Load() >= n {
		close(ch)
		return ch
	}
	s.takenWant, s.takenAt = n, ch
	return ch
}

func (s *ssSrv) markHung() { s.hungOnce.Do(func() { close(s.hung) }) }

// Stall makes the peer stop reading the server's output (the frame the read loop is in the middle of is still
// taken); Resume lets it read on.
func (s *ssSrv) Stall() {
	s.stallMu.Lock()
	if s.stallCh == nil {
		s.stallCh = make(chan struct{})
	}
	s.stallMu.Unlock()
}

func (s *ssSrv) Resume() {
	s.stallMu.Lock()
	if s.stallCh != nil {
		close(s.stallCh)
		s.stallCh = nil
	}
	s.stallMu.Unlock()
}

// ssDbgBuf is the writer handed to sftp.WithDebug.
type ssDbgBuf struct {
	mu sync.Mutex
	b  []byte
}

func (d *ssDbgBuf) Write(p []byte) (int, error) {
	d.mu.Lock()
	defer d.mu.Unlock()
	d.b = append(d.b, p...)
	return len(p), nil
}

func (d *ssDbgBuf) lines() []string {
	d.mu.Lock()
	defer d.mu.Unlock()
	var out []string
	for _, l := range strings.Split(string(d.b), "\n") {
		if l != "" {
			out = append(out, l)
		}
	}
	return out
}

var ssDbgQuoted = regexp.MustCompile(`"((?:[^"\\]|\\.)*)"`)

// ssDbgLeftOpen returns the handles the debug stream reports as left open (the first quoted string of
// every line that says "left open"), and the lines it could not read that way.
func ssDbgLeftOpen(lines []string) (handles []string, unread []string) {
	for _, l := range lines {
		if !strings.Contains(l, "left open") {
			unread = append(unread, l)
			continue
		}
		m := ssDbgQuoted.FindString(l)
		h, err := strconv.Unquote(m)
		if m == "" || err != nil {
			unread = append(unread, l)
			continue
		}
		handles = append(handles, h)
	}
	return handles, unread
}

var errSSTimeout = errors.New("timeout")

func ssStart(cfg ssCfg, tree string, fs *cntFS) (*ssSrv, error) {
	return ssStartTr(cfg, tree, fs, "", nil)
}

// ssTransports are the transports of ssStartTr (see ssMut.Tr).
var ssTransports = map[string]bool{"": true, "split": true, "buf": true}

// ssStartTr starts the server on the transport tr: "" — what the server is handed behaves like one connection
// (its Close ends both directions); "split" — reader and writer are independent pipes and Close ends the
// writer only (the read side survives, as with stdin / stdout); "buf" — the reader is a bytes.Reader over feed
// (the whole input, EOF after its last byte; Send / CloseInput have no meaning), the writer a separate pipe
// that Close ends.  The os-backed server reads through the containment guard on every transport.
func ssStartTr(cfg ssCfg, tree string, fs *cntFS, tr string, feed []byte) (*ssSrv, error) {
	if !ssTransports[tr] {
		return nil, errors.New("unknown transport " + strconv.Quote(tr))
	}
	c2sR, c2sW := io.Pipe()
	s2cR, s2cW := io.Pipe()
	s := &ssSrv{cfg: cfg, toSrv: c2sW, c2sR: c2sR, fromSrv: s2cR, s2cW: s2cW, fs: fs,
		frames: make(chan wire.Pkt, 1<<14), done: make(chan struct{}), hung: make(chan struct{})}
	rwc := ssRWC{Reader: ssCountR{c2sR, s}, Writer: s2cW, close: func() { s.markHung(); c2sR.Close(); s2cW.Close() }}
	switch tr {
	case "split":
		rwc.close = func() { s.markHung(); s2cW.Close() }
	case "buf":
		rwc.Reader = bytes.NewReader(append([]byte(nil), feed...))
		rwc.close = func() { s.markHung(); s2cW.Close() }
	}
	var serve func() error
	if cfg.Kind == "os" {
		var opts []sftp.ServerOption
		if cfg.Alloc {
			opts = append(opts, sftp.WithAllocator())
		}
		if cfg.WorkDir {
			opts = append(opts, sftp.WithServerWorkingDirectory(filepath.Join(tree, cfg.Start)))
		}
		if cfg.MaxTx != 0 {
			opts = append(opts, sftp.WithMaxTxPacket(cfg.MaxTx))
		}
		if cfg.RO {
			opts = append(opts, sftp.ReadOnly())
		}
		if cfg.Debug {
			s.dbg = &ssDbgBuf{}
			opts = append(opts, sftp.WithDebug(s.dbg))
		}
		srv, err := peers.NewOSServer(rwc, opts...)
		if err != nil {
			return nil, err
		}
		s.OS = srv
		serve = srv.Serve
	} else {
		var opts []sftp.RequestServerOption
		if cfg.Alloc {
			opts = append(opts, sftp.WithRSAllocator())
		}
		switch {
		case cfg.Start != "":
			opts = append(opts, sftp.WithStartDirectory(cfg.Start))
		case cfg.WorkDir:
			opts = append(opts, sftp.WithStartDirectory("/"))
		}
		if cfg.MaxTx != 0 {
			opts = append(opts, sftp.WithRSMaxTxPacket(cfg.MaxTx))
		}
		var h sftp.Handlers
		if cfg.InMem {
			h = sftp.InMemHandler()
		} else {
			h = cntHandlers(fs, cfg)
			if why := cntHandlersSelfTest(h, cfg); why != "" {
				return nil, errors.New("handler variant self-test: " + why)
			}
		}
		s.RS = sftp.NewRequestServer(rwc, h, opts...)
		serve = s.RS.Serve
	}
	go s.ssReadLoop()
	go s.ssServeLoop(serve)
	return s, nil
}

func (s *ssSrv) ssReadLoop() {
	defer close(s.frames)
	for {
		s.stallMu.Lock()
		g := s.stallCh
		s.stallMu.Unlock()
		if g != nil {
			<-g
		}
		p, err := wire.ReadFrame(s.fromSrv)
		if err != nil {
			io.Copy(io.Discard, s.fromSrv)
			return
		}
		s.frames <- p
	}
}

func (s *ssSrv) ssServeLoop(serve func() error) {
	err := serve()
	s.serveErr = err
	s.s2cW.Close() // the server side is finished: unblock our reader
	s.c2sR.Close() // … and any writer of ours still blocked on a server that stopped reading
	close(s.done)
}

// Send writes raw bytes; it returns early (with an error) when the server stops reading.
func (s *ssSrv) Send(b []byte) error {
	if len(b) == 0 {
		return nil
	}
	errc := make(chan error, 1)
	go func() { _, err := s.toSrv.Write(b); errc <- err }()
	select {
	case err := <-errc:
		return err
	case <-time.After(ssDlHang()):
		return errSSTimeout
	}
}

func (s *ssSrv) Recv(timeout time.Duration) (wire.Pkt, error) {
	select {
	case p, ok := <-s.frames:
		if !ok {
			return wire.Pkt{}, io.EOF
		}
		return p, nil
	case <-time.After(timeout):
		return wire.Pkt{}, errSSTimeout
	}
}

func (s *ssSrv) CloseInput() { s.toSrv.Close() }

// Break simulates a broken connection: reads fail with an error (not EOF) and writes fail.
func (s *ssSrv) Break() {
	e := errors.New("connection reset by peer")
	s.toSrv.CloseWithError(e)
	s.fromSrv.CloseWithError(e)
}

func (s *ssSrv) Wait(timeout time.Duration) bool {
	select {
	case <-s.done:
		return true
	case <-time.After(timeout):
		return false
	}
}

// Drain returns the frames still queued once the server's output has ended.
func (s *ssSrv) Drain() []wire.Pkt {
	var out []wire.Pkt
	for {
		p, err := s.Recv(5 * time.Second)
		if err != nil {
			return out
		}
		out = append(out, p)
	}
}

// ---------- scratch tree (os-backed) ----------

func ssMkTree(tree, kind, start string) error {
	os.RemoveAll(tree)
	tree = filepath.Join(tree, start) // the standard tree lives below the start directory
	if err := os.MkdirAll(tree, 0o755); err != nil {
		return err
	}
	if kind == "empty" {
		return nil
	}
	os.Mkdir(filepath.Join(tree, "d"), 0o755)
	os.Mkdir(filepath.Join(tree, "e"), 0o755)
	os.WriteFile(filepath.Join(tree, "a.txt"), []byte(ssATxt), 0o644)
	os.WriteFile(filepath.Join(tree, "b.bin"), ssData(4096), 0o644)
	os.WriteFile(filepath.Join(tree, "d", "x"), []byte("x"), 0o644)
	os.WriteFile(filepath.Join(tree, "d", "y"), []byte("yy"), 0o600)
	os.Symlink("a.txt", filepath.Join(tree, "ln"))
	return os.Symlink("d", filepath.Join(tree, "dl"))
}

const ssATxt = "hello world, this is a.txt\n"

// ssFDs lists the descriptors of this process that point into root.
func ssFDs(root string) []string {
	ents, err := os.ReadDir("/proc/self/fd")
	if err != nil {
		return []string{"ERR " + err.Error()}
	}
	var out []string
	for _, e := range ents {
		t, err := os.Readlink("/proc/self/fd/" + e.Name())
		if err == nil && strings.HasPrefix(t, root) {
			out = append(out, strings.TrimPrefix(t, root))
		}
	}
	sort.Strings(out)
	return out
}

// ssPkgGoroutines returns the stacks of goroutines that have a frame inside package sftp.
func ssPkgGoroutines() []string {
	buf := make([]byte, 1<<20)
	n := runtime.Stack(buf, true)
	var out []string
	for _, g := range strings.Split(string(buf[:n]), "\n\n") {
		if strings.Contains(g, "github.com/pkg/sftp.") {
			out = append(out, g)
		}
	}
	return out
}

// ssWaitQuiet polls until no package goroutine is left (up to max).
func ssWaitQuiet(max time.Duration) []string {
	dl := time.Now().Add(max)
	sleep := 200 * time.Microsecond
	for {
		g := ssPkgGoroutines()
		if len(g) == 0 || time.Now().After(dl) {
			return g
		}
		time.Sleep(sleep)
		if sleep < 20*time.Millisecond {
			sleep *= 2
		}
	}
}

// ---------- counting in-memory handlers (request server) ----------

type cntNode struct {
	dir  bool
	link string
	data []byte
	mode os.FileMode
}

type cntObj struct {
	fs           *cntFS
	ID           int
	Kind         string // reader writer rw lister statlister
	Path         string
	node         *cntNode
	ents         []os.FileInfo
	Closed       int
	TE           int
	Reads        int
	Writes       int
	Lists        int
	TEAfterClose bool
	HasClose     bool // the value handed to the server implements io.Closer (set from a type assertion on that value)
	HasTE        bool // … implements sftp.TransferError
	closeErr     bool // the first Close returns an error
	ctx          context.Context
}

type cntFS struct {
	closeErrPct  int
	closeErrSeed uint32
	// optional interfaces the handler OBJECTS do not implement (ssCfg.Without: closer, terr, alt)
	noCloser, noTE, alt bool

	// hold: while non-nil, ReadAt / WriteAt of the handler objects block (Hold / Release; bounded by the hang deadline)
	holdMu sync.Mutex
	holdCh chan struct{}

	mu    sync.Mutex
	nodes map[string]*cntNode
	calls []string
	objs  []*cntObj
	// contexts handed to open / opendir handler calls that returned an error (no object was created)
	failedOpen []context.Context
}

// openFailed records the context of an open / opendir handler call that is about to return err (f.mu held).
func (f *cntFS) openFailed(r *sftp.Request, err error) {
	if err != nil {
		f.failedOpen = append(f.failedOpen, r.Context())
	}
}

// failedOpenStates reports, for every failed open / opendir in call order, whether its context is cancelled now.
func (f *cntFS) failedOpenStates() []bool {
	f.mu.Lock()
	defer f.mu.Unlock()
	out := make([]bool, len(f.failedOpen))
	for i, c := range f.failedOpen {
		out[i] = c.Err() != nil
	}
	return out
}

// newCntFS builds the in-memory tree; the standard tree lives below start ("" = the root).
func newCntFS(kind, start string) *cntFS {
	f := &cntFS{nodes: map[string]*cntNode{"/": {dir: true, mode: 0o755}}}
	for p := start; p != "" && p != "/" && p != "."; p = path.Dir(p) {
		f.nodes[p] = &cntNode{dir: true, mode: 0o755}
	}
	if kind == "empty" {
		return f
	}
	f.nodes[start+"/d"] = &cntNode{dir: true, mode: 0o755}
	f.nodes[start+"/e"] = &cntNode{dir: true, mode: 0o755}
	f.nodes[start+"/a.txt"] = &cntNode{data: []byte(ssATxt), mode: 0o644}
	f.nodes[start+"/b.bin"] = &cntNode{data: ssData(4096), mode: 0o644}
	f.nodes[start+"/d/x"] = &cntNode{data: []byte("x"), mode: 0o644}
	f.nodes[start+"/d/y"] = &cntNode{data: []byte("yy"), mode: 0o600}
	f.nodes[start+"/ln"] = &cntNode{link: "a.txt", mode: 0o777}
	f.nodes[start+"/dl"] = &cntNode{link: "d", mode: 0o777}
	return f
}

func (f *cntFS) logf(format string, a ...any) { f.calls = append(f.calls, fmt.Sprintf(format, a...)) }

// resolve follows one level of symlink.
func (f *cntFS) resolve(p string) (string, *cntNode) {
	n := f.nodes[p]
	if n != nil && n.link != "" {
		t := n.link
		if !path.IsAbs(t) {
			t = path.Join(path.Dir(p), t)
		}
		return t, f.nodes[t]
	}
	return p, n
}

func (f *cntFS) parentOK(p string) bool {
	_, n := f.resolve(path.Dir(p))
	return n != nil && n.dir
}

func (f *cntFS) newObj(kind, p string, n *cntNode, r *sftp.Request) *cntObj {
	o := &cntObj{fs: f, ID: len(f.objs) + 1, Kind: kind, Path: p, node: n, ctx: r.Context()}
	if f.closeErrPct > 0 && kind != "statlister" {
		h := sha256.Sum256([]byte(fmt.Sprintf("close-err %d %d", f.closeErrSeed, o.ID)))
		o.closeErr = int(binary.BigEndian.Uint32(h[:4])%100) < f.closeErrPct
	}
	f.objs = append(f.objs, o)
	return o
}

var errCntHandler = errors.New("handler says no")

func (f *cntFS) Fileread(r *sftp.Request) (_ io.ReaderAt, err error) {
	f.mu.Lock()
	defer f.mu.Unlock()
	defer func() { f.openFailed(r, err) }()
	f.logf("Fileread %s %s pf=%d", r.Method, r.Filepath, r.Flags)
	if strings.Contains(r.Filepath, "err") {
		return nil, errCntHandler
	}
	_, n := f.resolve(r.Filepath)
	if n == nil {
		return nil, os.ErrNotExist
	}
	if n.dir {
		return nil, syscall.EISDIR
	}
	return f.reader(f.newObj("reader", r.Filepath, n, r)), nil
}

func (f *cntFS) openW(r *sftp.Request) (*cntNode, error) {
	if strings.Contains(r.Filepath, "err") {
		return nil, errCntHandler
	}
	pf := r.Pflags()
	p, n := f.resolve(r.Filepath)
	switch {
	case n == nil && !pf.Creat:
		return nil, os.ErrNotExist
	case n == nil:
		if !f.parentOK(p) {
			return nil, os.ErrNotExist
		}
		n = &cntNode{mode: 0o644}
		f.nodes[p] = n
	case n.dir:
		return nil, syscall.EISDIR
	case pf.Creat && pf.Excl:
		return nil, os.ErrExist
	}
	if pf.Trunc {
		n.data = nil
	}
	return n, nil
}

func (f *cntFS) Filewrite(r *sftp.Request) (_ io.WriterAt, err error) {
	f.mu.Lock()
	defer f.mu.Unlock()
	defer func() { f.openFailed(r, err) }()
	f.logf("Filewrite %s %s pf=%d attrs=%x", r.Method, r.Filepath, r.Flags, r.Attrs)
	n, err := f.openW(r)
	if err != nil {
		return nil, err
	}
	return f.writer(f.newObj("writer", r.Filepath, n, r)), nil
}

func (f *cntFS) OpenFile(r *sftp.Request) (_ sftp.WriterAtReaderAt, err error) {
	f.mu.Lock()
	defer f.mu.Unlock()
	defer func() { f.openFailed(r, err) }()
	f.logf("OpenFile %s %s pf=%d attrs=%x", r.Method, r.Filepath, r.Flags, r.Attrs)
	n, err := f.openW(r)
	if err != nil {
		return nil, err
	}
	return f.readWriter(f.newObj("rw", r.Filepath, n, r)), nil
}

type cntInfo struct {
	name string
	n    *cntNode
}

func (i cntInfo) Name() string { return i.name }
func (i cntInfo) Size() int64  { return int64(len(i.n.data)) }
func (i cntInfo) Mode() os.FileMode {
	switch {
	case i.n.dir:
		return i.n.mode | os.ModeDir
	case i.n.link != "":
		return i.n.mode | os.ModeSymlink
	}
	return i.n.mode
}
func (i cntInfo) ModTime() time.Time { return time.Unix(1_000_000_000, 0) }
func (i cntInfo) IsDir() bool        { return i.n.dir }
func (i cntInfo) Sys() any           { return nil }

func (f *cntFS) Filelist(r *sftp.Request) (_ sftp.ListerAt, err error) {
	f.mu.Lock()
	defer f.mu.Unlock()
	if r.Method == "List" { // OPENDIR (READDIR goes to the lister, not here)
		defer func() { f.openFailed(r, err) }()
	}
	f.logf("Filelist %s %s", r.Method, r.Filepath)
	if strings.Contains(r.Filepath, "err") {
		return nil, errCntHandler
	}
	switch r.Method {
	case "List":
		p, n := f.resolve(r.Filepath)
		if n == nil {
			return nil, os.ErrNotExist
		}
		if !n.dir {
			return nil, syscall.ENOTDIR
		}
		o := f.newObj("lister", r.Filepath, n, r)
		var names []string
		for q := range f.nodes {
			if q != "/" && path.Dir(q) == p {
				names = append(names, q)
			}
		}
		sort.Strings(names)
		for _, q := range names {
			o.ents = append(o.ents, cntInfo{path.Base(q), f.nodes[q]})
		}
		return f.lister(o), nil
	case "Stat":
		_, n := f.resolve(r.Filepath)
		if n == nil {
			return nil, os.ErrNotExist
		}
		o := f.newObj("statlister", r.Filepath, n, r)
		o.ents = []os.FileInfo{cntInfo{path.Base(r.Filepath), n}}
		return f.lister(o), nil
	case "Readlink":
		n := f.nodes[r.Filepath]
		if n == nil {
			return nil, os.ErrNotExist
		}
		if n.link == "" {
			return nil, syscall.EINVAL
		}
		o := f.newObj("statlister", r.Filepath, n, r)
		o.ents = []os.FileInfo{cntInfo{n.link, n}}
		return f.lister(o), nil
	}
	return nil, fmt.Errorf("unexpected list method %q", r.Method)
}

func (f *cntFS) Lstat(r *sftp.Request) (sftp.ListerAt, error) {
	f.mu.Lock()
	defer f.mu.Unlock()
	f.logf("Lstat %s %s", r.Method, r.Filepath)
	n := f.nodes[r.Filepath]
	if n == nil {
		return nil, os.ErrNotExist
	}
	o := f.newObj("statlister", r.Filepath, n, r)
	o.ents = []os.FileInfo{cntInfo{path.Base(r.Filepath), n}}
	return f.lister(o), nil
}

func (f *cntFS) Filecmd(r *sftp.Request) error {
	f.mu.Lock()
	defer f.mu.Unlock()
	if r.Method == "Setstat" {
		// what a handler is SHOWN of a SETSTAT / FSETSTAT: the flags and the attributes they select (the raw
		// block may carry tolerated trailing bytes of the frame, which mean nothing)
		f.logf("Filecmd %s %s %s fl=%d attrs=%s", r.Method, r.Filepath, r.Target, r.Flags, cntAttrText(r))
	} else {
		f.logf("Filecmd %s %s %s fl=%d attrs=%x", r.Method, r.Filepath, r.Target, r.Flags, r.Attrs)
	}
	if strings.Contains(r.Filepath, "err") {
		return errCntHandler
	}
	switch r.Method {
	case "Setstat":
		_, n := f.resolve(r.Filepath)
		if n == nil {
			return os.ErrNotExist
		}
		a := r.Attributes()
		if a == nil {
			f.logf("  Setstat with an undecodable attribute block (Attributes() == nil)")
			return sftp.ErrSSHFxBadMessage
		}
		if r.AttrFlags().Size && !n.dir {
			if a.Size > 1<<20 { // in-memory files are not sparse: refuse absurd sizes instead of allocating them
				return syscall.EFBIG
			}
			d := make([]byte, a.Size)
			copy(d, n.data)
			n.data = d
		}
		if r.AttrFlags().Permissions {
			n.mode = a.FileMode().Perm()
		}
		return nil
	case "Rename":
		if f.nodes[r.Target] != nil {
			return os.ErrExist
		}
		return f.move(r.Filepath, r.Target)
	case "Rmdir":
		n := f.nodes[r.Filepath]
		if n == nil {
			return os.ErrNotExist
		}
		if !n.dir {
			return syscall.ENOTDIR
		}
		for q := range f.nodes {
			if q != "/" && path.Dir(q) == r.Filepath {
				return syscall.ENOTEMPTY
			}
		}
		delete(f.nodes, r.Filepath)
		return nil
	case "Remove":
		n := f.nodes[r.Filepath]
		if n == nil {
			return os.ErrNotExist
		}
		if n.dir {
			return syscall.EISDIR
		}
		delete(f.nodes, r.Filepath)
		return nil
	case "Mkdir":
		if f.nodes[r.Filepath] != nil {
			return os.ErrExist
		}
		if !f.parentOK(r.Filepath) {
			return os.ErrNotExist
		}
		f.nodes[r.Filepath] = &cntNode{dir: true, mode: 0o755}
		return nil
	case "Link":
		n := f.nodes[r.Filepath]
		if n == nil {
			return os.ErrNotExist
		}
		if n.dir {
			return syscall.EPERM
		}
		if f.nodes[r.Target] != nil {
			return os.ErrExist
		}
		if !f.parentOK(r.Target) {
			return os.ErrNotExist
		}
		f.nodes[r.Target] = n
		return nil
	case "Symlink":
		if f.nodes[r.Target] != nil {
			return os.ErrExist
		}
		if !f.parentOK(r.Target) {
			return os.ErrNotExist
		}
		f.nodes[r.Target] = &cntNode{link: r.Filepath, mode: 0o777}
		return nil
	}
	return fmt.Errorf("unexpected command %q", r.Method)
}

// cntAttrText renders the attributes a Setstat request shows its handler, as selected by its flags.
func cntAttrText(r *sftp.Request) string {
	a := r.Attributes()
	if a == nil {
		return fmt.Sprintf("undecodable:%x", r.Attrs)
	}
	var ext [][2]string
	for _, e := range a.Extended {
		ext = append(ext, [2]string{e.ExtType, e.ExtData})
	}
	fl := r.AttrFlags()
	return ssAttrText(fl.Size, fl.UidGid, fl.Permissions, fl.Acmodtime, r.Flags&wire.AExt != 0, a.Size, a.UID, a.GID, a.Mode, a.Atime, a.Mtime, ext)
}

// ssAttrText is the canonical text of an attribute selection (handler side and judge side use the same).
func ssAttrText(size, ids, perm, times, hasExt bool, sz uint64, uid, gid, mode, atime, mtime uint32, ext [][2]string) string {
	var p []string
	if size {
		p = append(p, fmt.Sprintf("size=%d", sz))
	}
	if ids {
		p = append(p, fmt.Sprintf("uid=%d,gid=%d", uid, gid))
	}
	if perm {
		p = append(p, fmt.Sprintf("mode=%o", mode))
	}
	if times {
		p = append(p, fmt.Sprintf("atime=%d,mtime=%d", atime, mtime))
	}
	if hasExt {
		p = append(p, fmt.Sprintf("ext=%q", ext))
	}
	return "{" + strings.Join(p, ",") + "}"
}

func (f *cntFS) move(from, to string) error {
	n := f.nodes[from]
	if n == nil {
		return os.ErrNotExist
	}
	if !f.parentOK(to) || strings.HasPrefix(to+"/", from+"/") {
		return syscall.EINVAL
	}
	for q, m := range f.nodes {
		if strings.HasPrefix(q, from+"/") {
			delete(f.nodes, q)
			f.nodes[to+strings.TrimPrefix(q, from)] = m
		}
	}
	delete(f.nodes, from)
	f.nodes[to] = n
	return nil
}

func (f *cntFS) PosixRename(r *sftp.Request) error {
	f.mu.Lock()
	defer f.mu.Unlock()
	f.logf("PosixRename %s %s %s", r.Method, r.Filepath, r.Target)
	if t := f.nodes[r.Target]; t != nil && t.dir {
		return syscall.EISDIR
	}
	return f.move(r.Filepath, r.Target)
}

func (f *cntFS) StatVFS(r *sftp.Request) (*sftp.StatVFS, error) {
	f.mu.Lock()
	defer f.mu.Unlock()
	f.logf("StatVFS %s %s", r.Method, r.Filepath)
	if _, n := f.resolve(r.Filepath); n == nil {
		return nil, os.ErrNotExist
	}
	return &sftp.StatVFS{Bsize: 4096, Frsize: 4096, Blocks: 1000, Bfree: 500, Bavail: 400, Files: 100, Ffree: 50, Favail: 40, Namemax: 255}, nil
}

// Hold makes every ReadAt / WriteAt of a handler object block on entry until Release (a slow back end).
func (f *cntFS) Hold() {
	f.holdMu.Lock()
	if f.holdCh == nil {
		f.holdCh = make(chan struct{})
	}
	f.holdMu.Unlock()
}

func (f *cntFS) Release() {
	f.holdMu.Lock()
	if f.holdCh != nil {
		close(f.holdCh)
		f.holdCh = nil
	}
	f.holdMu.Unlock()
}

func (f *cntFS) waitHold() {
	f.holdMu.Lock()
	g := f.holdCh
	f.holdMu.Unlock()
	if g != nil {
		select {
		case <-g:
		case <-time.After(ssDlHang()): // (the harness releases long before; never wedge a worker for good)
		}
	}
}

func (o *cntObj) readAt(p []byte, off int64) (int, error) {
	o.fs.waitHold()
	o.fs.mu.Lock()
	defer o.fs.mu.Unlock()
	o.Reads++
	o.fs.logf("ReadAt #%d %s off=%d len=%d closed=%d", o.ID, o.Kind, off, len(p), o.Closed)
	if off < 0 { // the request server hands the 64-bit wire offset through as int64
		return 0, syscall.EINVAL
	}
	if off >= int64(len(o.node.data)) {
		return 0, io.EOF
	}
	n := copy(p, o.node.data[off:])
	if n < len(p) {
		return n, io.EOF
	}
	return n, nil
}

func (o *cntObj) writeAt(p []byte, off int64) (int, error) {
	o.fs.waitHold()
	o.fs.mu.Lock()
	defer o.fs.mu.Unlock()
	o.Writes++
	h := sha256.Sum256(p)
	o.fs.logf("WriteAt #%d %s off=%d len=%d sha=%x closed=%d", o.ID, o.Kind, off, len(p), h[:4], o.Closed)
	if off < 0 || off > 1<<20 { // in-memory files are not sparse: refuse absurd offsets instead of allocating them
		return 0, syscall.EFBIG
	}
	if need := int(off) + len(p); need > len(o.node.data) {
		d := make([]byte, need)
		copy(d, o.node.data)
		o.node.data = d
	}
	copy(o.node.data[off:], p)
	return len(p), nil
}

func (o *cntObj) listAt(ls []os.FileInfo, off int64) (int, error) {
	o.fs.mu.Lock()
	defer o.fs.mu.Unlock()
	o.Lists++
	o.fs.logf("ListAt #%d %s off=%d closed=%d", o.ID, o.Kind, off, o.Closed)
	if off >= int64(len(o.ents)) {
		return 0, io.EOF
	}
	n := copy(ls, o.ents[off:])
	if n < len(ls) {
		return n, io.EOF
	}
	return n, nil
}

func (o *cntObj) close() error {
	o.fs.mu.Lock()
	defer o.fs.mu.Unlock()
	o.Closed++
	if o.closeErr && o.Closed == 1 {
		return errCntClose
	}
	return nil
}

var errCntClose = errors.New("handler object: close failed (data may be lost)")

func (o *cntObj) transferError(err error) {
	o.fs.mu.Lock()
	defer o.fs.mu.Unlock()
	o.TE++
	if o.Closed > 0 {
		o.TEAfterClose = true
	}
}

// The values handed to the server are assembled from method-carrying parts by struct embedding, so
// that each value offers exactly the methods of its role AND of its variant: with or without Close
// (io.Closer), with or without TransferError.  Which variant an object gets is a configuration
// dimension (ssCfg.Without); what the value really implements is read back with type assertions
// (cntObj.HasClose / HasTE) and is what the expectations are stated in.
type cntRdPart struct{ o *cntObj }
type cntWrPart struct{ o *cntObj }
type cntLsPart struct{ o *cntObj }
type cntClosePart struct{ o *cntObj }
type cntTEPart struct{ o *cntObj }

func (x cntRdPart) ReadAt(p []byte, off int64) (int, error)  { return x.o.readAt(p, off) }
func (x cntWrPart) WriteAt(p []byte, off int64) (int, error) { return x.o.writeAt(p, off) }
func (x cntLsPart) ListAt(l []os.FileInfo, off int64) (int, error) {
	return x.o.listAt(l, off)
}
func (x cntClosePart) Close() error         { return x.o.close() }
func (x cntTEPart) TransferError(err error) { x.o.transferError(err) }

type (
	cntReader struct {
		cntRdPart
		cntClosePart
		cntTEPart
	}
	cntReaderNoClose struct {
		cntRdPart
		cntTEPart
	}
	cntReaderNoTE struct {
		cntRdPart
		cntClosePart
	}
	cntReaderBare struct{ cntRdPart }

	cntWriter struct {
		cntWrPart
		cntClosePart
		cntTEPart
	}
	cntWriterNoClose struct {
		cntWrPart
		cntTEPart
	}
	cntWriterNoTE struct {
		cntWrPart
		cntClosePart
	}
	cntWriterBare struct{ cntWrPart }

	cntRW struct {
		cntRdPart
		cntWrPart
		cntClosePart
		cntTEPart
	}
	cntRWNoClose struct {
		cntRdPart
		cntWrPart
		cntTEPart
	}
	cntRWNoTE struct {
		cntRdPart
		cntWrPart
		cntClosePart
	}
	cntRWBare struct {
		cntRdPart
		cntWrPart
	}

	// A ListerAt is never told about a transfer error (Request.transferError looks at the reader, the
	// writer and the read-writer only): the lister variants carry the method all the same, so that a
	// notification would be SEEN (expected: never).
	cntLister struct {
		cntLsPart
		cntClosePart
		cntTEPart
	}
	cntListerNoClose struct {
		cntLsPart
		cntTEPart
	}
	cntListerNoTE struct {
		cntLsPart
		cntClosePart
	}
	cntListerBare struct{ cntLsPart }
)

// variant says which optional methods object o loses (f.mu held).
func (f *cntFS) variant(o *cntObj) (noClose, noTE bool) {
	if f.alt && o.ID%2 != 0 {
		return false, false
	}
	return f.noCloser, f.noTE
}

// seal reads back what the value really implements.
func (o *cntObj) seal(v any) {
	_, o.HasClose = v.(io.Closer)
	_, o.HasTE = v.(sftp.TransferError)
}

func (f *cntFS) reader(o *cntObj) (v io.ReaderAt) {
	nc, nt := f.variant(o)
	switch {
	case nc && nt:
		v = cntReaderBare{cntRdPart{o}}
	case nc:
		v = cntReaderNoClose{cntRdPart{o}, cntTEPart{o}}
	case nt:
		v = cntReaderNoTE{cntRdPart{o}, cntClosePart{o}}
	default:
		v = cntReader{cntRdPart{o}, cntClosePart{o}, cntTEPart{o}}
	}
	o.seal(v)
	return v
}

func (f *cntFS) writer(o *cntObj) (v io.WriterAt) {
	nc, nt := f.variant(o)
	switch {
	case nc && nt:
		v = cntWriterBare{cntWrPart{o}}
	case nc:
		v = cntWriterNoClose{cntWrPart{o}, cntTEPart{o}}
	case nt:
		v = cntWriterNoTE{cntWrPart{o}, cntClosePart{o}}
	default:
		v = cntWriter{cntWrPart{o}, cntClosePart{o}, cntTEPart{o}}
	}
	o.seal(v)
	return v
}

func (f *cntFS) readWriter(o *cntObj) (v sftp.WriterAtReaderAt) {
	nc, nt := f.variant(o)
	switch {
	case nc && nt:
		v = cntRWBare{cntRdPart{o}, cntWrPart{o}}
	case nc:
		v = cntRWNoClose{cntRdPart{o}, cntWrPart{o}, cntTEPart{o}}
	case nt:
		v = cntRWNoTE{cntRdPart{o}, cntWrPart{o}, cntClosePart{o}}
	default:
		v = cntRW{cntRdPart{o}, cntWrPart{o}, cntClosePart{o}, cntTEPart{o}}
	}
	o.seal(v)
	return v
}

func (f *cntFS) lister(o *cntObj) (v sftp.ListerAt) {
	nc, nt := f.variant(o)
	switch {
	case nc && nt:
		v = cntListerBare{cntLsPart{o}}
	case nc:
		v = cntListerNoClose{cntLsPart{o}, cntTEPart{o}}
	case nt:
		v = cntListerNoTE{cntLsPart{o}, cntClosePart{o}}
	default:
		v = cntLister{cntLsPart{o}, cntClosePart{o}, cntTEPart{o}}
	}
	o.seal(v)
	return v
}

// ---------- handler variants: which optional handler interfaces the four handlers implement ----------

type cntGetH struct{ f *cntFS }
type cntPutH struct{ f *cntFS }
type cntOpenFilePart struct{ f *cntFS }
type cntCmdH struct{ f *cntFS }
type cntPosixRenamePart struct{ f *cntFS }
type cntStatVFSPart struct{ f *cntFS }
type cntListH struct{ f *cntFS }
type cntLstatPart struct{ f *cntFS }

func (h cntGetH) Fileread(r *sftp.Request) (io.ReaderAt, error)  { return h.f.Fileread(r) }
func (h cntPutH) Filewrite(r *sftp.Request) (io.WriterAt, error) { return h.f.Filewrite(r) }
func (h cntOpenFilePart) OpenFile(r *sftp.Request) (sftp.WriterAtReaderAt, error) {
	return h.f.OpenFile(r)
}
func (h cntCmdH) Filecmd(r *sftp.Request) error                { return h.f.Filecmd(r) }
func (h cntPosixRenamePart) PosixRename(r *sftp.Request) error { return h.f.PosixRename(r) }
func (h cntStatVFSPart) StatVFS(r *sftp.Request) (*sftp.StatVFS, error) {
	return h.f.StatVFS(r)
}
func (h cntListH) Filelist(r *sftp.Request) (sftp.ListerAt, error)  { return h.f.Filelist(r) }
func (h cntLstatPart) Lstat(r *sftp.Request) (sftp.ListerAt, error) { return h.f.Lstat(r) }

type (
	cntPutOpenH struct {
		cntPutH
		cntOpenFilePart
	}
	cntCmdPosixH struct {
		cntCmdH
		cntPosixRenamePart
	}
	cntCmdVFSH struct {
		cntCmdH
		cntStatVFSPart
	}
	cntCmdPosixVFSH struct {
		cntCmdH
		cntPosixRenamePart
		cntStatVFSPart
	}
	cntListLstatH struct {
		cntListH
		cntLstatPart
	}
)

// cntHandlers returns the four handlers for cfg.  Without any handler-level token it is the
// all-in-one cntFS itself (one value implementing everything, as before); otherwise four separate
// values each offering exactly its role and the optional interfaces that were not taken away.
func cntHandlers(f *cntFS, cfg ssCfg) sftp.Handlers {
	f.noCloser, f.noTE, f.alt = cfg.without("closer"), cfg.without("terr"), cfg.without("alt")
	nOpen, nLstat, nPosix, nVFS := cfg.without("openfile"), cfg.without("lstat"), cfg.without("posixrename"), cfg.without("statvfs")
	if !nOpen && !nLstat && !nPosix && !nVFS {
		return sftp.Handlers{FileGet: f, FilePut: f, FileCmd: f, FileList: f}
	}
	h := sftp.Handlers{FileGet: cntGetH{f}}
	if nOpen {
		h.FilePut = cntPutH{f}
	} else {
		h.FilePut = cntPutOpenH{cntPutH{f}, cntOpenFilePart{f}}
	}
	switch {
	case nPosix && nVFS:
		h.FileCmd = cntCmdH{f}
	case nPosix:
		h.FileCmd = cntCmdVFSH{cntCmdH{f}, cntStatVFSPart{f}}
	case nVFS:
		h.FileCmd = cntCmdPosixH{cntCmdH{f}, cntPosixRenamePart{f}}
	default:
		h.FileCmd = cntCmdPosixVFSH{cntCmdH{f}, cntPosixRenamePart{f}, cntStatVFSPart{f}}
	}
	if nLstat {
		h.FileList = cntListH{f}
	} else {
		h.FileList = cntListLstatH{cntListH{f}, cntLstatPart{f}}
	}
	return h
}

// cntVariantsSelfTest runs the type-assertion self-test over a list of configurations without starting a
// server, and checks that the self-test itself is not blind (handlers built for one configuration must
// fail the test of another).  It returns the complaints and the number of configurations tested.
func cntVariantsSelfTest(cfgs []ssCfg) (bad []string, n int) {
	for _, cfg := range cfgs {
		if cfg.Kind != "rs" || cfg.InMem {
			continue
		}
		n++
		if why := cntHandlersSelfTest(cntHandlers(newCntFS("", cfg.Start), cfg), cfg); why != "" {
			bad = append(bad, cfg.String()+": "+why)
		}
	}
	full := ssCfg{Kind: "rs"}
	for _, tok := range []string{"openfile", "lstat", "posixrename", "statvfs"} {
		other := ssCfg{Kind: "rs", Without: tok}
		if cntHandlersSelfTest(cntHandlers(newCntFS("", ""), full), other) == "" {
			bad = append(bad, "self-test is blind: handlers with every interface pass the test for without="+tok)
		}
		if cntHandlersSelfTest(cntHandlers(newCntFS("", ""), other), full) == "" {
			bad = append(bad, "self-test is blind: handlers without "+tok+" pass the test for the full set")
		}
	}
	// object level: a value with Close must not pass for a configuration without, and the other way round
	g := &cntFS{}
	o := &cntObj{fs: g, ID: 2}
	g.reader(o)
	if !o.HasClose || !o.HasTE {
		bad = append(bad, "self-test: the full reader variant does not report Close and TransferError")
	}
	g.noCloser, g.noTE = true, true
	g.reader(o)
	if o.HasClose || o.HasTE {
		bad = append(bad, "self-test: the bare reader variant still reports Close or TransferError")
	}
	return bad, n
}

// cntHandlersSelfTest checks by type assertion that the handlers implement exactly the optional
// interfaces cfg leaves them, and that the object variants do ("" = fine).
func cntHandlersSelfTest(h sftp.Handlers, cfg ssCfg) string {
	for _, t := range strings.Split(cfg.Without, ",") {
		switch t {
		case "", "closer", "terr", "alt", "openfile", "lstat", "posixrename", "statvfs":
		default:
			return fmt.Sprintf("unknown token %q in without=%q", t, cfg.Without)
		}
	}
	chk := func(name string, has, want bool) string {
		if has != want {
			return fmt.Sprintf("%s: implemented=%v, configuration %q wants %v", name, has, cfg.Without, want)
		}
		return ""
	}
	_, a := h.FilePut.(sftp.OpenFileWriter)
	_, b := h.FileList.(sftp.LstatFileLister)
	_, c := h.FileCmd.(sftp.PosixRenameFileCmder)
	_, d := h.FileCmd.(sftp.StatVFSFileCmder)
	for _, why := range []string{
		chk("FilePut as OpenFileWriter", a, !cfg.without("openfile")),
		chk("FileList as LstatFileLister", b, !cfg.without("lstat")),
		chk("FileCmd as PosixRenameFileCmder", c, !cfg.without("posixrename")),
		chk("FileCmd as StatVFSFileCmder", d, !cfg.without("statvfs")),
	} {
		if why != "" {
			return why
		}
	}
	// never offered by any variant (the server's defaults are what the sessions expect)
	if _, ok := h.FileList.(sftp.RealPathFileLister); ok {
		return "FileList unexpectedly implements RealPathFileLister"
	}
	if _, ok := h.FileList.(sftp.ReadlinkFileLister); ok {
		return "FileList unexpectedly implements ReadlinkFileLister"
	}
	// object variants, on a scratch cntFS with the same switches
	g := &cntFS{noCloser: cfg.without("closer"), noTE: cfg.without("terr"), alt: cfg.without("alt")}
	for id := 1; id <= 2; id++ {
		hit := !g.alt || id%2 == 0
		wantC, wantT := !(g.noCloser && hit), !(g.noTE && hit)
		for _, kind := range []string{"reader", "writer", "rw", "lister"} {
			o := &cntObj{fs: g, ID: id, Kind: kind}
			var v any
			switch kind {
			case "reader":
				v = g.reader(o)
			case "writer":
				v = g.writer(o)
			case "rw":
				v = g.readWriter(o)
			case "lister":
				v = g.lister(o)
			}
			_, hasC := v.(io.Closer)
			_, hasT := v.(sftp.TransferError)
			_, isR := v.(io.ReaderAt)
			_, isW := v.(io.WriterAt)
			_, isL := v.(sftp.ListerAt)
			wantR, wantW, wantL := kind == "reader" || kind == "rw", kind == "writer" || kind == "rw", kind == "lister"
			if hasC != wantC || hasT != wantT || isR != wantR || isW != wantW || isL != wantL || o.HasClose != hasC || o.HasTE != hasT {
				return fmt.Sprintf("%s object #%d (%T) under without=%q: Closer=%v (want %v) TransferError=%v (want %v) ReaderAt=%v WriterAt=%v ListerAt=%v recorded=%v/%v",
					kind, id, v, cfg.Without, hasC, wantC, hasT, wantT, isR, isW, isL, o.HasClose, o.HasTE)
			}
		}
	}
	return ""
}

// dump is a canonical description of the in-memory tree.
func (f *cntFS) dump() string {
	f.mu.Lock()
	defer f.mu.Unlock()
	var ks []string
	for k := range f.nodes {
		ks = append(ks, k)
	}
	sort.Strings(ks)
	var sb strings.Builder
	for _, k := range ks {
		n := f.nodes[k]
		h := sha256.Sum256(n.data)
		fmt.Fprintf(&sb, "%s dir=%v link=%q mode=%o size=%d sha=%x\n", k, n.dir, n.link, n.mode, len(n.data), h[:4])
	}
	return sb.String()
}

func (f *cntFS) ncalls() int {
	f.mu.Lock()
	defer f.mu.Unlock()
	return len(f.calls)
}

func (f *cntFS) callsCopy() []string {
	f.mu.Lock()
	defer f.mu.Unlock()
	return append([]string(nil), f.calls...)
}

type cntObjState struct {
	ID                            int
	Kind, Path                    string
	Closed, TE, Reads, Writes, Ls int
	TEAfterClose, CtxDone         bool
	HasClose, HasTE               bool
}

// wantClosed is how often a released object must have been closed: once if it can be closed at all.
func (o cntObjState) wantClosed() int {
	if o.HasClose {
		return 1
	}
	return 0
}

func (f *cntFS) objStates() []cntObjState {
	f.mu.Lock()
	defer f.mu.Unlock()
	var out []cntObjState
	for _, o := range f.objs {
		out = append(out, cntObjState{o.ID, o.Kind, o.Path, o.Closed, o.TE, o.Reads, o.Writes, o.Lists, o.TEAfterClose, o.ctx.Err() != nil, o.HasClose, o.HasTE})
	}
	return out
}

// ---------- the judge: an independent strict parser of request streams ----------

type ssReq struct {
	Typ       byte
	ID        uint32
	Kind      string // init open close … ext:<name> ext-unknown
	Handle    string
	HasHandle bool
	Pf        uint32
	RdLen     uint32 // READ: the length asked for
	WrLen     int    // WRITE: the number of data bytes
	Soft      bool   // attribute block shorter than its flags promise (framing intact)
	// what the frame MEANS, field by field, each string exactly as long as its length word says
	Path     string    // the (first) path of a path request
	Paths    []string  // every path string of the request (both of RENAME / SYMLINK / posix-rename / hardlink)
	WrOff    uint64    // WRITE / READ: the offset
	Data     []byte    // WRITE: exactly data-length bytes
	At       wire.St   // OPEN / SETSTAT / FSETSTAT: the attribute block as its flags word defines it
	Slack    int       // bytes of the frame after the last field of the request (tolerated, and to be IGNORED)
	Off, Len int       // position of the frame in the stream
	StrOffs  []int     // offsets inside the frame of every string-length field
	StrLens  []int     // … and the values of those fields
	Fields   []ssField // every integer field of the frame body (id, string lengths, offsets, flags, attribute words, counts)
}

// ssField is one integer field of a request frame as the judge read it: where it sits in the
// frame, how wide it is and what it means.  String-length fields carry Str (and the C07 field
// mutations may then resize the string with it); Flags marks the flags word of an attribute block.
type ssField struct {
	Off   int    `json:"off"`             // offset inside the frame (0 = the frame's length prefix)
	W     int    `json:"w"`               // 4 | 8
	Name  string `json:"name"`            // id handle-len offset len pflags attr-flags attr-size …
	Val   uint64 `json:"val"`             // the value read
	Str   bool   `json:"str,omitempty"`   // the length word of a string
	Flags bool   `json:"flags,omitempty"` // the flags word of an attribute block
}

type ssCur struct {
	b     []byte
	pos   int
	bad   bool
	strs  []int
	lens  []int
	flds  []ssField
	at    wire.St
	paths []string
}

func (c *ssCur) u32() uint32 {
	if c.bad || len(c.b)-c.pos < 4 {
		c.bad = true
		return 0
	}
	v := binary.BigEndian.Uint32(c.b[c.pos:])
	c.pos += 4
	return v
}
func (c *ssCur) u64() uint64 { hi := c.u32(); lo := c.u32(); return uint64(hi)<<32 | uint64(lo) }

// f32 / f64 / fstr read a field and record it under a name.
func (c *ssCur) f32(name string) uint32 {
	at := c.pos
	v := c.u32()
	if !c.bad {
		c.flds = append(c.flds, ssField{Off: at + 5, W: 4, Name: name, Val: uint64(v)})
	}
	return v
}
func (c *ssCur) f64(name string) uint64 {
	at := c.pos
	v := c.u64()
	if !c.bad {
		c.flds = append(c.flds, ssField{Off: at + 5, W: 8, Name: name, Val: v})
	}
	return v
}
func (c *ssCur) fstr(name string) string {
	at, n := c.pos, len(c.strs)
	s := c.str()
	if len(c.strs) > n {
		c.flds = append(c.flds, ssField{Off: at + 5, W: 4, Name: name + "-len", Val: uint64(len(s)), Str: true})
		if name == "path" || name == "path2" {
			c.paths = append(c.paths, s)
		}
	}
	return s
}
func (c *ssCur) str() string {
	at := c.pos
	n := c.u32()
	if c.bad || uint64(n) > uint64(len(c.b)-c.pos) {
		c.bad = true
		return ""
	}
	c.strs = append(c.strs, at+5)
	c.lens = append(c.lens, int(n))
	s := string(c.b[c.pos : c.pos+int(n)])
	c.pos += int(n)
	return s
}

// attrs parses flags word + by-flag fields; a missing flags word is a hard error, a short block a soft one.
func (c *ssCur) attrs() (soft bool) {
	fl := c.f32("attr-flags")
	if c.bad {
		return false
	}
	c.at = wire.St{Flags: fl}
	c.flds[len(c.flds)-1].Flags = true
	if fl&wire.ASize != 0 {
		c.at.Size = c.f64("attr-size")
	}
	if fl&wire.AUIDGID != 0 {
		c.at.UID = c.f32("attr-uid")
		c.at.GID = c.f32("attr-gid")
	}
	if fl&wire.APerm != 0 {
		c.at.Perm = c.f32("attr-perm")
	}
	if fl&wire.ATime != 0 {
		c.at.Atime = c.f32("attr-atime")
		c.at.Mtime = c.f32("attr-mtime")
	}
	if fl&wire.AExt != 0 {
		n := c.f32("attr-ext-count")
		for i := uint32(0); i < n && !c.bad; i++ {
			k := c.fstr("attr-ext-name")
			v := c.fstr("attr-ext-data")
			if !c.bad {
				c.at.Ext = append(c.at.Ext, [2]string{k, v})
			}
		}
	}
	if c.bad {
		c.bad = false
		return true
	}
	return false
}

var ssTypeKind = map[byte]string{}

func init() {
	for k, v := range ssOpType {
		ssTypeKind[v] = k
	}
}

// ssParseReq judges one frame body. why is "" (well-formed), "unknown-type" or "short-body".
func ssParseReq(typ byte, body []byte) (q ssReq, why string) {
	c := &ssCur{b: body}
	q.Typ = typ
	noSlack := false
	kind, known := ssTypeKind[typ]
	if !known {
		return q, "unknown-type"
	}
	q.Kind = kind
	if typ != wire.Init {
		q.ID = c.f32("id")
	}
	h := func() { q.Handle = c.fstr("handle"); q.HasHandle = true }
	switch typ {
	case wire.Init:
		c.f32("version")
		for !c.bad && c.pos < len(c.b) {
			c.fstr("init-ext-name")
			c.fstr("init-ext-data")
		}
	case wire.Open:
		q.Path = c.fstr("path")
		q.Pf = c.f32("pflags")
		q.Soft = c.attrs()
	case wire.Close, wire.Fstat, wire.Readdir:
		h()
	case wire.Read:
		h()
		q.WrOff = c.f64("offset")
		q.RdLen = c.f32("len")
	case wire.Write:
		h()
		q.WrOff = c.f64("offset")
		q.Data = []byte(c.fstr("data"))
		q.WrLen = len(q.Data)
	case wire.Setstat:
		q.Path = c.fstr("path")
		q.Soft = c.attrs()
	case wire.Fsetstat:
		h()
		q.Soft = c.attrs()
	case wire.Mkdir:
		q.Path = c.fstr("path")
		c.f32("attr-flags") // flags word; the rest of the attribute block is documented as ignored
		noSlack = true
	case wire.Rename, wire.Symlink:
		q.Path = c.fstr("path")
		c.fstr("path2")
	case wire.Extended:
		name := c.fstr("ext-name")
		switch name {
		case "statvfs@openssh.com":
			c.fstr("path")
			q.Kind = "ext:" + name
		case "posix-rename@openssh.com", "hardlink@openssh.com":
			c.fstr("path")
			c.fstr("path2")
			q.Kind = "ext:" + name
		default:
			q.Kind = "ext-unknown"
			noSlack = true // what follows the name belongs to the extension
		}
	default:
		q.Path = c.fstr("path")
	}
	if c.bad {
		return q, "short-body"
	}
	q.At, q.Paths = c.at, c.paths
	if !noSlack && typ != wire.Init {
		q.Slack = len(c.b) - c.pos
	}
	q.StrOffs, q.StrLens, q.Fields = c.strs, c.lens, c.flds
	return q, ""
}

// ssJudged is a request stream as any correct receiver must read it.
type ssJudged struct {
	Reqs   []ssReq
	End    string // clean | trunc (more bytes needed: only EOF ends it) | badlen | unknown-type | short-body
	EndOff int
}

const ssMaxFrame = 256 * 1024

func ssJudge(s []byte) ssJudged {
	var j ssJudged
	p := 0
	for {
		j.EndOff = p
		rem := len(s) - p
		if rem == 0 {
			j.End = "clean"
			return j
		}
		if rem < 4 {
			j.End = "trunc"
			return j
		}
		n := binary.BigEndian.Uint32(s[p:])
		if n == 0 || n > ssMaxFrame {
			j.End = "badlen"
			return j
		}
		if uint64(n) > uint64(rem-4) {
			j.End = "trunc"
			return j
		}
		q, why := ssParseReq(s[p+4], s[p+5:p+4+int(n)])
		if why != "" {
			j.End = why
			return j
		}
		q.Off, q.Len = p, 4+int(n)
		j.Reqs = append(j.Reqs, q)
		p += 4 + int(n)
	}
}

// ---------- reply legality and handle tracking ----------

var ssTypName = map[byte]string{wire.Version: "VERSION", wire.Status: "STATUS", wire.Handle: "HANDLE", wire.Data: "DATA", wire.Name: "NAME", wire.Attrs: "ATTRS", wire.ExtendedReply: "EXTENDED_REPLY"}

func ssReplyText(p wire.Pkt) string {
	n, ok := ssTypName[p.Typ]
	if !ok {
		n = fmt.Sprintf("type-%d", p.Typ)
	}
	if p.Typ == wire.Status {
		d := wire.D{B: p.Body}
		d.U32()
		code := d.U32()
		return fmt.Sprintf("%s id=%d code=%d %q", n, p.ID(), code, d.Str())
	}
	if p.Typ == wire.Version {
		return n
	}
	return fmt.Sprintf("%s id=%d len=%d", n, p.ID(), len(p.Body))
}

func ssStatusCode(p wire.Pkt) (uint32, bool) {
	if p.Typ != wire.Status || len(p.Body) < 8 {
		return 0, false
	}
	return binary.BigEndian.Uint32(p.Body[4:]), true
}

// ssLegal says whether rep is a legal reply type for q ("" = yes).
func ssLegal(q ssReq, rep wire.Pkt) string {
	if q.Kind == "init" {
		if rep.Typ != wire.Version {
			return "INIT must be answered with VERSION"
		}
		return ""
	}
	code, isStatus := ssStatusCode(rep)
	fail := isStatus && code != wire.OK
	var ok bool
	var want string
	switch q.Kind {
	case "open", "opendir":
		ok, want = rep.Typ == wire.Handle || fail, "HANDLE or a failure STATUS"
	case "read":
		ok, want = rep.Typ == wire.Data || fail, "DATA or a failure STATUS"
	case "readdir", "readlink", "realpath":
		ok, want = rep.Typ == wire.Name || fail, "NAME or a failure STATUS"
	case "stat", "lstat", "fstat":
		ok, want = rep.Typ == wire.Attrs || fail, "ATTRS or a failure STATUS"
	case "ext:statvfs@openssh.com":
		ok, want = rep.Typ == wire.ExtendedReply || fail, "EXTENDED_REPLY or a failure STATUS"
	case "ext-unknown":
		ok, want = isStatus && code == wire.OpUnsupported, "STATUS OP_UNSUPPORTED"
	default:
		ok, want = isStatus, "STATUS"
	}
	if !ok {
		return want
	}
	return ""
}

// ssTrack follows the handles of one run from what the client side sees.
type ssTrack struct {
	cfg    ssCfg
	issued map[string]bool
	live   map[string]string // handle -> r | w | rw | dir
	order  []string          // issue order
}

func newSSTrack(cfg ssCfg) *ssTrack {
	return &ssTrack{cfg: cfg, issued: map[string]bool{}, live: map[string]string{}}
}

func ssHandleKind(q ssReq) string {
	if q.Kind == "opendir" {
		return "dir"
	}
	w := q.Pf&(wire.FWrite|wire.FAppend|wire.FCreat|wire.FTrunc) != 0
	switch {
	case w && q.Pf&wire.FRead != 0:
		return "rw"
	case w:
		return "w"
	}
	return "r"
}

// handleKind is the kind of the handle an answered OPEN / OPENDIR issues under this configuration:
// a request server whose FilePut is no OpenFileWriter serves read-write opens through Filewrite,
// so the handle is a write handle (READ on it does not fit).
func (t *ssTrack) handleKind(q ssReq) string {
	if t.cfg.Kind == "os" && q.Kind == "open" {
		// the os-backed server opens O_RDWR / O_WRONLY / O_RDONLY by the READ and WRITE bits alone
		// (sshFxpOpenPacket.respond); create / truncate / append / excl do not make a file writable
		switch r, w := q.Pf&wire.FRead != 0, q.Pf&wire.FWrite != 0; {
		case r && w:
			return "rw"
		case w:
			return "w"
		}
		return "r"
	}
	k := ssHandleKind(q)
	if k == "rw" && t.cfg.Kind == "rs" && !t.cfg.InMem && t.cfg.without("openfile") {
		return "w"
	}
	return k
}

// ssModifies: the request kinds a read-only server must refuse (an OPEN when it asks for write
// access, creation or truncation).
func ssModifies(q ssReq) bool {
	switch q.Kind {
	case "write", "setstat", "fsetstat", "remove", "mkdir", "rmdir", "rename", "symlink", "ext:posix-rename@openssh.com", "ext:hardlink@openssh.com":
		return true
	case "open":
		return q.Pf&(wire.FWrite|wire.FCreat|wire.FTrunc) != 0
	}
	return false
}

// mismatch: the request kind does not fit the kind of its (live) handle.
func ssMismatch(reqKind, hKind string) bool {
	switch reqKind {
	case "read":
		return hKind != "r" && hKind != "rw"
	case "write":
		return hKind != "w" && hKind != "rw"
	case "readdir":
		return hKind != "dir"
	}
	return false
}

// stale reports whether q names a handle that is not live now.
func (t *ssTrack) stale(q ssReq) bool {
	if !q.HasHandle {
		return false
	}
	_, ok := t.live[q.Handle]
	return !ok
}

// observe checks one (request, reply) pair and updates the handle table.
func (t *ssTrack) observe(q ssReq, rep wire.Pkt) []ssFinding {
	var out []ssFinding
	k := t.cfg.Kind
	if q.Kind != "init" && rep.ID() != q.ID {
		out = append(out, ssFinding{Key: k + "/reply-id-mismatch", What: "reply carries another request id", Expected: fmt.Sprint(q.ID), Actual: ssReplyText(rep)})
	}
	hk, live := "", false
	if q.HasHandle {
		hk, live = t.live[q.Handle]
	}
	if why := ssLegal(q, rep); why != "" {
		key := fmt.Sprintf("%s/illegal-reply/%s", k, q.Kind)
		if k == "rs" && live && ssMismatch(q.Kind, hk) {
			key = "rs/handle-method-mismatch" // F13
		}
		out = append(out, ssFinding{Key: key, What: fmt.Sprintf("%s request (handle kind %q) answered with an illegal reply type", q.Kind, hk), Expected: why, Actual: ssReplyText(rep)})
	}
	if q.HasHandle && !live {
		if code, isStatus := ssStatusCode(rep); !isStatus || code == wire.OK {
			out = append(out, ssFinding{Key: fmt.Sprintf("%s/stale-handle-accepted/%s", k, q.Kind), What: fmt.Sprintf("%s naming the never-issued or closed handle %q was not refused", q.Kind, q.Handle), Expected: "failure STATUS", Actual: ssReplyText(rep)})
		}
	}
	// ReadOnly(): a modifying request is refused with PERMISSION_DENIED.  (A request that is to be refused
	// for another reason as well — stale handle, short attribute block — may name either reason.)
	if t.cfg.RO && k == "os" && ssModifies(q) && !q.Soft && !(q.HasHandle && !live) {
		if code, isStatus := ssStatusCode(rep); !isStatus || code != wire.PermissionDenied {
			out = append(out, ssFinding{Key: "os/readonly-not-denied/" + q.Kind, What: fmt.Sprintf("read-only server: %s (pflags %#x) was not refused with PERMISSION_DENIED", q.Kind, q.Pf), Expected: "STATUS code=3", Actual: ssReplyText(rep)})
		}
	}
	if q.Soft {
		if code, isStatus := ssStatusCode(rep); !isStatus || code == wire.OK {
			out = append(out, ssFinding{Key: k + "/short-attrs-dispatched", What: q.Kind + " whose attribute block is shorter than its flags promise was not refused", Expected: "failure STATUS", Actual: ssReplyText(rep)})
		}
	}
	if q.Kind == "close" {
		delete(t.live, q.Handle)
	}
	if (q.Kind == "open" || q.Kind == "opendir") && rep.Typ == wire.Handle {
		d := wire.D{B: rep.Body}
		d.U32()
		h := d.Str()
		if t.issued[h] {
			out = append(out, ssFinding{Key: k + "/handle-reused", What: "a handle string was issued twice in one session", Actual: fmt.Sprintf("%q", h)})
		}
		t.issued[h] = true
		t.live[h] = t.handleKind(q)
		t.order = append(t.order, h)
	}
	return out
}

func ssHandleOf(rep wire.Pkt) (string, bool) {
	if rep.Typ != wire.Handle {
		return "", false
	}
	d := wire.D{B: rep.Body}
	d.U32()
	h := d.Str()
	return h, d.Err == nil
}

// ssSameReply compares a reply with the reference reply: id, type, status code, and the
// payload where it is neither time- nor schedule-dependent.
func ssSameReply(ref, got wire.Pkt) string {
	if ref.Typ != got.Typ {
		return "reply type differs"
	}
	if ref.Typ != wire.Version && ref.ID() != got.ID() {
		return "reply id differs"
	}
	switch ref.Typ {
	case wire.Status:
		a, _ := ssStatusCode(ref)
		b, _ := ssStatusCode(got)
		if a != b {
			return "status code differs"
		}
	case wire.Handle, wire.Data, wire.Version:
		if string(ref.Body) != string(got.Body) {
			return "payload differs"
		}
	case wire.Name:
		if len(ref.Body) >= 8 && len(got.Body) >= 8 && string(ref.Body[4:8]) != string(got.Body[4:8]) {
			return "name count differs"
		}
	}
	return ""
}
