package main

// C18, sessions that the program runner (gExec) cannot express:
//
//   - MALFORMED and inconsistent frames: a session of well-formed requests that leave recognisable bytes in the
//     pages (WRITEs of PRNG-like data, READs of distinct contents), then a frame whose inner lengths do not fit the
//     bytes it carries (string / data length larger or smaller than what is present, counts and attribute flags that
//     announce more than there is, truncated bodies, trailing bytes, frames of unknown or reply types, an empty frame,
//     an over-long one), then — where the server goes on — requests that show what was done;
//   - option values REUSED across servers: the option list is built once and two or three servers are started from
//     it (a daemon prepares its options once and passes them to NewServer / NewRequestServer for every connection);
//     their sessions overlap: one has replies pending behind a held call while another answers requests with the same
//     order ids, then takes in a burst of frames long enough to need more pages than it ever owned.
//
// A scenario is a list of steps over its sessions, executed one after the other by one goroutine (so the overlap
// is exactly the one written down). It is run without and with the allocator (and, for several sessions, each
// session once more alone on a server of freshly built options); compared are the complete reply streams, how each
// session ended (who ended it, what Serve returned) and the effects.

import (
	"bytes"
	"crypto/sha256"
	"encoding/binary"
	"encoding/hex"
	"fmt"
	"io"
	"math/rand"
	"os"
	"path/filepath"
	"sort"
	"strings"

	"github.com/pkg/sftp"

	"verifharness/lib"
	"verifharness/peers"
	"verifharness/wire"
)

type c18Scn struct {
	Server   string `json:"server"`
	MaxTx    uint32 `json:"max_tx,omitempty"`
	ReadOnly bool   `json:"read_only,omitempty"`
	WorkDir  bool   `json:"work_dir,omitempty"`
	// Reuse: the option values are built once and every server of the scenario is started from them
	// (false: every server gets values of its own).
	Reuse bool        `json:"reuse_option_values,omitempty"`
	Sess  [][]gHandle `json:"sessions"` // the handles each session opens when it starts
	Steps []c18Step   `json:"steps"`
	// MaskTimes: the sessions ask for the attributes of objects they have made or written themselves (their times
	// are the time of the run): of ATTRS replies and of the entries of NAME replies everything but the access and
	// modification time (and the date column of the long name) is compared.
	MaskTimes bool `json:"mask_times,omitempty"`
	// Only "off": the scenario is run without the allocator only (checkC18 asks for that after the process running
	// the pair of runs died, to tell whether the death needs the allocator).
	Only string `json:"only,omitempty"`
}

// Server kinds of a scenario: "os" (os-backed Server on a scratch tree), "rs" (RequestServer over the instrumented
// handlers of gated_prog.go: reads of generated contents, writes recorded, calls can be held), "mem" (RequestServer
// over the package's own sftp.InMemHandler(): what is written is STORED by the handler and read back from it).
func (scn c18Scn) pathKind() string {
	if scn.Server == "os" {
		return "os"
	}
	return "rs"
}

// c18Step is one action on session S:
//
//	open    start the server, INIT, open the handles one by one
//	send    Ops in one piece; the calls of Ops[Hold…] are held; returns when every reply that is due has been read,
//	        every held call sits on its gate and every other call has returned; an OPEN / OPENDIR among them
//	        (open, openrw, openw, opennew, openrwc, opendir) with a name in H makes the handle of its HANDLE reply
//	        known under that name to the steps that follow
//	probe   Ops[0] changed by Mut, alone; returns when it was answered or the server ended the session
//	release the held calls of the session return (oldest first; Lifo: newest first); replies read as for send
//	end     close what is open, (Mut "short": a last frame without its last N bytes,) end of input, Serve returns
type c18Step struct {
	S    int     `json:"s"`
	Do   string  `json:"do"`
	Ops  []gOp   `json:"ops,omitempty"`
	Hold []int   `json:"hold,omitempty"`
	Mut  *c18Mut `json:"mut,omitempty"`
	Lifo bool    `json:"lifo,omitempty"`
	Tag  string  `json:"tag,omitempty"` // (stored-data) which part of the session the step belongs to: early | between | late
}

// c18Mut changes a well-formed frame (its outer length always says how many bytes follow, so the server takes in
// exactly this frame):
//
//	word   the Word-th word that says how much follows (string / data lengths, attribute flags, extended count;
//	       c18Words) is set as Set says
//	cut    the last N bytes of the frame are left out
//	keep   only the first N bytes behind the type byte are sent (0: the type alone, 4: type and id)
//	pad    N more bytes follow the request
//	raw    the bytes of Hex are sent as they are (an empty frame, unknown types, a length word above the maximum)
//	short  (end only) the frame is sent without its last N bytes — its outer length promises them — then the input ends
//	fit    the request is WELL-FORMED and its frame exactly N bytes long (the length word says N): a WRITE carries as
//	       many data bytes as that takes, a REALPATH / READLINK a path as long as that takes, any other request is
//	       followed by the missing bytes; frames above the servers' limit included (c18_store.go)
type c18Mut struct {
	Kind string `json:"kind"`
	Word int    `json:"word,omitempty"`
	Set  string `json:"set,omitempty"`
	N    int    `json:"n,omitempty"`
	Hex  string `json:"hex,omitempty"`
}

func (m c18Mut) text() string {
	switch m.Kind {
	case "word":
		return fmt.Sprintf("word%d:%s", m.Word, m.Set)
	case "raw":
		return "raw:" + m.Hex
	}
	return fmt.Sprintf("%s:%d", m.Kind, m.N)
}

// c18Grammar: what follows the id in a request: S string, U uint32, Q uint64, A attribute block.
var c18Grammar = map[string]string{
	"read": "SQU", "write": "SQS", "close": "S", "fstat": "S", "readdir": "S", "fsetstat": "SA", "fsync": "SS",
	"stat": "S", "lstat": "S", "opendir": "S", "remove": "S", "rmdir": "S", "realpath": "S", "readlink": "S",
	"open": "SUA", "openrw": "SUA", "openw": "SUA", "setstat": "SA", "mkdir": "SA", "rename": "SS", "symlink": "SS",
	"statvfs": "SS", "posixrename": "SSS", "hardlink": "SSS", "extunknown": "SS",
}

// c18Words returns the offsets, in the well-formed frame fr of a request of the given kind, of the words that say
// how much follows: every string / data length, the flags word of an attribute block, its extended count.
func c18Words(kind string, fr []byte) []int {
	pos := 9
	var out []int
	u32 := func(at int) uint32 {
		if at+4 > len(fr) {
			return 0
		}
		return binary.BigEndian.Uint32(fr[at:])
	}
	str := func() {
		out = append(out, pos)
		pos += 4 + int(u32(pos))
	}
	for _, g := range c18Grammar[kind] {
		switch g {
		case 'S':
			str()
		case 'U':
			pos += 4
		case 'Q':
			pos += 8
		case 'A':
			fl := u32(pos)
			out = append(out, pos)
			pos += 4
			if fl&wire.ASize != 0 {
				pos += 8
			}
			if fl&wire.AUIDGID != 0 {
				pos += 8
			}
			if fl&wire.APerm != 0 {
				pos += 4
			}
			if fl&wire.ATime != 0 {
				pos += 8
			}
			if fl&wire.AExt != 0 {
				n := u32(pos)
				out = append(out, pos)
				pos += 4
				for i := uint32(0); i < n && pos < len(fr); i++ {
					str()
					str()
				}
			}
		}
	}
	var ok []int
	for _, at := range out {
		if at+4 <= len(fr) {
			ok = append(ok, at)
		}
	}
	return ok
}

// c18Sets: how a word is changed, by name. v is its value, rest the number of bytes that follow it in the frame.
var c18Sets = []string{"+1", "+7", "+1492", "+100000", "rest+1", "x2+1", "-1", "0", "page", "max31", "max32", "flags-all"}

func c18SetValue(set string, v uint32, rest int) uint32 {
	switch set {
	case "+1":
		return v + 1
	case "+7":
		return v + 7
	case "+1492":
		return v + 1492
	case "+100000":
		return v + 100000
	case "rest+1":
		return uint32(rest) + 1
	case "x2+1":
		return 2*v + 1
	case "-1":
		return v - 1
	case "0":
		return 0
	case "page":
		return c18PageSize
	case "max31":
		return 0x7fffffff
	case "max32":
		return 0xffffffff
	case "flags-all":
		return v | 0x8000000f
	}
	return v
}

const c18FrameMax = 256 * 1024 // longest frame the servers take in

// apply returns the frame to send. ok = false: the change does not exist for this frame.
func (m c18Mut) apply(kind string, fr []byte) (out []byte, ok bool) {
	fix := func(b []byte) []byte {
		binary.BigEndian.PutUint32(b, uint32(len(b)-4))
		return b
	}
	switch m.Kind {
	case "word":
		ws := c18Words(kind, fr)
		if m.Word < 0 || m.Word >= len(ws) {
			return nil, false
		}
		at := ws[m.Word]
		v := binary.BigEndian.Uint32(fr[at:])
		nv := c18SetValue(m.Set, v, len(fr)-at-4)
		if nv == v {
			return nil, false
		}
		out = append([]byte(nil), fr...)
		binary.BigEndian.PutUint32(out[at:], nv)
		return out, true
	case "cut":
		if m.N <= 0 || m.N > len(fr)-5 { // the type byte stays
			return nil, false
		}
		return fix(append([]byte(nil), fr[:len(fr)-m.N]...)), true
	case "keep":
		if m.N < 0 || 5+m.N >= len(fr) { // N bytes behind the type byte stay
			return nil, false
		}
		return fix(append([]byte(nil), fr[:5+m.N]...)), true
	case "pad":
		if m.N <= 0 || len(fr)-4+m.N > c18FrameMax {
			return nil, false
		}
		out = append([]byte(nil), fr...)
		for i := 0; i < m.N; i++ {
			out = append(out, byte(0xA5+i*7))
		}
		return fix(out), true
	case "raw":
		b, err := hex.DecodeString(m.Hex)
		if err != nil || len(b) == 0 {
			return nil, false
		}
		return b, true
	case "short":
		if m.N <= 0 || m.N >= len(fr) {
			return nil, false
		}
		return append([]byte(nil), fr[:len(fr)-m.N]...), true
	}
	return nil, false
}

// ---- running a scenario ----

type c18Pend struct {
	key  string
	held bool
	bind *gOp // an OPEN / OPENDIR whose handle is to be known under the name bind.H
}

// c18Sx is one session of one run of a scenario.
type c18Sx struct {
	idx     int
	srv     *peers.Srv
	hub     *gHub
	k       *lib.Case
	handles map[string]string // name → handle string
	hinfo   map[string]gHandle
	closed  map[string]bool
	order   []string
	pend    []c18Pend
	setup   int
	sid     uint32
	opened  bool
	ended   bool
	dead    bool // the server has ended the session

	Events   []string
	EndedBy  string
	ServeErr string
	Raw      []byte
	Used     int
	Avail    int
	AllocOn  bool
	Effects  []string
	Probes   []string // outcome of every probe, for the histogram
}

type c18ScnRun struct {
	Sess     []*c18Sx
	Tree     []string
	FaultKey string
	Fault    string
}

func (x *c18Sx) event(f string, a ...any) { x.Events = append(x.Events, fmt.Sprintf(f, a...)) }

func c18ReplyText(f wire.Pkt) string { return gFrameText(f) + " " + gDigest(f.Body) }

// c18ScnOpts builds the option values of a server of the scenario.
func c18ScnOpts(scn c18Scn, alloc bool, root string) (o []sftp.ServerOption, r []sftp.RequestServerOption) {
	if scn.Server == "os" {
		if alloc {
			o = append(o, sftp.WithAllocator())
		}
		if scn.MaxTx != 0 {
			o = append(o, sftp.WithMaxTxPacket(scn.MaxTx))
		}
		if scn.ReadOnly {
			o = append(o, sftp.ReadOnly())
		}
		if scn.WorkDir {
			o = append(o, sftp.WithServerWorkingDirectory(root))
		}
		return
	}
	if alloc {
		r = append(r, sftp.WithRSAllocator())
	}
	if scn.MaxTx != 0 {
		r = append(r, sftp.WithRSMaxTxPacket(scn.MaxTx))
	}
	if scn.WorkDir {
		r = append(r, sftp.WithStartDirectory(gRSStartDir))
	}
	return
}

// union is the scenario as one program: every handle and every request (for the scratch tree and the effects).
func (scn c18Scn) union() gProg {
	p := gProg{Server: scn.Server, ReadOnly: scn.ReadOnly, WorkDir: scn.WorkDir, MaxTx: scn.MaxTx}
	for _, hs := range scn.Sess {
		p.Handles = append(p.Handles, hs...)
	}
	for _, st := range scn.Steps {
		p.Ops = append(p.Ops, st.Ops...)
	}
	return p
}

// c18ScnExec runs the scenario on servers with the allocator off or on. only >= 0: that session alone, on a server
// of freshly built option values.
func c18ScnExec(scn c18Scn, alloc bool, only int, root string) *c18ScnRun {
	run := &c18ScnRun{}
	cs := &gCase{Prog: gProg{Server: scn.pathKind(), WorkDir: scn.WorkDir}}
	abs := cs.abs(root)
	fault := func(key, f string, a ...any) *c18ScnRun {
		if run.FaultKey == "" {
			run.FaultKey, run.Fault = key, fmt.Sprintf(f, a...)
		}
		return run
	}
	if scn.Server == "os" {
		if err := gBuildTree(root, scn.union()); err != nil {
			return fault("harness/tree", "%v", err)
		}
	}
	for i := range scn.Sess {
		run.Sess = append(run.Sess, &c18Sx{idx: i, handles: map[string]string{}, hinfo: map[string]gHandle{}, closed: map[string]bool{}, sid: 0xF0000000,
			k: lib.NewCase(gClass(gChildProp, scn.pathKind()))})
	}
	var sharedOS []sftp.ServerOption
	var sharedRS []sftp.RequestServerOption
	reuse := scn.Reuse && only < 0
	if reuse {
		sharedOS, sharedRS = c18ScnOpts(scn, alloc, root)
	}
	defer func() { // whatever happened: every server that was started is let go
		for _, x := range run.Sess {
			if x.opened && !x.ended {
				x.hub.releaseAll()
				x.srv.CloseInput()
				hCleanupSrv(x.srv, x.k.Class(), gDeadline)
				x.Raw = x.srv.RawOut()
			}
		}
	}()
	srvName := scn.Server

	// settle reads the replies that are due and waits until the rest of the session's requests are where they belong.
	settle := func(x *c18Sx) bool {
		for len(x.pend) > 0 && !x.pend[0].held {
			f, err := hRecv(x.srv, x.k, gDeadlineNow())
			if err == io.EOF {
				x.dead, x.EndedBy = true, "server"
				x.event("the server ended the session with %d requests unanswered", len(x.pend))
				x.pend = nil
				return true
			}
			if err != nil {
				fault("count/missing-response/"+srvName, "session %d: a reply that is due (%d requests sent and not held back are unanswered) did not arrive: %v", x.idx, len(x.pend), err)
				return false
			}
			x.event("reply %s", c18ReplyText(f))
			if b := x.pend[0].bind; b != nil && f.Typ == wire.Handle && len(f.Body) >= 8 {
				d := wire.D{B: f.Body[4:]}
				x.handles[b.H], x.hinfo[b.H] = d.Str(), gHandle{Name: b.H, Kind: c18OpenKinds[b.K], Path: b.P}
				delete(x.closed, b.H)
				x.order = append(x.order, b.H)
			}
			x.pend = x.pend[1:]
		}
		var held []string
		for _, p := range x.pend {
			if p.held {
				held = append(held, p.key)
			}
		}
		if len(held) == 0 {
			return true
		}
		if err := x.hub.waitBlocked(held, gWait(x.k)); err != nil {
			fault("schedule/blocked-set-differs/"+srvName, "session %d: %v", x.idx, err)
			return false
		}
		for _, p := range x.pend {
			if p.held || p.key == "" {
				continue
			}
			key := p.key
			if err := x.hub.wait(gWait(x.k), func() (bool, error) {
				cs := x.hub.byKey[key]
				return len(cs) > 0 && cs[len(cs)-1].Fin != 0, nil
			}); err != nil {
				fault("schedule/call-did-not-return/"+srvName, "session %d: call %s behind a held call: %v", x.idx, key, err)
				return false
			}
		}
		return true
	}
	frameOf := func(x *c18Sx, o gOp) []byte {
		h := ""
		if o.H != "" {
			if hs, ok := x.handles[o.H]; ok {
				h = hs
			} else {
				h = "no-such-handle-" + o.H
			}
		}
		if fl, ok := c18OpenFlags[o.K]; ok {
			return wire.Req(wire.Open, o.ID, wire.B{}.Str(cs.sent(root, o)(o.P)).U32(fl).Raw(o.openBlock()))
		}
		return o.frame(cs.sent(root, o), h)
	}
	keyOf := func(x *c18Sx, o gOp) string {
		hd, ok := x.hinfo[o.H]
		if !ok || x.closed[o.H] {
			return ""
		}
		switch {
		case scn.Server == "mem": // no instrumented calls
			return ""
		case o.K == "read" && (hd.Kind == "get" || hd.Kind == "rw"):
		case o.K == "write" && !scn.ReadOnly && (hd.Kind == "put" || hd.Kind == "rw"):
		default:
			return ""
		}
		return fmt.Sprintf("rw:%s:%d", abs(hd.Path), o.Off)
	}

	for si, st := range scn.Steps {
		if st.S < 0 || st.S >= len(run.Sess) {
			return fault("harness/scenario", "step %d names session %d", si, st.S)
		}
		if only >= 0 && st.S != only {
			continue
		}
		x := run.Sess[st.S]
		if st.Do != "open" && !x.opened {
			return fault("harness/scenario", "step %d (%s) on a session that was not opened", si, st.Do)
		}
		if x.ended || (x.dead && st.Do != "end") {
			continue
		}
		switch st.Do {
		case "open":
			x.hub = newHub(true)
			x.hub.only = map[string]bool{}
			x.hub.kase = x.k
			oo, ro := sharedOS, sharedRS
			if !reuse {
				oo, ro = c18ScnOpts(scn, alloc, root)
			}
			if scn.Server == "os" {
				srv, err := peers.StartOS(oo...)
				if err != nil {
					return fault("harness/server-start", "%v", err)
				}
				x.srv = srv
			} else if scn.Server == "mem" {
				x.srv = peers.StartRS(sftp.InMemHandler(), ro...)
			} else {
				rsh := &gRS{hub: x.hub, obj: map[string]*gRSFile{}}
				x.srv = peers.StartRS(rsh.handlers(gIfaces{}), ro...)
			}
			x.opened = true
			if v, err := hHandshake(x.srv, x.k); err != nil || v.Typ != wire.Version {
				return fault("harness/handshake", "session %d: %v type %d", x.idx, err, v.Typ)
			}
			openName := cs.openName(root)
			for _, h := range scn.Sess[st.S] {
				x.sid++
				var f []byte
				switch h.Kind {
				case "get":
					f = wire.Req(wire.Open, x.sid, wire.B{}.Str(openName(h.Path)).U32(wire.FRead).U32(0))
				case "put":
					f = wire.Req(wire.Open, x.sid, wire.B{}.Str(openName(h.Path)).U32(wire.FWrite|wire.FCreat|wire.FTrunc).U32(0))
				case "rw":
					f = wire.Req(wire.Open, x.sid, wire.B{}.Str(openName(h.Path)).U32(wire.FRead|wire.FWrite).U32(0))
				case "new": // made (or emptied) by the OPEN itself, for reading and writing
					f = wire.Req(wire.Open, x.sid, wire.B{}.Str(openName(h.Path)).U32(wire.FRead|wire.FWrite|wire.FCreat|wire.FTrunc).U32(0))
				case "dir":
					f = wire.Req(wire.Opendir, x.sid, wire.B{}.Str(openName(h.Path)))
				default:
					return fault("harness/scenario", "handle kind %q", h.Kind)
				}
				r, err := hCall(x.srv, x.k, f)
				if err != nil || r.Typ != wire.Handle || r.ID() != x.sid {
					return fault("harness/setup-open", "session %d: opening %s (%s): type %d err %v", x.idx, h.Name, h.Kind, r.Typ, err)
				}
				d := wire.D{B: r.Body[4:]}
				hs := d.Str()
				x.handles[h.Name], x.hinfo[h.Name] = hs, h
				x.order = append(x.order, h.Name)
				if scn.Server == "os" {
					obj, hub := abs(h.Path), x.hub
					if !sftp.VerifSwapFile(x.srv.OS, hs, func(f sftp.VerifFile) sftp.VerifFile { return &gOSFile{f: f, hub: hub, obj: obj} }) {
						return fault("harness/swap", "handle %s not in the server's table", hs)
					}
				}
			}
			x.hub.mu.Lock()
			x.setup = len(x.hub.calls)
			x.hub.mu.Unlock()
		case "send":
			var stream []byte
			keys := make([]string, len(st.Ops))
			for i, o := range st.Ops {
				keys[i] = keyOf(x, o)
				stream = append(stream, frameOf(x, o)...)
			}
			isHeld := map[int]bool{}
			x.hub.mu.Lock()
			for _, i := range st.Hold {
				if i < 0 || i >= len(keys) || keys[i] == "" {
					x.hub.mu.Unlock()
					return fault("harness/scenario", "step %d: request %d cannot be held (it makes no call on an opened object)", si, i)
				}
				isHeld[i] = true
				x.hub.only[keys[i]] = true
			}
			x.hub.mu.Unlock()
			for i, o := range st.Ops {
				pe := c18Pend{key: keys[i], held: isHeld[i]}
				if _, isOpen := c18OpenKinds[o.K]; isOpen && o.H != "" {
					ob := o
					pe.bind = &ob
				}
				x.pend = append(x.pend, pe)
				if o.K == "close" {
					x.closed[o.H] = true
				}
			}
			if err := hSend(x.srv, x.k, stream); err != nil {
				return fault("input/send-failed/"+srvName, "session %d, step %d: %v", x.idx, si, err)
			}
			if !settle(x) {
				return run
			}
		case "release":
			var ix []int
			for i, p := range x.pend {
				if p.held {
					ix = append(ix, i)
				}
			}
			if st.Lifo {
				sort.Sort(sort.Reverse(sort.IntSlice(ix)))
			}
			for _, i := range ix {
				if err := x.hub.release(x.pend[i].key, gWait(x.k)); err != nil {
					return fault("schedule/held-call-did-not-return/"+srvName, "session %d: %v", x.idx, err)
				}
				x.hub.mu.Lock()
				delete(x.hub.only, x.pend[i].key)
				x.hub.mu.Unlock()
				x.pend[i].held = false
			}
			if !settle(x) {
				return run
			}
		case "probe":
			if len(st.Ops) != 1 || st.Mut == nil || len(x.pend) != 0 {
				return fault("harness/scenario", "step %d: a probe is one changed request, sent when nothing is outstanding", si)
			}
			var fr []byte
			var ok bool
			if st.Mut.Kind == "fit" {
				fr, ok = c18FitFrame(st.Ops[0], st.Mut.N, func(o gOp) []byte { return frameOf(x, o) })
			} else {
				fr, ok = st.Mut.apply(st.Ops[0].K, frameOf(x, st.Ops[0]))
			}
			if !ok {
				x.event("probe %s %s: no such change for this frame", st.Ops[0].K, st.Mut.text())
				x.Probes = append(x.Probes, "not-applicable")
				continue
			}
			if ok, why := x.srv.Contained(fr); !ok {
				// containment (peers/guard.go): the change made a path of the request name something outside the
				// scratch directories; the os-backed server would act on it for real
				x.event("probe %s %s: not run (%s)", st.Ops[0].K, st.Mut.text(), "a path of the changed frame leaves the scratch directory")
				_ = why
				x.Probes = append(x.Probes, "not-run")
				continue
			}
			var f wire.Pkt
			var err error
			if st.Mut.Kind == "fit" {
				// The frame may be longer than what the server takes: a server that refuses it stops reading in the middle
				// of it and returns from Serve with the connection left open, so the frame is written while the reply (or
				// the end of the server's output) is awaited, and the input is closed where the server has given up.
				sent := make(chan error, 1)
				go func() { sent <- x.srv.Send(fr) }()
				f, err = hRecv(x.srv, x.k, gDeadlineNow())
				if err == nil {
					if _, ok := lib.WaitCase(x.k, gDeadlineNow(), sent); !ok {
						return fault("input/send-blocked/"+srvName, "session %d: the frame of step %d (%d bytes, outer length %d) was answered, but not taken in completely", x.idx, si, len(fr), len(fr)-4)
					}
				} else {
					x.srv.CloseInput()
					<-sent
				}
			} else {
				if err := hSend(x.srv, x.k, fr); err != nil {
					if err == peers.ErrTimeout {
						return fault("input/send-blocked/"+srvName, "session %d: the server did not take in the frame of step %d (%d bytes, outer length %d)", x.idx, si, len(fr), len(fr)-4)
					}
					x.dead, x.EndedBy = true, "server"
					x.event("probe %s %s: the server stopped reading (%v)", st.Ops[0].K, st.Mut.text(), err)
					x.Probes = append(x.Probes, "ended")
					continue
				}
				f, err = hRecv(x.srv, x.k, gDeadlineNow())
			}
			switch {
			case err == nil:
				x.event("probe %s %s: reply %s", st.Ops[0].K, st.Mut.text(), c18ReplyText(f))
				out := gTypeName(f.Typ)
				if f.Typ == wire.Status {
					out += fmt.Sprintf("/code=%d", gParseStatus(f).Code)
				}
				x.Probes = append(x.Probes, "answered/"+out)
			case err == io.EOF:
				x.dead, x.EndedBy = true, "server"
				x.event("probe %s %s: the server ended the session", st.Ops[0].K, st.Mut.text())
				x.Probes = append(x.Probes, "ended")
			default:
				// neither answered nor ended (the deadline is charged to the hang budget): the session is given up
				x.dead, x.EndedBy = true, "nobody (probe neither answered nor refused)"
				x.event("probe %s %s: neither a reply nor the end of the session", st.Ops[0].K, st.Mut.text())
				x.Probes = append(x.Probes, "silence")
			}
		case "end":
			if len(x.pend) != 0 {
				return fault("harness/scenario", "step %d: end of session %d with calls still held", si, x.idx)
			}
			if !x.dead {
				for _, name := range x.order {
					if x.closed[name] {
						continue
					}
					x.sid++
					if err := hSend(x.srv, x.k, wire.Req(wire.Close, x.sid, wire.B{}.Str(x.handles[name]))); err != nil {
						return fault("input/send-failed/"+srvName, "session %d, clean-up CLOSE: %v", x.idx, err)
					}
					f, err := hRecv(x.srv, x.k, gDeadlineNow())
					if err == io.EOF {
						x.dead, x.EndedBy = true, "server"
						x.event("the server ended the session instead of answering the clean-up CLOSE of %s", name)
						break
					}
					if err != nil {
						return fault("count/missing-response/"+srvName, "session %d: clean-up CLOSE not answered: %v", x.idx, err)
					}
					x.event("reply %s", c18ReplyText(f))
				}
			}
			if !x.dead && st.Mut != nil && len(st.Ops) == 1 {
				if fr, ok := st.Mut.apply(st.Ops[0].K, frameOf(x, st.Ops[0])); ok {
					if ok, _ := x.srv.Contained(fr); !ok {
						x.event("last frame %s %s not sent (a path of it leaves the scratch directory), end of input", st.Ops[0].K, st.Mut.text()) // containment: see "probe"
					} else {
						x.event("last frame %s %s, then end of input", st.Ops[0].K, st.Mut.text())
						if err := hSend(x.srv, x.k, fr); err != nil {
							return fault("input/send-failed/"+srvName, "session %d, last frame: %v", x.idx, err)
						}
					}
				}
			}
			if !x.dead {
				x.EndedBy = "client"
			}
			x.srv.CloseInput()
			serr, ok := hWaitSrv(x.srv, x.k, gDeadline)
			if !ok {
				return fault("shutdown/serve-did-not-return/"+srvName, "session %d: Serve still running 20 s after the end of the input", x.idx)
			}
			x.ended = true
			x.ServeErr = "nil"
			if serr != nil {
				x.ServeErr = serr.Error()
			}
			for _, f := range x.srv.Drain(gDeadlineNow()) {
				x.event("after the end: %s", c18ReplyText(f))
			}
			x.Raw = x.srv.RawOut()
			x.Used, x.Avail, x.AllocOn = gAllocCounts(x.srv)
			calls, problems := x.hub.snapshot()
			for _, pr := range problems {
				x.Effects = append(x.Effects, "buffer-problem: "+pr)
			}
			if scn.Server == "rs" {
				for _, c := range calls[min(x.setup, len(calls)):] {
					x.Effects = append(x.Effects, fmt.Sprintf("%s %s n=%d err=%q %s", c.Key, c.Op, c.N, c.Err, gDigest(c.Data)))
				}
				sort.Strings(x.Effects)
			}
		default:
			return fault("harness/scenario", "step %d: %q", si, st.Do)
		}
	}
	for _, x := range run.Sess {
		if x.opened && !x.ended {
			return fault("harness/scenario", "session %d was not ended", x.idx)
		}
	}
	if scn.Server == "os" {
		run.Tree = c18TreeEffects(scn.union(), abs)
	}
	return run
}

// c18TreeEffects: every object the scenario names, as the file system shows it after all sessions have ended: kind
// and permissions, size, owner and — for regular files — a digest of the content.
func c18TreeEffects(p gProg, abs func(string) string) []string {
	seen := map[string]bool{}
	var out []string
	add := func(name string) {
		if name == "" || seen[name] || len(name) > 200 || strings.Contains(name, "/") {
			return
		}
		seen[name] = true
		fi, err := os.Lstat(abs(name))
		if err != nil {
			out = append(out, name+": absent")
			return
		}
		s := fmt.Sprintf("%s: mode=%v", name, fi.Mode())
		if fi.Mode().IsRegular() {
			s += fmt.Sprintf(" size=%d", fi.Size())
			if fi.Size() <= 1<<26 {
				if b, err := os.ReadFile(abs(name)); err == nil {
					h := sha256.Sum256(b)
					s += fmt.Sprintf(" content=%x", h[:8])
				}
			}
		}
		out = append(out, s)
	}
	for _, h := range p.Handles {
		add(h.Path)
	}
	for _, o := range p.Ops {
		if o.Pad == 0 {
			add(o.P)
		}
		add(o.P2)
	}
	sort.Strings(out)
	return out
}

// ---- judging a scenario ----

func c18ScnSummarise(st c18Stream, scratch string) gSummary {
	var s gSummary
	scn := *st.Scn
	srv := scn.Server
	hist := func(k string) { s.Hist = append(s.Hist, k) }
	fail := func(f lib.Failure) {
		f.Input = st
		s.Fails = append(s.Fails, f)
	}
	root := filepath.Join(scratch, "t")
	s.Text = fmt.Sprintf("%s %s", st.Fam, gJSON(scn))
	s.Nontrivial = true
	hist("server=" + srv)
	hist("family=" + st.Fam)
	hist("mode=sessions")
	opt := c02Opt{ReadOnly: scn.ReadOnly, WorkDir: scn.WorkDir}
	hist("options=" + srv + "/" + opt.text())
	for _, t := range opt.tokens() {
		hist("option=" + srv + "/" + t + "/family=" + st.Fam)
	}
	hist(fmt.Sprintf("max-tx=%d", scn.MaxTx))
	hist(fmt.Sprintf("sessions=%d/option-values-reused=%v", len(scn.Sess), scn.Reuse))
	for _, step := range scn.Steps {
		switch step.Do {
		case "probe":
			m := step.Mut
			switch m.Kind {
			case "word":
				hist(fmt.Sprintf("changed-frame=%s/word%d/%s", step.Ops[0].K, m.Word, m.Set))
			case "raw":
				hist("changed-frame=raw/" + m.Hex[:min(len(m.Hex), 16)])
			default:
				hist(fmt.Sprintf("changed-frame=%s/%s", step.Ops[0].K, m.Kind))
			}
		case "send":
			if len(step.Hold) > 0 {
				hist(fmt.Sprintf("burst-with-held-calls=%02d-requests/%d-held", len(step.Ops), len(step.Hold)))
			}
		case "end":
			if step.Mut != nil {
				hist("input-ends-inside-a-frame=" + step.Ops[0].K)
			}
		}
	}
	for _, h := range c18StoreHist(st.Fam, scn) {
		hist(h)
	}
	mask := func(raw []byte) []byte {
		raw = c18MaskVolatile(srv, raw)
		if scn.MaskTimes {
			raw = c18MaskTimes(raw)
		}
		return raw
	}
	if scn.Only == "off" { // (after the process running the pair died) does the scenario run through without the allocator?
		off := c18ScnExec(scn, false, -1, root)
		if off.FaultKey != "" {
			kind := "oracle"
			if strings.HasPrefix(off.FaultKey, "harness/") {
				kind = "tie"
			}
			fail(lib.Failure{Kind: kind, Key: off.FaultKey, What: off.Fault})
		}
		return s
	}

	var off, on *c18ScnRun
	attempts := 0
	type sdiff struct {
		s    int
		text string
	}
	var diffs []sdiff
	for attempts = 1; ; attempts++ {
		off = c18ScnExec(scn, false, -1, root)
		on = c18ScnExec(scn, true, -1, root)
		diffs = nil
		if off.FaultKey != "" || on.FaultKey != "" {
			break
		}
		timeOnly := true
		for i := range off.Sess {
			if d, timeLike := c18FirstDiff(mask(off.Sess[i].Raw), mask(on.Sess[i].Raw)); d != "" {
				diffs = append(diffs, sdiff{i, d})
				timeOnly = timeOnly && timeLike
			}
		}
		if len(diffs) == 0 || !timeOnly || attempts == 3 {
			break
		}
	}
	if attempts > 1 {
		hist(fmt.Sprintf("pairs-repeated-because-of-time-fields=%d", attempts-1))
	}
	events := func(r *c18ScnRun) any {
		m := map[string]any{}
		for _, x := range r.Sess {
			ev := x.Events
			if len(ev) > 40 {
				ev = append(append([]string(nil), ev[:20]...), append([]string{"…"}, ev[len(ev)-19:]...)...)
			}
			m[fmt.Sprintf("session-%d", x.idx)] = map[string]any{"events": ev, "ended_by": x.EndedBy, "serve_returned": x.ServeErr}
		}
		return m
	}
	for _, r := range []*c18ScnRun{off, on} {
		if r.FaultKey == "" {
			continue
		}
		kind, key, what := "oracle", r.FaultKey, r.Fault
		if strings.HasPrefix(key, "harness/") {
			kind = "tie"
		} else if r == on && off.FaultKey == "" {
			key, what = "alloc/"+key, "only with the allocator: "+what
		}
		fail(lib.Failure{Kind: kind, Key: key, What: what, Actual: events(r)})
		if r == off {
			break
		}
	}
	if off.FaultKey != "" || on.FaultKey != "" {
		return s
	}
	for _, x := range off.Sess {
		for _, p := range x.Probes {
			hist("changed-frame-outcome=" + srv + "/" + p)
			if p == "not-run" {
				hist(lib.NotRunBucket)
			}
		}
		hist("session-ended-by=" + x.EndedBy)
	}
	if len(diffs) > 0 {
		hist("replies-differ-with-allocator/family=" + st.Fam)
	}
	for _, d := range diffs {
		fail(lib.Failure{Kind: "oracle", Key: "alloc/response-bytes-differ/" + srv, What: fmt.Sprintf("the reply stream of session %d with the allocator is not byte-identical to the one without", d.s),
			Expected: map[string]any{"identical streams; without the allocator": events(off)}, Actual: map[string]any{"first difference": d.text, "with the allocator": events(on)}})
	}
	for i := range off.Sess {
		a, b := off.Sess[i], on.Sess[i]
		if a.EndedBy != b.EndedBy || a.ServeErr != b.ServeErr {
			fail(lib.Failure{Kind: "oracle", Key: "alloc/session-end-differs/" + srv, What: fmt.Sprintf("session %d does not end the same way with the allocator as without (who ended it, what Serve returned)", i),
				Expected: map[string]any{"ended_by": a.EndedBy, "serve_returned": a.ServeErr}, Actual: map[string]any{"ended_by": b.EndedBy, "serve_returned": b.ServeErr, "with the allocator": events(on)}})
		}
		if strings.Join(a.Effects, "\n") != strings.Join(b.Effects, "\n") {
			d0, d1 := c18ListDiff(a.Effects, b.Effects)
			fail(lib.Failure{Kind: "oracle", Key: "alloc/effects-differ/" + srv, What: fmt.Sprintf("the requests of session %d did not do the same with the allocator as without: the handlers were given other calls or other data", i),
				Expected: map[string]any{"without_allocator": d0}, Actual: map[string]any{"with_allocator": d1}})
		}
		if !b.AllocOn || a.AllocOn {
			fail(lib.Failure{Kind: "tie", Key: "harness/allocator-option", What: "allocator option not reflected by the server"})
		}
		if b.Used != 0 || b.Avail != 0 {
			fail(lib.Failure{Kind: "oracle", Key: "alloc/not-freed-after-serve/" + srv, What: fmt.Sprintf("allocator tables of the server of session %d not empty after its Serve returned", i),
				Expected: "used=0 avail=0", Actual: fmt.Sprintf("used=%d avail=%d", b.Used, b.Avail)})
		}
	}
	if strings.Join(off.Tree, "\n") != strings.Join(on.Tree, "\n") {
		d0, d1 := c18ListDiff(off.Tree, on.Tree)
		fail(lib.Failure{Kind: "oracle", Key: "alloc/effects-differ/" + srv, What: "the requests did not do the same with the allocator as without: the objects they name differ after every Serve has returned (kind and permissions, size, content)",
			Expected: map[string]any{"without_allocator": d0}, Actual: map[string]any{"with_allocator": d1}})
	}
	// several sessions: each of them once more alone, on a server whose option values were built for it
	if len(scn.Sess) > 1 {
		for i := range scn.Sess {
			solo := c18ScnExec(scn, false, i, root)
			if solo.FaultKey != "" {
				kind := "oracle"
				if strings.HasPrefix(solo.FaultKey, "harness/") {
					kind = "tie"
				}
				fail(lib.Failure{Kind: kind, Key: solo.FaultKey, What: fmt.Sprintf("session %d alone: %s", i, solo.Fault)})
				continue
			}
			a, b := solo.Sess[i], off.Sess[i]
			d, _ := c18FirstDiff(mask(a.Raw), mask(b.Raw))
			d = strings.NewReplacer("without allocator", "alone", "with allocator", "together with the other servers").Replace(d)
			if d == "" && a.EndedBy == b.EndedBy && a.ServeErr == b.ServeErr {
				continue
			}
			key := "sessions/replies-depend-on-another-server/" + srv
			if scn.Reuse {
				key = "options/value-reused-by-several-servers/session-differs-from-solo/" + srv
			}
			fail(lib.Failure{Kind: "oracle", Key: key, What: fmt.Sprintf("session %d (allocator off) is not answered as it is when it runs alone on a server with option values of its own: servers share state", i),
				Expected: map[string]any{"alone": map[string]any{"events": a.Events, "ended_by": a.EndedBy, "serve_returned": a.ServeErr}}, Actual: map[string]any{"first difference": d, "together": events(off)}})
		}
	}
	if (st.Fam == "reused-option-values" || st.Fam == "stored-data" || st.Fam == "frame-limits") && len(scn.Steps) <= 14 {
		s.Sample = map[string]any{"family": st.Fam, "scenario": scn, "with_allocator": events(on)}
	}
	return s
}

// c18MaskVolatile: the os-backed server answers statvfs with the live block and inode counts of the host file system,
// which change between two runs while other processes write to the disk (a changed frame can turn into a statvfs of
// an existing directory); of such replies only type, id and length are compared.
func c18MaskVolatile(server string, raw []byte) []byte {
	if server != "os" {
		return raw
	}
	out := append([]byte(nil), raw...)
	for pos := 0; pos+4 <= len(out); {
		n := int(binary.BigEndian.Uint32(out[pos:]))
		if n == 0 || pos+4+n > len(out) {
			break
		}
		if out[pos+4] == wire.ExtendedReply {
			for i := pos + 9; i < pos+4+n; i++ {
				out[i] = 0
			}
		}
		pos += 4 + n
	}
	return out
}

func c18ListDiff(a, b []string) (da, db []string) {
	in := func(xs []string) map[string]bool {
		m := map[string]bool{}
		for _, x := range xs {
			m[x] = true
		}
		return m
	}
	ma, mb := in(a), in(b)
	for _, x := range a {
		if !mb[x] && len(da) < 6 {
			da = append(da, x)
		}
	}
	for _, x := range b {
		if !ma[x] && len(db) < 6 {
			db = append(db, x)
		}
	}
	return
}

// ---- generators ----

func c18ScnOptApply(scn *c18Scn, o c02Opt) { scn.ReadOnly, scn.WorkDir = o.ReadOnly, o.WorkDir }

// c18MalHandles: what a session of the malformed family opens.
func c18MalHandles(ro bool) []gHandle {
	if ro {
		return []gHandle{{Name: "r0", Kind: "get", Path: "f0"}, {Name: "r1", Kind: "get", Path: "f1"}, {Name: "r2", Kind: "get", Path: "f2"}, {Name: "d0", Kind: "dir", Path: "d0"}}
	}
	return []gHandle{{Name: "w0", Kind: "put", Path: "g0"}, {Name: "x0", Kind: "rw", Path: "x0"}, {Name: "r0", Kind: "get", Path: "f0"}, {Name: "r1", Kind: "get", Path: "f1"}, {Name: "d0", Kind: "dir", Path: "d0"}}
}

// c18Targets: the well-formed requests that get changed — every request type with an inner length, and the three
// sizes of WRITE (data of 0, 8 and 1000 bytes).
func c18Targets(server string, ro bool) []gOp {
	wr, wp := "x0", "w0"
	if ro {
		wr, wp = "r1", "r2" // refused before the handle is looked at; the frame is taken in and decoded all the same
	}
	at := &gAttr{Size: 77, UID: 1234, GID: 2345, Perm: 0o640, Atime: 1_100_000_000, Mtime: 1_200_000_000, Ext: [][2]string{{"ext1@example.com", "vvvv"}, {"ext2@example.com", "w"}}}
	lst := "s1"
	if server == "rs" {
		lst = "lnk"
	}
	return []gOp{
		{K: "write", H: wr, Off: 70000, Len: 8}, {K: "write", H: wr, Off: 70000, Len: 1000}, {K: "write", H: wp, Off: 300000, Len: 0},
		{K: "read", H: "r0", Off: 1234, Len: 100}, {K: "fstat", H: "r0"}, {K: "readdir", H: "d0"}, {K: "close", H: "r1"},
		{K: "fsetstat", H: wr, AF: wire.APerm | wire.ATime | wire.AExt, At: at}, {K: "fsync", H: "r0"},
		{K: "stat", P: "s0"}, {K: "lstat", P: lst}, {K: "opendir", P: "sd"}, {K: "open", P: "s1"},
		{K: "openw", P: "ow1", AF: wire.APerm | wire.ASize, At: at},
		{K: "setstat", P: "ss1", AF: wire.ASize | wire.APerm | wire.ATime | wire.AExt, At: at},
		{K: "mkdir", P: "mk1", AF: wire.APerm, At: at},
		{K: "remove", P: "rm1"}, {K: "rmdir", P: "rd1"}, {K: "realpath", P: "sd/../s1"}, {K: "readlink", P: "lnk"},
		{K: "rename", P: "rn1", P2: "rn1.to"}, {K: "symlink", P: "s0", P2: "sl1"},
		{K: "statvfs", P: "missing1"}, {K: "posixrename", P: "pr1", P2: "pr1.to"}, {K: "hardlink", P: "hl1", P2: "hl1.to"}, {K: "extunknown"},
	}
}

// c18RawFrames: frames that are no request at all.
var c18RawFrames = []string{
	"00000000",                           // empty frame
	"00040001",                           // length word one above the longest frame (nothing follows)
	"ffffffff",                           // length word 2^32-1
	"0000000106",                         // WRITE without even an id
	"0000000103",                         // OPEN, ditto
	"00000001c8",                         // EXTENDED, ditto
	"0000000500000000" + "07",            // type 0
	"0000000563000000" + "07",            // type 99
	"00000005ff000000" + "07",            // type 255
	"0000000565000000" + "07",            // a STATUS sent as a request, cut short
	"0000000d65000000070000000000000000", // a STATUS sent as a request
	"0000000567000000" + "07",            // a DATA sent as a request
	"000000050100000003",                 // INIT once more
	"000000090100000003" + "00000000",    // INIT with trailing bytes
	"0000000502000000" + "03",            // VERSION sent by the client
}

// c18Primers: bursts of well-formed requests that leave recognisable bytes in the pages: WRITEs of PRNG-like data
// (on a read-only server they are refused — their frames are taken in all the same), READs of distinct contents.
func c18Primers(rng *rand.Rand, ro bool, id *uint32) []c18Step {
	var steps []c18Step
	wh := "w0"
	if ro {
		wh = "r2"
	}
	nid := func() uint32 { *id++; return *id }
	woff, roff := int64(0), int64(0)
	for b := 1 + rng.Intn(3); b > 0; b-- {
		var ops []gOp
		for k := 1 + rng.Intn(6); k > 0; k-- {
			if rng.Intn(3) > 0 {
				ln := []uint32{2000, 8192, 20000, 32768}[rng.Intn(4)]
				ops = append(ops, gOp{K: "write", H: wh, Off: woff, Len: ln, ID: nid()})
				woff += 40000
			} else {
				ops = append(ops, gOp{K: "read", H: "r0", Off: roff, Len: []uint32{1000, 32768}[rng.Intn(2)], ID: nid()})
				roff += 33001
			}
		}
		steps = append(steps, c18Step{Do: "send", Ops: ops})
	}
	return steps
}

// c18Followups: what is asked after a probe that the server went on from: the region a changed WRITE was aimed at is
// read back, and a read of known content.
func c18Followups(ro bool, id *uint32, k int) c18Step {
	nid := func() uint32 { *id++; return *id }
	ops := []gOp{{K: "read", H: "r0", Off: 500000 + int64(k)*777, Len: 100, ID: nid()}}
	if !ro {
		ops = append(ops, gOp{K: "read", H: "x0", Off: 69990 + int64(k), Len: 2000, ID: nid()})
	}
	return c18Step{Do: "send", Ops: ops}
}

// c18MalScn puts a session together: primers, then every probe followed by the follow-ups, then the end.
func c18MalScn(rng *rand.Rand, server string, opt c02Opt, probes []c18Step, end *c18Step) c18Scn {
	scn := c18Scn{Server: server, Sess: [][]gHandle{c18MalHandles(opt.ReadOnly)}}
	c18ScnOptApply(&scn, opt)
	id := uint32(0)
	scn.Steps = append(scn.Steps, c18Step{Do: "open"})
	scn.Steps = append(scn.Steps, c18Primers(rng, opt.ReadOnly, &id)...)
	for k, p := range probes {
		id++
		p.Ops = append([]gOp(nil), p.Ops...)
		if len(p.Ops) == 1 {
			p.Ops[0].ID = id
		}
		scn.Steps = append(scn.Steps, p, c18Followups(opt.ReadOnly, &id, k))
	}
	e := c18Step{Do: "end"}
	if end != nil {
		e = *end
	}
	scn.Steps = append(scn.Steps, e)
	return scn
}

// c18AllProbes lists every change of every target: each word x each way of setting it, cuts, pads, and the raw frames.
func c18AllProbes(server string, ro bool) (writes, others []c18Step) {
	cs := &gCase{Prog: gProg{Server: server}}
	for _, t := range c18Targets(server, ro) {
		fr := t.frame(cs.abs("/R"), "1")
		var ps []c18Step
		for w := range c18Words(t.K, fr) {
			for _, set := range c18Sets {
				ps = append(ps, c18Step{Do: "probe", Ops: []gOp{t}, Mut: &c18Mut{Kind: "word", Word: w, Set: set}})
			}
		}
		for _, n := range []int{1, 2, 3, 4, 5, 8, 9, 13} {
			ps = append(ps, c18Step{Do: "probe", Ops: []gOp{t}, Mut: &c18Mut{Kind: "cut", N: n}})
		}
		for _, n := range []int{0, 3, 4, 6, 8, 9, 12} {
			ps = append(ps, c18Step{Do: "probe", Ops: []gOp{t}, Mut: &c18Mut{Kind: "keep", N: n}})
		}
		for _, n := range []int{1, 4, 64, 1492, 100000} {
			ps = append(ps, c18Step{Do: "probe", Ops: []gOp{t}, Mut: &c18Mut{Kind: "pad", N: n}})
		}
		if t.K == "write" {
			writes = append(writes, ps...)
		} else {
			others = append(others, ps...)
		}
	}
	for _, h := range c18RawFrames {
		others = append(others, c18Step{Do: "probe", Ops: []gOp{{K: "extunknown"}}, Mut: &c18Mut{Kind: "raw", Hex: h}})
	}
	return
}

// c18MalformedJobs: the malformed family. Every change of a WRITE frame gets a session of its own in both tiers; of
// the others quick takes a PRNG sample (thorough: all of them, under every option combination); then sessions with
// two or three PRNG-chosen probes, and sessions whose input ends inside a frame.
func c18MalformedJobs(rng *rand.Rand, server string, thorough bool) []c18Stream {
	var out []c18Stream
	opts := c18Opts(server)
	turn := 0
	add := func(probes []c18Step, end *c18Step, fixed *c02Opt) {
		turn++
		for j, o := range opts {
			if fixed != nil {
				if j > 0 {
					break
				}
				o = *fixed
			} else if !thorough && j != turn%len(opts) {
				continue
			}
			scn := c18MalScn(rng, server, o, probes, end)
			out = append(out, c18Stream{Fam: "malformed-frames", Scn: &scn})
		}
	}
	for _, ro := range []bool{false, true} {
		if ro && server != "os" {
			continue
		}
		writes, others := c18AllProbes(server, ro)
		fix := func() *c02Opt {
			if !ro {
				if thorough {
					return nil
				}
				return &c02Opt{WorkDir: rng.Intn(4) == 0}
			}
			return &c02Opt{ReadOnly: true, WorkDir: rng.Intn(2) == 0}
		}
		if thorough && !ro {
			// every change under every option combination (the read-only ones use the targets of a read-only server below)
			opts = []c02Opt{{}, {WorkDir: true}}
		}
		for _, p := range writes {
			if !ro || thorough || rng.Intn(3) == 0 {
				add([]c18Step{p}, nil, fix())
			}
		}
		rng.Shuffle(len(others), func(a, b int) { others[a], others[b] = others[b], others[a] })
		n := len(others)
		if !thorough {
			n = min(n, map[bool]int{false: 110, true: 25}[ro])
		}
		for _, p := range others[:n] {
			add([]c18Step{p}, nil, fix())
		}
		all := append(append([]c18Step(nil), writes...), others...)
		nMulti, nShort := 18, 9
		if thorough {
			nMulti, nShort = 800, 200
		}
		if ro {
			nMulti, nShort = nMulti/3, nShort/3
		}
		for k := 0; k < nMulti; k++ {
			var ps []c18Step
			for j := 2 + rng.Intn(2); j > 0; j-- {
				ps = append(ps, all[rng.Intn(len(all))])
			}
			add(ps, nil, fix())
		}
		ts := c18Targets(server, ro)
		for k := 0; k < nShort; k++ {
			t := ts[rng.Intn(len(ts))]
			t.ID = 0x7777
			end := &c18Step{Do: "end", Ops: []gOp{t}, Mut: &c18Mut{Kind: "short", N: 1 + rng.Intn(12)}}
			var ps []c18Step
			if rng.Intn(2) == 0 {
				ps = append(ps, all[rng.Intn(len(all))])
			}
			add(ps, end, fix())
		}
		opts = c18Opts(server)
	}
	return out
}

// c18ReuseScn: two or three servers started from ONE list of option values. Session 0 (and, with three servers in
// variant 3, session 2) pipelines READs of distinct contents with one of the first calls held, so that the replies of
// the others wait in the server; meanwhile a neighbour session answers at least as many requests (the same order
// ids), then takes in a burst of 8…16 frames with the first calls held (as many pages in use at once), lets go;
// then the waiting sessions are let go. Variants: who is let go first, whether the neighbour ends (its Serve frees its
// allocator) while the other still waits, more traffic afterwards.
func c18ReuseScn(rng *rand.Rand, server string, opt c02Opt, maxTx uint32, nsrv int, reuse bool, variant int) c18Scn {
	scn := c18Scn{Server: server, MaxTx: maxTx, Reuse: reuse}
	c18ScnOptApply(&scn, opt)
	ro := opt.ReadOnly
	for s := 0; s < nsrv; s++ {
		hs := []gHandle{{Name: fmt.Sprintf("s%dr", s), Kind: "get", Path: fmt.Sprintf("f%d", s)}}
		if ro {
			hs = append(hs, gHandle{Name: fmt.Sprintf("s%dw", s), Kind: "get", Path: fmt.Sprintf("f%d", 3+s)})
		} else {
			hs = append(hs, gHandle{Name: fmt.Sprintf("s%dw", s), Kind: "put", Path: fmt.Sprintf("g%d", s)})
		}
		scn.Sess = append(scn.Sess, hs)
	}
	ids := make([]uint32, nsrv)
	roff, woff := make([]int64, nsrv), make([]int64, nsrv)
	read := func(s int, ln uint32) gOp {
		ids[s]++
		o := gOp{K: "read", H: fmt.Sprintf("s%dr", s), Off: roff[s], Len: ln, ID: ids[s]}
		roff[s] += 33001
		if s == 0 && roff[s] > 560000 { // f0 has 600000 bytes, the others 100000
			roff[s] = 7
		} else if s != 0 && roff[s] > 66000 {
			roff[s] = int64(rng.Intn(1000)) + roff[s]%977
		}
		return o
	}
	write := func(s int, ln uint32) gOp {
		ids[s]++
		o := gOp{K: "write", H: fmt.Sprintf("s%dw", s), Off: woff[s], Len: ln, ID: ids[s]}
		woff[s] += 40000
		return o
	}
	step := func(s int, do string) c18Step { return c18Step{S: s, Do: do} }
	victim := func(s int) (c18Step, int) {
		n := 3 + rng.Intn(8)
		st := step(s, "send")
		seen := map[int64]bool{}
		for i := 0; i < n; i++ {
			o := read(s, []uint32{1, 100, 4096, 32768, 32768}[rng.Intn(5)])
			for seen[o.Off] {
				o.Off += 13
			}
			seen[o.Off] = true
			st.Ops = append(st.Ops, o)
		}
		st.Hold = []int{rng.Intn(min(n, 3))}
		return st, n
	}
	neighbour := func(s, atLeast int) []c18Step {
		a := step(s, "send")
		seen := map[int64]bool{}
		uniq := func(o gOp) gOp {
			if o.K == "read" {
				for seen[o.Off] {
					o.Off += 13
				}
				seen[o.Off] = true
			}
			return o
		}
		for i := atLeast + 2 + rng.Intn(4); i > 0; i-- {
			if rng.Intn(2) == 0 {
				a.Ops = append(a.Ops, uniq(read(s, []uint32{1, 1000, 32768}[rng.Intn(3)])))
			} else {
				a.Ops = append(a.Ops, write(s, []uint32{1, 4096, 32768}[rng.Intn(3)]))
			}
		}
		b := step(s, "send")
		m := 8 + rng.Intn(9)
		for i := 0; i < m; i++ {
			if rng.Intn(4) == 0 || (ro && i < 6) {
				b.Ops = append(b.Ops, uniq(read(s, []uint32{100, 32768}[rng.Intn(2)])))
			} else {
				b.Ops = append(b.Ops, write(s, []uint32{4096, 20000, 32768}[rng.Intn(3)]))
			}
		}
		for i := 0; i < 1+rng.Intn(6) && i < m; i++ {
			if o := b.Ops[i]; o.K == "read" || !ro {
				b.Hold = append(b.Hold, i)
			}
		}
		return []c18Step{a, b}
	}
	more := func(s int) c18Step {
		st := step(s, "send")
		for i := 2 + rng.Intn(5); i > 0; i-- {
			if rng.Intn(2) == 0 {
				o := read(s, []uint32{100, 32768}[rng.Intn(2)])
				o.Off += 500 + int64(i) // offsets no earlier read of the session has used
				st.Ops = append(st.Ops, o)
			} else {
				st.Ops = append(st.Ops, write(s, []uint32{1, 32768}[rng.Intn(2)]))
			}
		}
		return st
	}
	rel := func(s int) c18Step { return c18Step{S: s, Do: "release", Lifo: rng.Intn(2) == 0} }
	for s := 0; s < nsrv; s++ {
		if !(nsrv == 3 && variant == 2 && s == 2) { // variant 2: the third server starts late
			scn.Steps = append(scn.Steps, step(s, "open"))
		}
	}
	v0, n0 := victim(0)
	scn.Steps = append(scn.Steps, v0)
	switch variant {
	case 0: // victim let go first
		scn.Steps = append(scn.Steps, neighbour(1, n0)...)
		if nsrv == 3 {
			scn.Steps = append(scn.Steps, neighbour(2, n0)...)
		}
		scn.Steps = append(scn.Steps, rel(0), rel(1))
		if nsrv == 3 {
			scn.Steps = append(scn.Steps, rel(2))
		}
	case 1: // neighbour let go first, more traffic, then the victim
		scn.Steps = append(scn.Steps, neighbour(1, n0)...)
		scn.Steps = append(scn.Steps, rel(1), more(1))
		if nsrv == 3 {
			scn.Steps = append(scn.Steps, neighbour(2, n0)...)
			scn.Steps = append(scn.Steps, rel(2))
		}
		scn.Steps = append(scn.Steps, rel(0), more(0))
	case 2: // the neighbour ends while the victim waits; a third server starts afterwards
		scn.Steps = append(scn.Steps, neighbour(1, n0)...)
		scn.Steps = append(scn.Steps, rel(1), step(1, "end"))
		if nsrv == 3 {
			scn.Steps = append(scn.Steps, step(2, "open"))
			scn.Steps = append(scn.Steps, neighbour(2, n0)...)
			scn.Steps = append(scn.Steps, rel(2))
		}
		scn.Steps = append(scn.Steps, rel(0), more(0))
	default: // two sessions wait, one neighbour
		if nsrv == 3 {
			v2, n2 := victim(2)
			scn.Steps = append(scn.Steps, v2)
			n0 = max(n0, n2)
		}
		scn.Steps = append(scn.Steps, neighbour(1, n0)...)
		scn.Steps = append(scn.Steps, rel(1))
		if nsrv == 3 {
			scn.Steps = append(scn.Steps, rel(2))
		}
		scn.Steps = append(scn.Steps, rel(0))
	}
	ended := map[int]bool{}
	for _, st := range scn.Steps {
		if st.Do == "end" {
			ended[st.S] = true
		}
	}
	for _, s := range rng.Perm(nsrv) {
		if !ended[s] {
			scn.Steps = append(scn.Steps, step(s, "end"))
		}
	}
	return scn
}

func c18ReuseJobs(rng *rand.Rand, server string, thorough bool) []c18Stream {
	var out []c18Stream
	n := 30
	if thorough {
		n = 1000
	}
	opts := c18Opts(server)
	for k := 0; k < n; k++ {
		nsrv := 2 + k%2
		scn := c18ReuseScn(rng, server, opts[k%len(opts)], []uint32{0, 0, 65536}[rng.Intn(3)], nsrv, k%6 != 5, k%4)
		out = append(out, c18Stream{Fam: "reused-option-values", Scn: &scn})
	}
	return out
}

var _ = bytes.Equal
