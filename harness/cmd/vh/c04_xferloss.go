package main

// C04, family "xfer-loss": the connection is lost in the MIDDLE of concurrent multi-chunk transfers.
//
// One to three transfers (File.ReadFrom with concurrent writes fed by readers with Len / Size / a negative Size,
// File.ReadFromWithConcurrency, File.WriteTo, File.ReadAt, File.Read, File.WriteAt and File.Write with concurrent
// writes) run in parallel on one Client, each on a File of its own.  The peer answers the first Answer requests of
// every transfer and then keeps quiet, so that the transfers fill their windows: At requests of each transfer
// (2 … 64 and more, bounded by MaxConcurrentRequestsPerFile, the concurrency argument and the number of chunks) are
// on the wire and unanswered, their workers parked.  At that moment
//
//   - optionally a BURST: several of the unanswered requests are answered in ONE write (error statuses, valid
//     replies, or both alternating), so that their workers wake at the same instant and the transfer starts its own
//     error shutdown; after 0 … 150 µs
//   - the connection ends: the reply stream hits EOF (cut) or a Read error value of the table cliErrKinds (err), the
//     request stream is failed by the peer (failinput: pending and later writes of the client fail, the peer then exits),
//     Client.Close is called while the transfers are in flight (close), or the end of the reply stream and Client.Close
//     come within 0 … 120 µs of each other in either order (cut+close, err+close).
//
// The receiver's broadcast wakes every parked worker of every transfer back to back: what two workers of one transfer
// do "at the same time" (closing a shared channel, sending on it, touching the transfer's result) happens here.
//
// Then, on the dead connection, 9 … 64 multi-chunk transfers of every kind (2 … 130 chunks) are STARTED, by 1 … 8
// callers at the same time, each on a File of its own: every chunk of such a transfer fails at once, as fast as the
// transfer hands them to its workers — no I/O at all —, so several workers of one transfer are handling errors at
// the same moment all the time (measured on a defect of that kind — a check-then-close of a shared channel in the
// workers —: the in-flight transfer shows it in one trial of 600 … 3000, the transfers started afterwards in one of
// 10 … 100 trials when the process has the processors it asks for).
//
// The case runs under a chosen GOMAXPROCS (≥ 2 for the races; 1 as a control) and is repeated for as many independent
// trials (fresh Client each; 1, 2, 4 or 8 of them at a time) as fit into its time allowance; it stops at the first trial
// that fails.  It runs in a child process: a panic in a package goroutine is the child's death, reported by the parent as
// "call did not return an error: process crashed" with the panic text.  The parent runs these cases a few at a time and
// nothing else beside them (c04XferWorkers).
//
// Oracles (each wait through the case's hang budget):
//   * every transfer returns (20 s), and with a non-nil error other than io.EOF unless every one of its chunks was
//     answered successfully before the end (never the case here by construction, but computed from what was delivered);
//   * calls started after the loss — Stat, the multi-chunk transfers, File.Close of every File — return, with an error;
//   * Client.Wait and Client.Close return; after every round the goroutine table is free of pkg/sftp (polled ≤ 5 s).

import (
	"bytes"
	"fmt"
	"io"
	"math/rand"
	"os"
	"runtime"
	"strings"
	"sync"
	"time"

	"github.com/pkg/sftp"

	"verifharness/lib"
	"verifharness/wire"
)

const c04XferOp = "xfer-loss"

// c04XferWorkers: how many xfer-loss cases run at the same time (each wants up to 8 processors for itself).
const c04XferWorkers = 6

// c04Xfer is one transfer of an xfer-loss case.
type c04Xfer struct {
	API    string `json:"api"`           // c04XferAPIs
	Chunks int    `json:"chunks"`        // length of the transfer in chunks of cliMaxPacket bytes (WriteTo: of the file the server reports)
	RFC    int    `json:"rfc,omitempty"` // ReadFromWithConcurrency: its concurrency argument
}

// c04XferAPIs: the concurrent multi-chunk code paths of File.
var c04XferAPIs = []string{"ReadFrom", "ReadFrom-sized", "ReadFrom-unbounded", "ReadFromWithConcurrency", "WriteTo", "ReadAt", "Read", "WriteAt", "Write"}

func c04XferNeedsConcW(api string) bool {
	return strings.HasPrefix(api, "ReadFrom") && api != "ReadFromWithConcurrency" || api == "WriteAt" || api == "Write"
}

// cliNegSized announces a negative size (ReadFrom then "strongly asserts" the Client's maximum concurrency).
type cliNegSized struct{ cliSrc }

func (cliNegSized) Size() int64 { return -1 }

// c04XferZeros is the data of the transfers started after the loss (never sent).
var c04XferZeros = make([]byte, 130*cliMaxPacket)

// ---------- the peer's book ----------

type c04XfReq struct {
	id  uint32
	typ byte
	off uint64
	n   uint32
}

type c04XfState struct {
	mu       sync.Mutex
	arrived  []int        // per transfer: READ / WRITE requests seen
	pending  [][]c04XfReq // per transfer: seen and not answered
	okChunks []map[uint64]bool
	ended    bool // nothing is answered any more
	total    int  // all transfer requests seen (for the quiescence test)
	stray    []string
	notify   chan struct{} // a transfer request has arrived (capacity 1)
}

// ---------- one case ----------

func c04RunXferLoss(cs c04Case) (res c04Res) {
	fail := func(key, what string, act any) { res.Fails = append(res.Fails, c20Fail{key, what, act}) }
	base := strings.TrimSuffix(cs.Fault, "+close")
	switch cs.Fault {
	case "cut", "err", "failinput", "close", "cut+close", "err+close":
	default:
		fail("tie/unknown-fault", cs.Fault, nil)
		return
	}
	if len(cs.Xfers) == 0 {
		fail("tie/no-transfer", "xfer-loss case without transfers", nil)
		return
	}
	for _, x := range cs.Xfers {
		known := false
		for _, a := range c04XferAPIs {
			known = known || a == x.API
		}
		if !known || x.Chunks < 2 {
			fail("tie/unknown-transfer", fmt.Sprintf("%+v", x), nil)
			return
		}
	}
	dir := "read"
	if base == "failinput" {
		dir = "write"
	}
	ferr, family, known := cliErrValue(cs.Err, dir)
	if !known {
		fail("tie/unknown-error-kind", cs.Err, nil)
		return
	}
	fkey := cs.Fault
	if family != "opaque" && (base == "err" || base == "failinput") {
		fkey += "/errv:" + family
	}
	if cs.Burst > 0 {
		fkey += "/burst-" + cs.BurstKind
	}
	if cs.Procs > 0 {
		defer runtime.GOMAXPROCS(runtime.GOMAXPROCS(cs.Procs))
	}
	trials := max(cs.Trials, 1)
	par := max(cs.Par, 1)
	t0 := time.Now()
	k := cliCase.Load()
	for t := 0; t < trials && len(res.Fails) == 0 && !res.ExitNow; t += par {
		if t > 0 && cs.BudgetMs > 0 && time.Since(t0) > time.Duration(cs.BudgetMs)*time.Millisecond {
			break
		}
		// a round: `par` independent trials at the same time, each with a Client and a peer of its own (their connections
		// are lost at about the same moment; the scheduler's processors are busy when the workers wake)
		lres := make([]c04Res, par)
		var wg sync.WaitGroup
		for j := 0; j < par; j++ {
			wg.Add(1)
			go func(j int) {
				defer wg.Done()
				lfail := func(key, what string, act any) { lres[j].Fails = append(lres[j].Fails, c20Fail{key, what, act}) }
				c04XferTrial(cs, rand.New(rand.NewSource(cs.Seed+int64(t+j)*7919)), ferr, fkey, lfail, &lres[j])
			}(j)
		}
		wg.Wait() // (every wait of a trial is bounded by the case's hang budget)
		res.Trials = t + par
		for j := range lres {
			res.NReq += lres[j].NReq
			res.InFlight = lres[j].InFlight
			res.ExitNow = res.ExitNow || lres[j].ExitNow
			if len(lres[j].Fails) > 0 && len(res.Fails) == 0 {
				res.Fails = lres[j].Fails
				res.Trace = append([]string{fmt.Sprintf("trial %d of %d failed (%d trials at a time)", t+j, trials, par)}, lres[j].Trace...)
			}
		}
		if len(res.Fails) > 0 || res.ExitNow {
			break
		}
		if started, callers := c04XferQuiet(k, 5*time.Second); len(started)+len(callers) > 0 {
			top := "?"
			if len(started) > 0 {
				top = cliShortFn(started[0].PkgFrame())
				if top == "" && len(started[0].Funcs) > 0 {
					top = "created-by/" + cliShortFn(started[0].CreatedBy)
				}
			} else {
				top = "caller-in/" + cliShortFn(callers[0].PkgFrame())
			}
			all := cliDescribe(append(started, callers...))
			fail("goroutine-leak/"+top, "goroutines of pkg/sftp survive Client.Close (polled for 5 s)", all[:min(20, len(all))])
			res.ExitNow = true
		}
	}
	return
}

func c04XferTrial(cs c04Case, rng *rand.Rand, ferr error, fkey string, fail func(key, what string, act any), res *c04Res) {
	const mp = cliMaxPacket
	k := cliCase.Load()
	nx := len(cs.Xfers)
	var tmu sync.Mutex
	tracef := func(f string, a ...any) {
		tmu.Lock()
		if len(res.Trace) < 60 {
			res.Trace = append(res.Trace, fmt.Sprintf(f, a...))
		}
		tmu.Unlock()
	}
	// ---- the client ----
	concW := false
	for _, x := range cs.Xfers {
		concW = concW || c04XferNeedsConcW(x.API)
	}
	if !concW {
		concW = cs.Seed&1 == 1
	}
	var extra []sftp.ClientOption
	if cs.Req > 0 {
		extra = append(extra, sftp.MaxConcurrentRequestsPerFile(cs.Req))
	}
	if concW {
		extra = append(extra, sftp.UseConcurrentWrites(true))
	}
	copts, oerr := cliClientOptsVar(&cliOp{Opts: extra}, cs.Opt)
	if oerr != nil {
		fail("tie/unknown-option-variant", oerr.Error(), nil)
		return
	}
	client, fp, err := newFaultClient(cliVersion(), -1, nil, nil, copts...)
	if err != nil {
		fail("tie/new-client", err.Error(), nil)
		res.ExitNow = true
		return
	}
	size := func(i int) uint64 { return uint64(cs.Xfers[i].Chunks * mp) }
	st := &c04XfState{arrived: make([]int, nx), pending: make([][]c04XfReq, nx), okChunks: make([]map[uint64]bool, nx), notify: make(chan struct{}, 1)}
	for i := range st.okChunks {
		st.okChunks[i] = map[uint64]bool{}
	}
	// validReply: what a healthy server answers to a transfer request.
	validReply := func(i int, q c04XfReq) (frame []byte, moved bool) {
		if q.typ == wire.Write {
			return wire.StatusFrame(q.id, wire.OK, ""), true
		}
		if q.off >= size(i) {
			return wire.StatusFrame(q.id, wire.EOF, "EOF"), false
		}
		n := min(uint64(q.n), size(i)-q.off)
		return wire.DataFrame(q.id, cliPatternBytes("file", q.off, int(n))), n == uint64(q.n)
	}
	xferOf := func(name string) int { // "xf3" / "xh3" → 3
		var i int
		if _, err := fmt.Sscanf(name[2:], "%d", &i); err != nil || len(name) < 3 || i < 0 || i >= nx {
			return -1
		}
		return i
	}
	fake := newFakeSrv(cliFileSize) // racers' requests and everything that is not a transfer request
	srvDone := make(chan struct{})
	go func() {
		defer close(srvDone)
		// a server whose input has ended exits, which ends its output
		defer fp.CutOutput()
		for p := range fp.Reqs {
			q, derr := cliDecodeReq(p)
			if derr != nil {
				st.mu.Lock()
				st.stray = append(st.stray, derr.Error())
				st.mu.Unlock()
				continue
			}
			var frame []byte
			switch {
			case q.Typ == wire.Open && strings.HasPrefix(q.Path, "xf"):
				frame = wire.HandleFrame(q.ID, "xh"+q.Path[2:])
			case (q.Typ == wire.Stat || q.Typ == wire.Lstat) && strings.HasPrefix(q.Path, "xf") && xferOf(q.Path) >= 0:
				a := fakeAttrs
				a.Size = size(xferOf(q.Path))
				frame = wire.AttrsFrame(q.ID, a)
			case q.Typ == wire.Fstat && strings.HasPrefix(q.Handle, "xh") && xferOf(q.Handle) >= 0:
				a := fakeAttrs
				a.Size = size(xferOf(q.Handle))
				frame = wire.AttrsFrame(q.ID, a)
			case (q.Typ == wire.Read || q.Typ == wire.Write) && strings.HasPrefix(q.Handle, "xh") && xferOf(q.Handle) >= 0 && q.Off < c04AfterOff:
				i := xferOf(q.Handle)
				r := c04XfReq{id: q.ID, typ: q.Typ, off: q.Off, n: q.Len}
				st.mu.Lock()
				st.arrived[i]++
				st.total++
				answer := st.arrived[i] <= cs.Answer && !st.ended
				if !answer {
					st.pending[i] = append(st.pending[i], r)
				}
				st.mu.Unlock()
				select {
				case st.notify <- struct{}{}:
				default:
				}
				if answer {
					fr, moved := validReply(i, r)
					if fp.Reply(fr) == nil && moved {
						st.mu.Lock()
						st.okChunks[i][r.off] = true
						st.mu.Unlock()
					}
				}
				continue
			default:
				frame = fake.Reply(p)
			}
			st.mu.Lock()
			ended := st.ended
			st.mu.Unlock()
			if !ended {
				fp.Reply(frame)
			}
		}
	}()
	abort := func() {
		res.ExitNow = true
		fp.Shutdown()
	}

	// ---- the files ----
	apar := max(cs.AfterPar, 1)
	files := make([]*sftp.File, max(nx, apar)) // the transfers' Files, then spare ones for the callers that come after the loss
	for i := range files {
		var oerr error
		if !cliWithin(cliDeadline, func() { files[i], oerr = client.OpenFile(fmt.Sprintf("xf%d", i), os.O_RDWR) }) {
			fail("hang/xfer-setup/OpenFile/"+fkey, "OpenFile did not return within 20 s (no fault injected yet)", cliDescribe(cliGoroutines2()))
			abort()
			return
		}
		if oerr != nil || files[i] == nil {
			fail("tie/xfer-open", fmt.Sprint(oerr), nil)
			abort()
			return
		}
	}

	// ---- the transfers, and racers that keep the connection busy with answered calls ----
	type xres struct {
		n   int64
		err error
	}
	done := make([]chan xres, nx)
	for i, x := range cs.Xfers {
		done[i] = make(chan xres, 1)
		go func(i int, x c04Xfer) {
			f := files[i]
			L := x.Chunks * mp
			var n int64
			var err error
			switch x.API {
			case "ReadFrom":
				n, err = f.ReadFrom(bytes.NewReader(cliPatternBytes("w", 0, L)))
			case "ReadFrom-sized":
				n, err = f.ReadFrom(cliSized{cliSrc{bytes.NewReader(cliPatternBytes("w", 0, L))}, int64(L)})
			case "ReadFrom-unbounded":
				n, err = f.ReadFrom(cliNegSized{cliSrc{bytes.NewReader(cliPatternBytes("w", 0, L))}})
			case "ReadFromWithConcurrency":
				n, err = f.ReadFromWithConcurrency(cliSrc{bytes.NewReader(cliPatternBytes("w", 0, L))}, x.RFC)
			case "WriteTo":
				n, err = f.WriteTo(&cliSink{})
			case "ReadAt":
				var m int
				m, err = f.ReadAt(make([]byte, L), 0)
				n = int64(m)
			case "Read":
				var m int
				m, err = f.Read(make([]byte, L))
				n = int64(m)
			case "WriteAt":
				var m int
				m, err = f.WriteAt(cliPatternBytes("w", 0, L), 0)
				n = int64(m)
			case "Write":
				var m int
				m, err = f.Write(cliPatternBytes("w", 0, L))
				n = int64(m)
			}
			done[i] <- xres{n, err}
		}(i, x)
	}
	stopRacers := make(chan struct{})
	var rwg sync.WaitGroup
	var rmu sync.Mutex
	racerHung := false
	for g := 0; g < cs.Racers; g++ {
		rwg.Add(1)
		go func(g int) {
			defer rwg.Done()
			errs := 0
			for i := 0; i < 1_000_000 && errs < 3; i++ {
				select {
				case <-stopRacers:
					return
				default:
				}
				path := fmt.Sprintf("race-%d-%d", g, i)
				var err error
				ok := cliWithin(cliDeadline, func() {
					switch (g + i) % 3 {
					case 0:
						_, err = client.Stat(path)
					case 1:
						_, err = client.Lstat(path)
					case 2:
						_, err = client.RealPath(path)
					}
				})
				if !ok {
					rmu.Lock()
					racerHung = true
					rmu.Unlock()
					return
				}
				if err != nil {
					errs++
				}
			}
		}(g)
	}

	// ---- every transfer has its window full: At requests on the wire, unanswered ----
	results := make([]*xres, nx)
	collect := func() (all bool) {
		all = true
		for i := range done {
			if results[i] == nil {
				select {
				case r := <-done[i]:
					results[i] = &r
				default:
					all = false
				}
			}
		}
		return
	}
	w := k.Wait(cliDeadline)
	t0 := time.Now()
	lastTotal, lastChange := -1, t0
	reached := false
	tick := time.NewTimer(5 * time.Millisecond)
	defer tick.Stop()
	for {
		st.mu.Lock()
		reached = true
		some := false
		for i := range cs.Xfers {
			reached = reached && len(st.pending[i]) >= cs.At
			some = some || len(st.pending[i]) > 0
		}
		total := st.total
		st.mu.Unlock()
		if reached || collect() {
			break
		}
		now := time.Now()
		if total != lastTotal {
			lastTotal, lastChange = total, now
		} else if some && now.Sub(lastChange) > 25*time.Millisecond {
			break // the windows are as full as they get (smaller than asked for: the histogram says so)
		}
		if now.Sub(t0) > w {
			k.Spend(w)
			fail("hang/xfer-setup/"+c04XferNames(cs)+"/"+fkey, "the transfers neither put their requests on the wire nor returned within 20 s (no fault injected yet)", cliDescribe(cliGoroutines2()))
			abort()
			return
		}
		tick.Reset(5 * time.Millisecond)
		select {
		case <-st.notify:
		case <-tick.C:
		}
	}

	// ---- the burst, then the end of the connection ----
	st.mu.Lock()
	inflight := 0
	perX := make([]int, nx)
	for i := range st.pending {
		perX[i] = len(st.pending[i])
		inflight += perX[i]
	}
	var burst []byte
	type bursted struct {
		i     int
		off   uint64
		moved bool
	}
	var burstOK []bursted
	nb := 0
	if cs.Burst > 0 {
		codes := []uint32{wire.Failure, wire.PermissionDenied, wire.NoSuchFile, wire.BadMessage, wire.NoConnection, wire.ConnectionLost, wire.OpUnsupported}
		// from every transfer its share of the burst: the newest unanswered request or any one of them (PRNG)
		for i := range st.pending {
			share := (cs.Burst + nx - 1) / nx
			for share > 0 && len(st.pending[i]) > 0 {
				j := len(st.pending[i]) - 1
				if rng.Intn(2) == 0 {
					j = rng.Intn(len(st.pending[i]))
				}
				q := st.pending[i][j]
				st.pending[i] = append(st.pending[i][:j:j], st.pending[i][j+1:]...)
				okReply := cs.BurstKind == "ok" || (cs.BurstKind == "mixed" && nb%2 == 1)
				if okReply {
					fr, moved := validReply(i, q)
					burst = append(burst, fr...)
					burstOK = append(burstOK, bursted{i, q.off, moved})
				} else {
					burst = append(burst, wire.StatusFrame(q.id, codes[(nb+int(q.id))%len(codes)], "injected failure")...)
				}
				nb++
				share--
			}
		}
	}
	st.ended = true
	res.NReq += st.total
	st.mu.Unlock()
	res.InFlight = inflight
	tracef("in flight at the end: %v (asked for %d each, reached=%v); burst of %d replies in one write; fault %s", perX, cs.At, reached, nb, cs.Fault)
	gap := time.Duration(rng.Intn(150)) * time.Microsecond
	if rng.Intn(3) == 0 {
		gap = 0
	}
	if len(burst) > 0 {
		if fp.Reply(burst) == nil {
			st.mu.Lock()
			for _, b := range burstOK {
				if b.moved {
					st.okChunks[b.i][b.off] = true
				}
			}
			st.mu.Unlock()
		}
		acSpin(gap)
	}
	endStream := func() {
		if strings.HasPrefix(cs.Fault, "err") {
			fp.FailOutput(ferr)
		} else {
			fp.CutOutput()
		}
	}
	closeDone := make(chan struct{})
	closeCalled := false
	callClose := func() {
		closeCalled = true
		go func() { defer close(closeDone); client.Close() }()
	}
	switch cs.Fault {
	case "cut", "err":
		endStream()
	case "failinput":
		fp.FailInput(ferr) // the peer's request loop ends, which ends its output
	case "close":
		callClose()
	default: // cut+close, err+close: within `gap2` of each other, either order
		gap2 := time.Duration(rng.Intn(120)) * time.Microsecond
		if rng.Intn(2) == 0 {
			endStream()
			acSpin(gap2)
			callClose()
		} else {
			callClose()
			acSpin(gap2)
			endStream()
		}
	}

	// ---- every transfer returns, with an error ----
	for i, x := range cs.Xfers {
		name := "File." + x.API + "@in-flight"
		if results[i] == nil {
			r, ok := lib.WaitCase(k, cliDeadline, done[i])
			if !ok {
				started, callers := cliPkgGoroutines()
				d := cliDescribe(append(callers, started...))
				fail("hang/"+name+"/"+fkey, fmt.Sprintf("%s did not return within 20 s after the connection was lost with %d of its requests unanswered", name, perX[i]), d[:min(24, len(d))])
				abort()
				return
			}
			results[i] = &r
		}
		r := results[i]
		st.mu.Lock()
		okc := 0
		for off := range st.okChunks[i] {
			if off < size(i) {
				okc++
			}
		}
		st.mu.Unlock()
		mustFail := okc < x.Chunks
		tracef("%s returned (%d, %v); %d of %d chunks answered successfully before the end", name, r.n, r.err, okc, x.Chunks)
		if mustFail && (r.err == nil || r.err == io.EOF) {
			fail("no-error/"+name+"/"+fkey, fmt.Sprintf("%s returned (%d, %v) although only %d of its %d chunks had been answered successfully when the connection was lost (%d requests unanswered): a truncated transfer is reported as success", name, r.n, r.err, okc, x.Chunks, perX[i]),
				map[string]any{"n": r.n, "err": cliErrStr(r.err), "transport_error": cliErrStr(ferr)})
		}
	}
	close(stopRacers)
	racersBack := cliWithin(cliDeadline+5*time.Second, rwg.Wait)
	rmu.Lock()
	racersBack = racersBack && !racerHung
	rmu.Unlock()
	if !racersBack {
		fail("hang/racer/"+fkey, "a racing caller did not return within 20 s", cliDescribe(cliGoroutines2()))
		abort()
		return
	}

	// ---- calls started after the loss ----
	var amu sync.Mutex
	hung := false
	after := func(name string, f func() error) {
		amu.Lock()
		h := hung
		amu.Unlock()
		if h {
			return
		}
		var err error
		if !cliWithin(cliDeadline, func() { err = f() }) {
			started, callers := cliPkgGoroutines()
			amu.Lock()
			hung = true
			fail("hang/"+name+"/"+fkey, name+" started after the connection was lost did not return within 20 s", cliDescribe(append(callers, started...)))
			amu.Unlock()
			return
		}
		if err == nil || err == io.EOF {
			amu.Lock()
			fail("after-call-succeeded/"+name+"/"+fkey, fmt.Sprintf("%s started after the connection was lost returned %v", name, err), nil)
			amu.Unlock()
		}
	}
	after("after/Stat", func() error { _, err := client.Stat("after"); return err })
	// multi-chunk transfers STARTED after the loss: every chunk fails at once, as fast as the transfer can hand them out
	// (no I/O at all), so that several workers of one transfer are dealing with errors at any moment.  AfterPar callers
	// do that at the same time, each on a File of its own: the processors are busy, the workers of one transfer spread
	// over them
	zeros := c04XferZeros
	type afterOp struct {
		name string
		run  func(f *sftp.File, scratch []byte, n, j int) error
	}
	afterOps := []afterOp{
		{"after/File.ReadAt-multi", func(f *sftp.File, scratch []byte, n, j int) error {
			_, err := f.ReadAt(scratch[:n*mp], c04AfterOff)
			return err
		}},
		{"after/File.ReadFromWithConcurrency", func(f *sftp.File, scratch []byte, n, j int) error {
			_, err := f.ReadFromWithConcurrency(cliSrc{bytes.NewReader(zeros[:n*mp])}, []int{3, 0, n, 1000, 2}[j%5])
			return err
		}},
		{"after/File.WriteAt-multi", func(f *sftp.File, scratch []byte, n, j int) error {
			_, err := f.WriteAt(zeros[:n*mp], 2*c04AfterOff)
			return err
		}},
		{"after/File.ReadFrom-multi", func(f *sftp.File, scratch []byte, n, j int) error {
			_, err := f.ReadFrom(bytes.NewReader(zeros[:n*mp]))
			return err
		}},
		{"after/File.WriteTo", func(f *sftp.File, scratch []byte, n, j int) error { _, err := f.WriteTo(&cliSink{}); return err }},
		{"after/File.Write-multi", func(f *sftp.File, scratch []byte, n, j int) error { _, err := f.Write(zeros[:n*mp]); return err }},
		{"after/File.ReadFrom-unbounded", func(f *sftp.File, scratch []byte, n, j int) error {
			_, err := f.ReadFrom(cliNegSized{cliSrc{bytes.NewReader(zeros[:n*mp])}})
			return err
		}},
		{"after/File.Read-multi", func(f *sftp.File, scratch []byte, n, j int) error { _, err := f.Read(scratch[:n*mp]); return err }},
		{"after/File.ReadFrom-sized", func(f *sftp.File, scratch []byte, n, j int) error {
			_, err := f.ReadFrom(cliSized{cliSrc{bytes.NewReader(zeros[:n*mp])}, int64(n * mp)})
			return err
		}},
	}
	rot := rng.Intn(len(afterOps))
	nAfter := max(cs.After, len(afterOps))
	var awg sync.WaitGroup
	for g := 0; g < apar; g++ {
		awg.Add(1)
		go func(g int) {
			defer awg.Done()
			scratch := make([]byte, len(zeros))
			f := files[(g+nx-1)%len(files)]
			for j := g; j < nAfter; j += apar {
				op := afterOps[(rot+j)%len(afterOps)]
				n := []int{5, 2, 70, 20, 130, 9, 3, 65}[(rot+j/len(afterOps)+j)%8]
				after(op.name, func() error { return op.run(f, scratch, n, j) })
			}
		}(g)
	}
	awg.Wait() // (every call in it is bounded by the hang budget)
	for i := range files {
		after("after/File.Close", files[i].Close)
	}
	if hung {
		abort()
		return
	}

	// ---- Wait, Close, goroutines ----
	if !cliWithin(cliDeadline, func() { client.Wait() }) {
		fail("wait-hang/"+fkey, "Client.Wait did not return within 20 s after the connection was lost", cliDescribe(cliGoroutines2()))
		abort()
		return
	}
	if !closeCalled {
		callClose()
	}
	if _, ok := lib.WaitCase(k, cliDeadline, closeDone); !ok {
		fail("close-hang/"+fkey, "Client.Close did not return within 20 s", cliDescribe(cliGoroutines2()))
		abort()
		return
	}
	fp.Shutdown()
	if _, ok := lib.WaitCase(k, 5*time.Second, srvDone); !ok {
		fail("tie/server-goroutine", "harness server goroutine did not finish", nil)
		res.ExitNow = true
		return
	}
	st.mu.Lock()
	if len(st.stray) > 0 {
		fail("tie/xfer-stray-request", "the peer could not decode a request", st.stray)
	}
	st.mu.Unlock()
}

// c04XferQuiet polls the goroutine table until no goroutine belongs to pkg/sftp (cliWaitQuiet with a fast path: the
// goroutines of a closed Client are gone within microseconds, and this runs once per trial).
func c04XferQuiet(k *lib.Case, d time.Duration) (started, callers []cliGoroutine) {
	w := k.Wait(d)
	t0 := time.Now()
	sleep := 50 * time.Microsecond
	for i := 0; ; i++ {
		started, callers = cliPkgGoroutines()
		if len(started)+len(callers) == 0 {
			return nil, nil
		}
		if time.Since(t0) > w {
			k.Spend(w)
			return
		}
		if i < 20 {
			runtime.Gosched()
			acSpin(10 * time.Microsecond)
			continue
		}
		time.Sleep(sleep)
		if sleep < 50*time.Millisecond {
			sleep *= 2
		}
	}
}

func c04XferNames(cs c04Case) string {
	var s []string
	for _, x := range cs.Xfers {
		s = append(s, x.API)
	}
	return strings.Join(s, "+")
}

// ---------- generator ----------

// c04GenXferLoss lists the xfer-loss cases of a tier.
func c04GenXferLoss(rng *rand.Rand, thorough bool, rkinds, wkinds []string) []c04Case {
	var out []c04Case
	faults := []string{"cut", "err", "failinput", "close", "cut+close", "err+close"}
	procs := []int{2, 4, 8, 4, 2, 8, 1}
	// geometries: chunks, MaxConcurrentRequestsPerFile (0: the package's 64), requests in flight when the connection ends
	type geo struct{ chunks, req, at int }
	geos := []geo{{200, 0, 64}, {70, 0, 64}, {40, 16, 16}, {9, 0, 8}, {300, 128, 128}, {24, 3, 3}, {130, 0, 64}, {33, 0, 32}, {5, 2, 2}}
	// A trial costs 1 … 4 ms.  What two workers woken by the same broadcast do at the same time is a matter of the first
	// two of them only (a check-then-act window of some 10 ns within wake-ups some 10 µs apart: measured on such a defect,
	// one trial in 600 … 3000 shows it, depending on the load of the machine), so a case is as many trials as fit into its
	// time allowance, and every transfer function gets 6 cases (quick: ≈ 3000 trials).
	trials, ms := 600, 350
	reps := 1
	if thorough {
		procs = []int{2, 4, 8, 16, 3, 2, 4, 1}
		trials, ms = 3000, 2000
		reps = 3
	}
	n := 0
	add := func(cs c04Case) {
		cs.Op = c04XferOp
		cs.Seed = rng.Int63()
		switch strings.TrimSuffix(cs.Fault, "+close") {
		case "err":
			if rng.Intn(3) > 0 {
				cs.Err = rkinds[rng.Intn(len(rkinds))]
			}
		case "failinput":
			if rng.Intn(3) > 0 {
				cs.Err = wkinds[rng.Intn(len(wkinds))]
			}
		}
		// how much was answered before, and the burst at the end
		for _, x := range cs.Xfers {
			cs.Answer = min(cs.Answer, x.Chunks-cs.At)
		}
		cs.Answer = max(cs.Answer, 0)
		if cs.Burst > 0 && cs.BurstKind == "" {
			cs.BurstKind = []string{"fail", "mixed", "ok"}[n%3]
		}
		if cs.BurstKind == "ok" {
			cs.Burst = min(cs.Burst, cs.At-1) // something stays unanswered
		}
		if cs.Trials == 0 {
			cs.Trials, cs.BudgetMs = trials, ms
			if cs.Procs == 1 {
				cs.Trials /= 4 // (nothing runs in parallel: the order of the run queue is what varies)
			}
		}
		n++
		out = append(out, cs)
	}
	for rep := 0; rep < reps; rep++ {
		// every API × every way the connection ends, geometry / GOMAXPROCS / answered-before / burst rotating
		for ai, api := range c04XferAPIs {
			for fi, fault := range faults {
				g := geos[(ai+2*fi+rep)%len(geos)]
				if thorough && rep >= 2 {
					g = geos[rng.Intn(len(geos))]
				}
				x := c04Xfer{API: api, Chunks: g.chunks}
				at := g.at
				if api == "ReadFromWithConcurrency" {
					x.RFC = []int{0, g.at, 1000, max(g.at/2, 2)}[(fi+rep)%4]
					if x.RFC > 0 && x.RFC < at {
						at = x.RFC
					}
				}
				cs := c04Case{Fault: fault, Xfers: []c04Xfer{x}, Req: g.req, At: at, Procs: procs[(ai+fi+rep)%len(procs)]}
				cs.Answer = []int{0, 0, 3, at + 5, 1}[(ai+fi+rep)%5]
				cs.Burst = []int{0, 0, 2, at, 0, 5, at / 2}[(ai+3*fi+rep)%7]
				cs.Racers = []int{0, 0, 2, 0, 1}[(ai+fi+2*rep)%5]
				cs.Opt = []string{"", "", "mp-checked", "", "fstat", "mp-alias"}[(ai+fi+rep)%6]
				cs.After = []int{18, 64, 36, 9}[(ai+2*fi+rep)%4]
				cs.AfterPar = []int{4, 1, 8, 2, 4}[(ai+fi+rep)%5]
				cs.Par = []int{4, 1, 8, 2}[(ai+fi+rep)%4]
				add(cs)
			}
		}
		// several transfers in parallel on one connection
		combos := [][]string{{"ReadFrom", "WriteTo"}, {"ReadFromWithConcurrency", "ReadAt", "WriteAt"}, {"WriteTo", "WriteTo"}, {"ReadFrom-unbounded", "Write", "Read"},
			{"ReadFrom", "ReadFrom-sized"}, {"WriteAt", "ReadAt"}}
		for ci, combo := range combos {
			g := geos[(ci+rep)%len(geos)]
			var xs []c04Xfer
			for j, api := range combo {
				xs = append(xs, c04Xfer{API: api, Chunks: g.chunks + 7*j})
			}
			cs := c04Case{Fault: faults[(ci+rep)%len(faults)], Xfers: xs, Req: g.req, At: g.at, Procs: procs[(ci+rep)%len(procs)], Racers: ci % 3}
			cs.Burst = []int{0, 4, 0, 2 * g.at}[(ci+rep)%4]
			cs.Answer = []int{0, 2}[ci%2]
			cs.After = 36
			cs.AfterPar = []int{4, 8, 2}[(ci+rep)%3]
			cs.Par = []int{2, 4, 1}[ci%3]
			add(cs)
		}
	}
	return out
}
