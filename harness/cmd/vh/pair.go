package main

import (
	"errors"
	"io"
	"time"
	"verifharness/peers"

	"github.com/pkg/sftp"

	"verifharness/lib"
)

// vhPipeEnd glues a reader and a writer into an io.ReadWriteCloser.
type vhPipeEnd struct {
	io.Reader
	io.WriteCloser
	extra func()
}

func (p vhPipeEnd) Close() error {
	if p.extra != nil {
		p.extra()
	}
	return p.WriteCloser.Close()
}

// vhPair is a real Client connected to a real server over in-memory pipes.
type vhPair struct {
	Client *sftp.Client
	OS     *sftp.Server
	RS     *sftp.RequestServer
	done   chan error
	closeC func()
}

// vhStartRS connects a real client to a real request server.
func vhStartRS(h sftp.Handlers, copts []sftp.ClientOption, sopts ...sftp.RequestServerOption) (*vhPair, error) {
	c2sR, c2sW := io.Pipe()
	s2cR, s2cW := io.Pipe()
	rs := sftp.NewRequestServer(vhPipeEnd{Reader: c2sR, WriteCloser: s2cW, extra: func() { c2sR.Close() }}, h, sopts...)
	p := &vhPair{RS: rs, done: make(chan error, 1)}
	go func() { err := rs.Serve(); s2cW.Close(); p.done <- err }()
	c, err := vhNewClient(s2cR, c2sW, copts)
	if err != nil {
		c2sW.Close()
		return nil, err
	}
	p.Client = c
	return p, nil
}

// vhStartOS connects a real client to a real os-backed server.
func vhStartOS(copts []sftp.ClientOption, sopts ...sftp.ServerOption) (*vhPair, error) {
	c2sR, c2sW := io.Pipe()
	s2cR, s2cW := io.Pipe()
	srv, err := peers.NewOSServer(vhPipeEnd{Reader: c2sR, WriteCloser: s2cW, extra: func() { c2sR.Close() }}, sopts...)
	if err != nil {
		return nil, err
	}
	p := &vhPair{OS: srv, done: make(chan error, 1)}
	go func() { err := srv.Serve(); s2cW.Close(); p.done <- err }()
	c, err := vhNewClient(s2cR, c2sW, copts)
	if err != nil {
		c2sW.Close()
		return nil, err
	}
	p.Client = c
	return p, nil
}

// Close shuts the client down and waits (at most 10 s) for the server to return.
func (p *vhPair) Close() {
	fin := make(chan struct{})
	go func() {
		p.Client.Close()
		<-p.done
		close(fin)
	}()
	lib.WaitCleanup("pair/close", 10*time.Second, fin) // a clean-up wait, not an oracle: bounded by its own budget (lib/budget.go)
}

// vhNewClient is sftp.NewClientPipe with the hang deadline (a handshake that never completes must not block the check).
func vhNewClient(rd io.Reader, wr io.WriteCloser, copts []sftp.ClientOption) (*sftp.Client, error) {
	type res struct {
		c   *sftp.Client
		err error
	}
	ch := make(chan res, 1)
	go func() { c, err := sftp.NewClientPipe(rd, wr, copts...); ch <- res{c, err} }()
	r, ok := lib.WaitHang("pair/handshake", 20*time.Second, ch)
	if !ok {
		return nil, errors.New("client handshake did not complete within 20 s")
	}
	return r.c, r.err
}
