package main

// C19, server side: the VERSION reply and the answers to extended requests of BOTH servers under every
// combination of their construction options and every configured extension list.

import (
	"encoding/binary"
	"fmt"
	"io"
	"math/rand"
	"os"
	"path"
	"path/filepath"
	"sort"
	"strings"
	"sync"
	"time"

	"github.com/pkg/sftp"

	"verifharness/lib"
	"verifharness/peers"
	"verifharness/wire"
)

// option names; every subset is a server variant
var c19OSOptNames = []string{"readonly", "alloc", "workdir", "maxtx", "debug"}
var c19RSOptNames = []string{"alloc", "startdir", "maxtx"}

// c19Q is one extended request, written symbolically so that it can be replayed in a fresh scratch tree.
//
//	args = none    : name only
//	       path    : name, path of an existing file
//	       paths   : name, existing file, fresh name (which must not come into existence for an unserved name)
//	       handle  : name, a handle-like string
//	       raw     : name, then raw_hex verbatim
//	       cutstr  : name, then a string whose length word promises more than follows
//	       std|alt : a supported name with well-formed arguments prepared by the harness
//	                 (statvfs: existing directory | missing path; hardlink: fresh target;
//	                  posix-rename: fresh target | existing target)
//	       payload : raw_hex is everything after the request id (used for malformed requests)
//	       frame   : raw_hex is everything after the type byte (request id cut short)
type c19Q struct {
	NameHex string `json:"name_hex,omitempty"`
	Args    string `json:"args"`
	RawHex  string `json:"raw_hex,omitempty"`
	Rel     bool   `json:"rel,omitempty"` // paths relative to the configured working / start directory
}

// c19ExtCase is the replay input of a server-side case.
type c19ExtCase struct {
	Sect    string   `json:"sect"` // "ext"
	Kind    string   `json:"kind"` // os | rs
	Opts    []string `json:"opts"`
	Ifaces  []string `json:"ifaces"`   // rs: optional interfaces the FileCmd handler implements (absent = all)
	Exts    []string `json:"exts"`     // configured extension list, in order
	InitHex string   `json:"init_hex"` // body of the INIT frame sent
	Mode    string   `json:"mode"`     // handshake | serial | pipelined
	Q       []c19Q   `json:"requests,omitempty"`
}

type c19V struct {
	Key, What        string
	Expected, Actual any
}

type c19Sess struct {
	kind   string
	opts   []string
	ifaces []string    // rs: optional interfaces of the FileCmd handler
	rec    *c19CallRec // rs: FileCmd methods reached since the last reset
	ro     bool
	based  bool // working / start directory configured
	s      *peers.Srv
	root   string // os: scratch directory on disk; rs: base directory inside the handler's tree
	onDisk string // os only: directory to remove afterwards
	id     uint32
	n      int
	dead   bool
	k      *lib.Case // hang account of the session (lib/budget.go): class c19/<os|rs>
}

// c19ProbeClass is the hang class of the STAT that follows an extended request ("the session continues"): a class of
// its own, so that a server which does not answer STAT stops the probes, not the extended requests.
func c19ProbeClass(kind string) string { return "c19-stat-probe/" + kind }

func c19Has(l []string, x string) bool {
	for _, y := range l {
		if y == x {
			return true
		}
	}
	return false
}

func (se *c19Sess) kindKey() string {
	if se.ro {
		return se.kind + "+readonly"
	}
	return se.kind
}

func c19Open(kind string, opts, ifaces []string, scratch string) (*c19Sess, error) {
	se := &c19Sess{kind: kind, opts: opts, ifaces: ifaces, id: 100, k: lib.NewCase("c19/" + kind)}
	if kind == "os" {
		root, err := os.MkdirTemp(scratch, "os")
		if err != nil {
			return nil, err
		}
		se.root, se.onDisk = root, root
		var o []sftp.ServerOption
		for _, n := range opts {
			switch n {
			case "readonly":
				o = append(o, sftp.ReadOnly())
				se.ro = true
			case "alloc":
				o = append(o, sftp.WithAllocator())
			case "workdir":
				o = append(o, sftp.WithServerWorkingDirectory(root))
				se.based = true
			case "maxtx":
				o = append(o, sftp.WithMaxTxPacket(65536))
			case "debug":
				o = append(o, sftp.WithDebug(io.Discard))
			default:
				return nil, fmt.Errorf("unknown os option %q", n)
			}
		}
		s, err := peers.StartOS(o...)
		if err != nil {
			os.RemoveAll(root)
			return nil, err
		}
		se.s = s
		return se, nil
	}
	var o []sftp.RequestServerOption
	se.root = "/"
	for _, n := range opts {
		switch n {
		case "alloc":
			o = append(o, sftp.WithRSAllocator())
		case "startdir":
			o = append(o, sftp.WithStartDirectory("/sub"))
			se.based = true
			se.root = "/sub"
		case "maxtx":
			o = append(o, sftp.WithRSMaxTxPacket(65536))
		default:
			return nil, fmt.Errorf("unknown rs option %q", n)
		}
	}
	for _, n := range ifaces {
		if !c19Has(c19RSIfaceNames, n) {
			return nil, fmt.Errorf("unknown handler interface %q", n)
		}
	}
	h := sftp.InMemHandler()
	se.rec = &c19CallRec{}
	h.FileCmd = c19WrapCmd(h.FileCmd, ifaces, se.rec)
	se.s = peers.StartRS(h, o...)
	return se, nil
}

func (se *c19Sess) close() {
	se.s.CloseInput()
	hCleanupSrv(se.s, "c19/server-exit", 5*time.Second)
	if se.onDisk != "" {
		os.RemoveAll(se.onDisk)
	}
}

// handshake sends INIT with the given body and parses the VERSION reply with the independent codec.
func (se *c19Sess) handshake(initBody []byte) (version uint32, exts [][2]string, err error) {
	if err = hSend(se.s, se.k, wire.Frame(wire.Init, initBody)); err != nil {
		return 0, nil, err
	}
	p, err := hRecv(se.s, se.k, 20*time.Second)
	if err != nil {
		se.dead = true
		return 0, nil, err
	}
	if p.Typ != wire.Version {
		return 0, nil, fmt.Errorf("reply type %d, not VERSION", p.Typ)
	}
	d := wire.D{B: p.Body}
	version = d.U32()
	for len(d.B) > 0 && d.Err == nil {
		n := d.Str()
		dt := d.Str()
		exts = append(exts, [2]string{n, dt})
	}
	if d.Err != nil {
		return version, exts, fmt.Errorf("VERSION reply does not parse: %v", d.Err)
	}
	return version, exts, nil
}

func (se *c19Sess) call(typ byte, body []byte) (wire.Pkt, error) {
	return se.callK(se.k, typ, body)
}

func (se *c19Sess) callK(k *lib.Case, typ byte, body []byte) (wire.Pkt, error) {
	se.id++
	p, err := hCall(se.s, k, wire.Req(typ, se.id, body))
	if err != nil {
		se.dead = true
		return p, err
	}
	if p.ID() != se.id {
		return p, fmt.Errorf("reply carries id %d, request had %d", p.ID(), se.id)
	}
	return p, nil
}

func c19Code(p wire.Pkt) (uint32, bool) {
	if p.Typ != wire.Status || len(p.Body) < 8 {
		return 0, false
	}
	return binary.BigEndian.Uint32(p.Body[4:8]), true
}

func c19Show(p wire.Pkt, err error) string {
	if err == io.EOF {
		return "no reply: the server ended the session"
	}
	if err == peers.ErrTimeout {
		return "no reply within 20 s"
	}
	if err != nil {
		return "error: " + err.Error()
	}
	if c, ok := c19Code(p); ok {
		return fmt.Sprintf("STATUS code %d", c)
	}
	return fmt.Sprintf("packet type %d, %d body bytes", p.Typ, len(p.Body))
}

// abs is the absolute wire path of a name in the session's directory.
func (se *c19Sess) abs(name string) string {
	if se.kind == "os" {
		return filepath.Join(se.root, name)
	}
	return path.Join(se.root, name)
}

func (se *c19Sess) wpath(name string, rel bool) string {
	if rel && (se.based || se.kind == "rs") {
		return name
	}
	return se.abs(name)
}

func (se *c19Sess) fresh(prefix string) string {
	se.n++
	return fmt.Sprintf("%s%d", prefix, se.n)
}

func (se *c19Sess) mkfile(name string) error {
	if se.kind == "os" {
		return os.WriteFile(filepath.Join(se.root, name), []byte("content of "+name), 0o600)
	}
	p, err := se.call(wire.Open, wire.B{}.Str(se.abs(name)).U32(wire.FWrite|wire.FCreat|wire.FTrunc).U32(0))
	if err != nil || p.Typ != wire.Handle {
		return fmt.Errorf("rs setup: OPEN %s: %s", name, c19Show(p, err))
	}
	d := wire.D{B: p.Body[4:]}
	h := d.Str()
	if p, err = se.call(wire.Write, wire.B{}.Str(h).U64(0).Str("content of "+name)); err != nil {
		return fmt.Errorf("rs setup: WRITE %s: %s", name, c19Show(p, err))
	}
	if p, err = se.call(wire.Close, wire.B{}.Str(h)); err != nil {
		return fmt.Errorf("rs setup: CLOSE %s: %s", name, c19Show(p, err))
	}
	return nil
}

// prepare creates the fixed entries: f, e (files), d (directory).
func (se *c19Sess) prepare() error {
	if se.kind == "os" {
		if err := os.Mkdir(filepath.Join(se.root, "d"), 0o700); err != nil {
			return err
		}
	} else {
		if se.root != "/" {
			if p, err := se.call(wire.Mkdir, wire.B{}.Str(se.root).U32(0)); err != nil {
				return fmt.Errorf("rs setup: MKDIR: %s", c19Show(p, err))
			}
		}
		if p, err := se.call(wire.Mkdir, wire.B{}.Str(se.abs("d")).U32(0)); err != nil {
			return fmt.Errorf("rs setup: MKDIR: %s", c19Show(p, err))
		}
	}
	for _, n := range []string{"f", "e"} {
		if err := se.mkfile(n); err != nil {
			return err
		}
	}
	return nil
}

// exists reports whether name exists in the session's directory (observed beside the request under test).
func (se *c19Sess) exists(name string) (bool, error) {
	if se.kind == "os" {
		_, err := os.Lstat(filepath.Join(se.root, name))
		if err == nil {
			return true, nil
		}
		if os.IsNotExist(err) {
			return false, nil
		}
		return false, err
	}
	p, err := se.call(wire.Lstat, wire.B{}.Str(se.abs(name)))
	if err != nil {
		return false, err
	}
	if p.Typ == wire.Attrs {
		return true, nil
	}
	if c, ok := c19Code(p); ok && c == wire.NoSuchFile {
		return false, nil
	}
	return false, fmt.Errorf("LSTAT: %s", c19Show(p, nil))
}

func (se *c19Sess) listing() string {
	if se.kind != "os" {
		return ""
	}
	ents, _ := os.ReadDir(se.root)
	var l []string
	for _, e := range ents {
		l = append(l, e.Name())
	}
	return strings.Join(l, ",")
}

// alive checks that the session still answers an ordinary request.
func (se *c19Sess) alive() (string, bool) {
	p := "/"
	if se.kind == "os" {
		p = se.root
	}
	rp, err := se.callK(lib.NewCase(c19ProbeClass(se.kind)), wire.Stat, wire.B{}.Str(p))
	if err != nil || rp.Typ != wire.Attrs {
		return c19Show(rp, err), false
	}
	return "", true
}

type c19Built struct {
	payload []byte // after the request id
	frame   []byte // complete frame when the id itself is cut (args=frame)
	src     string
	dst     string
	dstPre  bool // dst was created beforehand
	skip    string
}

func (se *c19Sess) build(q c19Q) c19Built {
	name := string(lib.UnHex(q.NameHex))
	b := wire.B{}.Str(name)
	switch q.Args {
	case "frame":
		return c19Built{frame: wire.Frame(wire.Extended, lib.UnHex(q.RawHex))}
	case "payload":
		return c19Built{payload: lib.UnHex(q.RawHex)}
	case "none":
		return c19Built{payload: b}
	case "raw":
		return c19Built{payload: b.Raw(lib.UnHex(q.RawHex))}
	case "path":
		return c19Built{payload: b.Str(se.wpath("f", q.Rel))}
	case "handle":
		return c19Built{payload: b.Str("0")}
	case "cutstr":
		return c19Built{payload: b.U32(100).Raw([]byte("abc"))}
	case "arg2-missing": // a complete first path (inside the session's directory: a server that dispatches the request anyway acts there), no second
		return c19Built{payload: b.Str(se.wpath("vh-c19-a", q.Rel))}
	case "arg2-cut": // the second path announces more bytes than the packet holds
		second := se.wpath("vh-c19-b", q.Rel)
		return c19Built{payload: b.Str(se.wpath("vh-c19-a", q.Rel)).U32(uint32(len(second) + 31)).Raw([]byte(second))}
	case "paths":
		dst := se.fresh("g")
		return c19Built{payload: b.Str(se.wpath("f", q.Rel)).Str(se.wpath(dst, q.Rel)), dst: dst}
	case "std", "alt":
		switch name {
		case "statvfs@openssh.com":
			var p string
			switch {
			case se.kind == "rs" && q.Args == "std":
				p = "/" // the example handler asks the real file system
			case se.kind == "rs":
				p = "/vh-c19-no-such-entry"
			case q.Args == "std" && q.Rel && se.based:
				p = "."
			case q.Args == "std":
				p = se.root
			default:
				p = se.wpath("missing", q.Rel)
			}
			return c19Built{payload: b.Str(p)}
		case "hardlink@openssh.com":
			dst := se.fresh("g")
			return c19Built{payload: b.Str(se.wpath("f", q.Rel)).Str(se.wpath(dst, q.Rel)), src: "f", dst: dst}
		case "posix-rename@openssh.com":
			src, dst := se.fresh("s"), se.fresh("t")
			if err := se.mkfile(src); err != nil {
				return c19Built{skip: err.Error()}
			}
			pre := false
			if q.Args == "alt" {
				if err := se.mkfile(dst); err != nil {
					return c19Built{skip: err.Error()}
				}
				pre = true
			}
			return c19Built{payload: b.Str(se.wpath(src, q.Rel)).Str(se.wpath(dst, q.Rel)), src: src, dst: dst, dstPre: pre}
		}
		return c19Built{skip: "no argument recipe for " + name}
	}
	return c19Built{skip: "unknown args kind " + q.Args}
}

// c19Classify is the harness's own reading of a request payload: which name it carries and whether the
// arguments a supported name needs are all there.
func c19Classify(payload []byte, supported []string) (class, name string) {
	d := wire.D{B: payload}
	name = d.Str()
	if d.Err != nil {
		return "malformed", ""
	}
	if !c19Has(supported, name) {
		return "unknown", name
	}
	need := 2
	if name == "statvfs@openssh.com" {
		need = 1
	}
	for i := 0; i < need; i++ {
		d.Str()
	}
	if d.Err != nil {
		return "malformed", name
	}
	return "known", name
}

// judge compares the reply to one extended request with what the property (and, for the supported
// mutating names on a read-only server, the read-only gate) demands.
func (se *c19Sess) judge(q c19Q, bt c19Built, class, name string, cfg []string, p wire.Pkt, err error, listBefore string) []c19V {
	var out []c19V
	kk := se.kindKey()
	code, isStatus := c19Code(p)
	switch class {
	case "unknown":
		if err != nil {
			out = append(out, c19V{Key: "server/session-ended-after-extended/" + kk, What: "an extended request with an unserved name got no reply", Expected: "STATUS code 8", Actual: c19Show(p, err)})
			return out
		}
		if !isStatus || code != wire.OpUnsupported {
			out = append(out, c19V{Key: "server/unknown-ext-not-unsupported/" + kk, What: "an extended request with an unserved name is not answered OP_UNSUPPORTED", Expected: "STATUS code 8", Actual: c19Show(p, err)})
		}
		if bt.dst != "" {
			if ex, e := se.exists(bt.dst); e == nil && ex {
				out = append(out, c19V{Key: "server/unknown-ext-acted-upon/" + kk, What: "an extended request with an unserved name created its second path argument", Actual: bt.dst})
			}
		}
	case "malformed":
		if err == io.EOF {
			break // ended the session: acceptable for a request that does not decode
		}
		if err != nil || !isStatus || code == wire.OK {
			out = append(out, c19V{Key: "server/malformed-extended-served/" + kk, What: "an extended request that does not decode must end the session or be refused with an error status", Expected: "session ended or STATUS != OK", Actual: c19Show(p, err)})
		}
		if se.kind == "os" {
			if after := se.listing(); after != listBefore {
				out = append(out, c19V{Key: "server/malformed-extended-served/" + kk, What: "an extended request that does not decode changed the directory", Expected: listBefore, Actual: after})
			}
		}
	case "known":
		configured := c19Has(cfg, name)
		if se.kind == "rs" && name == "statvfs@openssh.com" && !c19Has(se.ifaces, "StatVFSFileCmder") {
			// the handlers cannot serve it (OP_UNSUPPORTED per the model); the property speaks of the os-backed server
			return out
		}
		fallback := se.kind == "rs" && name == "posix-rename@openssh.com" && !c19Has(se.ifaces, "PosixRenameFileCmder")
		if err == nil && isStatus && code == wire.OpUnsupported {
			if configured && se.kind == "os" {
				out = append(out, c19V{Key: "server/advertised-not-served/" + kk, What: "an advertised extension is answered OP_UNSUPPORTED by the os-backed server", Expected: "served", Actual: c19Show(p, err)})
			} else if configured {
				out = append(out, c19V{Key: "server/advertised-not-served/" + kk, What: "an advertised extension is answered OP_UNSUPPORTED although the handlers implement it", Expected: "served", Actual: c19Show(p, err)})
			}
			// not configured: 'any other name is answered operation unsupported' — allowed by the text
			return out
		}
		bad := func(what string, exp any) {
			out = append(out, c19V{Key: "server/known-ext-misbehaves/" + name + "/" + kk, What: what, Expected: exp, Actual: c19Show(p, err)})
		}
		switch name {
		case "statvfs@openssh.com":
			if q.Args == "std" {
				if err != nil || p.Typ != wire.ExtendedReply || len(p.Body) != 4+11*8 {
					bad("statvfs of an existing directory must be answered EXTENDED_REPLY with eleven 64-bit fields", "EXTENDED_REPLY, 92 body bytes")
				}
			} else if err != nil || !isStatus || code != wire.NoSuchFile {
				bad("statvfs of a missing path must be answered NO_SUCH_FILE", "STATUS code 2")
			}
		case "hardlink@openssh.com", "posix-rename@openssh.com":
			isRen := name == "posix-rename@openssh.com"
			dstNow, e1 := se.exists(bt.dst)
			srcNow, e2 := se.exists(bt.src)
			if e1 != nil || e2 != nil {
				bad(fmt.Sprint("cannot observe the result: ", e1, e2), nil)
				break
			}
			if se.ro {
				if err != nil || !isStatus || code != wire.PermissionDenied {
					out = append(out, c19V{Key: "server/readonly-mutating-ext-not-denied/" + name, What: "a supported mutating extension on a read-only server must be answered PERMISSION_DENIED", Expected: "STATUS code 3", Actual: c19Show(p, err)})
				}
				if !srcNow || dstNow != bt.dstPre {
					out = append(out, c19V{Key: "server/readonly-mutating-ext-not-denied/" + name, What: "a supported mutating extension changed the tree of a read-only server", Expected: fmt.Sprintf("source present, target present=%v", bt.dstPre), Actual: fmt.Sprintf("source present=%v, target present=%v", srcNow, dstNow)})
				}
				break
			}
			if fallback && bt.dstPre && err == nil && isStatus && code != wire.OK {
				// plain Rename semantics of the fallback: an existing target is refused, nothing moves
				if !srcNow || !dstNow {
					bad(fmt.Sprintf("refused but the tree changed: source present=%v, target present=%v", srcNow, dstNow), nil)
				}
				break
			}
			if err != nil || !isStatus || code != wire.OK {
				bad("a supported extension with valid arguments must succeed", "STATUS code 0")
				break
			}
			if !dstNow || srcNow == isRen {
				bad(fmt.Sprintf("answered OK but the tree does not show it: source present=%v, target present=%v", srcNow, dstNow), nil)
				break
			}
			if se.kind == "os" {
				if isRen {
					got, _ := os.ReadFile(filepath.Join(se.root, bt.dst))
					if string(got) != "content of "+bt.src {
						bad("posix-rename answered OK but the target does not hold the source's content", "content of "+bt.src)
					}
				} else {
					a, _ := os.Stat(filepath.Join(se.root, bt.src))
					b, _ := os.Stat(filepath.Join(se.root, bt.dst))
					if a == nil || b == nil || !os.SameFile(a, b) {
						bad("hardlink answered OK but source and target are different files", "same file")
					}
				}
			}
		}
	}
	return out
}

// do runs one request serially and judges it; for unserved names it then checks that the session goes on.
func (se *c19Sess) do(q c19Q, cfg, supported []string) (class string, out []c19V, obs []c19Ob) {
	bt := se.build(q)
	if bt.skip != "" {
		return "skip", []c19V{{Key: "c19/setup", What: bt.skip}}, nil
	}
	var frame []byte
	var name string
	se.id++
	id := se.id
	if bt.frame != nil {
		frame, class = bt.frame, "malformed"
	} else {
		class, name = c19Classify(bt.payload, supported)
		frame = wire.Req(wire.Extended, id, bt.payload)
	}
	if class == "known" && q.Args != "std" && q.Args != "alt" {
		return "skip", nil, nil // raw bytes that happen to form a complete supported request: no expectation recorded
	}
	if ok, _ := se.s.Contained(frame); !ok {
		se.id--
		return "not-run", nil, nil // containment: a path of the request leaves the scratch directory (os-backed server)
	}
	before := se.listing()
	se.rec.take()
	p, err := hCall(se.s, se.k, frame)
	calls := se.rec.take()
	if err != nil {
		se.dead = true
	} else if bt.frame == nil && p.ID() != id {
		out = append(out, c19V{Key: "server/extended-reply-misnumbered/" + se.kindKey(), What: "the reply to an extended request carries another id", Expected: id, Actual: p.ID()})
		return class, out, nil
	}
	out = se.judge(q, bt, class, name, cfg, p, err, before)
	if class != "malformed" || name != "" {
		nh := q.NameHex
		if q.Args == "payload" {
			nh = lib.Hex([]byte(name))
		}
		obs = []c19Ob{{c19ObsKey{se.modelSrv(), se.ro, nh, class != "malformed"}, se.observe(class, name, p, err, len(out) == 0, calls)}}
	}
	if class == "unknown" && !se.dead && !lib.Stop(c19ProbeClass(se.kind)) {
		if act, ok := se.alive(); !ok {
			out = append(out, c19V{Key: "server/session-ended-after-extended/" + se.kindKey(), What: "the session does not continue after an extended request with an unserved name", Expected: "ATTRS for STAT", Actual: act})
		}
	}
	return class, out, obs
}

// pipelined writes all requests (unserved names and statvfs only) and a final STAT in one piece and
// then reads the replies, which must arrive in request order.
func (se *c19Sess) pipelined(qs []c19Q, cfg, supported []string) (out []c19V, obs []c19Ob) {
	var stream []byte
	type exp struct {
		id    uint32
		class string
		name  string
		q     c19Q
		bt    c19Built
	}
	var exps []exp
	for _, q := range qs {
		bt := se.build(q)
		if bt.skip != "" || bt.frame != nil {
			continue
		}
		class, name := c19Classify(bt.payload, supported)
		if class == "malformed" || (class == "known" && name != "statvfs@openssh.com") {
			continue
		}
		if ok, _ := se.s.Contained(wire.Req(wire.Extended, se.id+1, bt.payload)); !ok {
			continue // containment
		}
		se.id++
		stream = append(stream, wire.Req(wire.Extended, se.id, bt.payload)...)
		exps = append(exps, exp{se.id, class, name, q, bt})
	}
	se.id++
	statID := se.id
	sp := "/"
	if se.kind == "os" {
		sp = se.root
	}
	stream = append(stream, wire.Req(wire.Stat, statID, wire.B{}.Str(sp))...)
	se.rec.take()
	if err := hSend(se.s, se.k, stream); err != nil {
		se.dead = true
		return []c19V{{Key: "server/session-ended-after-extended/" + se.kindKey(), What: "the server stopped reading a pipelined batch of extended requests", Actual: err.Error()}}, nil
	}
	type got struct {
		e     exp
		p     wire.Pkt
		clean bool
	}
	var gots []got
	for _, e := range exps {
		p, err := hRecv(se.s, se.k, 20*time.Second)
		if err != nil {
			se.dead = true
			out = append(out, c19V{Key: "server/session-ended-after-extended/" + se.kindKey(), What: "a pipelined extended request got no reply", Actual: c19Show(p, err)})
			return out, nil
		}
		if p.ID() != e.id {
			out = append(out, c19V{Key: "server/extended-reply-misnumbered/" + se.kindKey(), What: "replies to pipelined extended requests are not in request order", Expected: e.id, Actual: p.ID()})
			return out, nil
		}
		e.bt.dst = "" // existence is checked in the serial runs only
		vs := se.judge(e.q, e.bt, e.class, e.name, cfg, p, nil, "")
		out = append(out, vs...)
		gots = append(gots, got{e, p, len(vs) == 0})
	}
	// the batch holds at most one supported request (statvfs): every handler call seen belongs to it
	calls := se.rec.take()
	for _, g := range gots {
		var cl []string
		if g.e.class == "known" {
			cl = calls
		}
		obs = append(obs, c19Ob{c19ObsKey{se.modelSrv(), se.ro, g.e.q.NameHex, true}, se.observe(g.e.class, g.e.name, g.p, nil, g.clean, cl)})
	}
	p, err := hRecv(se.s, lib.NewCase(c19ProbeClass(se.kind)), 20*time.Second)
	if err != nil || p.ID() != statID || p.Typ != wire.Attrs {
		if err != nil {
			se.dead = true
		}
		out = append(out, c19V{Key: "server/session-ended-after-extended/" + se.kindKey(), What: "the session does not continue after a pipelined batch of extended requests", Expected: "ATTRS for STAT", Actual: c19Show(p, err)})
	}
	return out, obs
}

// ---------- generators ----------

func c19Subsets(names []string) [][]string {
	var out [][]string
	for m := 0; m < 1<<len(names); m++ {
		s := []string{}
		for i, n := range names {
			if m&(1<<i) != 0 {
				s = append(s, n)
			}
		}
		out = append(out, s)
	}
	return out
}

// c19UnknownNames: names that are not served, shortest first.
func c19UnknownNames(known []string, thorough bool) []string {
	l := []string{"", "x", "@", "\x00", "statvfs", "hardlink", "posix-rename", "rename", "@openssh.com", "openssh.com",
		"fsync@openssh.com", "fstatvfs@openssh.com", "lsetstat@openssh.com", "limits@openssh.com", "expand-path@openssh.com",
		"users-groups-by-id@openssh.com", "copy-data", "home-directory", "check-file-name", "space-available", "md5-hash", "vendor-id",
		"unknown@example.com", "\xff\xfe\xfd", "\xc3\x28", "\x00\x00\x00\x00", "\xed\xa0\x80@openssh.com", "stätvfs@openssh.com"}
	for _, k := range known {
		base, dom := k, ""
		if i := strings.IndexByte(k, '@'); i >= 0 {
			base, dom = k[:i], k[i:]
		}
		l = append(l,
			strings.ToUpper(k), strings.ToUpper(k[:1])+k[1:], strings.ToUpper(base)+dom, base+strings.ToUpper(dom),
			base, base+"@", base+"@example.com", base+"@openssh.org", base+dom+".", base+"@@"+strings.TrimPrefix(dom, "@"),
			k+"\x00", k+" ", " "+k, "\x00"+k, k+"\n", k[:len(k)-1], k[1:], k+k, k+"@openssh.com",
			strings.Replace(k, "@", "\x00", 1), strings.Replace(k, "-", "_", 1), base+"\xff"+dom, string([]byte{k[0] | 0x80})+k[1:],
			k+strings.Repeat("\x00", 300), k+strings.Repeat("n", 4096))
	}
	sizes := []int{255, 256, 300, 4096, 32768, 65536}
	if thorough {
		sizes = append(sizes, 65535, 100000, 200000)
	}
	for _, n := range sizes {
		l = append(l, strings.Repeat("n", n))
	}
	seen := map[string]bool{}
	var out []string
	for _, n := range l {
		if !seen[n] && !c19Has(known, n) {
			seen[n] = true
			out = append(out, n)
		}
	}
	sort.SliceStable(out, func(i, j int) bool { return len(out[i]) < len(out[j]) })
	return out
}

// c19RandomName: PRNG bytes, or a supported name with one byte flipped, dropped, inserted or two bytes swapped.
func c19RandomName(rnd *rand.Rand, known []string) string {
	for {
		var n []byte
		if rnd.Intn(2) == 0 {
			n = make([]byte, rnd.Intn(48))
			rnd.Read(n)
		} else {
			n = []byte(known[rnd.Intn(len(known))])
			i := rnd.Intn(len(n))
			switch rnd.Intn(4) {
			case 0:
				n[i] ^= 1 << uint(rnd.Intn(8))
			case 1:
				n = append(n[:i], n[i+1:]...)
			case 2:
				n = append(n[:i], append([]byte{byte(rnd.Intn(256))}, n[i:]...)...)
			case 3:
				j := rnd.Intn(len(n))
				n[i], n[j] = n[j], n[i]
			}
		}
		if !c19Has(known, string(n)) {
			return string(n)
		}
	}
}

// c19Malformed: extended requests that do not decode (each needs a session of its own).
func c19Malformed(known []string) []c19Q {
	hx := func(b []byte) string { return lib.Hex(b) }
	qs := []c19Q{
		{Args: "frame", RawHex: ""},                                              // no id at all
		{Args: "frame", RawHex: "0000"},                                          // id cut
		{Args: "payload", RawHex: ""},                                            // id only
		{Args: "payload", RawHex: "000000"},                                      // name length cut
		{Args: "payload", RawHex: hx(wire.B{}.U32(100).Raw([]byte("stat")))},     // name longer than the packet
		{Args: "payload", RawHex: hx(wire.B{}.U32(0xffffffff).Raw([]byte("x")))}, // huge name length
		{Args: "payload", RawHex: hx(wire.B{}.U32(1))},                           // name promised, nothing follows
	}
	for _, k := range known {
		b := wire.B{}.Str(k)
		qs = append(qs,
			c19Q{Args: "payload", RawHex: hx(b)},                                  // no arguments
			c19Q{Args: "payload", RawHex: hx(b.U8(0).U8(0))},                      // argument length cut
			c19Q{Args: "payload", RawHex: hx(b.U32(50).Raw([]byte("/tmp")))},      // first argument cut
			c19Q{Args: "payload", RawHex: hx(b.U32(0xfffffff0).Raw([]byte("/")))}, // huge argument length
		)
		if k != "statvfs@openssh.com" {
			qs = append(qs,
				c19Q{NameHex: hx([]byte(k)), Args: "arg2-missing"}, // second argument missing
				c19Q{NameHex: hx([]byte(k)), Args: "arg2-cut"},     // second argument cut
			)
		}
	}
	return qs
}

func c19Inits(thorough bool) [][]byte {
	l := [][]byte{
		wire.B{}.U32(3),
		wire.B{}.U32(3).Str("vendor@example.com").Str("1"),
		wire.B{}.U32(3).Str("").Str("").Str("statvfs@openssh.com").Str("2"),
		wire.B{}.U32(4),
		wire.B{}.U32(6).Str("newline@vandyke.com").Str("\n"),
		wire.B{}.U32(0xffffffff),
	}
	if thorough {
		l = append(l, wire.B{}.U32(0), wire.B{}.U32(1), wire.B{}.U32(2), wire.B{}.U32(1<<31), wire.B{}.U32(3).Str(strings.Repeat("e", 70000)).Str(""))
	}
	return l
}

// ---------- driver ----------

type c19Variant struct {
	kind   string
	opts   []string
	ifaces []string
	oi, fi int // index of the option subset / of the interface subset
}

func c19Variants() []c19Variant {
	var out []c19Variant
	for oi, o := range c19Subsets(c19OSOptNames) {
		out = append(out, c19Variant{kind: "os", opts: o, oi: oi})
	}
	for oi, o := range c19Subsets(c19RSOptNames) {
		for fi, f := range c19Subsets(c19RSIfaceNames) {
			out = append(out, c19Variant{kind: "rs", opts: o, ifaces: f, oi: oi, fi: fi})
		}
	}
	return out
}

// c19InflightClear empties a slot of the in-flight file of xfInChild.
func c19InflightClear(slot int) {
	if xfInflightFile != nil && slot >= 0 && slot < xfSlots {
		xfInflightFile.WriteAt(make([]byte, xfSlotSize), int64(slot)*xfSlotSize)
	}
}

// c19Sink buffers what a session writes to lib.Result, so that the variants of one configuration can run side
// by side and still be reported in a fixed order, and collects the observations to compare with the model.
type c19Sink struct {
	ops []func(r *lib.Result)
	obs map[c19ObsKey]map[string]c19ExtCase // model question -> observed answer -> first case showing it
	n   map[string]int                      // observations per observed class (not de-duplicated)
	nx  int                                 // requests the model op cannot be asked about (no decodable name)
}

func (s *c19Sink) Case(t string, nt bool) {
	s.ops = append(s.ops, func(r *lib.Result) { r.Case(t, nt) })
}
func (s *c19Sink) Hist(k string)      { s.ops = append(s.ops, func(r *lib.Result) { r.Hist(k) }) }
func (s *c19Sink) Fail(f lib.Failure) { s.ops = append(s.ops, func(r *lib.Result) { r.Fail(f) }) }

func c19Report(r *c19Sink, in c19ExtCase, vs []c19V) {
	for _, v := range vs {
		kind := "oracle"
		if v.Key == "c19/setup" {
			kind = "tie"
		}
		r.Fail(lib.Failure{Kind: kind, Key: v.Key, What: v.What, Input: in, Expected: v.Expected, Actual: v.Actual})
	}
}

// c19Handshake opens a variant, shakes hands and checks advertised == configured.
func c19Handshake(r *c19Sink, v c19Variant, cfg []string, data map[string]string, initBody []byte, scratch string, prep bool) (*c19Sess, c19ExtCase, bool) {
	in := c19ExtCase{Sect: "ext", Kind: v.kind, Opts: v.opts, Ifaces: v.ifaces, Exts: cfg, InitHex: lib.Hex(initBody), Mode: "handshake"}
	se, err := c19Open(v.kind, v.opts, v.ifaces, scratch)
	if err != nil {
		r.Fail(lib.Failure{Kind: "tie", Key: "c19/start-server", What: err.Error(), Input: in})
		return nil, in, false
	}
	want := [][2]string{}
	for _, n := range cfg {
		want = append(want, [2]string{n, data[n]})
	}
	ver, got, err := se.handshake(initBody)
	if got == nil {
		got = [][2]string{}
	}
	iv := binary.BigEndian.Uint32(initBody)
	if err != nil || fmt.Sprint(got) != fmt.Sprint(want) || (iv >= 3 && ver != 3) {
		r.Fail(lib.Failure{Kind: "oracle", Key: "server/advertised-eq-configured/" + se.kindKey(), What: "the VERSION reply must carry version 3 and exactly the configured extensions, in order", Input: in, Expected: fmt.Sprint("version 3 ", want), Actual: fmt.Sprint("version ", ver, " ", got, " ", err)})
		if err != nil {
			se.close()
			return nil, in, false
		}
	}
	if !prep {
		return se, in, true
	}
	if err := se.prepare(); err != nil {
		r.Fail(lib.Failure{Kind: "tie", Key: "c19/setup", What: err.Error(), Input: in})
		se.close()
		return nil, in, false
	}
	return se, in, true
}

func c19Server(c *lib.Ctx, scratch string, sideBySide bool) {
	r := c.R
	thorough := c.Tier == "thorough"
	supported := sftp.VerifSupportedExtensions()
	var names []string
	data := map[string]string{}
	for _, e := range supported {
		names = append(names, e[0])
		data[e[0]] = e[1]
	}
	defer sftp.SetSFTPExtensions(names...)

	// every ordered subset of the supported names, plus lists with repetitions
	var configs [][]string
	var perm func(cur []string, rest []string)
	perm = func(cur []string, rest []string) {
		configs = append(configs, append([]string{}, cur...))
		for i := range rest {
			nr := append(append([]string(nil), rest[:i]...), rest[i+1:]...)
			perm(append(cur, rest[i]), nr)
		}
	}
	perm(nil, names)
	configs = append(configs, []string{names[0], names[0]}, []string{names[len(names)-1], names[0], names[len(names)-1]})

	variants := c19Variants()
	agg := &c19Sink{}
	unknown := c19UnknownNames(names, thorough)
	malformed := c19Malformed(names)
	inits := c19Inits(thorough)
	argKinds := []string{"none", "paths", "path", "handle", "raw", "cutstr"}
	nRandom := 6
	if thorough {
		nRandom = 400
	}
	hexName := func(n string) string { return lib.Hex([]byte(n)) }
	rawBytesOf := func(rnd *rand.Rand) string {
		b := make([]byte, rnd.Intn(33))
		rnd.Read(b)
		return lib.Hex(b)
	}
	workers := 8
	if !sideBySide {
		// a process serving several sessions at once died (c19_sess.go): this process serves its sessions one after the other
		workers = 1
		r.Note("a process serving several sessions side by side died (see the sessions/process-died failure): the sessions of the server section run one after the other in this process")
	}

	for ci, cfg := range configs {
		if err := sftp.SetSFTPExtensions(cfg...); err != nil {
			r.Case(fmt.Sprintf("config %v", cfg), true)
			r.Fail(lib.Failure{Kind: "oracle", Key: "server/setextensions-valid-refused", What: "SetSFTPExtensions refused a list of supported names", Input: c19Case{Kind: "config", Exts: strings.Join(cfg, ",")}, Actual: err.Error()})
			continue
		}
		var applied []string
		for _, e := range sftp.VerifSftpExtensions() {
			applied = append(applied, e[0])
		}
		r.Case(fmt.Sprintf("config %v", cfg), len(cfg) != len(names))
		r.Hist("server-config")
		if strings.Join(applied, ",") != strings.Join(cfg, ",") {
			r.Fail(lib.Failure{Kind: "oracle", Key: "server/setextensions-valid-not-applied", What: "SetSFTPExtensions accepted a list but the advertised list differs", Input: c19Case{Kind: "config", Exts: strings.Join(cfg, ",")}, Expected: cfg, Actual: applied})
		}
		// the variants of one configuration run side by side (the configured list is only read while they run)
		sinks := make([]*c19Sink, len(variants))
		sem := make(chan struct{}, workers)
		var wg sync.WaitGroup
		for vi, v := range variants {
			sinks[vi] = &c19Sink{}
			if !thorough && v.kind == "rs" && v.fi != (ci+v.oi)%(1<<len(c19RSIfaceNames)) {
				continue // quick: one handler (interface subset) per request-server option set, rotating with the configuration
			}
			wg.Add(1)
			go func(vi int, v c19Variant, r *c19Sink, rnd *rand.Rand) {
				defer wg.Done()
				sem <- struct{}{}
				defer func() { <-sem }()
				rawBytes := func() string { return rawBytesOf(rnd) }
				initBody := inits[(ci+vi)%len(inits)]
				se, in, ok := c19Handshake(r, v, cfg, data, initBody, scratch, true)
				xfInflight(vi%xfSlots, in) // if the process dies, the sessions being served are in the report (xfInChild)
				defer c19InflightClear(vi % xfSlots)
				r.Case(fmt.Sprintf("handshake %s %v %v cfg=%v init=%x", v.kind, v.opts, v.ifaces, cfg, initBody), true)
				r.Hist("server-handshake-" + v.kind)
				if !ok {
					return
				}
				// requests of this session: every supported name (configured or not) with valid arguments ...
				var qs []c19Q
				for _, n := range names {
					for _, a := range []string{"std", "alt"} {
						if n == "hardlink@openssh.com" && a == "alt" {
							continue
						}
						qs = append(qs, c19Q{NameHex: hexName(n), Args: a})
						if se.based || v.kind == "rs" {
							qs = append(qs, c19Q{NameHex: hexName(n), Args: a, Rel: true})
						}
					}
				}
				// ... every unserved name, the argument shape rotating with the position ...
				for ni, n := range unknown {
					if !thorough && ci%4 != 0 && (ni+ci+vi)%3 != 0 {
						continue // quick: every fourth configuration sees all names, the others a rotating third
					}
					q := c19Q{NameHex: hexName(n), Args: argKinds[(ni+ci+vi)%len(argKinds)], Rel: (ni+vi)%2 == 1}
					if q.Args == "raw" {
						q.RawHex = rawBytes()
					}
					qs = append(qs, q)
				}
				// ... and PRNG names
				for i := 0; i < nRandom; i++ {
					q := c19Q{NameHex: hexName(c19RandomName(rnd, names)), Args: argKinds[rnd.Intn(len(argKinds))]}
					if q.Args == "raw" {
						q.RawHex = rawBytes()
					}
					qs = append(qs, q)
				}
				in.Mode = "serial"
				for qi, q := range qs {
					if c.StopN("c19/"+v.kind, len(qs)-qi) {
						break
					}
					if se.dead {
						se.close()
						if se, _, ok = c19Handshake(r, v, cfg, data, initBody, scratch, true); !ok {
							break
						}
					}
					class, vs, obs := se.do(q, cfg, names)
					one := in
					one.Q = []c19Q{q}
					for _, o := range obs {
						r.Obs(o.Key, o.Got, one)
					}
					if class == "not-run" {
						r.Hist(lib.NotRunBucket)
						continue
					}
					r.Case(fmt.Sprintf("ext %s %v %v cfg=%v %v", v.kind, v.opts, v.ifaces, cfg, q), class != "known")
					r.Hist("server-extended-" + v.kind + "-" + class)
					if se.ro {
						r.Hist("server-extended-readonly-" + class)
					}
					c19Report(r, one, vs)
				}
				if !ok {
					return
				}
				// a pipelined batch on the same session
				if !se.dead && !c.Stop("c19/"+v.kind) && !c.Stop(c19ProbeClass(v.kind)) { // (the batch ends with the STAT probe)
					var batch []c19Q
					for i := 0; i < 8; i++ {
						var n string
						if i%2 == 0 {
							n = unknown[rnd.Intn(len(unknown))]
							if len(n) > 5000 {
								n = n[:5000]
							}
							if c19Has(names, n) {
								n += "?"
							}
						} else {
							n = c19RandomName(rnd, names)
						}
						q := c19Q{NameHex: hexName(n), Args: []string{"none", "handle", "cutstr", "raw"}[rnd.Intn(4)]}
						if q.Args == "raw" {
							q.RawHex = rawBytes()
						}
						batch = append(batch, q)
						if i == 3 {
							batch = append(batch, c19Q{NameHex: hexName("statvfs@openssh.com"), Args: "std"})
						}
					}
					one := in
					one.Mode = "pipelined"
					one.Q = batch
					r.Case(fmt.Sprintf("pipelined %s %v %v cfg=%v %v", v.kind, v.opts, v.ifaces, cfg, batch), true)
					r.Hist("server-extended-" + v.kind + "-pipelined-batch")
					vs, obs := se.pipelined(batch, cfg, names)
					for _, o := range obs {
						r.Obs(o.Key, o.Got, one)
					}
					c19Report(r, one, vs)
				}
				if !se.dead && !c.Stop(c19ProbeClass(v.kind)) {
					if act, ok := se.alive(); !ok {
						one := in
						one.Mode = "serial"
						r.Fail(lib.Failure{Kind: "oracle", Key: "server/session-ended-after-extended/" + se.kindKey(), What: "the session does not continue after extended requests", Input: one, Actual: act})
					}
				}
				se.close()
				// requests that do not decode: one session each
				for mi, q := range malformed {
					if !thorough && (mi+ci+vi)%4 != 0 {
						continue
					}
					if c.Stop("c19/" + v.kind) {
						continue
					}
					se, in, ok := c19Handshake(r, v, cfg, data, initBody, scratch, false)
					if !ok {
						continue
					}
					in.Mode = "serial"
					in.Q = []c19Q{q}
					class, vs, obs := se.do(q, cfg, names)
					for _, o := range obs {
						r.Obs(o.Key, o.Got, in)
					}
					if class == "not-run" {
						r.Hist(lib.NotRunBucket)
						se.close()
						continue
					}
					if class == "malformed" && len(obs) == 0 {
						r.nx++
					}
					r.Case(fmt.Sprintf("ext %s %v %v cfg=%v %v", v.kind, v.opts, v.ifaces, cfg, q), true)
					r.Hist("server-extended-" + v.kind + "-" + class)
					if se.ro {
						r.Hist("server-extended-readonly-" + class)
					}
					c19Report(r, in, vs)
					se.close()
				}
			}(vi, v, sinks[vi], rand.New(rand.NewSource(c.Rand.Int63())))
		}
		wg.Wait()
		for _, sk := range sinks {
			for _, op := range sk.ops {
				op(r)
			}
			agg.merge(sk)
		}
	}

	c19CompareModel(c, agg)

	// invalid configuration requests change nothing, whatever the list was before
	invalid := [][]string{{"nope@example.com"}, {names[0], "nope@example.com"}, {"nope@example.com", names[0]}, {""}, {names[0], names[0], "x"},
		{strings.ToUpper(names[0])}, {names[0] + "\x00"}, {" " + names[0]}, {names[1], names[2], names[0][:len(names[0])-1]}, {"statvfs"}, {names[0], ""}}
	for _, prior := range [][]string{{names[0]}, {}, names, {names[2], names[1]}} {
		sftp.SetSFTPExtensions(prior...)
		before := fmt.Sprint(sftp.VerifSftpExtensions())
		for _, cfg := range invalid {
			err := sftp.SetSFTPExtensions(cfg...)
			after := fmt.Sprint(sftp.VerifSftpExtensions())
			r.Case(fmt.Sprintf("invalid-config %q after %q", cfg, prior), true)
			r.Hist("server-invalid-config")
			if err == nil || after != before {
				r.Fail(lib.Failure{Kind: "oracle", Key: "server/invalid-config-not-atomic", What: "an invalid SetSFTPExtensions request must fail and change nothing", Input: c19Case{Kind: "invalid-config", Exts: strings.Join(cfg, ","), Name: strings.Join(prior, ",")}, Expected: before, Actual: fmt.Sprint(after, " err=", err)})
			}
		}
	}
	r.Sample(map[string]any{"server": "os", "options": []string{"readonly", "alloc"}, "configured": names[:1], "request": "extended fsync@openssh.com", "expected": "STATUS 8, then STAT answered"})
	r.Sample(map[string]any{"server": "rs", "options": []string{"startdir"}, "configured": []string{}, "request": "extended hardlink@openssh.com f g1 (relative)", "expected": "served (or OP_UNSUPPORTED as it is not advertised)"})
}

// c19ReplayExt re-runs one recorded server-side case in a fresh scratch tree.
func c19ReplayExt(c *lib.Ctx, in c19ExtCase, scratch string) {
	r := &c19Sink{}
	defer func() {
		for _, op := range r.ops {
			op(c.R)
		}
		c19CompareModel(c, r)
	}()
	supported := sftp.VerifSupportedExtensions()
	var names []string
	data := map[string]string{}
	for _, e := range supported {
		names = append(names, e[0])
		data[e[0]] = e[1]
	}
	defer sftp.SetSFTPExtensions(names...)
	if err := sftp.SetSFTPExtensions(in.Exts...); err != nil {
		r.Fail(lib.Failure{Kind: "tie", Key: "replay", What: "configured list of the replay is refused: " + err.Error()})
		return
	}
	if in.Exts == nil {
		in.Exts = []string{}
	}
	initBody := lib.UnHex(in.InitHex)
	if len(initBody) < 4 {
		initBody = wire.B{}.U32(3)
	}
	if in.Kind == "rs" && in.Ifaces == nil {
		in.Ifaces = c19RSIfaceNames // replays written before the handler dimension existed: the example handler has both
	}
	se, base, ok := c19Handshake(r, c19Variant{kind: in.Kind, opts: in.Opts, ifaces: in.Ifaces}, in.Exts, data, initBody, scratch, true)
	r.Case(fmt.Sprintf("replay %v", in), true)
	if !ok {
		return
	}
	defer func() { se.close() }()
	base.Mode = in.Mode
	base.Q = in.Q
	switch in.Mode {
	case "pipelined":
		vs, obs := se.pipelined(in.Q, in.Exts, names)
		for _, o := range obs {
			r.Obs(o.Key, o.Got, base)
		}
		c19Report(r, base, vs)
	case "serial":
		for _, q := range in.Q {
			if se.dead {
				break
			}
			_, vs, obs := se.do(q, in.Exts, names)
			for _, o := range obs {
				r.Obs(o.Key, o.Got, base)
			}
			c19Report(r, base, vs)
		}
		if !se.dead && len(in.Q) == 0 {
			if act, ok := se.alive(); !ok {
				r.Fail(lib.Failure{Kind: "oracle", Key: "server/session-ended-after-extended/" + se.kindKey(), What: "the session does not continue", Input: base, Actual: act})
			}
		}
	}
}

// c19ReplayConfig re-runs one SetSFTPExtensions case: prior list, then the recorded request.
func c19ReplayConfig(c *lib.Ctx, kind string, prior, cfg []string) {
	r := c.R
	var names []string
	for _, e := range sftp.VerifSupportedExtensions() {
		names = append(names, e[0])
	}
	defer sftp.SetSFTPExtensions(names...)
	r.Case(fmt.Sprintf("replay %s %q after %q", kind, cfg, prior), true)
	if kind == "invalid-config" {
		sftp.SetSFTPExtensions(prior...)
		before := fmt.Sprint(sftp.VerifSftpExtensions())
		err := sftp.SetSFTPExtensions(cfg...)
		after := fmt.Sprint(sftp.VerifSftpExtensions())
		if err == nil || after != before {
			r.Fail(lib.Failure{Kind: "oracle", Key: "server/invalid-config-not-atomic", What: "an invalid SetSFTPExtensions request must fail and change nothing", Input: c19Case{Kind: "invalid-config", Exts: strings.Join(cfg, ","), Name: strings.Join(prior, ",")}, Expected: before, Actual: fmt.Sprint(after, " err=", err)})
		}
		return
	}
	if err := sftp.SetSFTPExtensions(cfg...); err != nil {
		r.Fail(lib.Failure{Kind: "oracle", Key: "server/setextensions-valid-refused", What: "SetSFTPExtensions refused a list of supported names", Input: c19Case{Kind: "config", Exts: strings.Join(cfg, ",")}, Actual: err.Error()})
		return
	}
	var got []string
	for _, e := range sftp.VerifSftpExtensions() {
		got = append(got, e[0])
	}
	if strings.Join(got, ",") != strings.Join(cfg, ",") {
		r.Fail(lib.Failure{Kind: "oracle", Key: "server/setextensions-valid-not-applied", What: "SetSFTPExtensions accepted a list but the advertised list differs", Input: c19Case{Kind: "config", Exts: strings.Join(cfg, ",")}, Expected: cfg, Actual: got})
	}
}
